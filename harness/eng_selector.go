package main

import (
	"math"
	"strconv"
	"strings"

	"github.com/ipld/go-ipld-prime/datamodel"

	"github.com/ucan-wg/go-ucan/pkg/policy/selector"
)

func init() { register(&Engine{Name: "selector", Gen: genSelector}) }

// segsW renders the parsed selector through its public accessors.
func segsW(sel selector.Selector) W {
	items := make([]W, 0, len(sel))
	for _, s := range sel {
		sl := make([]W, 0, 2)
		for _, v := range s.Slice() {
			sl = append(sl, WInt(v))
		}
		items = append(items, WList(WBool(s.Identity()), WBool(s.Optional()), WBool(s.Iterator()), WList(sl...), WStr(s.Field()), WInt(int64(s.Index()))))
	}
	return WList(items...)
}

func selectObs(sel selector.Selector, n datamodel.Node) (obs W) {
	defer func() {
		if r := recover(); r != nil {
			obs = WPanic()
		}
	}()
	res, err := sel.Select(n)
	if err != nil {
		return WErr()
	}
	if res == nil {
		return WList(WStr("novalue"))
	}
	return WOk(WNode(res))
}

func genSelector(c *Ctx) {
	segAlpha := []string{".a", ".b", ".a?", ".c?", `["a"]`, `["b"]?`, "[0]", "[1]", "[-1]", "[7]", "[0]?", "[-3]?", "[]", "[]?",
		"[1:]", "[:-1]", "[0:2]", "[-2:9]?", "[2:1]", "[:2]?"}
	var vals []datamodel.Node
	for _, j := range valuePool {
		vals = append(vals, J(j))
	}
	emit := func(tag, text string, nodes []datamodel.Node) {
		sel, err := selector.Parse(text)
		if err != nil {
			return // parse behaviour belongs to the selparse engine (C14)
		}
		sw := segsW(sel)
		for _, n := range nodes {
			c.Emit(tag, WList(WStr(text), sw, WNode(n)), selectObs(sel, n))
		}
	}
	mk := func(parts []string) string {
		t := strings.Join(parts, "")
		if !strings.HasPrefix(t, ".") {
			t = "." + t
		}
		return t
	}
	// identity forms
	for _, t := range []string{".", ".?"} {
		emit("sel/ident", t, vals)
	}
	// exhaustive <= 2 segments x all values; 3 segments x a sub-pool
	for _, a := range segAlpha {
		emit("sel/exh1", mk([]string{a}), vals)
		for _, b := range segAlpha {
			emit("sel/exh2", mk([]string{a, b}), vals)
		}
	}
	sub := []datamodel.Node{}
	for i, v := range vals {
		if c.Thorough() || i%3 == 0 {
			sub = append(sub, v)
		}
	}
	for _, a := range segAlpha {
		for _, b := range segAlpha {
			for _, d := range segAlpha {
				emit("sel/exh3", mk([]string{a, b, d}), sub)
			}
		}
	}
	// slices and indexes: every bound around the length, on list / string / bytes of length 0..4
	bounds := []string{"", strconv.Itoa(-(1 << 53) + 1), "-6", "-5", "-4", "-3", "-2", "-1", "0", "1", "2", "3", "4", "5", "6", strconv.Itoa((1 << 53) - 1)}
	var conts []datamodel.Node
	for l := 0; l <= 4; l++ {
		items := []string{}
		for k := 0; k < l; k++ {
			items = append(items, strconv.Itoa(k+1))
		}
		conts = append(conts, J("["+strings.Join(items, ",")+"]"))
		conts = append(conts, J(`"`+strings.Repeat("é", l/2)+strings.Repeat("x", l-l/2)+`"`))
		b64 := []string{"", "AQ", "AQI", "AQID", "AQIDBA"}[l]
		conts = append(conts, J(`{"/":{"bytes":"`+b64+`"}}`))
	}
	for _, a := range bounds {
		for _, b := range bounds {
			if a == "" && b == "" {
				continue
			}
			emit("sel/slice", ".["+a+":"+b+"]", conts)
		}
		if a != "" {
			emit("sel/index", ".["+a+"]", conts)
			emit("sel/index", ".["+a+"]?", conts)
		}
	}
	// two slice segments in a row (and separated by another segment), each with its own bounds
	sb := []string{"1:", ":-1", "1:3", "-3:", ":2", "2:1"}
	wrap := []datamodel.Node{J(`[1,2,3,4,5,6]`), J(`"aébcdé"`), J(`{"/":{"bytes":"AQIDBAUG"}}`), J(`[[1,2,3,4],[5,6,7,8],[9,10,11,12]]`)}
	for _, a := range sb {
		for _, b := range sb {
			emit("sel/slice2", ".["+a+"]["+b+"]", wrap)
			emit("sel/slice2", ".["+a+"][0]["+b+"]", wrap)
			emit("sel/slice2", ".["+a+"][]["+b+"]?", wrap)
		}
	}
	// the dotted spelling of bracket segments (".a?.[0]?"), which puts an identity segment between two others:
	// every sequence of up to three segments, most of them following an optional segment that does not apply
	dotAlpha := []string{".a", ".a?", ".zz?", ".[0]", ".[0]?", ".[7]?", `.["a"]`, `.["zz"]?`, ".[]", ".[]?", ".[1:]", ".[1:]?", "[0]?", "[]?", `["a"]?`}
	for _, a := range dotAlpha {
		for _, b := range dotAlpha {
			emit("sel/dotted", mk([]string{a, b}), vals)
			for _, d := range dotAlpha {
				emit("sel/dotted", mk([]string{a, b, d}), sub)
			}
		}
	}
	// numerals with leading zeros or signs in bounds and indexes, on containers long enough to tell 8 from 10
	long := []datamodel.Node{J(`[0,1,2,3,4,5,6,7,8,9,10,11,12,13,14,15,16,17]`), J(`"abcdefghijklmnopqr"`)}
	for _, f := range []string{"010", "007", "-011", "+5", "00", "-0", "012", "-010"} {
		for _, t := range []string{".[" + f + "]", ".[" + f + ":]", ".[:" + f + "]", ".[" + f + ":" + f + "]", ".[1:" + f + "]?"} {
			emit("sel/numerals", t, long)
		}
	}
	_ = math.MaxInt
	// random longer selectors
	n := 3000
	if c.Thorough() {
		n = 200000
	}
	for i := 0; i < n; i++ {
		k := 1 + c.R.Intn(6)
		parts := make([]string, k)
		for j := range parts {
			parts[j] = segAlpha[c.R.Intn(len(segAlpha))]
		}
		emit("sel/rnd", mk(parts), []datamodel.Node{vals[c.R.Intn(len(vals))], vals[c.R.Intn(len(vals))]})
	}
}
