package main

import (
	"strings"

	"github.com/ucan-wg/go-ucan/pkg/command"
)

func init() { register(&Engine{Name: "command", Gen: genCommand}) }

func cmdParseObs(s string) W {
	// which of several violated rules is reported is not part of the property: ok / rejected only
	c, err := command.Parse(s)
	if err != nil {
		return WErr()
	}
	return WOk(WStr(string(c)))
}

// joinObs: base.Join(l...) as the caller sees it: the result, unless the call modified the caller's slice or
// (for the top command) command.New(l...) gives something else
func joinObs(base string, l []string) (W, W) {
	saved := append([]string{}, l...)
	r := string(command.Command(base).Join(l...))
	obs := WStr(r)
	for i := range saved {
		if l[i] != saved[i] {
			obs = WStr("<Join modified the caller's slice>")
			copy(l, saved)
			break
		}
	}
	if base == "/" {
		if r2 := string(command.New(saved...)); r2 != r {
			obs = WStr("<command.New gives " + r2 + ">")
		}
	}
	return WStrs(saved), obs
}

func genCommand(c *Ctx) {
	// 1. small-scope exhaustive: commands with <= 3 segments over {a, ab, b, ""} (+ top, + a few invalid)
	segAlpha := []string{"a", "ab", "b", ""}
	var cmds []string
	cmds = append(cmds, "/")
	var rec func(prefix []string, depth int)
	rec = func(prefix []string, depth int) {
		if len(prefix) > 0 {
			cmds = append(cmds, "/"+strings.Join(prefix, "/"))
		}
		if depth == 0 {
			return
		}
		for _, s := range segAlpha {
			rec(append(append([]string{}, prefix...), s), depth-1)
		}
	}
	rec(nil, 3)
	cmds = append(cmds, "/foo", "/foobar", "/foo/bar", "/foo/bar/baz", "/A", "/a/B", "a", "", "/a/")
	for _, a := range cmds {
		for _, b := range cmds {
			c.Emit("covers/exh", WList(WStr("covers"), WStr(a), WStr(b)), WBool(command.Command(a).Covers(command.Command(b))))
		}
		c.Emit("segments/exh", WList(WStr("segments"), WStr(a)), WStrs(command.Command(a).Segments()))
	}
	// 2. parser: every string over {/,a,A,b} up to the bound
	maxLen := 5
	if c.Thorough() {
		maxLen = 8
	}
	allStrings("/aAb", maxLen, func(s string) {
		c.Emit("parse/exh", WList(WStr("parse"), WStr(s)), cmdParseObs(s))
	})
	// 3. join: commands x segment lists
	joinSegs := []string{"a", "b", "", "cd"}
	var lists [][]string
	var recl func(prefix []string, depth int)
	recl = func(prefix []string, depth int) {
		lists = append(lists, append([]string{}, prefix...))
		if depth == 0 {
			return
		}
		for _, s := range joinSegs {
			recl(append(append([]string{}, prefix...), s), depth-1)
		}
	}
	recl(nil, 3)
	for _, base := range []string{"/", "/a", "/a/b", "/ab", "/x/y/z"} {
		for _, l := range lists {
			in, obs := joinObs(base, l)
			c.Emit("join/exh", WList(WStr("join"), WStr(base), in), obs)
		}
	}
	// 2b. non-ASCII text: cased letters of every kind (upper, title case, letter-like numbers and symbols),
	// lower-case and caseless text, pairs that only differ by case folding, and invalid UTF-8
	uni := []string{"é", "É", "ß", "ẞ", "σ", "ς", "Σ", "ǅ", "ǆ", "Ǆ", "ᾈ", "Ⅳ", "ⅳ", "Ⓐ", "ⓐ", "İ", "ı", "K", "Ω", "ω", "Ω",
		"ほ", "げ", "𐐀", "𐐨", "Ａ", "ａ", "\ufffd", "\xff", "\xc3", "\xc0\xaf", "\xed\xa0\x80", "\xf4\x90\x80\x80", "\xe2\x82", "β", "ϐ", "θ", "ϑ"}
	for _, u := range uni {
		for _, s := range []string{"/" + u, "/a/" + u, "/" + u + "/b", "/a" + u + "b", u, "/" + u + "/"} {
			c.Emit("parse/unicode", WList(WStr("parse"), WStr(s)), cmdParseObs(s))
		}
	}
	folds := [][2]string{{"σ", "ς"}, {"β", "ϐ"}, {"θ", "ϑ"}, {"k", "K"}, {"ω", "Ω"}, {"é", "É"}, {"ß", "ẞ"}, {"i", "ı"}, {"s", "ſ"}}
	for _, f := range folds {
		for _, pr := range [][2]string{{"/x" + f[0], "/x" + f[1]}, {"/x" + f[0], "/x" + f[1] + "/y"}, {"/" + f[0] + "/a", "/" + f[1] + "/a/b"},
			{"/" + f[0], "/" + f[0] + "/y"}, {"/" + f[0], "/" + f[0] + f[1]}} {
			for _, ab := range [][2]string{pr, {pr[1], pr[0]}} {
				c.Emit("covers/unicode", WList(WStr("covers"), WStr(ab[0]), WStr(ab[1])), WBool(command.Command(ab[0]).Covers(command.Command(ab[1]))))
			}
		}
	}
	// 3b. segments that look like path syntax (".", "..", embedded and trailing slashes), empty segments before
	// non-empty ones, and the same slice used for two calls
	odd := []string{".", "..", "a//b", "a/", "/a", "", "read", "é"}
	for _, base := range []string{"/", "/crud", "/a/b"} {
		for _, x := range odd {
			for _, y := range odd {
				l := []string{x, y}
				in, obs := joinObs(base, l)
				c.Emit("join/odd", WList(WStr("join"), WStr(base), in), obs)
				in, obs = joinObs(base, l) // second use of the same slice
				c.Emit("join/odd", WList(WStr("join"), WStr(base), in), obs)
				l3 := []string{x, "seg", y}
				in, obs = joinObs(base, l3)
				c.Emit("join/odd", WList(WStr("join"), WStr(base), in), obs)
			}
		}
	}
	// 4. random ASCII
	n := 20000
	if c.Thorough() {
		n = 2000000
	}
	alpha := "/ab/cAZz-_.09/"
	for i := 0; i < n; i++ {
		switch c.R.Intn(4) {
		case 0:
			s := c.R.Str(alpha, 12)
			c.Emit("parse/rnd", WList(WStr("parse"), WStr(s)), cmdParseObs(s))
		case 1, 2:
			a := "/" + c.R.Str("ab/", 8)
			var b string
			if c.R.Chance(60) {
				b = a + c.R.Str("ab/", 5) // textual extension
			} else {
				b = "/" + c.R.Str("ab/", 8)
			}
			if c.R.Chance(10) {
				a, b = b, a
			}
			c.Emit("covers/rnd", WList(WStr("covers"), WStr(a), WStr(b)), WBool(command.Command(a).Covers(command.Command(b))))
		case 3:
			base := "/" + strings.Trim(c.R.Str("ab/", 6), "/")
			k := c.R.Intn(4)
			l := make([]string, k)
			for j := range l {
				l[j] = c.R.Str("abc", 3)
			}
			in, obs := joinObs(base, l)
			c.Emit("join/rnd", WList(WStr("join"), WStr(base), in), obs)
		}
	}
}
