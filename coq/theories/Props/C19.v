(* C19 - Encrypted metadata is confidential, authenticated and round-trips.
   PARTIAL: confidentiality ("the plaintext does not appear in the stored value") and authenticity are
   computational statements about XSalsa20-Poly1305; they enter as explicit premises or are exercised by
   the meta engine on the real library. What is proved is go-ucan's wrapper. *)
Require Import Base Node Meta MetaProofs.
Local Open Scope N_scope.

Theorem C19_bad_keys_refused : forall box unbox key nonce data,
  (key = None \/ (exists k, key = Some k /\ (length k <> 32%nat \/ forallb (N.eqb 0) k = true))) ->
  (exists e, encrypt box key nonce data = Err e) /\ (exists e, decrypt unbox key data = Err e).
Proof. exact key_refused. Qed.
Print Assumptions C19_bad_keys_refused.

Theorem C19_encrypt_decrypt_roundtrip : forall box unbox,
  (forall k n p, unbox k n (box k n p) = Some p) ->
  forall k nonce data, length k = 32%nat -> forallb (N.eqb 0) k = false -> length nonce = 24%nat ->
  exists ct, encrypt box (Some k) nonce data = Ok ct /\ decrypt unbox (Some k) ct = Ok data.
Proof. exact enc_roundtrip. Qed.
Print Assumptions C19_encrypt_decrypt_roundtrip.

Theorem C19_metadata_roundtrip : forall box unbox,
  (forall k n p, unbox k n (box k n p) = Some p) ->
  forall m name val k nonce, length k = 32%nat -> forallb (N.eqb 0) k = false -> length nonce = 24%nat ->
  map_get name m = None ->
  exists m', add_encrypted box m name val (Some k) nonce = Ok m' /\ get_encrypted unbox m' name (Some k) = Ok val.
Proof. exact meta_enc_roundtrip. Qed.
Print Assumptions C19_metadata_roundtrip.

Theorem C19_two_encryptions_differ : forall box k n1 n2 data c1 c2,
  length n1 = 24%nat -> length n2 = 24%nat -> n1 <> n2 ->
  encrypt box (Some k) n1 data = Ok c1 -> encrypt box (Some k) n2 data = Ok c2 -> c1 <> c2.
Proof. exact fresh_nonce_distinct. Qed.
Print Assumptions C19_two_encryptions_differ.

Theorem C19_short_ciphertext_is_an_error : forall unbox k data,
  length k = 32%nat -> forallb (N.eqb 0) k = false -> (length data < 24)%nat -> decrypt unbox (Some k) data = Err 4.
Proof. exact short_ciphertext_err. Qed.
Print Assumptions C19_short_ciphertext_is_an_error.

Theorem C19_only_the_sealed_ciphertext_opens_partial : forall box unbox,
  (forall k' n c p, unbox k' n c = Some p -> exists k, k' = k /\ c = box k n p) ->
  forall k k' nonce data ct ct', length k = 32%nat -> forallb (N.eqb 0) k = false -> length nonce = 24%nat ->
  encrypt box (Some k) nonce data = Ok ct ->
  (forall p, decrypt unbox (Some k') ct' = Ok p -> length ct' = length ct -> firstn 24 ct' = nonce ->
             skipn 24 ct' = box k' nonce p).
Proof. exact wrong_key_or_tamper_err. Qed.
Print Assumptions C19_only_the_sealed_ciphertext_opens_partial.

Theorem C19_bad_key_refused_through_metadata : forall box (unbox : str -> str -> str -> option str) m name val key nonce,
  (key = None \/ (exists k, key = Some k /\ (length k <> 32%nat \/ forallb (N.eqb 0) k = true))) ->
  exists e, add_encrypted box m name val key nonce = Err e.
Proof. exact meta_bad_key_refused. Qed.
Print Assumptions C19_bad_key_refused_through_metadata.
