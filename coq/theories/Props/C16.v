(* C16 - did:key text, DID value and public key convert back and forth without loss. *)
From Coq Require Import String.
Require Import Base Radix Varint Generated Did DidProofs.
Local Open Scope N_scope.

Theorem C16_base58_decode_encode : forall b, Forall (fun x => x < 256) b -> b <> [] -> b58_decode (b58_encode b) = Ok b.
Proof. exact b58_decode_encode. Qed.
Print Assumptions C16_base58_decode_encode.

Theorem C16_base58_encode_decode : forall t b, b58_decode t = Ok b -> b58_encode b = t /\ Forall (fun x => x < 256) b.
Proof. exact b58_encode_decode. Qed.
Print Assumptions C16_base58_encode_decode.

Theorem C16_varint_roundtrip : forall n rest, n < 2 ^ 63 ->
  from_uvarint (to_uvarint n ++ rest) = Ok (n, List.length (to_uvarint n)).
Proof. exact from_to_uvarint. Qed.
Print Assumptions C16_varint_roundtrip.

(* printing then parsing a DID of a supported code gives the same DID *)
Theorem C16_print_then_parse : forall c m, mem c parse_codes = true -> c < 2 ^ 63 -> Forall (fun x => x < 256) m ->
  did_parse (did_print (c, to_uvarint c ++ m)) = Ok (c, to_uvarint c ++ m).
Proof. exact print_parse. Qed.
Print Assumptions C16_print_then_parse.

(* an accepted string is the canonical text of its DID: the parser is injective *)
Theorem C16_accepted_text_is_canonical : forall s d, did_parse s = Ok d -> did_print d = s.
Proof. exact parse_print. Qed.
Print Assumptions C16_accepted_text_is_canonical.

(* only base58btc did:key identifiers of a supported key type are accepted *)
Theorem C16_parser_rejects_everything_else : forall s d, did_parse s = Ok d ->
  (exists t, s = did_prefix ++ c_z :: t) /\ mem (fst d) parse_codes = true /\
  (exists k, from_uvarint (snd d) = Ok (fst d, k)).
Proof. exact parse_accepts_only_supported. Qed.
Print Assumptions C16_parser_rejects_everything_else.

(* over the tables regenerated from the code: every code FromPubKey can emit is accepted by Parse and
   has an unmarshaller in PubKey *)
Theorem C16_every_generatable_algorithm_is_parsed_and_unmarshalled :
  forallb (fun c => mem c parse_codes && mem c unmarshal_codes && (c <? 2 ^ 63)) emit_codes = true.
Proof. exact emitted_codes_are_parsed_and_unmarshalled. Qed.
Print Assumptions C16_every_generatable_algorithm_is_parsed_and_unmarshalled.

(* key-level statements, under the stated premises on the third-party key (un)marshallers *)
Theorem C16_key_did_text_did_key : forall (key : Type) marshal unmarshal,
  (forall k c m, marshal k = Ok (c, m) -> In c emit_codes /\ Forall (fun x => x < 256) m) ->
  (forall k c m, marshal k = Ok (c, m) -> unmarshal c m = Ok k) ->
  forall (k : key) d, from_pubkey key marshal k = Ok d ->
    did_parse (did_print d) = Ok d /\ pubkey key marshal unmarshal d = Ok k.
Proof. exact pubkey_roundtrip. Qed.
Print Assumptions C16_key_did_text_did_key.

Theorem C16_one_principal_one_did : forall (key : Type) marshal unmarshal d (k : key),
  pubkey key marshal unmarshal d = Ok k -> from_pubkey key marshal k = Ok d.
Proof. exact canonical. Qed.
Print Assumptions C16_one_principal_one_did.

Theorem C16_dids_equal_iff_keys_equal : forall (key : Type) marshal unmarshal,
  (forall k c m, marshal k = Ok (c, m) -> In c emit_codes /\ Forall (fun x => x < 256) m) ->
  (forall k c m, marshal k = Ok (c, m) -> unmarshal c m = Ok k) ->
  forall (k1 k2 : key) d1 d2, from_pubkey key marshal k1 = Ok d1 -> from_pubkey key marshal k2 = Ok d2 -> (d1 = d2 <-> k1 = k2).
Proof. exact did_eq_iff_key_eq. Qed.
Print Assumptions C16_dids_equal_iff_keys_equal.

Theorem C16_key_extraction_returns_key_or_error : forall (key : Type) marshal unmarshal,
  (forall c m, unmarshal c m <> Panic) -> forall d, pubkey key marshal unmarshal d <> (Panic : res key).
Proof. exact pubkey_never_panics. Qed.
Print Assumptions C16_key_extraction_returns_key_or_error.

Theorem C16_parser_total : forall s, did_parse s <> Panic.
Proof. exact did_parse_never_panics. Qed.
Print Assumptions C16_parser_total.

Example C16_nonvacuous :
  did_parse (lit "did:key:z6MkhaXgBZDvotDkL5257faiztiGiC2QtKLGpbnnEGta2doK") =
    Ok (237, 237 :: 1 :: skipn 2 (match b58_decode (lit "6MkhaXgBZDvotDkL5257faiztiGiC2QtKLGpbnnEGta2doK") with Ok b => b | _ => [] end))
  /\ (exists e, did_parse (lit "did:key:f00") = Err e) /\ (exists e, did_parse (lit "did:key:z") = Err e)
  /\ (exists e, did_parse (lit "did:web:z6Mk") = Err e).
Proof. repeat split; try (eexists; vm_compute; reflexivity); vm_compute; reflexivity. Qed.
