(* The decoder of Utf8.v reads back what the standard UTF-8 encoding writes, for every Unicode scalar value:
   the model's notion of "code point of a string" is the usual one. *)
Require Import Base Generated Utf8.
From Coq Require Import ZifyBool ZifyNat ZifyN.
Local Open Scope N_scope.
Ltac Zify.zify_post_hook ::= Z.div_mod_to_equations.

Definition scalar (r : N) : Prop := r < 55296 \/ (57344 <= r /\ r < 1114112).

Definition utf8_encode (r : N) : str :=
  if r <? 128 then [r]
  else if r <? 2048 then [192 + r / 64; 128 + r mod 64]
  else if r <? 65536 then [224 + r / 4096; 128 + (r / 64) mod 64; 128 + r mod 64]
  else [240 + r / 262144; 128 + (r / 4096) mod 64; 128 + (r / 64) mod 64; 128 + r mod 64].

Theorem decode1_encode r rest : scalar r -> decode1 (utf8_encode r ++ rest) = Some (r, rest).
Proof.
  intros Hs. unfold utf8_encode.
  destruct (N.ltb_spec r 128) as [H1|H1].
  { cbn [app decode1]. destruct (N.ltb_spec r 128); [reflexivity|lia]. }
  destruct (N.ltb_spec r 2048) as [H2|H2].
  { cbn [app]. unfold decode1, in_rng, cont.
    destruct (N.ltb_spec (192 + r / 64) 128); [lia|].
    replace ((194 <=? 192 + r / 64) && (192 + r / 64 <=? 223)) with true by lia.
    replace ((128 <=? 128 + r mod 64) && (128 + r mod 64 <=? 191)) with true by lia.
    f_equal. f_equal. lia. }
  destruct (N.ltb_spec r 65536) as [H3|H3].
  { cbn [app]. unfold decode1, in_rng, cont.
    destruct (N.ltb_spec (224 + r / 4096) 128); [lia|].
    replace ((194 <=? 224 + r / 4096) && (224 + r / 4096 <=? 223)) with false by lia.
    replace ((224 <=? 224 + r / 4096) && (224 + r / 4096 <=? 239)) with true by lia.
    destruct (N.eqb_spec (224 + r / 4096) 224) as [E0|E0]; destruct (N.eqb_spec (224 + r / 4096) 237) as [Ed|Ed]; try lia.
    - replace ((160 <=? 128 + (r / 64) mod 64) && (128 + (r / 64) mod 64 <=? 191)) with true by lia.
      replace ((128 <=? 128 + r mod 64) && (128 + r mod 64 <=? 191)) with true by lia. cbn [andb]. f_equal. f_equal. lia.
    - replace ((128 <=? 128 + (r / 64) mod 64) && (128 + (r / 64) mod 64 <=? 159)) with true by (destruct Hs; lia).
      replace ((128 <=? 128 + r mod 64) && (128 + r mod 64 <=? 191)) with true by lia. cbn [andb]. f_equal. f_equal. lia.
    - replace ((128 <=? 128 + (r / 64) mod 64) && (128 + (r / 64) mod 64 <=? 191)) with true by lia.
      replace ((128 <=? 128 + r mod 64) && (128 + r mod 64 <=? 191)) with true by lia. cbn [andb]. f_equal. f_equal. lia. }
  cbn [app]. unfold decode1, in_rng, cont.
  assert (Hr : r < 1114112) by (destruct Hs; lia).
  destruct (N.ltb_spec (240 + r / 262144) 128); [lia|].
  replace ((194 <=? 240 + r / 262144) && (240 + r / 262144 <=? 223)) with false by lia.
  replace ((224 <=? 240 + r / 262144) && (240 + r / 262144 <=? 239)) with false by lia.
  replace ((240 <=? 240 + r / 262144) && (240 + r / 262144 <=? 244)) with true by lia.
  destruct (N.eqb_spec (240 + r / 262144) 240) as [E0|E0]; destruct (N.eqb_spec (240 + r / 262144) 244) as [Ed|Ed]; try lia.
  - replace ((144 <=? 128 + (r / 4096) mod 64) && (128 + (r / 4096) mod 64 <=? 191)) with true by lia.
    replace ((128 <=? 128 + (r / 64) mod 64) && (128 + (r / 64) mod 64 <=? 191)) with true by lia.
    replace ((128 <=? 128 + r mod 64) && (128 + r mod 64 <=? 191)) with true by lia. cbn [andb]. f_equal. f_equal. lia.
  - replace ((128 <=? 128 + (r / 4096) mod 64) && (128 + (r / 4096) mod 64 <=? 143)) with true by lia.
    replace ((128 <=? 128 + (r / 64) mod 64) && (128 + (r / 64) mod 64 <=? 191)) with true by lia.
    replace ((128 <=? 128 + r mod 64) && (128 + r mod 64 <=? 191)) with true by lia. cbn [andb]. f_equal. f_equal. lia.
  - replace ((128 <=? 128 + (r / 4096) mod 64) && (128 + (r / 4096) mod 64 <=? 191)) with true by lia.
    replace ((128 <=? 128 + (r / 64) mod 64) && (128 + (r / 64) mod 64 <=? 191)) with true by lia.
    replace ((128 <=? 128 + r mod 64) && (128 + r mod 64 <=? 191)) with true by lia. cbn [andb]. f_equal. f_equal. lia.
Qed.

Lemma utf8_encode_nonempty r : utf8_encode r <> [].
Proof. unfold utf8_encode. destruct (r <? 128), (r <? 2048), (r <? 65536); discriminate. Qed.

Lemma runes_f_encode rs : Forall scalar rs -> forall f, (length rs < f)%nat ->
  runes_f f (concat (map utf8_encode rs)) = Some rs.
Proof.
  induction 1 as [|r rs Hr Hrs IH]; intros f Hf; (destruct f as [|f]; [cbn in Hf; lia|]); cbn [map concat runes_f]; [reflexivity|].
  destruct (utf8_encode r ++ concat (map utf8_encode rs)) eqn:E.
  { apply app_eq_nil in E as [E _]. exfalso. exact (utf8_encode_nonempty r E). }
  rewrite <- E, (decode1_encode r _ Hr), IH by (cbn in Hf; lia). reflexivity.
Qed.

Lemma length_concat_ge rs : (length rs <= length (concat (map utf8_encode rs)))%nat.
Proof.
  induction rs as [|r rs IH]; cbn [map concat length]; [lia|]. rewrite app_length.
  pose proof (utf8_encode_nonempty r). destruct (utf8_encode r); [congruence|cbn; lia].
Qed.

(* the code points of the UTF-8 encoding of a sequence of scalar values are that sequence *)
Theorem runes_encode rs : Forall scalar rs -> runes (concat (map utf8_encode rs)) = Some rs.
Proof. intros H. unfold runes. apply runes_f_encode; [exact H|]. pose proof (length_concat_ge rs). lia. Qed.

(* conversely: whatever the decoder accepts is the standard encoding of a scalar value (no overlong forms, no
   surrogates, nothing above U+10FFFF) *)
Theorem decode1_canonical s r rest : Forall (fun b => b < 256) s -> decode1 s = Some (r, rest) -> scalar r /\ s = utf8_encode r ++ rest.
Proof.
  intros Hb. unfold decode1. destruct s as [|b0 s]; [discriminate|].
  inversion Hb as [|? ? Hb0 Hbs]; subst.
  destruct (N.ltb_spec b0 128) as [H0|H0].
  { intros [= <- <-]. split; [left; lia|]. unfold utf8_encode. destruct (N.ltb_spec b0 128); [reflexivity|lia]. }
  unfold in_rng, cont.
  destruct ((194 <=? b0) && (b0 <=? 223)) eqn:E2.
  { destruct s as [|b1 s]; [discriminate|]. destruct ((128 <=? b1) && (b1 <=? 191)) eqn:C1; [|discriminate].
    intros [= <- <-]. split; [left; lia|]. unfold utf8_encode.
    destruct (N.ltb_spec ((b0 - 192) * 64 + (b1 - 128)) 128); [lia|].
    destruct (N.ltb_spec ((b0 - 192) * 64 + (b1 - 128)) 2048); [|lia].
    cbn [app]. f_equal; [lia|]. f_equal. lia. }
  destruct ((224 <=? b0) && (b0 <=? 239)) eqn:E3.
  { destruct s as [|b1 [|b2 s]]; try discriminate.
    destruct (((if b0 =? 224 then 160 else 128) <=? b1) && (b1 <=? (if b0 =? 237 then 159 else 191)) && ((128 <=? b2) && (b2 <=? 191))) eqn:C; [|discriminate].
    intros [= <- <-].
    destruct (N.eqb_spec b0 224), (N.eqb_spec b0 237); try lia.
    - split; [left; lia|]. unfold utf8_encode.
      destruct (N.ltb_spec ((b0 - 224) * 4096 + (b1 - 128) * 64 + (b2 - 128)) 128); [lia|].
      destruct (N.ltb_spec ((b0 - 224) * 4096 + (b1 - 128) * 64 + (b2 - 128)) 2048); [lia|].
      destruct (N.ltb_spec ((b0 - 224) * 4096 + (b1 - 128) * 64 + (b2 - 128)) 65536); [|lia].
      cbn [app]. f_equal; [lia|]. f_equal; [lia|]. f_equal. lia.
    - split; [left; lia|]. unfold utf8_encode.
      destruct (N.ltb_spec ((b0 - 224) * 4096 + (b1 - 128) * 64 + (b2 - 128)) 128); [lia|].
      destruct (N.ltb_spec ((b0 - 224) * 4096 + (b1 - 128) * 64 + (b2 - 128)) 2048); [lia|].
      destruct (N.ltb_spec ((b0 - 224) * 4096 + (b1 - 128) * 64 + (b2 - 128)) 65536); [|lia].
      cbn [app]. f_equal; [lia|]. f_equal; [lia|]. f_equal. lia.
    - split; [destruct (N.ltb_spec b0 237); [left|right]; lia|]. unfold utf8_encode.
      destruct (N.ltb_spec ((b0 - 224) * 4096 + (b1 - 128) * 64 + (b2 - 128)) 128); [lia|].
      destruct (N.ltb_spec ((b0 - 224) * 4096 + (b1 - 128) * 64 + (b2 - 128)) 2048); [lia|].
      destruct (N.ltb_spec ((b0 - 224) * 4096 + (b1 - 128) * 64 + (b2 - 128)) 65536); [|lia].
      cbn [app]. f_equal; [lia|]. f_equal; [lia|]. f_equal. lia. }
  destruct ((240 <=? b0) && (b0 <=? 244)) eqn:E4; [|discriminate].
  destruct s as [|b1 [|b2 [|b3 s]]]; try discriminate.
  destruct (((if b0 =? 240 then 144 else 128) <=? b1) && (b1 <=? (if b0 =? 244 then 143 else 191)) && ((128 <=? b2) && (b2 <=? 191)) && ((128 <=? b3) && (b3 <=? 191))) eqn:C; [|discriminate].
  intros [= <- <-].
  destruct (N.eqb_spec b0 240), (N.eqb_spec b0 244); try lia;
    (split; [right; lia|]; unfold utf8_encode;
     destruct (N.ltb_spec ((b0 - 240) * 262144 + (b1 - 128) * 4096 + (b2 - 128) * 64 + (b3 - 128)) 128); [lia|];
     destruct (N.ltb_spec ((b0 - 240) * 262144 + (b1 - 128) * 4096 + (b2 - 128) * 64 + (b3 - 128)) 2048); [lia|];
     destruct (N.ltb_spec ((b0 - 240) * 262144 + (b1 - 128) * 4096 + (b2 - 128) * 64 + (b3 - 128)) 65536); [lia|];
     cbn [app]; f_equal; [lia|]; f_equal; [lia|]; f_equal; [lia|]; f_equal; lia).
Qed.
