(* C14 - Policies and selectors are parsed losslessly or rejected. *)
From Coq Require Import String.
Require Import Base Node Selector SelParse SelParseProofs Glob Policy PolicyIpld PolicyIpldProofs SealedBytes CanonProofs DagJson DagJsonProofs PolicyJsonProofs.
Local Open Scope N_scope.

(* the tokenizer drops nothing *)
Theorem C14_tokenize_partitions_the_text : forall s, concat (tokenize s) = s.
Proof. exact tokenize_partition. Qed.
Print Assumptions C14_tokenize_partitions_the_text.

(* an accepted selector text is interpreted in full: one segment per token ... *)
Theorem C14_every_token_is_a_segment : forall s p,
  sel_parse s = Ok p -> s <> [c_dot] -> s <> [c_dot; c_qm] -> map ps_str p = tokenize s.
Proof. exact parse_segments_are_tokens. Qed.
Print Assumptions C14_every_token_is_a_segment.

(* ... printing reproduces the text, which therefore parses to the very same selector *)
Theorem C14_print_reproduces_the_text : forall s p, sel_parse s = Ok p -> sel_print p = s.
Proof. exact parse_print. Qed.
Print Assumptions C14_print_reproduces_the_text.

Theorem C14_print_reparses_to_same_selector : forall s p, sel_parse s = Ok p -> sel_parse (sel_print p) = Ok p.
Proof. exact print_reparse. Qed.
Print Assumptions C14_print_reparses_to_same_selector.

(* a policy read from IPLD and written back is the same node (no normalisation is even needed) *)
Theorem C14_policy_ipld_roundtrip : forall n p, pol_from_ipld n = Ok p -> pol_to_ipld p = n.
Proof. exact pol_ipld_roundtrip. Qed.
Print Assumptions C14_policy_ipld_roundtrip.

(* a constructed policy survives the IPLD round trip unchanged, hence with identical matching *)
Theorem C14_constructed_policy_roundtrip : forall p,
  Forall wf_stmt p -> ints_in53 (pol_to_ipld p) = true -> pol_from_ipld (pol_to_ipld p) = Ok p.
Proof. exact pol_to_from. Qed.
Print Assumptions C14_constructed_policy_roundtrip.

Theorem C14_selector_parser_total : forall s, sel_parse s <> Panic.
Proof. exact sel_parse_never_panics. Qed.
Print Assumptions C14_selector_parser_total.

Theorem C14_policy_decoder_total : forall n, pol_from_ipld n <> Panic.
Proof. exact pol_from_never_panics. Qed.
Print Assumptions C14_policy_decoder_total.

(* non-vacuity, on the F10 witnesses *)
Example C14_nonvacuous :
  (exists e, sel_parse (lit ".foo[""") = Err e) /\ (exists e, sel_parse (lit ".""") = Err e) /\
  (exists p, sel_parse (lit ".?.foo") = Ok p /\ sel_print p = lit ".?.foo") /\
  (exists p, sel_parse (lit ".a[""b c""]?[1:-2][]") = Ok p /\ List.length p = 4%nat) /\
  (exists e, sel_parse (lit ".[""""]") = Err e).
Proof.
  repeat split; try (eexists; vm_compute; reflexivity); eexists; split; vm_compute; reflexivity.
Qed.

(* ---- the DAG-JSON route (Policy.ToDagJson / policy.FromDagJson through the codec model of DagJson.v): a policy written
   as DAG-JSON text and read back is the policy that was written, up to the order of entries of map literals in its
   values (JSON lists keys bytewise) - and that difference is not visible to matching: same verdicts, full and partial,
   on every data. Premises: constructor-made statements, integers in range, the text inside the codec's lossless
   domain (no floats, UTF-8 strings, no key "/"), no map literal repeating a key, decoder depth budget. ---- *)
Theorem C14_policy_dagjson_roundtrip : forall p f, Forall wf_stmt p -> ints_in53 (pol_to_ipld p) = true ->
  jsafe (pol_to_ipld p) -> keys_distinct (pol_to_ipld p) -> (jdepth (pol_to_ipld p) <= f)%nat ->
  exists p', pol_from_json f (pol_to_json p) = Ok p' /\ map canon_stmt p' = map canon_stmt p.
Proof. exact policy_json_roundtrip. Qed.
Print Assumptions C14_policy_dagjson_roundtrip.

Theorem C14_policy_dagjson_same_verdicts : forall p f n, Forall wf_stmt p -> ints_in53 (pol_to_ipld p) = true ->
  jsafe (pol_to_ipld p) -> keys_distinct (pol_to_ipld p) -> (jdepth (pol_to_ipld p) <= f)%nat ->
  exists p', pol_from_json f (pol_to_json p) = Ok p' /\
             policy_match (map sem p') n = policy_match (map sem p) n /\ policy_partial (map sem p') n = policy_partial (map sem p) n.
Proof. exact policy_json_same_verdicts. Qed.
Print Assumptions C14_policy_dagjson_same_verdicts.

(* matching does not see the canonical order of map literals in a policy *)
Theorem C14_verdicts_ignore_literal_order : forall p p' n, map canon_stmt p' = map canon_stmt p ->
  policy_match (map sem p') n = policy_match (map sem p) n /\ policy_partial (map sem p') n = policy_partial (map sem p) n.
Proof. exact policy_verdict_ignores_literal_order. Qed.
Print Assumptions C14_verdicts_ignore_literal_order.
