(* Go's UTF-8 decoding (unicode/utf8: no overlong forms, no surrogates, at most U+10FFFF), and the
   "lower-casing leaves the string unchanged" test of strings.ToLower: the code points that unicode.ToLower
   changes are Generated.lower_changes, read off the running toolchain. *)
Require Import Base Generated.
Local Open Scope N_scope.

Definition cont (b : N) : bool := (128 <=? b) && (b <=? 191).
Definition in_rng (lo hi b : N) : bool := (lo <=? b) && (b <=? hi).

(* one code point off the front; None = invalid sequence *)
Definition decode1 (s : str) : option (N * str) :=
  match s with
  | [] => None
  | b0 :: r =>
      if b0 <? 128 then Some (b0, r)
      else if in_rng 194 223 b0 then
        match r with
        | b1 :: r1 => if cont b1 then Some ((b0 - 192) * 64 + (b1 - 128), r1) else None
        | _ => None
        end
      else if in_rng 224 239 b0 then
        match r with
        | b1 :: b2 :: r2 =>
            let lo := if b0 =? 224 then 160 else 128 in
            let hi := if b0 =? 237 then 159 else 191 in
            if in_rng lo hi b1 && cont b2 then Some ((b0 - 224) * 4096 + (b1 - 128) * 64 + (b2 - 128), r2) else None
        | _ => None
        end
      else if in_rng 240 244 b0 then
        match r with
        | b1 :: b2 :: b3 :: r3 =>
            let lo := if b0 =? 240 then 144 else 128 in
            let hi := if b0 =? 244 then 143 else 191 in
            if in_rng lo hi b1 && cont b2 && cont b3
            then Some ((b0 - 240) * 262144 + (b1 - 128) * 4096 + (b2 - 128) * 64 + (b3 - 128), r3) else None
        | _ => None
        end
      else None
  end.

Fixpoint runes_f (fuel : nat) (s : str) : option (list N) :=
  match fuel with
  | O => None
  | S f => match s with
           | [] => Some []
           | _ => match decode1 s with
                  | Some (r, rest) => match runes_f f rest with Some l => Some (r :: l) | None => None end
                  | None => None
                  end
           end
  end.
Definition runes (s : str) : option (list N) := runes_f (S (length s)) s.

Definition in_ranges (r : N) (t : list (N * N)) : bool := existsb (fun e => (fst e <=? r) && (r <=? snd e)) t.

(* strings.ToLower(s) == s: valid UTF-8 (an invalid byte is rewritten to U+FFFD) and no code point that
   unicode.ToLower maps elsewhere *)
Definition lower_fixed (s : str) : bool :=
  match runes s with
  | Some rs => forallb (fun r => negb (in_ranges r lower_changes)) rs
  | None => false
  end.
