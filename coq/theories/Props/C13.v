(* C13 - like patterns match exactly the glob language.  Statements only. *)
From Coq Require Import String.
Require Import Base Glob GlobProofs.
Local Open Scope N_scope.

(* The matcher decides membership in the language of the tokenised pattern, for every accepted
   pattern and every string (in particular strings containing '*' and '\'). *)
Theorem C13_match_is_glob_language : forall p s t,
  toks p = Some t -> (glob_match p s = true <-> lang t s).
Proof. exact glob_match_correct. Qed.
Print Assumptions C13_match_is_glob_language.

(* parseGlob accepts exactly the patterns that tokenise (no lone trailing backslash) *)
Theorem C13_parse_accepts_iff_tokenises : forall p,
  parse_glob_ok p = true <-> exists t, toks p = Some t.
Proof. exact parse_glob_ok_toks. Qed.
Print Assumptions C13_parse_accepts_iff_tokenises.

Theorem C13_lone_backslash_rejected : forall p,
  parse_glob (p ++ [c_bsl]) = Err 1 <-> parse_glob_ok p = true.
Proof. exact parse_glob_rejects_lone_backslash. Qed.
Print Assumptions C13_lone_backslash_rejected.

(* the executable reference used by the oracle for attribution is itself the language *)
Theorem C13_reference_matcher_is_language : forall t s, lang_matchb t s = true <-> lang t s.
Proof. exact lang_matchb_correct. Qed.
Print Assumptions C13_reference_matcher_is_language.

(* non-vacuity, on the witnesses of defect F9 (pinned tree answered false on the first three) *)
Example C13_nonvacuous :
  glob_match (lit "*") (lit "*a") = true /\ glob_match (lit "a*") (lit "a*b") = true /\
  glob_match (lit "*b") (lit "*ab") = true /\ glob_match (lit "\*") (lit "*") = true /\
  glob_match (lit "\*") (lit "\*") = false /\ glob_match (lit "a*b*c") (lit "aXXbYYbZc") = true /\
  parse_glob (lit "ab\") = Err 1.
Proof. repeat split; vm_compute; reflexivity. Qed.

(* two wildcards in a row are one wildcard - at the level of tokens: in `\**` the first star is a literal *)
Theorem C13_consecutive_wildcards_are_one : forall p p' t1 t2 s,
  toks p = Some (t1 ++ Star :: Star :: t2) -> toks p' = Some (t1 ++ Star :: t2) ->
  glob_match p s = glob_match p' s.
Proof. exact double_star_is_star. Qed.
Print Assumptions C13_consecutive_wildcards_are_one.
Theorem C13_lone_wildcard_matches_everything : forall s, glob_match [c_star] s = true.
Proof. exact star_matches_all. Qed.
Print Assumptions C13_lone_wildcard_matches_everything.
Theorem C13_empty_pattern_matches_only_the_empty_string : forall s, glob_match [] s = true <-> s = [].
Proof. exact empty_matches_empty. Qed.
Print Assumptions C13_empty_pattern_matches_only_the_empty_string.
Example C13_escaped_star_is_not_a_wildcard :
  toks (lit "\**") = Some [Lit 42; Star] /\ toks (lit "\*") = Some [Lit 42] /\
  glob_match (lit "\**") (lit "*x") = true /\ glob_match (lit "\*") (lit "*x") = false.
Proof. repeat split; vm_compute; reflexivity. Qed.
