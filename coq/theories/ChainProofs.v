Require Import Base Node Command CommandProofs Selector Policy PolicyProofs Chain.
Local Open Scope Z_scope.

Lemma load_map ld prf ds : load ld prf = Some ds <-> map ld prf = map Some ds.
Proof.
  revert ds; induction prf as [|c r IH]; intros ds; cbn.
  - split; [intros [= <-]; reflexivity | destruct ds; [reflexivity|discriminate]].
  - destruct (ld c) as [d|] eqn:E.
    + destruct (load ld r) as [ds'|] eqn:El.
      * split; [intros [= <-]; cbn; f_equal; apply IH; reflexivity|].
        destruct ds as [|d' ds'']; [discriminate|]. cbn. intros [= -> H]. apply IH in H. congruence.
      * split; [discriminate|]. destruct ds as [|d' ds'']; [discriminate|]. cbn. intros [= _ H]. apply IH in H. discriminate.
    + split; [discriminate|]. destruct ds; cbn; [discriminate|congruence].
Qed.

Lemma walk_aligned sub iss c ds : walk sub iss c ds = true <-> aligned sub iss c ds.
Proof.
  revert iss c; induction ds as [|d r IH]; intros iss c; cbn.
  - split; [constructor|reflexivity].
  - rewrite !andb_true_iff, !str_eqb_eq, IH. split.
    + intros [[[H1 H2] H3] H4]. constructor; assumption.
    + intros H; inversion H; subst; auto.
Qed.

Lemma root_ok_last ds : root_ok ds = true <-> ds <> [] /\ exists l, last ds l = l /\ d_iss l = d_sub l.
Proof.
  unfold root_ok. destruct ds as [|d0 ds] using rev_ind.
  - cbn. split; [discriminate | intros [H _]; congruence].
  - rewrite rev_app_distr. cbn [rev app]. rewrite str_eqb_eq. split.
    + intros H. split; [destruct ds; discriminate|]. exists d0. rewrite last_last. auto.
    + intros (_ & l & Hl & Hs). rewrite last_last in Hl. subst l. exact Hs.
Qed.

Theorem allowed_with_sound now ld i a :
  allowed_with now ld i a = true -> exists ds, spec_allowed now ld i a ds.
Proof.
  unfold allowed_with. destruct (load ld (i_prf i)) as [ds|] eqn:El; [|discriminate].
  rewrite !andb_true_iff. intros [[Hp Ht] Ha]. exists ds.
  unfold verify_proofs in Hp. destruct ds as [|d0 ds0] eqn:Eds; [discriminate|]. rewrite <- Eds in *.
  apply andb_true_iff in Hp as [Hw Hr].
  unfold verify_time in Ht. apply andb_true_iff in Ht as [Hti Htd].
  constructor.
  - intros E. rewrite E in El. cbn in El. injection El as <-. discriminate.
  - apply load_map; exact El.
  - apply walk_aligned; exact Hw.
  - apply root_ok_last in Hr as (_ & l & H1 & H2). eauto.
  - exact Hti.
  - rewrite forallb_forall in Htd. apply Forall_forall. exact Htd.
  - unfold verify_args, policy_match in Ha. rewrite forallb_forall in Ha. apply Forall_forall. intros d Hd.
    apply Forall_forall. intros s Hs. apply Ha. apply in_concat. exists (d_pol d). split; [apply in_map; exact Hd|exact Hs].
Qed.

Theorem allowed_with_complete now ld i a ds :
  spec_allowed now ld i a ds -> allowed_with now ld i a = true.
Proof.
  intros [Hne Hl Hal (l & Hl1 & Hl2) Hti Htd Hpol]. unfold allowed_with.
  assert (Hds : ds <> []).
  { intros ->. destruct (i_prf i); [congruence|discriminate]. }
  apply load_map in Hl. rewrite Hl. rewrite !andb_true_iff. repeat split.
  - unfold verify_proofs. destruct ds as [|d0 ds0] eqn:Eds; [congruence|]. rewrite <- Eds in *.
    apply andb_true_iff. split; [apply walk_aligned; exact Hal|]. apply root_ok_last. split; [exact Hds|]. exists l. auto.
  - unfold verify_time. apply andb_true_iff. split; [exact Hti|].
    rewrite forallb_forall. rewrite Forall_forall in Htd. exact Htd.
  - unfold verify_args, policy_match. rewrite forallb_forall. intros s Hs. apply in_concat in Hs as (p & Hp & Hs).
    apply in_map_iff in Hp as (d & <- & Hd). rewrite Forall_forall in Hpol. specialize (Hpol d Hd).
    rewrite Forall_forall in Hpol. apply Hpol; exact Hs.
Qed.

Theorem allowed_iff_spec now ld i :
  allowed now ld i = true <-> exists ds, spec_allowed now ld i (i_args i) ds.
Proof. split; [apply allowed_with_sound | intros (ds & H); eapply allowed_with_complete; exact H]. Qed.

(* ---- C01: principals ---- *)
Lemma aligned_principals sub iss c ds : aligned sub iss c ds ->
  Forall (fun d => d_sub d = sub) ds /\
  (forall d0 r, ds = d0 :: r -> d_aud d0 = iss) /\
  (forall k d d', nth_error ds k = Some d -> nth_error ds (S k) = Some d' -> d_iss d = d_aud d').
Proof.
  induction 1 as [|iss c d r Hs Ha Hc Hal IH].
  - split; [constructor|]. split; [discriminate|]. intros k d d' H. destruct k; discriminate.
  - destruct IH as (IH1 & IH2 & IH3). split; [constructor; assumption|]. split.
    + intros d0 r0 [= <- <-]. exact Ha.
    + intros k x x' H1 H2. destruct k as [|k].
      * cbn in H1. injection H1 as <-. cbn in H2. destruct r as [|y r']; [discriminate|].
        cbn in H2. injection H2 as <-. symmetry. apply (IH2 y r' eq_refl).
      * cbn in H1, H2. apply (IH3 k x x' H1 H2).
Qed.

Theorem allowed_principals now ld i :
  allowed now ld i = true ->
  exists ds, i_prf i <> [] /\ map ld (i_prf i) = map Some ds /\
    (forall d0 r, ds = d0 :: r -> d_aud d0 = i_iss i) /\
    (forall k d d', nth_error ds k = Some d -> nth_error ds (S k) = Some d' -> d_iss d = d_aud d') /\
    (exists l, last ds l = l /\ d_iss l = d_sub l) /\
    Forall (fun d => d_sub d = i_sub i) ds.
Proof.
  intros H. apply allowed_with_sound in H as (ds & [Hne Hl Hal Hr _ _ _]).
  apply aligned_principals in Hal as (H1 & H2 & H3). exists ds. auto 10.
Qed.

Theorem audience_irrelevant now ld i aud : allowed now ld (set_irrelevant aud i) = allowed now ld i.
Proof. reflexivity. Qed.

(* ---- C02: commands ---- *)
Lemma aligned_commands sub iss c ds : aligned sub iss c ds ->
  (forall d0 r, ds = d0 :: r -> covers (d_cmd d0) c = true) /\
  (forall k d d', nth_error ds k = Some d -> nth_error ds (S k) = Some d' -> covers (d_cmd d') (d_cmd d) = true).
Proof.
  induction 1 as [|iss c d r Hs Ha Hc Hal IH].
  - split; [discriminate|]. intros k d d' H. destruct k; discriminate.
  - destruct IH as (IH1 & IH2). split.
    + intros d0 r0 [= <- <-]. exact Hc.
    + intros k x x' H1 H2. destruct k as [|k].
      * cbn in H1. injection H1 as <-. cbn in H2. destruct r as [|y r']; [discriminate|].
        cbn in H2. injection H2 as <-. apply (IH1 y r' eq_refl).
      * cbn in H1, H2. apply (IH2 k x x' H1 H2).
Qed.

Theorem allowed_commands now ld i :
  allowed now ld i = true ->
  exists ds, map ld (i_prf i) = map Some ds /\
    (forall d0 r, ds = d0 :: r -> covers (d_cmd d0) (i_cmd i) = true) /\
    (forall k d d', nth_error ds k = Some d -> nth_error ds (S k) = Some d' -> covers (d_cmd d') (d_cmd d) = true).
Proof.
  intros H. apply allowed_with_sound in H as (ds & [Hne Hl Hal _ _ _ _]).
  apply aligned_commands in Hal as (H1 & H2). exists ds. auto.
Qed.

(* every delegation of an allowed chain covers the invoked command: no link widened what it received *)
Lemma aligned_all_cover sub iss c ds : leading c -> Forall (fun d => leading (d_cmd d)) ds ->
  aligned sub iss c ds -> Forall (fun d => seg_prefix (segments (d_cmd d)) (segments c)) ds.
Proof.
  intros Hc Hl Hal. revert Hc Hl. induction Hal as [|iss c d r Hs Ha Hcv Hal IH]; intros Hc Hl; [constructor|].
  inversion Hl as [|? ? Hd Hr]; subst. constructor.
  - apply covers_iff_seg_prefix; assumption.
  - specialize (IH Hd Hr). apply covers_iff_seg_prefix in Hcv as (t & Et); [|assumption|assumption].
    eapply Forall_impl; [|exact IH]. intros x (t' & Ex). exists (t' ++ t). rewrite Et, Ex, app_assoc. reflexivity.
Qed.

Theorem allowed_no_widening now ld i :
  allowed now ld i = true -> leading (i_cmd i) ->
  exists ds, map ld (i_prf i) = map Some ds /\
    (Forall (fun d => leading (d_cmd d)) ds ->
     Forall (fun d => seg_prefix (segments (d_cmd d)) (segments (i_cmd i))) ds).
Proof.
  intros H Hc. apply allowed_with_sound in H as (ds & [Hne Hl Hal _ _ _ _]).
  exists ds. split; [exact Hl|]. intros HL. eapply aligned_all_cover; eassumption.
Qed.

(* ---- C03: policies ---- *)
Theorem allowed_policies now ld i :
  allowed now ld i = true ->
  exists ds, map ld (i_prf i) = map Some ds /\
    Forall (fun d => Forall (fun s => pass_match (ev s (i_args i)) = true) (d_pol d)) ds.
Proof. intros H. apply allowed_with_sound in H as (ds & [_ Hl _ _ _ _ Hp]). eauto. Qed.

Theorem args_antitone_link ds1 d ds2 a :
  verify_args (ds1 ++ d :: ds2) a = true -> verify_args (ds1 ++ ds2) a = true.
Proof.
  unfold verify_args. rewrite !map_app, !concat_app, !match_app. cbn [map concat]. rewrite match_app.
  rewrite !andb_true_iff. tauto.
Qed.

Definition add_stmt (s : stmt) (k : nat) (d : dlg) : dlg :=
  {| d_iss := d_iss d; d_aud := d_aud d; d_sub := d_sub d; d_cmd := d_cmd d;
     d_pol := firstn k (d_pol d) ++ s :: skipn k (d_pol d); d_nbf := d_nbf d; d_exp := d_exp d |}.

Theorem args_antitone_stmt ds1 d ds2 s k a :
  verify_args (ds1 ++ add_stmt s k d :: ds2) a = true -> verify_args (ds1 ++ d :: ds2) a = true.
Proof.
  unfold verify_args. rewrite !map_app, !concat_app, !match_app. cbn [map concat add_stmt d_pol].
  rewrite !match_app. cbn [policy_match forallb].
  rewrite <- (firstn_skipn k (d_pol d)) at 3. rewrite match_app.
  change (policy_match (s :: skipn k (d_pol d)) a) with (pass_match (ev s a) && policy_match (skipn k (d_pol d)) a).
  rewrite !andb_true_iff. tauto.
Qed.

(* adding a delegation (anywhere) or a statement (anywhere) never turns denied into allowed,
   at the level of the whole decision, when principals/commands/time are unaffected: stated on verify_args
   above; and the hook's arguments are the ones checked: *)
Theorem hook_args_checked now ld h i a :
  h (i_args i) = Some a -> allowed_hook now ld h i = allowed_with now ld i a.
Proof. unfold allowed_hook. intros ->. reflexivity. Qed.
Theorem hook_failure_denies now ld h i : h (i_args i) = None -> allowed_hook now ld h i = false.
Proof. unfold allowed_hook. intros ->. reflexivity. Qed.
Theorem allowed_hook_policies now ld h i :
  allowed_hook now ld h i = true ->
  exists a ds, h (i_args i) = Some a /\ map ld (i_prf i) = map Some ds /\
    Forall (fun d => Forall (fun s => pass_match (ev s a) = true) (d_pol d)) ds.
Proof.
  unfold allowed_hook. destruct (h (i_args i)) as [a|]; [|discriminate]. intros H.
  apply allowed_with_sound in H as (ds & [_ Hl _ _ _ _ Hp]). eauto.
Qed.

(* ---- C04: time ---- *)
Theorem valid_inside nbf exp t :
  (forall n, nbf = Some n -> n < t) -> (forall e, exp = Some e -> t < e) -> valid_at nbf exp t = true.
Proof.
  intros Hn He. unfold valid_at. destruct exp as [e|], nbf as [n|]; cbn;
  repeat match goal with |- context [?x <? ?y] => destruct (Z.ltb_spec x y) end; try reflexivity;
  try (specialize (He _ eq_refl)); try (specialize (Hn _ eq_refl)); lia.
Qed.
Theorem invalid_outside nbf exp t :
  (exists n, nbf = Some n /\ t < n) \/ (exists e, exp = Some e /\ e < t) -> valid_at nbf exp t = false.
Proof.
  unfold valid_at. intros [(n & -> & H)|(e & -> & H)].
  - destruct (Z.ltb_spec t n); [|lia]. cbn. apply andb_false_r.
  - destruct (Z.ltb_spec e t); [|lia]. reflexivity.
Qed.
Theorem allowed_time now ld i :
  allowed now ld i = true ->
  exists ds, map ld (i_prf i) = map Some ds /\ inv_valid_at now i = true /\ Forall (fun d => dlg_valid_at now d = true) ds.
Proof. intros H. apply allowed_with_sound in H as (ds & [_ Hl _ _ Hi Ht _]). eauto. Qed.

(* ---- C05: completeness ---- *)
Theorem conforming_allowed now ld i ds aud :
  spec_allowed now ld i (i_args i) ds -> allowed now ld (set_irrelevant aud i) = true.
Proof. intros H. rewrite audience_irrelevant. eapply allowed_with_complete. exact H. Qed.

(* ---------- the instants at which a token, a chain, a decision is valid form an interval ---------- *)
Lemma valid_at_convex nbf exp t1 t2 t : (t1 <= t <= t2)%Z ->
  valid_at nbf exp t1 = true -> valid_at nbf exp t2 = true -> valid_at nbf exp t = true.
Proof.
  unfold valid_at. intros Ht H1 H2.
  apply andb_true_iff in H1 as [_ H1n]. apply andb_true_iff in H2 as [H2e _].
  apply andb_true_iff. split.
  - destruct exp as [e|]; [|reflexivity]. apply negb_true_iff in H2e. apply negb_true_iff.
    apply Z.ltb_ge in H2e. apply Z.ltb_ge. lia.
  - destruct nbf as [n|]; [|reflexivity]. apply negb_true_iff in H1n. apply negb_true_iff.
    apply Z.ltb_ge in H1n. apply Z.ltb_ge. lia.
Qed.

Lemma verify_time_convex i ds t1 t2 t : (t1 <= t <= t2)%Z ->
  verify_time t1 i ds = true -> verify_time t2 i ds = true -> verify_time t i ds = true.
Proof.
  unfold verify_time, inv_valid_at, dlg_valid_at. intros Ht H1 H2.
  apply andb_true_iff in H1 as [H1i H1d]. apply andb_true_iff in H2 as [H2i H2d].
  apply andb_true_iff. split; [eapply valid_at_convex; eassumption|].
  rewrite forallb_forall in *. intros d Hd. eapply valid_at_convex; [exact Ht|apply H1d|apply H2d]; exact Hd.
Qed.

(* a decision that is "allowed" at two instants is "allowed" at every instant in between: nothing but the
   time stage looks at the clock *)
Theorem allowed_convex ld i t1 t2 t : (t1 <= t <= t2)%Z ->
  allowed t1 ld i = true -> allowed t2 ld i = true -> allowed t ld i = true.
Proof.
  unfold allowed, allowed_with. intros Ht H1 H2. destruct (load ld (i_prf i)) as [ds|]; [|discriminate].
  apply andb_true_iff in H1 as [H1 H1a]. apply andb_true_iff in H1 as [H1p H1t].
  apply andb_true_iff in H2 as [H2 _]. apply andb_true_iff in H2 as [_ H2t].
  rewrite H1p, H1a, (verify_time_convex i ds t1 t2 t Ht H1t H2t). reflexivity.
Qed.

(* ... and once expired, expired for good; before the not-before, not yet valid at any earlier instant *)
Lemma expired_stays_expired nbf e t t' : (e < t)%Z -> (t <= t')%Z -> valid_at nbf (Some e) t' = false.
Proof. intros H1 H2. unfold valid_at. replace (e <? t')%Z with true by (symmetry; apply Z.ltb_lt; lia). reflexivity. Qed.
Lemma not_yet_valid_before n exp t t' : (t < n)%Z -> (t' <= t)%Z -> valid_at (Some n) exp t' = false.
Proof. intros H1 H2. unfold valid_at. replace (t' <? n)%Z with true by (symmetry; apply Z.ltb_lt; lia). apply andb_false_r. Qed.
