Require Import Base Generated Utf8 Command.
From Coq Require Import ZifyBool ZifyNat ZifyN.
Local Open Scope N_scope.

Lemma split_nonempty s : split s <> [].
Proof. destruct s as [|c s]; cbn; [discriminate|]. destruct (c =? sep); [discriminate|]. destruct (split s); discriminate. Qed.

Lemma split_app_sep a b : split (a ++ sep :: b) = split a ++ split b.
Proof.
  induction a as [|c a IH]; cbn [app split].
  - rewrite N.eqb_refl. reflexivity.
  - destruct (c =? sep); [rewrite IH; reflexivity|].
    rewrite IH. pose proof (split_nonempty a). destruct (split a) as [|h t]; [congruence|]. reflexivity.
Qed.

Fixpoint join (l : list str) : str :=
  match l with [] => [] | [x] => x | x :: l' => x ++ sep :: join l' end.

Lemma join_cons x l : l <> [] -> join (x :: l) = x ++ sep :: join l.
Proof. destruct l; [congruence|reflexivity]. Qed.

Lemma join_split s : join (split s) = s.
Proof.
  induction s as [|c s IH]; cbn [split]; [reflexivity|].
  pose proof (split_nonempty s) as Hne.
  destruct (c =? sep) eqn:E.
  - apply N.eqb_eq in E; subst c. rewrite join_cons by exact Hne. rewrite IH. reflexivity.
  - destruct (split s) as [|h t] eqn:Es; [congruence|].
    destruct t as [|h' t'].
    + cbn [join] in *. rewrite IH. reflexivity.
    + rewrite join_cons by discriminate. rewrite join_cons in IH by discriminate. cbn [app]. rewrite IH. reflexivity.
Qed.

Lemma join_app a b : a <> [] -> b <> [] -> join (a ++ b) = join a ++ sep :: join b.
Proof.
  intros Ha Hb. induction a as [|x a IH]; [congruence|].
  destruct a as [|y a].
  - cbn [app]. apply join_cons; exact Hb.
  - change ((x :: y :: a) ++ b) with (x :: ((y :: a) ++ b)).
    rewrite join_cons by (destruct a; discriminate). rewrite IH by discriminate.
    rewrite (join_cons x (y :: a)) by discriminate. rewrite <- app_assoc. reflexivity.
Qed.

Lemma core c0 o0 :
  (has_prefix c0 o0 = true /\ (length c0 = length o0 \/ nth (length c0) o0 0 = sep))
  <-> exists t, split o0 = split c0 ++ t.
Proof.
  split.
  - intros (Hp & Hb). apply has_prefix_app in Hp as (r & ->).
    destruct r as [|x r].
    + exists []. rewrite !app_nil_r. reflexivity.
    + destruct Hb as [Hb|Hb]; [rewrite app_length in Hb; cbn in Hb; lia|].
      rewrite app_nth2, Nat.sub_diag in Hb by lia. cbn in Hb. subst x.
      exists (split r). apply split_app_sep.
  - intros (t & H).
    assert (E : o0 = join (split c0 ++ t)) by (rewrite <- H, join_split; reflexivity).
    destruct t as [|t0 t].
    + rewrite app_nil_r, join_split in E. subst o0. split; [apply has_prefix_app; exists []; rewrite app_nil_r; reflexivity | left; reflexivity].
    + rewrite join_app, join_split in E by (try apply split_nonempty; discriminate). subst o0.
      split; [apply has_prefix_app; eauto|]. right. rewrite app_nth2, Nat.sub_diag by lia. reflexivity.
Qed.

Lemma tl_split_sep s0 : tl (split (sep :: s0)) = split s0.
Proof. cbn [split]. rewrite N.eqb_refl. reflexivity. Qed.

Theorem covers_iff_seg_prefix c o :
  leading c -> leading o -> (covers c o = true <-> seg_prefix (segments c) (segments o)).
Proof.
  intros (c0 & ->) (o0 & ->). unfold covers, segments, seg_prefix, top.
  destruct (str_eqb (sep :: c0) [sep]) eqn:Ec.
  - apply str_eqb_eq in Ec. injection Ec as ->. cbn [has_prefix]. rewrite N.eqb_refl. cbn. split; eauto.
  - assert (Hc0 : c0 <> []) by (intros ->; cbn in Ec; discriminate).
    rewrite !tl_split_sep. cbn [orb].
    destruct (str_eqb (sep :: o0) [sep]) eqn:Eo.
    + apply str_eqb_eq in Eo. injection Eo as ->. split.
      * destruct c0 as [|c1 c0]; [congruence|]. cbn [has_prefix]. rewrite N.eqb_refl. cbn. discriminate.
      * intros (t & H). pose proof (split_nonempty c0). destruct (split c0); [congruence|discriminate].
    + cbn [has_prefix length nth]. rewrite N.eqb_refl. cbn [andb].
      rewrite <- core. rewrite andb_true_iff, orb_true_iff, Nat.eqb_eq, N.eqb_eq.
      split; intros (H1 & H2); (split; [exact H1|]); destruct H2 as [H2|H2]; auto; left; lia.
Qed.

Corollary covers_refl c : leading c -> covers c c = true.
Proof. intros H. apply covers_iff_seg_prefix; auto. exists []. rewrite app_nil_r. reflexivity. Qed.

Corollary covers_trans a b c : leading a -> leading b -> leading c ->
  covers a b = true -> covers b c = true -> covers a c = true.
Proof.
  intros Ha Hb Hc H1 H2. apply covers_iff_seg_prefix in H1 as (t1 & E1); auto.
  apply covers_iff_seg_prefix in H2 as (t2 & E2); auto.
  apply covers_iff_seg_prefix; auto. exists (t1 ++ t2). rewrite E2, E1, app_assoc. reflexivity.
Qed.

Corollary covers_antisym a b : covers a b = true -> covers b a = true -> a = b.
Proof.
  unfold covers. rewrite !andb_true_iff. intros [H1 _] [H2 _].
  apply has_prefix_app in H1 as (r1 & E1). apply has_prefix_app in H2 as (r2 & E2).
  assert (length r1 = 0%nat) by (apply (f_equal (@length N)) in E1, E2; rewrite app_length in *; lia).
  destruct r1; [|discriminate]. rewrite app_nil_r in E1. auto.
Qed.

Corollary top_covers_all o : leading o -> covers top o = true.
Proof. intros (o0 & ->). unfold covers, top. cbn. rewrite ?N.eqb_refl. reflexivity. Qed.

Corollary textual_prefix_not_covered c x r :
  c <> top -> covers c (c ++ x :: r) = true -> x = sep.
Proof.
  unfold covers. rewrite andb_true_iff, !orb_true_iff. intros Hc [_ [[H|H]|H]].
  - apply str_eqb_eq in H. congruence.
  - apply Nat.eqb_eq in H. rewrite app_length in H. cbn in H. lia.
  - apply N.eqb_eq in H. rewrite app_nth2, Nat.sub_diag in H by lia. exact H.
Qed.

(* ---- Parse ---- *)
Lemma in_ranges_iff r t : in_ranges r t = true <-> exists lo hi, In (lo, hi) t /\ lo <= r <= hi.
Proof.
  unfold in_ranges. rewrite existsb_exists. split.
  - intros ([lo hi] & Hin & H). apply andb_true_iff in H as [H1 H2]. apply N.leb_le in H1, H2. exists lo, hi. auto.
  - intros (lo & hi & Hin & H1 & H2). exists (lo, hi). split; [exact Hin|]. cbn [fst snd].
    apply andb_true_iff. split; apply N.leb_le; assumption.
Qed.

Lemma lower_fixed_iff s : lower_fixed s = true <-> no_upper s.
Proof.
  unfold lower_fixed, no_upper, lower_changed. destruct (runes s) as [rs|].
  - rewrite forallb_forall. split.
    + intros H. exists rs. split; [reflexivity|]. apply Forall_forall. intros r Hr Hc.
      specialize (H r Hr). apply negb_true_iff in H. apply in_ranges_iff in Hc. congruence.
    + intros (rs' & [= <-] & H) r Hr. rewrite Forall_forall in H. specialize (H r Hr).
      apply negb_true_iff. destruct (in_ranges r lower_changes) eqn:E; [|reflexivity].
      apply in_ranges_iff in E. contradiction.
  - split; [discriminate|]. intros (rs & H & _). discriminate.
Qed.

(* on ASCII text the test is the familiar one *)
Lemma ascii_table : forallb (fun c => Bool.eqb (in_ranges c lower_changes) ((65 <=? c) && (c <=? 90))) (map N.of_nat (seq 0 128)) = true.
Proof. vm_compute. reflexivity. Qed.

Lemma ascii_changed c : c < 128 -> in_ranges c lower_changes = ((65 <=? c) && (c <=? 90)).
Proof.
  intros Hc. pose proof ascii_table as H. rewrite forallb_forall in H.
  specialize (H c). apply eqb_prop. apply H. apply in_map_iff. exists (N.to_nat c). split; [lia|].
  apply in_seq. lia.
Qed.

Lemma runes_f_ascii s : Forall (fun c => c < 128) s -> forall f, (length s < f)%nat -> runes_f f s = Some s.
Proof.
  induction 1 as [|c s Hc Hs IH]; intros f Hf; (destruct f as [|f]; [cbn in Hf; lia|]); cbn [runes_f]; [reflexivity|].
  unfold decode1. destruct (N.ltb_spec c 128); [|lia]. rewrite IH by (cbn in Hf; lia). reflexivity.
Qed.

Theorem no_upper_ascii s : Forall (fun c => c < 128) s -> (no_upper s <-> Forall (fun c => ~ (65 <= c <= 90)) s).
Proof.
  intros Ha. rewrite <- lower_fixed_iff. unfold lower_fixed, runes. rewrite (runes_f_ascii s Ha) by lia.
  rewrite forallb_forall, Forall_forall. rewrite Forall_forall in Ha.
  split; intros H c Hc; specialize (H c Hc); specialize (Ha c Hc); rewrite (ascii_changed c Ha) in *.
  - apply negb_true_iff, andb_false_iff in H. rewrite !N.leb_gt in H. lia.
  - apply negb_true_iff, andb_false_iff. rewrite !N.leb_gt. lia.
Qed.

Theorem parse_exact s s' : parse s = Ok s' <-> valid s /\ s' = s.
Proof.
  unfold parse, valid, leading, no_trailing, top.
  destruct (has_prefix [sep] s) eqn:Hp; cbn [negb].
  2:{ split; [discriminate|]. intros [[(s0 & ->) _] _]. cbn in Hp. rewrite ?N.eqb_refl in Hp. discriminate. }
  apply has_prefix_app in Hp as (s0 & ->). cbn [app].
  destruct ((1 <? length (sep :: s0))%nat && (last (sep :: s0) 0 =? sep)) eqn:Ht.
  - split; [discriminate|]. intros [(_ & [E|E] & _) _].
    + injection E as ->. cbn in Ht. discriminate.
    + apply andb_true_iff in Ht as [_ Ht]. apply N.eqb_eq in Ht. contradiction.
  - destruct (lower_fixed (sep :: s0)) eqn:El; cbn [negb].
    + apply lower_fixed_iff in El.
      split.
      * intros [= <-]. repeat split; eauto.
        apply andb_false_iff in Ht as [Ht|Ht].
        -- left. apply Nat.ltb_ge in Ht. cbn in Ht. destruct s0; [reflexivity|cbn in Ht; lia].
        -- right. apply N.eqb_neq in Ht. exact Ht.
      * intros [_ ->]. reflexivity.
    + split; [discriminate|]. intros [(_ & _ & Hu) _]. apply lower_fixed_iff in Hu.
      rewrite Hu in El. discriminate.
Qed.

(* ---- Join ---- *)
Lemma split_no_sep g : ~ In sep g -> split g = [g].
Proof.
  induction g as [|c g IH]; cbn [split]; [reflexivity|]. intros H.
  destruct (c =? sep) eqn:E; [apply N.eqb_eq in E; subst; exfalso; apply H; left; reflexivity|].
  rewrite IH by (intros Hi; apply H; right; exact Hi). reflexivity.
Qed.

Lemma split_app_seg a g : ~ In sep g -> split (a ++ sep :: g) = split a ++ [g].
Proof. intros H. rewrite split_app_sep, (split_no_sep g) by exact H. reflexivity. Qed.

(* one step of Join from a valid non-top buffer, and from top *)
Lemma join_step_top g : good_seg g -> join_step top g = sep :: g.
Proof. intros [Hne _]. unfold join_step, top. destruct g; [congruence|reflexivity]. Qed.

Lemma join_step_nontop b g : good_seg g -> (1 < length b)%nat -> join_step b g = b ++ sep :: g.
Proof.
  intros [Hne _] Hl. unfold join_step. destruct g as [|x g]; [congruence|].
  apply Nat.ltb_lt in Hl. rewrite Hl. rewrite <- app_assoc. reflexivity.
Qed.

Lemma segments_cons_nontop s0 : s0 <> [] -> segments (sep :: s0) = split s0.
Proof.
  intros H. unfold segments, top. destruct (str_eqb (sep :: s0) [sep]) eqn:E.
  - apply str_eqb_eq in E. injection E as ->. congruence.
  - apply tl_split_sep.
Qed.

Lemma fold_join_nontop segs : forall b0, b0 <> [] -> Forall good_seg segs ->
  segments (fold_left join_step segs (sep :: b0)) = segments (sep :: b0) ++ segs.
Proof.
  induction segs as [|g segs IH]; intros b0 Hb Hs; cbn [fold_left].
  - rewrite app_nil_r. reflexivity.
  - inversion Hs as [|? ? Hg Hs']; subst.
    rewrite join_step_nontop; [| exact Hg | destruct b0; [congruence|cbn; lia]].
    change ((sep :: b0) ++ sep :: g) with (sep :: (b0 ++ sep :: g)).
    rewrite IH; [| destruct b0; discriminate | exact Hs'].
    rewrite !segments_cons_nontop; [| exact Hb | destruct b0; discriminate].
    rewrite split_app_seg by (apply Hg). rewrite <- app_assoc. reflexivity.
Qed.

Theorem join_segments c segs : leading c -> Forall good_seg segs ->
  segments (join_cmd c segs) = segments c ++ segs.
Proof.
  intros (c0 & ->) Hs. unfold join_cmd.
  destruct (fold_right (fun s a => length s + a) 0 segs =? 0)%nat eqn:E.
  - apply Nat.eqb_eq in E. destruct segs as [|g segs]; [rewrite app_nil_r; reflexivity|].
    inversion Hs as [|? ? [Hg _] _]; subst. destruct g; [congruence|]. cbn in E. lia.
  - destruct c0 as [|x c0].
    + (* top *)
      destruct segs as [|g segs]; [cbn in E; discriminate|].
      inversion Hs as [|? ? Hg Hs']; subst. cbn [fold_left].
      change [sep] with top. rewrite join_step_top by exact Hg.
      rewrite fold_join_nontop by (auto; apply Hg).
      rewrite segments_cons_nontop by apply Hg. rewrite split_no_sep by apply Hg. reflexivity.
    + apply fold_join_nontop; [discriminate|exact Hs].
Qed.
