(* C20 - Tokens are immutable: read-only use is race-free and repeatable.
   PARTIAL: the theorems are about the access-trace model of Conc.v. That the Go code's memory accesses are
   the ones the model lists is what the conc engine checks (state snapshots around every operation,
   sequential vs concurrent results, and the Go race detector on the harness built with -race). *)
Require Import Base Conc ConcProofs SliceHeap SliceHeapProofs.
Local Open Scope N_scope.

Theorem C20_readonly_operations_do_not_write : forall o s,
  fst (fst (run_op o s)) = s /\ existsb is_write (snd (fst (run_op o s))) = false.
Proof. exact readonly_no_writes. Qed.
Print Assumptions C20_readonly_operations_do_not_write.

Theorem C20_every_interleaving_is_race_free : forall s threads, ~ racy s threads.
Proof. exact readonly_race_free. Qed.
Print Assumptions C20_every_interleaving_is_race_free.

Theorem C20_results_independent_of_interleaving : forall s steps,
  exec s steps = map (fun st => snd (run_op (snd st) s)) steps.
Proof. exact results_independent_of_schedule. Qed.
Print Assumptions C20_results_independent_of_interleaving.

(* ---- why a writeable clone is private memory (Conc.v takes it as given for the two operations that add to a clone):
   Go slices over a heap of backing arrays (SliceHeap.v). Args.Clone / Meta.Clone allocate an array of exactly the visible
   length and copy; Add appends, in place when the clone has room, into a fresh array otherwise. For EVERY interleaving of
   goroutines that clone the token's key slice and append to their own clone, nothing that existed before is written - the
   token's array included, its spare capacity included - and each goroutine's clone holds the token's keys followed by
   exactly what that goroutine appended. The snapshots of the conc engine (unused capacity included) observe the same on
   the code. ---- *)
Theorem C20_clones_are_private : forall h0 tok, wf_slice h0 tok -> forall steps,
  let st := run go_clone tok (init h0) steps in
  (forall a, (a < length h0)%nat -> cells (st_heap st) a = cells h0 a) /\
  view (st_heap st) tok = view h0 tok /\
  (forall tid, match ghost steps tid with
               | Some l => exists c, st_local st tid = Some c /\ view (st_heap st) c = view h0 tok ++ l
               | None => st_local st tid = None
               end).
Proof. exact clones_are_private. Qed.
Print Assumptions C20_clones_are_private.

(* the variant that several seeded changes introduce (the clone keeps the array when it has room) is refuted by a
   two-goroutine interleaving: the second goroutine's key appears in the first one's clone *)
Theorem C20_shared_capacity_clone_refuted :
  let st := run bad_clone ex_tok (init ex_heap) [(0%nat, AClone); (1%nat, AClone); (0%nat, AAppend [97]); (1%nat, AAppend [98])] in
  match st_local st 0%nat with Some c => view (st_heap st) c = [[107]; [98]] | None => False end.
Proof. exact shared_capacity_clone_refuted. Qed.
Print Assumptions C20_shared_capacity_clone_refuted.
