From Coq Require Import Permutation.
Require Import Base Node Policy PolicyIpld Token CanonProofs Args.
From Coq Require Import ZifyBool ZifyNat ZifyN.
Local Open Scope N_scope.

Lemma has_key_map_get k a : has_key k a = false <-> map_get k a = None.
Proof. unfold has_key. destruct (map_get k a); split; congruence. Qed.

Lemma map_get_none_in k a : map_get k a = None <-> ~ In k (map fst a).
Proof.
  induction a as [|[k' v] r IH]; cbn [map_get map fst In]; [tauto|].
  destruct (str_eqb k k') eqn:E.
  - apply str_eqb_eq in E. subst k'. split; [discriminate|tauto].
  - rewrite IH. split; [|tauto]. intros H [->|Hin]; [rewrite str_eqb_refl in E; discriminate|tauto].
Qed.

Lemma has_key_in k a : has_key k a = true <-> In k (map fst a).
Proof.
  destruct (has_key k a) eqn:E.
  - split; [|reflexivity]. intros _. destruct (in_dec (list_eq_dec N.eq_dec) k (map fst a)) as [H|H]; [exact H|].
    apply map_get_none_in in H. apply has_key_map_get in H. congruence.
  - split; [discriminate|]. intros H. apply has_key_map_get, map_get_none_in in E. contradiction.
Qed.

Lemma map_get_app_none k a b : map_get k a = None -> map_get k (a ++ b) = map_get k b.
Proof. induction a as [|[k' v] r IH]; cbn [app map_get]; [reflexivity|]. destruct (str_eqb k k'); [discriminate|exact IH]. Qed.
Lemma map_get_app_some k a b v : map_get k a = Some v -> map_get k (a ++ b) = Some v.
Proof. induction a as [|[k' w] r IH]; cbn [app map_get]; [discriminate|]. destruct (str_eqb k k'); [auto|exact IH]. Qed.

Lemma NoDup_app_one {A} (l : list A) x : NoDup l -> ~ In x l -> NoDup (l ++ [x]).
Proof.
  induction l as [|y l IH]; intros Hn Hx; cbn [app]; [constructor; [intros []|constructor]|].
  inversion Hn as [|? ? Hy Hl]; subst. constructor.
  - rewrite in_app_iff. intros [H|[->|[]]]; [contradiction|]. apply Hx. left. reflexivity.
  - apply IH; [exact Hl|]. intros H. apply Hx. right. exact H.
Qed.

(* ---- Add: stored exactly, or rejected; nothing else changes ---- *)
Theorem add_stores_exactly ci a k v a' : NoDup (map fst a) -> c_add ci a k v = Ok a' ->
  NoDup (map fst a') /\ map_get k a' = Some v /\ (forall k', k' <> k -> map_get k' a' = map_get k' a) /\
  map fst a' = map fst a ++ [k] /\ (ci = true -> ints_in53 v = true).
Proof.
  intros Hn. unfold c_add. destruct (has_key k a) eqn:Hk; [discriminate|].
  destruct (ci && negb (ints_in53 v)) eqn:Hi; [discriminate|]. intros [= <-].
  assert (Hnk : ~ In k (map fst a)) by (intros Hin; apply has_key_in in Hin; congruence).
  apply has_key_map_get in Hk. repeat split.
  - rewrite map_app. cbn [map fst]. apply NoDup_app_one; assumption.
  - rewrite (map_get_app_none k a _ Hk). cbn [map_get]. rewrite str_eqb_refl. reflexivity.
  - intros k' Hne. destruct (map_get k' a) as [w|] eqn:E.
    + apply map_get_app_some. exact E.
    + rewrite (map_get_app_none k' a _ E). cbn [map_get].
      destruct (str_eqb k' k) eqn:E2; [apply str_eqb_eq in E2; contradiction|reflexivity].
  - rewrite map_app. reflexivity.
  - intros ->. cbn [andb] in Hi. apply negb_false_iff in Hi. exact Hi.
Qed.

Theorem add_rejects_duplicate ci a k v : has_key k a = true -> c_add ci a k v = Err 1.
Proof. intros H. unfold c_add. rewrite H. reflexivity. Qed.

Theorem add_rejects_unsafe_integers a k v : has_key k a = false -> ints_in53 v = false -> c_add true a k v = Err 2.
Proof. intros H1 H2. unfold c_add. rewrite H1, H2. reflexivity. Qed.

(* ---- Include: the first value of every key wins, keys stay distinct, order = old keys then new ones ---- *)
Lemma include_step acc kv :
  NoDup (map fst acc) ->
  let acc' := if has_key (fst kv) acc then acc else acc ++ [kv] in
  NoDup (map fst acc') /\
  (forall k, map_get k acc' = match map_get k acc with Some v => Some v | None => if str_eqb k (fst kv) then Some (snd kv) else None end).
Proof.
  intros Hn. destruct kv as [k0 v0]. cbn [fst snd]. destruct (has_key k0 acc) eqn:Hk; cbv zeta.
  - split; [exact Hn|]. intros k. destruct (map_get k acc) eqn:E; [reflexivity|].
    destruct (str_eqb k k0) eqn:E2; [|reflexivity]. apply str_eqb_eq in E2. subst k0.
    apply has_key_map_get in E. congruence.
  - assert (Hnk : ~ In k0 (map fst acc)) by (intros Hin; apply has_key_in in Hin; congruence).
    split; [rewrite map_app; cbn [map fst]; apply NoDup_app_one; assumption|].
    intros k. destruct (map_get k acc) as [w|] eqn:E.
    + apply map_get_app_some. exact E.
    + rewrite (map_get_app_none k acc _ E). cbn [map_get]. reflexivity.
Qed.

Theorem include_first_wins other : forall a, NoDup (map fst a) ->
  NoDup (map fst (c_include a other)) /\
  (forall k, map_get k (c_include a other) = match map_get k a with Some v => Some v | None => map_get k other end).
Proof.
  unfold c_include. induction other as [|kv r IH]; intros a Hn; cbn [fold_left].
  - split; [exact Hn|]. intros k. destruct (map_get k a); reflexivity.
  - destruct (include_step a kv Hn) as [Hn' Hg]. cbv zeta in Hn', Hg.
    destruct (IH _ Hn') as [Hn'' Hg']. split; [exact Hn''|].
    intros k. rewrite Hg', Hg. destruct kv as [k0 v0]. cbn [fst snd map_get].
    destruct (map_get k a); [reflexivity|]. destruct (str_eqb k k0); reflexivity.
Qed.

(* ---- ToIPLD: the same entries, sorted by key; Clone is the identity on the model (a copy) ---- *)
Lemma ins_key_perm e l : Permutation (ins_key e l) (e :: l).
Proof.
  induction l as [|x l IH]; cbn [ins_key]; [reflexivity|]. destruct (str_ltb (fst e) (fst x)); [reflexivity|].
  rewrite IH. apply perm_swap.
Qed.
Theorem sorted_is_permutation a : Permutation (c_sorted a) a.
Proof. unfold c_sorted. induction a as [|e a IH]; cbn [fold_right]; [reflexivity|]. rewrite ins_key_perm, IH. reflexivity. Qed.

Theorem to_ipld_keeps_every_entry a k : NoDup (map fst a) -> map_get k (c_sorted a) = map_get k a.
Proof. intros Hn. apply map_get_perm; [exact Hn|symmetry; apply sorted_is_permutation]. Qed.

(* ---- the arguments an invocation ends up with: distinct keys, and for every key the value of the first
   option that mentions it (a second WithArgument on a key is an error; a WithArguments never overwrites) ---- *)
Definition opt_get (k : str) (o : aopt) : option node :=
  match o with OArg k' v => if str_eqb k k' then Some v else None | OArgs other => map_get k other end.
Fixpoint first_get (k : str) (os : list aopt) : option node :=
  match os with [] => None | o :: r => match opt_get k o with Some v => Some v | None => first_get k r end end.

Theorem options_first_value_wins os : forall a a', NoDup (map fst a) -> apply_aopts a os = Ok a' ->
  NoDup (map fst a') /\ forall k, map_get k a' = match map_get k a with Some v => Some v | None => first_get k os end.
Proof.
  induction os as [|o r IH]; intros a a' Hn H; cbn [apply_aopts] in H.
  - injection H as <-. split; [exact Hn|]. intros k. destruct (map_get k a); reflexivity.
  - destruct (apply_aopt a o) as [a1|e|] eqn:E; try discriminate.
    assert (H1 : NoDup (map fst a1) /\ forall k, map_get k a1 = match map_get k a with Some v => Some v | None => opt_get k o end).
    { destruct o as [k0 v0|other]; cbn [apply_aopt] in E.
      - destruct (add_stores_exactly true a k0 v0 a1 Hn E) as (Hn1 & Hk & Hoth & _ & _). split; [exact Hn1|].
        intros k. cbn [opt_get]. destruct (str_eqb k k0) eqn:Ek.
        + apply str_eqb_eq in Ek. subst k0. rewrite Hk.
          unfold c_add in E. destruct (has_key k a) eqn:Hh; [discriminate|]. apply has_key_map_get in Hh. rewrite Hh. reflexivity.
        + rewrite Hoth by (intros ->; rewrite str_eqb_refl in Ek; discriminate). destruct (map_get k a); reflexivity.
      - injection E as <-. apply include_first_wins. exact Hn. }
    destruct H1 as [Hn1 Hg1]. destruct (IH a1 a' Hn1 H) as [Hn' Hg']. split; [exact Hn'|].
    intros k. rewrite Hg', Hg1. cbn [first_get]. destruct (map_get k a); [reflexivity|]. destruct (opt_get k o); reflexivity.
Qed.

(* ---- what the options leave behind is what the invocation constructor's theorems ask of the arguments ---- *)
Definition vals_ok (a : cont) : bool := forallb (fun kv => ints_in53 (snd kv)) a.
Definition aopt_ok (o : aopt) : bool := match o with OArg _ _ => true | OArgs other => vals_ok other end.

Lemma vals_ok_app a b : vals_ok (a ++ b) = vals_ok a && vals_ok b.
Proof. unfold vals_ok. apply forallb_app. Qed.

Lemma include_vals_ok other : forall a, vals_ok a = true -> vals_ok other = true -> vals_ok (c_include a other) = true.
Proof.
  unfold c_include. induction other as [|kv r IH]; intros a Ha Ho; cbn [fold_left]; [exact Ha|].
  cbn [vals_ok forallb] in Ho. apply andb_true_iff in Ho as [Hk Hr]. apply IH; [|exact Hr].
  destruct (has_key (fst kv) a); [exact Ha|]. rewrite vals_ok_app, Ha. cbn. rewrite Hk. reflexivity.
Qed.

Theorem options_leave_valid_arguments os : forall a a', NoDup (map fst a) -> vals_ok a = true ->
  forallb aopt_ok os = true -> apply_aopts a os = Ok a' ->
  keys_nodup a' = true /\ vals_ok a' = true.
Proof.
  induction os as [|o r IH]; intros a a' Hn Hv Ho H; cbn [apply_aopts] in H.
  - injection H as <-. split; [apply keys_nodup_iff; exact Hn|exact Hv].
  - cbn [forallb] in Ho. apply andb_true_iff in Ho as [Ho1 Hor].
    destruct (apply_aopt a o) as [a1|e|] eqn:E; try discriminate.
    assert (H1 : NoDup (map fst a1) /\ vals_ok a1 = true).
    { destruct o as [k0 v0|other]; cbn [apply_aopt] in E.
      - destruct (add_stores_exactly true a k0 v0 a1 Hn E) as (Hn1 & _ & _ & _ & Hi). split; [exact Hn1|].
        unfold c_add in E. destruct (has_key k0 a); [discriminate|]. destruct (true && negb (ints_in53 v0)); [discriminate|].
        injection E as <-. rewrite vals_ok_app, Hv. cbn. rewrite (Hi eq_refl). reflexivity.
      - injection E as <-. split; [apply include_first_wins; exact Hn|apply include_vals_ok; assumption]. }
    destruct H1 as [Hn1 Hv1]. exact (IH a1 a' Hn1 Hv1 Hor H).
Qed.
