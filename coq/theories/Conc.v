(* Access-trace model of the read-only operations on a token (C20).
   A token's mutable-looking state is the key order of its argument and metadata containers; the values
   are immutable IPLD nodes. Every public read-only operation is rendered as the list of its accesses
   to named locations, transcribed from pkg/args/args.go, pkg/meta/meta.go, token/*/{ipld,*.go},
   token/invocation/proof.go. *)
Require Import Base.
Local Open Scope N_scope.

Inductive loc := LArgsKeys | LArgsValues | LMetaKeys | LMetaValues | LFields | LPolicy.
Inductive event := Rd (l : loc) | Wr (l : loc).

Record tstate := { args_keys : list str; meta_keys : list str }.

Inductive op :=
| OArgsToIPLD | OArgsString | OArgsIter | OArgsEquals | OArgsGetNode
| OMetaString | OMetaIter | OMetaGet | OMetaEquals
| OAccessors | OIsValid | OExecutionAllowed | OSeal | OEncodeJson | OPolicyString | OPolicyMatch
| OExecutionAllowedHookAdds (extra : str)
| OCloneAdds (extra : str).                  (* WriteableClone of the metadata / arguments, then Add on the clone *)   (* the hook adds a key to its own writeable clone of the arguments *)

Fixpoint insert_sorted (k : str) (l : list str) : list str :=
  match l with [] => [k] | x :: r => if str_ltb k x then k :: l else x :: insert_sorted k r end.
Definition sort_keys (l : list str) : list str := fold_right insert_sorted [] l.

(* result of an operation, as far as the key order can influence it *)
Inductive oresult := RKeys (l : list str) | RUnit.

(* each operation: new state, accesses, result. Sorting happens on a private copy. *)
Definition run_op (o : op) (s : tstate) : tstate * list event * oresult :=
  match o with
  | OArgsToIPLD | OArgsString => (s, [Rd LArgsKeys; Rd LArgsValues], RKeys (sort_keys (args_keys s)))
  | OArgsIter => (s, [Rd LArgsKeys; Rd LArgsValues], RKeys (args_keys s))
  | OArgsEquals | OArgsGetNode => (s, [Rd LArgsKeys; Rd LArgsValues], RUnit)
  | OMetaString => (s, [Rd LMetaKeys; Rd LMetaValues], RKeys (sort_keys (meta_keys s)))
  | OMetaIter => (s, [Rd LMetaKeys; Rd LMetaValues], RKeys (meta_keys s))
  | OMetaGet | OMetaEquals => (s, [Rd LMetaKeys; Rd LMetaValues], RUnit)
  | OAccessors | OIsValid => (s, [Rd LFields], RUnit)
  | OExecutionAllowed => (s, [Rd LFields; Rd LPolicy; Rd LArgsKeys; Rd LArgsValues], RKeys (sort_keys (args_keys s)))
  | OSeal | OEncodeJson => (s, [Rd LFields; Rd LPolicy; Rd LArgsKeys; Rd LArgsValues; Rd LMetaKeys; Rd LMetaValues], RUnit)
  | OPolicyString | OPolicyMatch => (s, [Rd LPolicy], RUnit)
  | OExecutionAllowedHookAdds extra =>
      (* the clone is private memory: no access to a shared location but reads; it holds the token's keys and the new one *)
      (s, [Rd LFields; Rd LPolicy; Rd LArgsKeys; Rd LArgsValues], RKeys (args_keys s ++ [extra]))
  | OCloneAdds extra => (s, [Rd LMetaKeys; Rd LMetaValues; Rd LArgsKeys; Rd LArgsValues], RKeys (meta_keys s ++ [extra]))
  end.

Definition is_write (e : event) : bool := match e with Wr _ => true | Rd _ => false end.
Definition ev_loc (e : event) : loc := match e with Rd l | Wr l => l end.
Definition loc_eqb (a b : loc) : bool :=
  match a, b with
  | LArgsKeys, LArgsKeys | LArgsValues, LArgsValues | LMetaKeys, LMetaKeys
  | LMetaValues, LMetaValues | LFields, LFields | LPolicy, LPolicy => true
  | _, _ => false
  end.
Definition conflict (a b : event) : bool := loc_eqb (ev_loc a) (ev_loc b) && (is_write a || is_write b).

(* threads run lists of operations with no synchronisation between them: any two accesses of different
   threads are concurrent, so there is a data race iff two different threads have conflicting accesses *)
Definition thread_events (s : tstate) (ops : list op) : list event := flat_map (fun o => snd (fst (run_op o s))) ops.

Definition racy (s : tstate) (threads : list (list op)) : Prop :=
  exists i j t1 t2 e1 e2, i <> j /\ nth_error threads i = Some t1 /\ nth_error threads j = Some t2 /\
    In e1 (thread_events s t1) /\ In e2 (thread_events s t2) /\ conflict e1 e2 = true.

(* an interleaving: a sequence of (thread index, operation) steps executed one after the other on the
   shared state; its observable: the result of each step *)
Fixpoint exec (s : tstate) (steps : list (nat * op)) : list oresult :=
  match steps with
  | [] => []
  | (_, o) :: r => let '(s', _, res) := run_op o s in res :: exec s' r
  end.
