(* IPLD data model and the line-oriented wire format used between the Go harness and the
   extracted oracle.  The wire parser/printer live in Coq so that the only hand-written OCaml
   is byte <-> N conversion. *)
Require Import Base.
Local Open Scope N_scope.

Inductive node : Type :=
| Null
| Bool (b : bool)
| Int (z : Z)              (* -2^63 .. 2^64-1 on the Go side *)
| Float (bits : N)         (* IEEE-754 binary64 bit pattern *)
| Str (s : str)
| Bytes (b : str)
| List (l : list node)
| Map (m : list (str * node))   (* wire / insertion order *)
| Link (c : str).               (* binary CID *)

Section NodeInd.
  Variable P : node -> Prop.
  Hypothesis HNull : P Null.
  Hypothesis HBool : forall b, P (Bool b).
  Hypothesis HInt : forall z, P (Int z).
  Hypothesis HFloat : forall f, P (Float f).
  Hypothesis HStr : forall s, P (Str s).
  Hypothesis HBytes : forall s, P (Bytes s).
  Hypothesis HList : forall l, Forall P l -> P (List l).
  Hypothesis HMap : forall m, Forall (fun kv => P (snd kv)) m -> P (Map m).
  Hypothesis HLink : forall c, P (Link c).

  Fixpoint node_ind' (n : node) : P n :=
    match n with
    | Null => HNull | Bool b => HBool b | Int z => HInt z | Float f => HFloat f
    | Str s => HStr s | Bytes s => HBytes s | Link c => HLink c
    | List l => HList l ((fix go (l : list node) : Forall P l :=
                            match l with [] => Forall_nil _ | x :: r => Forall_cons _ (node_ind' x) (go r) end) l)
    | Map m => HMap m ((fix go (m : list (str * node)) : Forall (fun kv => P (snd kv)) m :=
                          match m with [] => Forall_nil _ | kv :: r => Forall_cons _ (node_ind' (snd kv)) (go r) end) m)
    end.
End NodeInd.

Fixpoint node_size (n : node) : nat :=
  match n with
  | List l => S (fold_right (fun x a => node_size x + a)%nat 0%nat l)
  | Map m => S (fold_right (fun kv a => node_size (snd kv) + a)%nat 0%nat m)
  | _ => 1%nat
  end.

(* ---- structural equality (used by canonical comparisons in the oracle only) ---- *)
Fixpoint node_eqb (a b : node) : bool :=
  match a, b with
  | Null, Null => true
  | Bool x, Bool y => Bool.eqb x y
  | Int x, Int y => (x =? y)%Z
  | Float x, Float y => x =? y
  | Str x, Str y => str_eqb x y
  | Bytes x, Bytes y => str_eqb x y
  | Link x, Link y => str_eqb x y
  | List x, List y =>
      (fix go (x y : list node) : bool :=
         match x, y with
         | [], [] => true
         | p :: x', q :: y' => node_eqb p q && go x' y'
         | _, _ => false
         end) x y
  | Map x, Map y =>
      (fix go (x y : list (str * node)) : bool :=
         match x, y with
         | [], [] => true
         | (k, p) :: x', (k', q) :: y' => str_eqb k k' && node_eqb p q && go x' y'
         | _, _ => false
         end) x y
  | _, _ => false
  end.

(* ---- wire format ----
   n | t | f | i[-]HEX; | dHEX; | sHEX; | bHEX; | cHEX; | [ items ] | { sHEX; value ... }
   HEX of s/b/c is two digits per byte; HEX of i/d is a big-endian number. *)

Definition hex_digit (d : N) : N := if d <? 10 then 48 + d else 87 + d.   (* 0-9a-f *)

Definition hex_val (c : N) : option N :=
  if (48 <=? c) && (c <=? 57) then Some (c - 48)
  else if (97 <=? c) && (c <=? 102) then Some (c - 87)
  else None.

Fixpoint hex_of_pos_aux (fuel : nat) (n : N) (acc : str) : str :=
  match fuel with
  | O => acc
  | S f => if n =? 0 then acc else hex_of_pos_aux f (n / 16) (hex_digit (n mod 16) :: acc)
  end.
Definition hex_of_N (n : N) : str :=
  if n =? 0 then [48] else hex_of_pos_aux (S (N.size_nat n)) n [].

Definition hex_of_bytes (b : str) : str :=
  flat_map (fun x => [hex_digit (x / 16); hex_digit (x mod 16)]) b.

Definition c_semi : N := 59.

Fixpoint print_node (n : node) : str :=
  match n with
  | Null => [110]
  | Bool true => [116]
  | Bool false => [102]
  | Int z => 105 :: (match z with Zneg p => 45 :: hex_of_N (Npos p) | _ => hex_of_N (Z.to_N z) end) ++ [c_semi]
  | Float b => 100 :: hex_of_N b ++ [c_semi]
  | Str s => 115 :: hex_of_bytes s ++ [c_semi]
  | Bytes s => 98 :: hex_of_bytes s ++ [c_semi]
  | Link s => 99 :: hex_of_bytes s ++ [c_semi]
  | List l => 91 :: flat_map print_node l ++ [93]
  | Map m => 123 :: flat_map (fun kv => (115 :: hex_of_bytes (fst kv) ++ [c_semi]) ++ print_node (snd kv)) m ++ [125]
  end.

(* number up to ';' *)
Fixpoint parse_hexnum (s : str) (acc : N) : option (N * str) :=
  match s with
  | [] => None
  | c :: r => if c =? c_semi then Some (acc, r)
              else match hex_val c with Some d => parse_hexnum r (acc * 16 + d) | None => None end
  end.

Fixpoint parse_hexbytes (s : str) (acc : str) : option (str * str) :=
  match s with
  | [] => None
  | c :: r =>
      if c =? c_semi then Some (rev acc, r)
      else match r with
           | [] => None
           | c2 :: r2 => match hex_val c, hex_val c2 with
                         | Some h, Some l => parse_hexbytes r2 ((h * 16 + l) :: acc)
                         | _, _ => None
                         end
           end
  end.

Fixpoint parse_node (fuel : nat) (s : str) : option (node * str) :=
  match fuel with
  | O => None
  | S f =>
    match s with
    | [] => None
    | c :: r =>
      if c =? 110 then Some (Null, r)
      else if c =? 116 then Some (Bool true, r)
      else if c =? 102 then Some (Bool false, r)
      else if c =? 105 then
        match r with
        | 45 :: r' => match parse_hexnum r' 0 with Some (n, r'') => Some (Int (- Z.of_N n), r'') | None => None end
        | _ => match parse_hexnum r 0 with Some (n, r'') => Some (Int (Z.of_N n), r'') | None => None end
        end
      else if c =? 100 then match parse_hexnum r 0 with Some (n, r') => Some (Float n, r') | None => None end
      else if c =? 115 then match parse_hexbytes r [] with Some (b, r') => Some (Str b, r') | None => None end
      else if c =? 98 then match parse_hexbytes r [] with Some (b, r') => Some (Bytes b, r') | None => None end
      else if c =? 99 then match parse_hexbytes r [] with Some (b, r') => Some (Link b, r') | None => None end
      else if c =? 91 then
        (fix items (g : nat) (s : str) (acc : list node) : option (node * str) :=
           match g with
           | O => None
           | S g' =>
             match s with
             | 93 :: r' => Some (List (rev acc), r')
             | _ => match parse_node f s with
                    | Some (x, r') => items g' r' (x :: acc)
                    | None => None
                    end
             end
           end) f r []
      else if c =? 123 then
        (fix entries (g : nat) (s : str) (acc : list (str * node)) : option (node * str) :=
           match g with
           | O => None
           | S g' =>
             match s with
             | 125 :: r' => Some (Map (rev acc), r')
             | 115 :: r' =>
                 match parse_hexbytes r' [] with
                 | Some (k, r'') => match parse_node f r'' with
                                    | Some (x, r3) => entries g' r3 ((k, x) :: acc)
                                    | None => None
                                    end
                 | None => None
                 end
             | _ => None
             end
           end) f r []
      else None
    end
  end.

Definition parse_wire (s : str) : option node :=
  match parse_node (S (length s)) s with
  | Some (n, []) => Some n
  | _ => None
  end.

(* accessors used by the oracle glue *)
Fixpoint map_get (k : str) (m : list (str * node)) : option node :=
  match m with
  | [] => None
  | (k', v) :: r => if str_eqb k k' then Some v else map_get k r
  end.

Definition node_kind (n : node) : N :=
  match n with
  | Null => 0 | Bool _ => 1 | Int _ => 2 | Float _ => 3 | Str _ => 4
  | Bytes _ => 5 | List _ => 6 | Map _ => 7 | Link _ => 8
  end.
