(* C05 - Every chain that satisfies the delegation rules is accepted. *)
Require Import Base Node Command Selector Policy Chain ChainProofs.
Local Open Scope Z_scope.

(* [spec_allowed] is the conjunction of the rules of C01-C04 (Chain.v); metadata, nonce, cause and
   issue time are not part of the authorization model at all, the audience is shown irrelevant. *)
Theorem C05_conforming_chain_is_allowed : forall now ld i ds aud,
  spec_allowed now ld i (i_args i) ds -> allowed now ld (set_irrelevant aud i) = true.
Proof. exact conforming_allowed. Qed.
Print Assumptions C05_conforming_chain_is_allowed.

Theorem C05_rules_complete_with_hook_arguments : forall now ld i a ds,
  spec_allowed now ld i a ds -> allowed_with now ld i a = true.
Proof. exact allowed_with_complete. Qed.
Print Assumptions C05_rules_complete_with_hook_arguments.
