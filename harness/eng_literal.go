package main

// literal.Any on Go values of every kind it looks at, compared with Literal.v (cases of the args engine, tag lit/*).

import (
	"math"

	"github.com/ipfs/go-cid"
	"github.com/ipld/go-ipld-prime/datamodel"
	"github.com/ipld/go-ipld-prime/node/basicnode"

	"github.com/ucan-wg/go-ucan/pkg/policy/literal"
)

type namedBytes []byte
type namedString string
type namedInt int32

// a Go value together with its description for the model
type gv struct {
	v any
	d W
}

func gtag(tag string, p W) W { return WList(WStr(tag), p) }

func litObs(v any) W {
	return safe(func() W {
		n, err := literal.Any(v)
		if err != nil {
			return WErr()
		}
		return WOk(WNode(n))
	})
}

func litScalars() []gv {
	var out []gv
	add := func(v any, d W) { out = append(out, gv{v, d}) }
	add(true, gtag("bool", WBool(true)))
	add(false, gtag("bool", WBool(false)))
	for _, s := range []string{"", "a", "héllo", "\xff"} {
		add(s, gtag("str", WStr(s)))
	}
	add(namedString("ns"), gtag("str", WStr("ns")))
	for _, z := range []int64{0, 1, -1, 127, -128, math.MaxInt32, math.MinInt32, 9007199254740991, -9007199254740991, 9007199254740992, -9007199254740992, math.MaxInt64, math.MinInt64} {
		add(z, gtag("int", WInt(z)))
		add(int(z), gtag("int", WInt(z)))
		if z >= math.MinInt32 && z <= math.MaxInt32 {
			add(int32(z), gtag("int", WInt(z)))
			add(namedInt(z), gtag("int", WInt(z)))
		}
		if z >= -128 && z <= 127 {
			add(int8(z), gtag("int", WInt(z)))
			add(int16(z), gtag("int", WInt(z)))
		}
	}
	for _, u := range []uint64{0, 1, 255, 65535, math.MaxUint32, 9007199254740991, 9007199254740992, 1 << 63, math.MaxUint64} {
		add(u, gtag("uint", WNode(basicnode.NewUint(u))))
		add(uint(u), gtag("uint", WNode(basicnode.NewUint(u))))
		if u <= math.MaxUint32 {
			add(uint32(u), gtag("uint", WNode(basicnode.NewUint(u))))
		}
		if u <= 255 {
			add(uint8(u), gtag("uint", WNode(basicnode.NewUint(u))))
			add(uint16(u), gtag("uint", WNode(basicnode.NewUint(u))))
		}
	}
	for _, f := range []float64{0, 1.5, -2.25, 3, 1e300} {
		add(f, gtag("float", WNode(basicnode.NewFloat(f))))
	}
	add(float32(1.5), gtag("float", WNode(basicnode.NewFloat(1.5))))
	for _, b := range [][]byte{{}, {1, 2, 3}} {
		add(b, gtag("bytes", WBytes(b)))
		add(namedBytes(b), gtag("nbytes", WBytes(b)))
	}
	add([3]byte{1, 2, 3}, gtag("nbytes", WBytes([]byte{1, 2, 3})))
	for _, n := range []datamodel.Node{basicnode.NewInt(5), basicnode.NewInt(1 << 60), basicnode.NewUint(math.MaxUint64), basicnode.NewString("s"), basicnode.NewBool(true),
		basicnode.NewFloat(2.5), basicnode.NewBytes([]byte{7}), datamodel.Null, J(`{"b":1,"a":[2]}`), J(`[1,"x"]`)} {
		add(n, gtag("node", WNode(n)))
	}
	c := fakeCid(1)
	add(c, gtag("cid", WLink(c.Bytes())))
	add(struct{ X int }{1}, gtag("other", WNull))
	add(map[int]string{1: "a"}, gtag("other", WNull))
	add(nil, gtag("nil", WNull))
	add((*int)(nil), gtag("nil", WNull))
	return out
}

func genLiteral(c *Ctx) {
	sc := litScalars()
	for _, g := range sc {
		c.Emit("lit/scalar", WList(WStr("lit"), WStr("any"), g.d), litObs(g.v))
	}
	// one level of pointer is looked through, two are not
	for _, z := range []int{5, 1 << 60} {
		z := z
		p := &z
		c.Emit("lit/ptr", WList(WStr("lit"), WStr("any"), gtag("ptr", gtag("int", WInt(int64(z))))), litObs(p))
		c.Emit("lit/ptr", WList(WStr("lit"), WStr("any"), gtag("ptr", gtag("ptr", gtag("int", WInt(int64(z)))))), litObs(&p))
	}
	s := "x"
	c.Emit("lit/ptr", WList(WStr("lit"), WStr("any"), gtag("ptr", gtag("str", WStr(s)))), litObs(&s))
	// typed containers
	c.Emit("lit/typed", WList(WStr("lit"), WStr("any"), gtag("slice", WList(gtag("int", WInt(1)), gtag("int", WInt(-2))))), litObs([]int{1, -2}))
	c.Emit("lit/typed", WList(WStr("lit"), WStr("any"), gtag("slice", WList(gtag("int", WInt(1)), gtag("int", WInt(1<<60))))), litObs([]int64{1, 1 << 60}))
	c.Emit("lit/typed", WList(WStr("lit"), WStr("any"), gtag("slice", WList(gtag("uint", WNode(basicnode.NewUint(7))), gtag("uint", WNode(basicnode.NewUint(math.MaxUint64)))))), litObs([]uint64{7, math.MaxUint64}))
	c.Emit("lit/typed", WList(WStr("lit"), WStr("any"), gtag("array", WList(gtag("str", WStr("a")), gtag("str", WStr("b"))))), litObs([2]string{"a", "b"}))
	c.Emit("lit/typed", WList(WStr("lit"), WStr("any"), gtag("slice", WList())), litObs([]string{}))
	c.Emit("lit/typed", WList(WStr("lit"), WStr("any"), gtag("slice", WList(gtag("bytes", WBytes([]byte{1})), gtag("bytes", WBytes(nil))))), litObs([][]byte{{1}, {}}))
	c.Emit("lit/typed", WList(WStr("lit"), WStr("any"), gtag("map", WList(WList(WStr("b"), gtag("int", WInt(2))), WList(WStr("a"), gtag("int", WInt(1))), WList(WStr(""), gtag("int", WInt(0)))))),
		litObs(map[string]int{"b": 2, "a": 1, "": 0}))
	c.Emit("lit/typed", WList(WStr("lit"), WStr("any"), gtag("map", WList(WList(WStr("k"), gtag("cid", WLink(fakeCid(2).Bytes())))))), litObs(map[string]cid.Cid{"k": fakeCid(2)}))
	x5 := 5
	c.Emit("lit/typed", WList(WStr("lit"), WStr("any"), gtag("slice", WList(gtag("ptr", gtag("int", WInt(5))), gtag("nil", WNull)))), litObs([]*int{&x5, nil}))
	// []any and map[string]any over the scalars (values reached through an interface), nested up to three levels
	var rnd func(depth int) gv
	rnd = func(depth int) gv {
		k := c.R.Intn(10)
		if depth == 0 || k < 6 {
			return sc[c.R.Intn(len(sc))]
		}
		n := c.R.Intn(4)
		if k < 8 {
			var vs []any
			var ds []W
			for i := 0; i < n; i++ {
				g := rnd(depth - 1)
				vs = append(vs, g.v)
				ds = append(ds, g.d)
			}
			return gv{vs, gtag("slice", WList(ds...))}
		}
		m := map[string]any{}
		var ds []W
		for i := 0; i < n; i++ {
			key := c.R.Pick([]string{"a", "b", "ab", "", "é", "B", "a.b", "10", "9"})
			if _, dup := m[key]; dup {
				continue
			}
			g := rnd(depth - 1)
			m[key] = g.v
			ds = append(ds, WList(WStr(key), g.d))
		}
		return gv{m, gtag("map", WList(ds...))}
	}
	n := 3000
	if c.Thorough() {
		n = 200000
	}
	for i := 0; i < n; i++ {
		g := rnd(3)
		c.Emit("lit/rnd", WList(WStr("lit"), WStr("any"), g.d), litObs(g.v))
	}
}
