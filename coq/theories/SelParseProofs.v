Require Import Base Node Selector SelParse.
Local Open Scope N_scope.

Lemma flush_concat cur : concat (flush cur) = rev cur.
Proof. destruct cur; cbn [flush concat]; [reflexivity | rewrite app_nil_r; reflexivity]. Qed.

Lemma tokenize_aux_concat s : forall prev inq cur, concat (tokenize_aux s prev inq cur) = rev cur ++ s.
Proof.
  induction s as [|c r IH]; intros prev inq cur; cbn [tokenize_aux].
  - rewrite flush_concat, app_nil_r. reflexivity.
  - destruct ((c =? c_quote) && negb (prev =? c_bslash)).
    + rewrite IH. cbn [rev]. rewrite <- app_assoc. reflexivity.
    + destruct inq.
      * rewrite IH. cbn [rev]. rewrite <- app_assoc. reflexivity.
      * destruct ((c =? c_dot) || (c =? c_lbr)).
        -- rewrite concat_app, flush_concat, IH. reflexivity.
        -- rewrite IH. cbn [rev]. rewrite <- app_assoc. reflexivity.
Qed.

(* nothing is dropped by the tokenizer *)
Theorem tokenize_partition s : concat (tokenize s) = s.
Proof. unfold tokenize. rewrite tokenize_aux_concat. reflexivity. Qed.

Lemma parse_tok_str pi tok p : parse_tok pi tok = Ok p -> ps_str p = tok.
Proof.
  unfold parse_tok, mk.
  repeat match goal with
  | |- context [if ?c then _ else _] => destruct c
  | |- context [match ?x with _ => _ end] => destruct x
  end; intros [= <-]; reflexivity.
Qed.

Lemma parse_toks_strs toks : forall pi ps, parse_toks toks pi = Ok ps -> map ps_str ps = toks.
Proof.
  induction toks as [|t r IH]; intros pi ps; cbn [parse_toks].
  - intros [= <-]. reflexivity.
  - destruct (parse_tok pi t) as [p|e|] eqn:E; try discriminate.
    destruct (parse_toks r (is_ident p)) as [ps'|e|] eqn:E'; try discriminate.
    intros [= <-]. cbn [map]. rewrite (parse_tok_str _ _ _ E), (IH _ _ E'). reflexivity.
Qed.

(* a selector that parses prints back to the very text it was parsed from *)
Theorem parse_print s p : sel_parse s = Ok p -> sel_print p = s.
Proof.
  unfold sel_parse, sel_print. destruct s as [|c r]; [discriminate|].
  destruct (negb (c =? c_dot)); [discriminate|].
  destruct (str_eqb (c :: r) [c_dot]) eqn:E1.
  { apply str_eqb_eq in E1. intros [= <-]. cbn. rewrite app_nil_r. reflexivity. }
  destruct (str_eqb (c :: r) [c_dot; c_qm]) eqn:E2.
  { apply str_eqb_eq in E2. intros [= <-]. cbn. rewrite app_nil_r. reflexivity. }
  intros H. rewrite (parse_toks_strs _ _ _ H). apply tokenize_partition.
Qed.

Corollary print_reparse s p : sel_parse s = Ok p -> sel_parse (sel_print p) = Ok p.
Proof. intros H. rewrite (parse_print s p H). exact H. Qed.

(* every token became exactly one segment: no part is skipped *)
Theorem parse_segments_are_tokens s p :
  sel_parse s = Ok p -> s <> [c_dot] -> s <> [c_dot; c_qm] -> map ps_str p = tokenize s.
Proof.
  unfold sel_parse. destruct s as [|c r]; [discriminate|].
  destruct (negb (c =? c_dot)); [discriminate|]. intros H N1 N2.
  destruct (str_eqb (c :: r) [c_dot]) eqn:E1; [apply str_eqb_eq in E1; congruence|].
  destruct (str_eqb (c :: r) [c_dot; c_qm]) eqn:E2; [apply str_eqb_eq in E2; congruence|].
  apply (parse_toks_strs _ _ _ H).
Qed.

Theorem sel_parse_never_panics s : sel_parse s <> Panic.
Proof.
  assert (Ht : forall pi t, parse_tok pi t <> Panic).
  { intros pi t. unfold parse_tok.
    repeat match goal with
    | |- context [if ?c then _ else _] => destruct c
    | |- context [match ?x with _ => _ end] => destruct x
    end; discriminate. }
  assert (Hs : forall toks pi, parse_toks toks pi <> Panic).
  { induction toks as [|t r IH]; intros pi; cbn [parse_toks]; [discriminate|].
    specialize (Ht pi t). destruct (parse_tok pi t) as [p|e|]; [|discriminate|congruence].
    specialize (IH (is_ident p)). destruct (parse_toks r (is_ident p)); [discriminate|discriminate|congruence]. }
  unfold sel_parse. destruct s as [|c r]; [discriminate|].
  destruct (negb (c =? c_dot)); [discriminate|].
  destruct (str_eqb (c :: r) [c_dot]); [discriminate|].
  destruct (str_eqb (c :: r) [c_dot; c_qm]); [discriminate|]. apply Hs.
Qed.
