(* C13 - like patterns match exactly the glob language.  Statements only. *)
From Coq Require Import String.
Require Import Base Glob GlobProofs.
Local Open Scope N_scope.

(* The matcher decides membership in the language of the tokenised pattern, for every accepted
   pattern and every string (in particular strings containing '*' and '\'). *)
Theorem C13_match_is_glob_language : forall p s t,
  toks p = Some t -> (glob_match p s = true <-> lang t s).
Proof. exact glob_match_correct. Qed.
Print Assumptions C13_match_is_glob_language.

(* parseGlob accepts exactly the patterns that tokenise (no lone trailing backslash) *)
Theorem C13_parse_accepts_iff_tokenises : forall p,
  parse_glob_ok p = true <-> exists t, toks p = Some t.
Proof. exact parse_glob_ok_toks. Qed.
Print Assumptions C13_parse_accepts_iff_tokenises.

Theorem C13_lone_backslash_rejected : forall p,
  parse_glob (p ++ [c_bsl]) = Err 1 <-> parse_glob_ok p = true.
Proof. exact parse_glob_rejects_lone_backslash. Qed.
Print Assumptions C13_lone_backslash_rejected.

(* the executable reference used by the oracle for attribution is itself the language *)
Theorem C13_reference_matcher_is_language : forall t s, lang_matchb t s = true <-> lang t s.
Proof. exact lang_matchb_correct. Qed.
Print Assumptions C13_reference_matcher_is_language.

(* non-vacuity, on the witnesses of defect F9 (pinned tree answered false on the first three) *)
Example C13_nonvacuous :
  glob_match (lit "*") (lit "*a") = true /\ glob_match (lit "a*") (lit "a*b") = true /\
  glob_match (lit "*b") (lit "*ab") = true /\ glob_match (lit "\*") (lit "*") = true /\
  glob_match (lit "\*") (lit "\*") = false /\ glob_match (lit "a*b*c") (lit "aXXbYYbZc") = true /\
  parse_glob (lit "ab\") = Err 1.
Proof. repeat split; vm_compute; reflexivity. Qed.
