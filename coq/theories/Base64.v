(* Standard base64 (RFC 4648, with padding) as used by encoding/base64.StdEncoding: encoder, and a
   decoder that skips CR/LF, requires correct padding and rejects foreign characters. *)
From Coq Require Import String.
Require Import Base.
From Coq Require Import ZifyBool ZifyNat ZifyN.
Local Open Scope N_scope.
Ltac Zify.zify_post_hook ::= Z.div_mod_to_equations.

Definition b64_alphabet : str := lit "ABCDEFGHIJKLMNOPQRSTUVWXYZabcdefghijklmnopqrstuvwxyz0123456789+/".
Definition b64_char (d : N) : N := nth (N.to_nat d) b64_alphabet 0.
Fixpoint b64_idx_aux (c : N) (l : str) (i : N) : option N :=
  match l with [] => None | x :: r => if x =? c then Some i else b64_idx_aux c r (i + 1) end.
Definition b64_idx (c : N) : option N := b64_idx_aux c b64_alphabet 0.
Definition c_pad : N := 61.

Fixpoint b64_encode (b : str) : str :=
  match b with
  | [] => []
  | [b0] => [b64_char (b0 / 4); b64_char ((b0 mod 4) * 16); c_pad; c_pad]
  | [b0; b1] => [b64_char (b0 / 4); b64_char ((b0 mod 4) * 16 + b1 / 16); b64_char ((b1 mod 16) * 4); c_pad]
  | b0 :: b1 :: b2 :: r =>
      b64_char (b0 / 4) :: b64_char ((b0 mod 4) * 16 + b1 / 16) :: b64_char ((b1 mod 16) * 4 + b2 / 64) :: b64_char (b2 mod 64)
      :: b64_encode r
  end.

Definition is_nl (c : N) : bool := (c =? 10) || (c =? 13).

(* quanta of four characters; padding only in the last quantum; error classes are not distinguished *)
Fixpoint b64_decode_q (s : str) : res str :=
  match s with
  | [] => Ok []
  | c0 :: c1 :: c2 :: c3 :: r =>
      match b64_idx c0, b64_idx c1 with
      | Some d0, Some d1 =>
          if c2 =? c_pad then
            (if (c3 =? c_pad) && match r with [] => true | _ => false end then Ok [d0 * 4 + d1 / 16] else Err 1)
          else match b64_idx c2 with
               | Some d2 =>
                   if c3 =? c_pad then
                     (match r with [] => Ok [d0 * 4 + d1 / 16; (d1 mod 16) * 16 + d2 / 4] | _ => Err 1 end)
                   else match b64_idx c3 with
                        | Some d3 =>
                            match b64_decode_q r with
                            | Ok t => Ok ((d0 * 4 + d1 / 16) :: ((d1 mod 16) * 16 + d2 / 4) :: ((d2 mod 4) * 64 + d3) :: t)
                            | Err e => Err e
                            | Panic => Panic
                            end
                        | None => Err 1
                        end
               | None => Err 1
               end
      | _, _ => Err 1
      end
  | _ => Err 1
  end.

Definition b64_decode (s : str) : res str := b64_decode_q (filter (fun c => negb (is_nl c)) s).
