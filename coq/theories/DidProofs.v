From Coq Require Import String.
Require Import Base Radix Varint Generated Did.
From Coq Require Import ZifyBool ZifyNat ZifyN.
Local Open Scope N_scope.

(* ---- alphabet ---- *)
Lemma idx_aux_spec c l : forall i d, idx_aux c l i = Some d ->
  i <= d /\ (N.to_nat (d - i) < length l)%nat /\ nth (N.to_nat (d - i)) l 0 = c.
Proof.
  induction l as [|x r IH]; intros i d; cbn [idx_aux]; [discriminate|].
  destruct (N.eqb_spec x c) as [->|Hne].
  - intros [= <-]. rewrite N.sub_diag. cbn. split; [lia|]. split; [lia|reflexivity].
  - intros H. apply IH in H as (H1 & H2 & H3). split; [lia|].
    replace (N.to_nat (d - i)) with (S (N.to_nat (d - (i + 1)))) by lia. cbn [length nth]. split; [lia|exact H3].
Qed.

Lemma idx_alpha c d : idx c = Some d -> alpha d = c /\ d < 58.
Proof.
  unfold idx, alpha. intros H. apply idx_aux_spec in H as (_ & H2 & H3).
  rewrite N.sub_0_r in *. split; [exact H3|]. change (length b58_alphabet) with 58%nat in H2. lia.
Qed.

Definition range58 : list N := map N.of_nat (seq 0 58).
Lemma alpha_idx_table : forallb (fun d => match idx (alpha d) with Some d' => d' =? d | None => false end) range58 = true.
Proof. vm_compute. reflexivity. Qed.
Lemma alpha_idx d : d < 58 -> idx (alpha d) = Some d.
Proof.
  intros H. pose proof alpha_idx_table as T. rewrite forallb_forall in T.
  assert (Hin : In d range58).
  { unfold range58. apply in_map_iff. exists (N.to_nat d). split; [lia|]. apply in_seq. lia. }
  specialize (T d Hin). destruct (idx (alpha d)) as [d'|]; [|discriminate]. apply N.eqb_eq in T. congruence.
Qed.

Lemma idx_all_map_alpha ds : Forall (fun d => d < 58) ds -> idx_all (map alpha ds) = Some ds.
Proof.
  induction 1 as [|d l Hd _ IH]; [reflexivity|]. cbn [map idx_all]. rewrite (alpha_idx d Hd), IH. reflexivity.
Qed.
Lemma idx_all_inv t ds : idx_all t = Some ds -> map alpha ds = t /\ Forall (fun d => d < 58) ds.
Proof.
  revert ds; induction t as [|c r IH]; intros ds; cbn [idx_all].
  - intros [= <-]. split; [reflexivity|constructor].
  - destruct (idx c) as [d|] eqn:E; [|discriminate]. destruct (idx_all r) as [ds'|]; [|discriminate].
    intros [= <-]. destruct (IH ds' eq_refl) as [H1 H2]. apply idx_alpha in E as [E1 E2].
    cbn [map]. rewrite E1, H1. split; [reflexivity|constructor; assumption].
Qed.

(* ---- base58btc ---- *)
Theorem b58_decode_encode b : Forall (fun x => x < 256) b -> b <> [] -> b58_decode (b58_encode b) = Ok b.
Proof.
  intros Hb Hne. unfold b58_decode, b58_encode.
  assert (Hd : Forall (fun d => d < 58) (conv 256 58 b)) by (apply conv_digits_lt; lia).
  rewrite (idx_all_map_alpha _ Hd).
  assert (Hc : conv 58 256 (conv 256 58 b) = b) by (apply conv_roundtrip; [lia|lia|exact Hb]).
  destruct (map alpha (conv 256 58 b)) eqn:E.
  - apply map_eq_nil in E. rewrite E in Hc. cbn in Hc. congruence.
  - rewrite Hc. reflexivity.
Qed.

Theorem b58_encode_decode t b : b58_decode t = Ok b -> b58_encode b = t /\ Forall (fun x => x < 256) b.
Proof.
  unfold b58_decode, b58_encode. destruct t as [|c r]; [discriminate|].
  destruct (idx_all (c :: r)) as [ds|] eqn:E; [|discriminate]. intros [= <-].
  apply idx_all_inv in E as [E1 E2]. split.
  - rewrite conv_roundtrip by (try lia; exact E2). exact E1.
  - apply conv_digits_lt. lia.
Qed.

(* ---- text layer ---- *)
Lemma skipn_prefix8 r : skipn 8 (did_prefix ++ r) = r.
Proof. reflexivity. Qed.
Lemma has_prefix_did r : has_prefix did_prefix (did_prefix ++ r) = true.
Proof. apply has_prefix_app. eauto. Qed.

(* an accepted text is the canonical text of the DID it denotes (one DID, one string) *)
Theorem parse_print s d : did_parse s = Ok d -> did_print d = s.
Proof.
  unfold did_parse, did_print. destruct (has_prefix did_prefix s) eqn:Hp; cbn [negb]; [|discriminate].
  apply has_prefix_app in Hp as (r & ->). rewrite skipn_prefix8.
  destruct r as [|c t]; [discriminate|]. destruct (N.eqb_spec c c_z) as [->|]; cbn [negb]; [|discriminate].
  destruct (b58_decode t) as [bytes|e|] eqn:Eb; try discriminate.
  destruct (from_uvarint bytes) as [[code k]|e|]; try discriminate.
  destruct (mem code parse_codes); [|discriminate]. intros [= <-]. cbn [snd].
  apply b58_encode_decode in Eb as [-> _]. reflexivity.
Qed.

Theorem parse_accepts_only_supported s d : did_parse s = Ok d ->
  (exists t, s = did_prefix ++ c_z :: t) /\ mem (fst d) parse_codes = true /\
  (exists k, from_uvarint (snd d) = Ok (fst d, k)).
Proof.
  unfold did_parse. destruct (has_prefix did_prefix s) eqn:Hp; cbn [negb]; [|discriminate].
  apply has_prefix_app in Hp as (r & ->). rewrite skipn_prefix8.
  destruct r as [|c t]; [discriminate|]. destruct (N.eqb_spec c c_z) as [->|]; cbn [negb]; [|discriminate].
  destruct (b58_decode t) as [bytes|e|] eqn:Eb; try discriminate.
  destruct (from_uvarint bytes) as [[code k]|e|] eqn:Ev; try discriminate.
  destruct (mem code parse_codes) eqn:Em; [|discriminate]. intros [= <-]. cbn [fst snd]. eauto.
Qed.

Lemma to_uvarint_bytes c : Forall (fun x => x < 256) (to_uvarint c).
Proof.
  unfold to_uvarint. generalize 10%nat. intros f. revert c. induction f as [|f IH]; intros c; cbn [to_uvarint_f]; [constructor|].
  destruct (N.ltb_spec c 128); [repeat constructor; lia|]. constructor; [lia|]. apply IH.
Qed.

Theorem print_parse c m : mem c parse_codes = true -> c < 2 ^ 63 -> Forall (fun x => x < 256) m ->
  did_parse (did_print (c, to_uvarint c ++ m)) = Ok (c, to_uvarint c ++ m).
Proof.
  intros Hc Hlt Hm. unfold did_parse, did_print. cbn [snd]. rewrite has_prefix_did, skipn_prefix8. cbn [negb].
  rewrite N.eqb_refl. cbn [negb].
  pose proof (to_uvarint_bytes c) as Hv.
  rewrite b58_decode_encode.
  - rewrite (from_to_uvarint c m Hlt), Hc. reflexivity.
  - apply Forall_app. split; assumption.
  - pose proof (to_uvarint_nonempty c). destruct (to_uvarint c); [congruence|discriminate].
Qed.

Theorem did_parse_never_panics s : did_parse s <> Panic.
Proof.
  unfold did_parse. destruct (negb (has_prefix did_prefix s)); [discriminate|].
  destruct (skipn 8 s) as [|c t]; [discriminate|]. destruct (negb (c =? c_z)); [discriminate|].
  unfold b58_decode. destruct t; [discriminate|]. destruct (idx_all _); [|discriminate].
  destruct (from_uvarint _) as [[code k]|e|]; try discriminate. destruct (mem code parse_codes); discriminate.
Qed.

(* ---- the finite tables read off the running code ---- *)
Theorem emitted_codes_are_parsed_and_unmarshalled :
  forallb (fun c => mem c parse_codes && mem c unmarshal_codes && (c <? 2 ^ 63)) emit_codes = true.
Proof. vm_compute. reflexivity. Qed.

Lemma emit_supported c : In c emit_codes -> mem c parse_codes = true /\ mem c unmarshal_codes = true /\ c < 2 ^ 63.
Proof.
  intros H. pose proof emitted_codes_are_parsed_and_unmarshalled as T. rewrite forallb_forall in T.
  specialize (T c H). apply andb_true_iff in T as [T T3]. apply andb_true_iff in T as [T1 T2].
  apply N.ltb_lt in T3. auto.
Qed.

(* ---- keys ---- *)
Section KeyThms.
  Variable key : Type.
  Variable marshal : key -> res (N * str).
  Variable unmarshal : N -> str -> res key.
  (* premises about the third-party key libraries, exercised by the did engine on every run *)
  Hypothesis marshal_emits : forall k c m, marshal k = Ok (c, m) -> In c emit_codes /\ Forall (fun x => x < 256) m.
  Hypothesis unmarshal_marshal : forall k c m, marshal k = Ok (c, m) -> unmarshal c m = Ok k.
  Hypothesis unmarshal_total : forall c m, unmarshal c m <> Panic.
  Hypothesis marshal_total : forall k, marshal k <> Panic.

  Notation from_pubkey := (from_pubkey key marshal).
  Notation pubkey := (pubkey key marshal unmarshal).

  Lemma did_eqb_refl d : did_eqb d d = true.
  Proof. unfold did_eqb. rewrite N.eqb_refl, str_eqb_refl. reflexivity. Qed.
  Lemma did_eqb_eq a b : did_eqb a b = true -> a = b.
  Proof. unfold did_eqb. destruct a, b. cbn. rewrite andb_true_iff, N.eqb_eq, str_eqb_eq. intros [-> ->]. reflexivity. Qed.

  Lemma skipn_app_len {A} (a b : list A) : skipn (length a) (a ++ b) = b.
  Proof. induction a; cbn; auto. Qed.

  (* key -> DID -> text -> DID -> key *)
  Theorem pubkey_roundtrip k d : from_pubkey k = Ok d ->
    did_parse (did_print d) = Ok d /\ pubkey d = Ok k.
  Proof.
    unfold Did.from_pubkey. destruct (marshal k) as [[c m]|e|] eqn:E; try discriminate. intros [= <-].
    destruct (marshal_emits _ _ _ E) as [Hin Hm]. destruct (emit_supported c Hin) as (H1 & H2 & H3). split.
    - apply print_parse; assumption.
    - unfold Did.pubkey. cbn [fst snd]. rewrite H2. cbn [negb]. rewrite skipn_app_len, (unmarshal_marshal _ _ _ E).
      unfold Did.from_pubkey. rewrite E, did_eqb_refl. reflexivity.
  Qed.

  (* any identifier from which a key can be extracted is the canonical identifier of that key *)
  Theorem canonical d k : pubkey d = Ok k -> from_pubkey k = Ok d.
  Proof.
    unfold Did.pubkey. destruct (negb (mem (fst d) unmarshal_codes)); [discriminate|].
    destruct (unmarshal _ _) as [k'|e|]; try discriminate.
    destruct (from_pubkey k') as [d'|e|] eqn:E; try discriminate.
    destruct (did_eqb d' d) eqn:Eq; [|discriminate]. intros [= <-]. apply did_eqb_eq in Eq. subst. exact E.
  Qed.

  (* DIDs built from two keys are equal exactly when the keys are *)
  Theorem did_eq_iff_key_eq k1 k2 d1 d2 : from_pubkey k1 = Ok d1 -> from_pubkey k2 = Ok d2 -> (d1 = d2 <-> k1 = k2).
  Proof.
    intros H1 H2. split; [|intros ->; congruence]. intros ->.
    destruct (pubkey_roundtrip k1 d2 H1) as [_ P1]. destruct (pubkey_roundtrip k2 d2 H2) as [_ P2]. congruence.
  Qed.

  Theorem pubkey_never_panics d : pubkey d <> Panic.
  Proof.
    unfold Did.pubkey. destruct (negb (mem (fst d) unmarshal_codes)); [discriminate|].
    pose proof (unmarshal_total (fst d) (skipn (length (to_uvarint (fst d))) (snd d))) as Hu.
    destruct (unmarshal _ _) as [k|e|]; [|discriminate|congruence].
    destruct (from_pubkey k); [|discriminate|discriminate]. destruct (did_eqb _ _); discriminate.
  Qed.
End KeyThms.
