"""Per-property configuration for bin/check."""

TRUSTED_COMMON = [
    "Coq 8.16.1 kernel (coqc; coqchk in the thorough tier); vm_compute for finite tables; no native_compute",
    "axioms: none (every theorem of Props/<id>.v is followed by Print Assumptions; the run fails unless each block is 'Closed under the global context')",
    "extraction: ExtrOcamlBasic only (bool, option, unit, list, prod, sumbool, sumor mapped to OCaml types); N/Z/positive/nat/string stay extracted inductives; OCaml 4.13.1 compiler; ocaml/main.ml (byte <-> N conversion, line I/O)",
    "correspondence harness: /verif/harness (Go generators + observation printers), bin/check (diff and attribution)",
    "all Go code is modelled, not verified: the hand-written Gallina model is tied to /repo by differential execution on every run",
]

PROPS = {
    "C15": {
        "engines": ["command"],
        "rule": "exhaustive: all ordered pairs of commands with <=3 segments over {a,ab,b,''} plus top and invalid forms (covers, segments); every string over {/,a,A,b} up to length 5 (quick) / 8 (thorough) through Parse; Join of 5 bases x all segment lists <=3 over {a,b,'',cd}; seeded random ASCII commands",
        "need_tags": ["covers/exh", "parse/exh", "join/exh", "segments/exh", "covers/rnd"],
        "trusted": ["strings.ToLower is modelled on ASCII only; non-ASCII input is outside the generators"],
        "assumptions": ["ASCII restriction on case mapping"],
    },
    "C13": {
        "engines": ["glob"],
        "rule": "exhaustive: every (pattern, string) pair over {a,*,\\} up to length 5 (quick) / 7 (thorough) through policy.Like('.', p) + Policy.Match; suite examples and F9 witnesses; seeded random pairs over {a,b,*,\\,.} with strings derived from the pattern",
        "need_tags": ["like/exh", "like/rnd", "like/corpus"],
        "trusted": ["the like statement is reached through the identity selector '.' (selector resolution of '.' is covered by C12)"],
    },
    "C12": {
        "engines": ["selector"],
        "rule": "selector texts built from a 20-segment alphabet (fields, explicit fields, +/- indexes, iterators, slices, each optional or not): exhaustive <=2 segments x 40 IPLD values of every kind, 3 segments x a sub-pool; every slice/index bound in {absent, MinInt53, -6..6, MaxInt53}^2 on lists, strings (multi-byte characters) and bytes of length 0..4; seeded random selectors of up to 6 segments; the parsed segments are read back through the public accessors and sent to the model with the value",
        "need_tags": ["sel/exh1", "sel/exh2", "sel/exh3", "sel/slice", "sel/index", "sel/rnd", "sel/ident"],
        "trusted": ["strings are sliced by code point; the model groups a lead byte with its continuation bytes, exact on valid UTF-8 only", "basicnode map lookup = first entry with that key (decoders reject duplicate keys)"],
    },
    "C11": {
        "engines": ["policy"],
        "rule": "policies built with the public constructors from the harness's AST: every leaf statement (5 comparison operators x 15 selectors x 21 values; like x 9 patterns) x 66 data values of every kind incl. NaN/Inf/-0/boundary ints (product thinned 1/4 in the quick tier); seeded random statements nested to depth 4; metamorphic groups through the implementation: every permutation of 2-4 and/or operands, every permutation of 2-4 list elements under all/any, each operand/element dropped (antitonicity), concatenated policies; observable = (Match, PartialMatch)",
        "need_tags": ["pol/leaf", "pol/like", "pol/rnd", "pol/perm-ops", "pol/perm-elems", "pol/anti-and", "pol/anti-all", "pol/cat", "pol/corpus"],
        "trusted": ["datamodel.DeepEqual (go-ipld-prime) is modelled by deep_equal on the basicnode kinds", "integers beyond int64 (uint64 nodes) are outside this engine; see C09"],
    },
    "C01": {
        "engines": ["chain"],
        "rule": 'chain engine through the public ExecutionAllowed / ExecutionAllowedWithArgsHook with an in-memory loader: exhaustive over principals for chains of length 1 and 2 (every (issuer, audience, subject|undefined) per link over 4 principals x 3 commands; quick tier keeps every first link addressed to the invoker and half of the others); seeded random chains of length 1..12 generated conforming (repeated principals, self-delegation, attenuating commands, satisfied policies, past nbf / future exp) then 0-3 deviations (wrong audience / issuer / subject, powerline, widened / sibling / textual-prefix command, expired, not yet active, failing statement, missing delegation, permuted / duplicated / truncated / foreign-rooted chain, expired invocation), audience in {unset, subject, invoker, random}, irrelevant fields randomised, argument hooks (failing, identity, breaking, repairing); one failing statement of each kind at each position of chains of length 1..4; IsValidAt on single tokens at +-{1ns,1s,1h,1e9s} around each bound for every present/absent combination; the time stage at exact instants through the verif hook',
        "need_tags": ["chain/exh1", "chain/exh2", "chain/conform", "chain/deviate", "chain/policy-place", "chain/hook-fails", "chain/hook-breaks", "time/dlg", "time/inv", "time/stage", "chain/empty"],
        "trusted": ["the loader is an arbitrary partial function from CIDs to delegations (an in-memory map in the harness)", "wall-clock instants are compared with a 60 s slack: bounds are placed at least 1 h from the instant of the check; exact instants go through the verif hook VerifTimeBoundAt", "did.DID equality is modelled as equality of the printed did:key strings"],
    },
    "C02": {
        "engines": ["chain"],
        "rule": 'chain engine through the public ExecutionAllowed / ExecutionAllowedWithArgsHook with an in-memory loader: exhaustive over principals for chains of length 1 and 2 (every (issuer, audience, subject|undefined) per link over 4 principals x 3 commands; quick tier keeps every first link addressed to the invoker and half of the others); seeded random chains of length 1..12 generated conforming (repeated principals, self-delegation, attenuating commands, satisfied policies, past nbf / future exp) then 0-3 deviations (wrong audience / issuer / subject, powerline, widened / sibling / textual-prefix command, expired, not yet active, failing statement, missing delegation, permuted / duplicated / truncated / foreign-rooted chain, expired invocation), audience in {unset, subject, invoker, random}, irrelevant fields randomised, argument hooks (failing, identity, breaking, repairing); one failing statement of each kind at each position of chains of length 1..4; IsValidAt on single tokens at +-{1ns,1s,1h,1e9s} around each bound for every present/absent combination; the time stage at exact instants through the verif hook',
        "need_tags": ["chain/exh1", "chain/exh2", "chain/conform", "chain/deviate", "chain/policy-place", "chain/hook-fails", "chain/hook-breaks", "time/dlg", "time/inv", "time/stage", "chain/empty"],
        "trusted": ["the loader is an arbitrary partial function from CIDs to delegations (an in-memory map in the harness)", "wall-clock instants are compared with a 60 s slack: bounds are placed at least 1 h from the instant of the check; exact instants go through the verif hook VerifTimeBoundAt", "did.DID equality is modelled as equality of the printed did:key strings"],
    },
    "C03": {
        "engines": ["chain"],
        "rule": 'chain engine through the public ExecutionAllowed / ExecutionAllowedWithArgsHook with an in-memory loader: exhaustive over principals for chains of length 1 and 2 (every (issuer, audience, subject|undefined) per link over 4 principals x 3 commands; quick tier keeps every first link addressed to the invoker and half of the others); seeded random chains of length 1..12 generated conforming (repeated principals, self-delegation, attenuating commands, satisfied policies, past nbf / future exp) then 0-3 deviations (wrong audience / issuer / subject, powerline, widened / sibling / textual-prefix command, expired, not yet active, failing statement, missing delegation, permuted / duplicated / truncated / foreign-rooted chain, expired invocation), audience in {unset, subject, invoker, random}, irrelevant fields randomised, argument hooks (failing, identity, breaking, repairing); one failing statement of each kind at each position of chains of length 1..4; IsValidAt on single tokens at +-{1ns,1s,1h,1e9s} around each bound for every present/absent combination; the time stage at exact instants through the verif hook',
        "need_tags": ["chain/exh1", "chain/exh2", "chain/conform", "chain/deviate", "chain/policy-place", "chain/hook-fails", "chain/hook-breaks", "time/dlg", "time/inv", "time/stage", "chain/empty"],
        "trusted": ["the loader is an arbitrary partial function from CIDs to delegations (an in-memory map in the harness)", "wall-clock instants are compared with a 60 s slack: bounds are placed at least 1 h from the instant of the check; exact instants go through the verif hook VerifTimeBoundAt", "did.DID equality is modelled as equality of the printed did:key strings"],
    },
    "C04": {
        "engines": ["chain"],
        "rule": 'chain engine through the public ExecutionAllowed / ExecutionAllowedWithArgsHook with an in-memory loader: exhaustive over principals for chains of length 1 and 2 (every (issuer, audience, subject|undefined) per link over 4 principals x 3 commands; quick tier keeps every first link addressed to the invoker and half of the others); seeded random chains of length 1..12 generated conforming (repeated principals, self-delegation, attenuating commands, satisfied policies, past nbf / future exp) then 0-3 deviations (wrong audience / issuer / subject, powerline, widened / sibling / textual-prefix command, expired, not yet active, failing statement, missing delegation, permuted / duplicated / truncated / foreign-rooted chain, expired invocation), audience in {unset, subject, invoker, random}, irrelevant fields randomised, argument hooks (failing, identity, breaking, repairing); one failing statement of each kind at each position of chains of length 1..4; IsValidAt on single tokens at +-{1ns,1s,1h,1e9s} around each bound for every present/absent combination; the time stage at exact instants through the verif hook',
        "need_tags": ["chain/exh1", "chain/exh2", "chain/conform", "chain/deviate", "chain/policy-place", "chain/hook-fails", "chain/hook-breaks", "time/dlg", "time/inv", "time/stage", "chain/empty"],
        "trusted": ["the loader is an arbitrary partial function from CIDs to delegations (an in-memory map in the harness)", "wall-clock instants are compared with a 60 s slack: bounds are placed at least 1 h from the instant of the check; exact instants go through the verif hook VerifTimeBoundAt", "did.DID equality is modelled as equality of the printed did:key strings"],
    },
    "C05": {
        "engines": ["chain"],
        "rule": 'chain engine through the public ExecutionAllowed / ExecutionAllowedWithArgsHook with an in-memory loader: exhaustive over principals for chains of length 1 and 2 (every (issuer, audience, subject|undefined) per link over 4 principals x 3 commands; quick tier keeps every first link addressed to the invoker and half of the others); seeded random chains of length 1..12 generated conforming (repeated principals, self-delegation, attenuating commands, satisfied policies, past nbf / future exp) then 0-3 deviations (wrong audience / issuer / subject, powerline, widened / sibling / textual-prefix command, expired, not yet active, failing statement, missing delegation, permuted / duplicated / truncated / foreign-rooted chain, expired invocation), audience in {unset, subject, invoker, random}, irrelevant fields randomised, argument hooks (failing, identity, breaking, repairing); one failing statement of each kind at each position of chains of length 1..4; IsValidAt on single tokens at +-{1ns,1s,1h,1e9s} around each bound for every present/absent combination; the time stage at exact instants through the verif hook',
        "need_tags": ["chain/exh1", "chain/exh2", "chain/conform", "chain/deviate", "chain/policy-place", "chain/hook-fails", "chain/hook-breaks", "time/dlg", "time/inv", "time/stage", "chain/empty"],
        "trusted": ["the loader is an arbitrary partial function from CIDs to delegations (an in-memory map in the harness)", "wall-clock instants are compared with a 60 s slack: bounds are placed at least 1 h from the instant of the check; exact instants go through the verif hook VerifTimeBoundAt", "did.DID equality is modelled as equality of the printed did:key strings"],
    },
    "C14": {
        "engines": ["selparse", "policyipld", "policy"],
        "rule": "selparse: every string of length <=5 (quick) / <=7 (thorough) over {. [ ] \" ? \\ : - 0 a} prefixed with '.', a corpus of boundary texts (unterminated quotes, empty field, 2^53 bounds, overflow), seeded random concatenations of 20 segment texts with one character deleted/inserted/replaced; observable = rejected | (segments through the accessors, String(), re-parse of String() gives the same segments). policyipld: seeded random IPLD nodes offered as policies (every operator, nested to depth 3, each shape violation, out-of-range integers); observable = rejected | (ToIPLD node, FromDagJson agrees). policy engine: constructed policies vs their ToIPLD/FromIPLD round trip, verdicts on data",
        "need_tags": ["selparse/exh", "selparse/corpus", "selparse/rnd", "polipld/rnd", "polipld/corpus", "pol/ipld-rt"],
        "trusted": ["\\p{L} in field names and Go regexp semantics are modelled on ASCII only; generators keep unquoted field names ASCII"],
    },
    "C16": {
        "engines": ["did"],
        "rule": "keys of all six algorithms (Ed25519, secp256k1, P-256, P-384, P-521, RSA-2048) from a seeded byte stream: key -> DID -> text -> DID -> key, DID equality vs key equality for pairs; alternative encodings of each key's material (uncompressed / hybrid / flipped-parity / truncated / padded / off-curve / wrong-curve points, 0xff..ff, trailing or truncated or non-minimal DER, PKIX instead of PKCS#1, small RSA, wrong lengths, X25519 code, non-minimal varint); text variants (other multibases, case, whitespace, characters outside the alphabet, leading '1's); seeded random mutations of valid identifiers; random material under every code. The key-library facts used by the model (does the material denote a key; its canonical material) are computed by the harness directly with the third-party libraries",
        "need_tags": ["did/key-ed25519", "did/key-secp256k1", "did/key-p256", "did/key-p384", "did/key-p521", "did/key-rsa", "did/eq", "did/valid", "did/alt-secp-uncompressed", "did/alt-ecdsa-ff", "did/text", "did/mutated", "did/random-material"],
        "trusted": ["premises of the key-level theorems: every key (un)marshaller of libp2p / x509 / elliptic / secp256k1 round-trips the keys it produces and returns a key or an error (exercised on every run, not proved)", "tables in Generated.v are probed from the running code by bin/gen-tables (every multicodec code below 2^14)"],
    },
}
