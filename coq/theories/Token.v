(* Model of the token payload mapping: bindnode's schema-bound decoding of the payload map (strict on
   unknown / missing / wrongly-typed fields), tokenFromModel + validate for delegations and invocations,
   and toIPLD (the payload node that gets sealed).
   From token/{delegation,invocation}/{ipld.go,delegation.go|invocation.go,schema.go,*.ipldsch},
   token/internal/parse/parse.go, pkg/args (Validate). *)
From Coq Require Import String.
Require Import Base Node Did Command SelParse Policy PolicyIpld Generated.
Local Open Scope N_scope.

(* ---- bindnode on a struct type with map representation ---- *)
(* schema field kinds (Generated.v): 0 String/DID, 1 Bytes, 2 Int, 3 Any, 4 {String:Any}, 5 [Link], 6 Link *)
Definition in_int64 (z : Z) : bool := ((- 9223372036854775808 <=? z) && (z <=? 9223372036854775807))%Z.
Definition is_link (n : node) : bool := match n with Link _ => true | _ => false end.
Definition is_null (v : node) : bool := match v with Null => true | _ => false end.
Definition no_null_values (m : list (str * node)) : bool := forallb (fun kv => negb (is_null (snd kv))) m.

Definition kind_ok (k : N) (v : node) : bool :=
  (k =? 3) ||
  match v with
  | Str _ => (k =? 0)
  | Bytes _ => (k =? 1)
  | Int z => (k =? 2) && in_int64 z
  | Map m => (k =? 4) && forallb (fun kv => negb (is_null (snd kv))) m    (* bindnode refuses null values in {String:Any} *)
  | List l => (k =? 5) && forallb is_link l
  | Link _ => (k =? 6)
  | _ => false
  end.
Definition schema := list (str * N * bool * bool).    (* name, kind, optional, nullable *)

Fixpoint keys_nodup (m : list (str * node)) : bool :=
  match m with
  | [] => true
  | (k, _) :: r => negb (existsb (fun kv => str_eqb (fst kv) k) r) && keys_nodup r
  end.

Definition field_ok (m : list (str * node)) (f : str * N * bool * bool) : bool :=
  let '(name, k, opt, nullable) := f in
  match map_get name m with
  | None => opt
  | Some v => (k =? 3) || (if is_null v then nullable else kind_ok k v)
  end.

Definition bind_struct (sc : schema) (n : node) : bool :=
  match n with
  | Map m =>
      keys_nodup m &&
      forallb (fun kv => existsb (fun f => str_eqb (fst (fst (fst f))) (fst kv)) sc) m &&
      forallb (field_ok m) sc
  | _ => false
  end.

(* accessors on an accepted payload map *)
Definition fget (k : string) (n : node) : option node :=
  match n with Map m => match map_get (lit k) m with Some Null => None | r => r end | _ => None end.
Definition fstr (k : string) (n : node) : str := match fget k n with Some (Str s) => s | _ => [] end.
Definition fbytes (k : string) (n : node) : str := match fget k n with Some (Bytes s) => s | _ => [] end.
Definition fint (k : string) (n : node) : option Z := match fget k n with Some (Int z) => Some z | _ => None end.
Definition fmap (k : string) (n : node) : list (str * node) := match fget k n with Some (Map m) => m | _ => [] end.

(* parse.OptionalTimestamp *)
Definition opt_timestamp (z : option Z) : res (option Z) :=
  match z with None => Ok None | Some s => if in53 s then Ok (Some s) else Err 20 end.
(* parse.OptionalDID *)
Definition opt_did (present : bool) (s : str) : res (option did) :=
  if present then match did_parse s with Ok d => Ok (Some d) | Err e => Err e | Panic => Panic end else Ok None.
Definition has (k : string) (n : node) : bool := match fget k n with Some _ => true | None => false end.

(* ---- delegation ---- *)
Record dtok := { dk_iss : did; dk_aud : did; dk_sub : option did; dk_cmd : str; dk_pol : list tstmt;
                 dk_nonce : str; dk_meta : list (str * node); dk_nbf : option Z; dk_exp : option Z }.

(* delegation.tokenFromModel (+ validate) on a payload accepted by bindnode *)
Definition dlg_from_payload (n : node) : res dtok :=
  if negb (bind_struct dlg_schema n) then Err 30
  else
    iss <- did_parse (fstr "iss" n) ;;
    aud <- did_parse (fstr "aud" n) ;;
    sub <- opt_did (has "sub" n) (fstr "sub" n) ;;
    cmd <- Command.parse (fstr "cmd" n) ;;
    pol <- pol_from_ipld (match n with Map m => match map_get (lit "pol") m with Some p => p | None => Null end | _ => Null end) ;;
    if (length (fbytes "nonce" n) =? 0)%nat then Err 31
    else
      nbf <- opt_timestamp (fint "nbf" n) ;;
      exp <- opt_timestamp (fint "exp" n) ;;
      if (length (fbytes "nonce" n) <? 12)%nat then Err 32
      else Ok {| dk_iss := iss; dk_aud := aud; dk_sub := sub; dk_cmd := cmd; dk_pol := pol;
                 dk_nonce := fbytes "nonce" n; dk_meta := fmap "meta" n; dk_nbf := nbf; dk_exp := exp |}.

Definition opt_entry (k : string) (v : option node) : list (str * node) :=
  match v with Some x => [(lit k, x)] | None => [] end.

(* delegation toIPLD: the payload node in schema order (absent optionals omitted, exp nullable) *)
Definition dlg_to_payload (t : dtok) : node :=
  Map ([(lit "iss", Str (did_print (dk_iss t))); (lit "aud", Str (did_print (dk_aud t)))]
       ++ opt_entry "sub" (option_map (fun d => Str (did_print d)) (dk_sub t))
       ++ [(lit "cmd", Str (dk_cmd t)); (lit "pol", pol_to_ipld (dk_pol t)); (lit "nonce", Bytes (dk_nonce t))]
       ++ opt_entry "meta" (match dk_meta t with [] => None | m => Some (Map m) end)
       ++ opt_entry "nbf" (option_map Int (dk_nbf t))
       ++ [(lit "exp", match dk_exp t with Some e => Int e | None => Null end)]).

(* ---- invocation ---- *)
Record itok := { ik_iss : did; ik_sub : did; ik_aud : option did; ik_cmd : str; ik_args : list (str * node);
                 ik_prf : list str; ik_meta : list (str * node); ik_nonce : str; ik_exp : option Z;
                 ik_iat : option Z; ik_cause : option str }.

Definition links_of (n : node) : list str :=
  match n with List l => map (fun x => match x with Link c => c | _ => [] end) l | _ => [] end.

Definition inv_from_payload (n : node) : res itok :=
  if negb (bind_struct inv_schema n) then Err 30
  else
    iss <- did_parse (fstr "iss" n) ;;
    sub <- did_parse (fstr "sub" n) ;;
    aud <- opt_did (has "aud" n) (fstr "aud" n) ;;
    cmd <- Command.parse (fstr "cmd" n) ;;
    if (length (fbytes "nonce" n) =? 0)%nat then Err 31
    else if negb (forallb (fun kv => ints_in53 (snd kv)) (fmap "args" n)) then Err 33
    else
      exp <- opt_timestamp (fint "exp" n) ;;
      iat <- opt_timestamp (fint "iat" n) ;;
      if (length (fbytes "nonce" n) <? 12)%nat then Err 32
      else Ok {| ik_iss := iss; ik_sub := sub; ik_aud := aud; ik_cmd := cmd; ik_args := fmap "args" n;
                 ik_prf := links_of (match fget "prf" n with Some l => l | None => Null end);
                 ik_meta := fmap "meta" n; ik_nonce := fbytes "nonce" n; ik_exp := exp; ik_iat := iat;
                 ik_cause := match fget "cause" n with Some (Link c) => Some c | _ => None end |}.

Definition inv_to_payload (t : itok) : node :=
  Map ([(lit "iss", Str (did_print (ik_iss t))); (lit "sub", Str (did_print (ik_sub t)))]
       ++ opt_entry "aud" (option_map (fun d => Str (did_print d)) (ik_aud t))
       ++ [(lit "cmd", Str (ik_cmd t)); (lit "args", Map (ik_args t)); (lit "prf", List (map Link (ik_prf t)))]
       ++ opt_entry "meta" (match ik_meta t with [] => None | m => Some (Map m) end)
       ++ [(lit "nonce", Bytes (ik_nonce t))]
       ++ [(lit "exp", match ik_exp t with Some e => Int e | None => Null end)]
       ++ opt_entry "iat" (option_map Int (ik_iat t))
       ++ opt_entry "cause" (option_map Link (ik_cause t))).

Definition dlg_tag : str := src_dlg_tag.
Definition inv_tag : str := src_inv_tag.

(* what the constructors guarantee (validate + the option setters), and what makes a token sealable *)
Definition did_ok (d : did) : Prop := did_parse (did_print d) = Ok d.
Definition opt_in53 (z : option Z) : Prop := match z with Some s => in53 s = true | None => True end.
Record dlg_constructed (t : dtok) : Prop := {
  dc_iss : did_ok (dk_iss t); dc_aud : did_ok (dk_aud t);
  dc_sub : match dk_sub t with Some d => did_ok d | None => True end;
  dc_cmd : Command.parse (dk_cmd t) = Ok (dk_cmd t);
  dc_pol : Forall wf_stmt (dk_pol t) /\ ints_in53 (pol_to_ipld (dk_pol t)) = true;
  dc_nonce : (12 <= length (dk_nonce t))%nat;
  dc_meta : no_null_values (dk_meta t) = true;
  dc_nbf : opt_in53 (dk_nbf t); dc_exp : opt_in53 (dk_exp t)
}.
Record inv_constructed (t : itok) : Prop := {
  ic_iss : did_ok (ik_iss t); ic_sub : did_ok (ik_sub t);
  ic_aud : match ik_aud t with Some d => did_ok d | None => True end;
  ic_cmd : Command.parse (ik_cmd t) = Ok (ik_cmd t);
  ic_args : forallb (fun kv => ints_in53 (snd kv)) (ik_args t) = true /\ keys_nodup (ik_args t) = true;
  ic_nonce : (12 <= length (ik_nonce t))%nat;
  ic_meta : no_null_values (ik_meta t) = true /\ no_null_values (ik_args t) = true;
  ic_exp : opt_in53 (ik_exp t); ic_iat : opt_in53 (ik_iat t)
}.

(* ---- constructors: delegation.New / Root and invocation.New after the options have been applied:
   a nonce is generated when none (or an empty one) was given, then validate() ---- *)
Definition defined (d : did) : bool := negb ((fst d =? 0) && match snd d with [] => true | _ => false end).
Definition default_nonce (given rand12 : str) : str := match given with [] => rand12 | _ => given end.
Definition opt_in53b (z : option Z) : bool := match z with Some s => in53 s | None => true end.

(* delegation.validate (error classes: 1 issuer, 2 audience, 3 nonce, 4 command, 5 time bounds, 6 policy integers) *)
Definition dlg_validate (t : dtok) : res dtok :=
  if negb (defined (dk_iss t)) then Err 1
  else if negb (defined (dk_aud t)) then Err 2
  else if (length (dk_nonce t) <? 12)%nat then Err 3
  else if negb (is_ok (Command.parse (dk_cmd t))) then Err 4
  else if negb (opt_in53b (dk_nbf t) && opt_in53b (dk_exp t)) then Err 5
  else if negb (ints_in53 (pol_to_ipld (dk_pol t))) then Err 6
  else Ok t.

Definition dlg_new (iss aud : did) (sub : option did) (cmd : str) (pol : list tstmt) (nonce_given rand12 : str)
                   (meta : list (str * node)) (nbf exp : option Z) : res dtok :=
  dlg_validate {| dk_iss := iss; dk_aud := aud; dk_sub := sub; dk_cmd := cmd; dk_pol := pol;
                  dk_nonce := default_nonce nonce_given rand12; dk_meta := meta; dk_nbf := nbf; dk_exp := exp |}.

Definition inv_validate (t : itok) : res itok :=
  if negb (defined (ik_iss t)) then Err 1
  else if negb (defined (ik_sub t)) then Err 2
  else if (length (ik_nonce t) <? 12)%nat then Err 3
  else if negb (is_ok (Command.parse (ik_cmd t))) then Err 4
  else if negb (opt_in53b (ik_exp t) && opt_in53b (ik_iat t)) then Err 5
  else Ok t.

(* WithAudience: an audience equal to the subject is not recorded *)
Definition norm_aud (sub : did) (aud : option did) : option did :=
  match aud with Some a => if did_eqb a sub then None else Some a | None => None end.

Definition inv_new (iss sub : did) (aud : option did) (cmd : str) (args : list (str * node)) (prf : list str)
                   (nonce_given rand12 : str) (meta : list (str * node)) (exp iat : option Z) (cause : option str) : res itok :=
  inv_validate {| ik_iss := iss; ik_sub := sub; ik_aud := norm_aud sub aud; ik_cmd := cmd; ik_args := args; ik_prf := prf;
                  ik_meta := meta; ik_nonce := default_nonce nonce_given rand12; ik_exp := exp; ik_iat := iat; ik_cause := cause |}.
