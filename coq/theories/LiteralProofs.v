Require Import Base Node SelParse PolicyIpld Literal.
Local Open Scope Z_scope.

Lemma mapres_ok {A B} (f : A -> res B) (P : A -> B -> Prop) l : forall ns,
  (forall x n, In x l -> f x = Ok n -> P x n) -> mapres f l = Ok ns -> Forall2 P l ns.
Proof.
  induction l as [|x r IH]; intros ns H E; cbn in E.
  - injection E as <-. constructor.
  - destruct (f x) as [n| |] eqn:Ex; try discriminate. destruct (mapres f r) as [ns0| |] eqn:Er; try discriminate.
    injection E as <-. constructor; [apply H; [left; reflexivity | exact Ex] | apply IH; [intros y m Hy; apply H; right; exact Hy | reflexivity]].
Qed.
Lemma mapres_no_panic {A B} (f : A -> res B) l : (forall x, In x l -> f x <> Panic) -> mapres f l <> Panic.
Proof.
  induction l as [|x r IH]; intros H; cbn; [discriminate|].
  pose proof (H x (or_introl eq_refl)) as Hx. destruct (f x) as [n| |]; [|discriminate|congruence].
  assert (G : mapres f r <> Panic) by (apply IH; intros y Hy; apply H; right; exact Hy). destruct (mapres f r); [discriminate|discriminate|congruence].
Qed.

Lemma gsize_in_list x l : In x l -> (gsize x < S (fold_right (fun x a => gsize x + a)%nat 0%nat l))%nat.
Proof. induction l as [|y l IH]; cbn; [tauto|]. intros [->|H]; [lia|]. specialize (IH H). lia. Qed.
Lemma gsize_in_map (kv : str * gval) (m : list (str * gval)) : In kv m -> (gsize (snd kv) < S (fold_right (fun (kv : str * gval) a => gsize (snd kv) + a)%nat 0%nat m))%nat.
Proof. induction m as [|y m IH]; cbn; [tauto|]. intros [->|H]; [lia|]. specialize (IH H). lia. Qed.

(* what comes out of the reflective walk denotes the value that went in *)
Lemma assemble_exact_n k : forall v n, (gsize v <= k)%nat -> assemble v = Ok n -> denotes v n.
Proof.
  induction k as [|k IH]; intros v n Hk; [destruct v; cbn in Hk; lia|].
  destruct v as [b|s|z|u|f|b|b|nd|c|l|l|m|x| |]; cbn [assemble]; try discriminate.
  - intros [= <-]. constructor.
  - intros [= <-]. constructor.
  - unfold int_node. destruct (in53 z); [intros [= <-]; constructor | discriminate].
  - unfold uint_node. destruct (Z.of_N u <=? max53); [intros [= <-]; constructor | discriminate].
  - intros [= <-]. constructor.
  - intros [= <-]. constructor.
  - destruct (mapres assemble l) as [ns| |] eqn:E; try discriminate. intros [= <-]. constructor.
    apply (mapres_ok assemble denotes l ns); [|exact E]. intros x n Hx Ex. apply IH; [|exact Ex].
    pose proof (gsize_in_list x l Hx). cbn [gsize] in Hk. lia.
  - destruct (mapres assemble l) as [ns| |] eqn:E; try discriminate. intros [= <-]. constructor.
    apply (mapres_ok assemble denotes l ns); [|exact E]. intros x n Hx Ex. apply IH; [|exact Ex].
    pose proof (gsize_in_list x l Hx). cbn [gsize] in Hk. lia.
  - match goal with |- context [mapres ?f m] => destruct (mapres f m) as [es| |] eqn:E end; try discriminate. intros [= <-]. constructor.
    eapply (mapres_ok _ (fun kv kn => fst kv = fst kn /\ denotes (snd kv) (snd kn)) m es); [|exact E].
    intros kv kn Hin Ex. cbv beta in Ex. destruct (assemble (snd kv)) as [n0| |] eqn:Ea; try discriminate. injection Ex as <-. cbn [fst snd].
    split; [reflexivity|]. apply IH; [|exact Ea]. pose proof (gsize_in_map kv m Hin). cbn [gsize] in Hk. lia.
  - cbn [gsize] in Hk. destruct x as [b|s|z|u|f|b|b|nd|c|l|l|m|y| |]; try discriminate; intros H; constructor; (apply IH; [cbn [gsize] in *; lia | exact H]).
Qed.

(* literal.Any: a value is stored exactly as what it says, or refused *)
Theorem lit_any_exact v n : lit_any v = Ok n -> denotes v n.
Proof.
  destruct v; cbn [lit_any]; intros H; try (injection H as <-; constructor; fail);
    match goal with H : assemble ?v = Ok _ |- _ => apply (assemble_exact_n (gsize v) v _ (le_n _) H) end.
Qed.

Lemma assemble_no_panic_n k : forall v, (gsize v <= k)%nat -> assemble v <> Panic.
Proof.
  induction k as [|k IH]; intros v Hk; [destruct v; cbn in Hk; lia|].
  destruct v as [b|s|z|u|f|b|b|nd|c|l|l|m|x| |]; cbn [assemble]; try discriminate.
  - unfold int_node. destruct (in53 z); discriminate.
  - unfold uint_node. destruct (Z.of_N u <=? max53); discriminate.
  - assert (G : mapres assemble l <> Panic).
    { apply mapres_no_panic. intros x Hx. apply IH. pose proof (gsize_in_list x l Hx). cbn [gsize] in Hk. lia. }
    destruct (mapres assemble l); congruence || discriminate.
  - assert (G : mapres assemble l <> Panic).
    { apply mapres_no_panic. intros x Hx. apply IH. pose proof (gsize_in_list x l Hx). cbn [gsize] in Hk. lia. }
    destruct (mapres assemble l); congruence || discriminate.
  - match goal with |- context [mapres ?f m] => assert (G : mapres f m <> Panic) end.
    { apply mapres_no_panic. intros kv Hin. assert (assemble (snd kv) <> Panic) by (apply IH; pose proof (gsize_in_map kv m Hin); cbn [gsize] in Hk; lia).
      destruct (assemble (snd kv)); congruence || discriminate. }
    match goal with |- context [mapres ?f m] => destruct (mapres f m) end; congruence || discriminate.
  - cbn [gsize] in Hk. destruct x; try discriminate; apply IH; cbn [gsize] in *; lia.
Qed.

Theorem lit_any_never_panics v : lit_any v <> Panic.
Proof.
  destruct v; cbn [lit_any]; try discriminate;
    match goal with |- assemble ?v <> Panic => apply (assemble_no_panic_n (gsize v) v (le_n _)) end.
Qed.


(* ---------- every integer that comes out of the reflective walk is within +-(2^53-1) ---------- *)
Lemma ins_key_forallb {V} (p : str * V -> bool) e l : forallb p (ins_key e l) = p e && forallb p l.
Proof. induction l as [|x r IH]; cbn; [reflexivity|]. destruct (str_ltb (fst e) (fst x)); cbn; [reflexivity|]. rewrite IH. destruct (p e), (p x); reflexivity. Qed.
Lemma sort_keys_forallb {V} (p : str * V -> bool) l : forallb p (sort_keys l) = forallb p l.
Proof. unfold sort_keys. induction l as [|x r IH]; cbn [fold_right]; [reflexivity|]. rewrite ins_key_forallb, IH. reflexivity. Qed.

Lemma in53_max z : 0 <= z -> z <= max53 -> in53 z = true.
Proof. intros H0 H1. unfold in53. apply andb_true_iff. split; apply Z.leb_le; lia. Qed.

Lemma assemble_in53_n k : forall v n, (gsize v <= k)%nat -> assemble v = Ok n -> ints_in53 n = true.
Proof.
  induction k as [|k IH]; intros v n Hk; [destruct v; cbn in Hk; lia|].
  destruct v as [b|s|z|u|f|b|b|nd|c|l|l|m|x| |]; cbn [assemble]; try discriminate; try (intros [= <-]; reflexivity).
  - unfold int_node. destruct (in53 z) eqn:E; [intros [= <-]; exact E | discriminate].
  - unfold uint_node. destruct (Z.leb_spec (Z.of_N u) max53); [intros [= <-]; cbn; apply in53_max; lia | discriminate].
  - destruct (mapres assemble l) as [ns| |] eqn:E; try discriminate. intros [= <-]. cbn [ints_in53].
    pose proof (mapres_ok assemble (fun x n => ints_in53 n = true) l ns) as F. apply forallb_forall. intros n0 Hn0.
    assert (F2 : Forall2 (fun x n => ints_in53 n = true) l ns).
    { apply F; [|exact E]. intros x n1 Hx Ex. apply (IH x); [pose proof (gsize_in_list x l Hx); cbn [gsize] in Hk; lia | exact Ex]. }
    clear -F2 Hn0. induction F2; [contradiction|]. destruct Hn0 as [<-|Hn0]; auto.
  - destruct (mapres assemble l) as [ns| |] eqn:E; try discriminate. intros [= <-]. cbn [ints_in53].
    pose proof (mapres_ok assemble (fun x n => ints_in53 n = true) l ns) as F. apply forallb_forall. intros n0 Hn0.
    assert (F2 : Forall2 (fun x n => ints_in53 n = true) l ns).
    { apply F; [|exact E]. intros x n1 Hx Ex. apply (IH x); [pose proof (gsize_in_list x l Hx); cbn [gsize] in Hk; lia | exact Ex]. }
    clear -F2 Hn0. induction F2; [contradiction|]. destruct Hn0 as [<-|Hn0]; auto.
  - match goal with |- context [mapres ?f m] => destruct (mapres f m) as [es| |] eqn:E end; try discriminate. intros [= <-]. cbn [ints_in53].
    rewrite sort_keys_forallb. apply forallb_forall. intros kn Hkn.
    assert (F2 : Forall2 (fun (kv : str * gval) (kn : str * node) => ints_in53 (snd kn) = true) m es).
    { eapply mapres_ok; [|exact E]. intros kv kn0 Hin Ex. cbv beta in Ex. destruct (assemble (snd kv)) as [n0| |] eqn:Ea; try discriminate.
      injection Ex as <-. cbn [snd]. apply (IH (snd kv)); [pose proof (gsize_in_map kv m Hin); cbn [gsize] in Hk; lia | exact Ea]. }
    clear -F2 Hkn. induction F2; [contradiction|]. destruct Hkn as [<-|Hkn]; auto.
  - cbn [gsize] in Hk. destruct x as [b|s|z|u|f|b|b|nd|c|l|l|m|y| |]; try discriminate; intros H;
      match type of H with assemble ?y = Ok _ => apply (IH y); [clear IH; cbn [gsize] in *; lia | exact H] end.
Qed.

Theorem reflective_values_are_in_range v n : (forall x, v <> GNode x) -> lit_any v = Ok n -> ints_in53 n = true.
Proof.
  intros Hn. destruct v; cbn [lit_any]; intros H; try (injection H as <-; reflexivity);
    try (match goal with H : assemble ?v = Ok _ |- _ => apply (assemble_in53_n (gsize v) v _ (le_n _) H) end).
  exfalso. eapply Hn. reflexivity.
Qed.

(* ---------- the checker the args engine uses accepts every node that denotes the value ---------- *)
From Coq Require Import Permutation.

Fixpoint gkeys_distinct (v : gval) : Prop :=
  match v with
  | GSlice l | GArray l => (fix all (l : list gval) : Prop := match l with [] => True | x :: r => gkeys_distinct x /\ all r end) l
  | GMap m => NoDup (map fst m) /\
              (fix all (m : list (str * gval)) : Prop := match m with [] => True | kv :: r => gkeys_distinct (snd kv) /\ all r end) m
  | GPtr x => gkeys_distinct x
  | _ => True
  end.

Lemma ins_key_perm' {V} (e : str * V) l : Permutation (ins_key e l) (e :: l).
Proof. induction l as [|x r IH]; cbn; [reflexivity|]. destruct (str_ltb (fst e) (fst x)); [reflexivity|]. rewrite IH. apply perm_swap. Qed.
Lemma sort_keys_perm {V} (l : list (str * V)) : Permutation (sort_keys l) l.
Proof. unfold sort_keys. induction l as [|x r IH]; cbn [fold_right]; [reflexivity|]. rewrite ins_key_perm'. constructor. exact IH. Qed.

Lemma map_get_in_nodup k (v : node) m : NoDup (map fst m) -> In (k, v) m -> map_get k m = Some v.
Proof.
  induction m as [|[k0 v0] m IH]; intros Hn Hin; [contradiction|]. cbn [map_get]. inversion Hn as [|? ? Hni Hn']; subst.
  destruct Hin as [E|Hin].
  - injection E as -> ->. rewrite str_eqb_refl. reflexivity.
  - destruct (str_eqb_spec k k0) as [->|Hne]; [exfalso; apply Hni; apply in_map_iff; exists (k0, v); auto | apply IH; assumption].
Qed.

Lemma Forall2_len {A B} (P : A -> B -> Prop) l l' : Forall2 P l l' -> length l = length l'.
Proof. induction 1; cbn; congruence. Qed.

Lemma node_eqb_refl' : forall n, node_eqb n n = true.
Proof.
  induction n as [| b | z | bits | s | s | l IH | m IH | c] using node_ind'; cbn [node_eqb]; try reflexivity.
  - apply Bool.eqb_reflx.
  - apply Z.eqb_refl.
  - apply N.eqb_refl.
  - apply str_eqb_refl.
  - apply str_eqb_refl.
  - induction IH as [|x r Hx _ IHr]; [reflexivity|]. rewrite Hx. exact IHr.
  - induction IH as [|[k x] r Hx _ IHr]; [reflexivity|]. cbn [snd] in Hx. rewrite str_eqb_refl, Hx. exact IHr.
  - apply str_eqb_refl.
Qed.

Lemma denotesb_complete : forall f v n, (gsize v <= f)%nat -> gkeys_distinct v -> denotes v n -> denotesb f v n = true.
Proof.
  induction f as [|f IH]; intros v n Hf Hk D; [destruct v; cbn in Hf; lia|].
  destruct D as [b|s|z|u|x|c|l ns F|l ns F|m es F|x n D|b|n]; cbn [denotesb].
  - apply Bool.eqb_reflx.
  - apply str_eqb_refl.
  - apply Z.eqb_refl.
  - apply Z.eqb_refl.
  - apply N.eqb_refl.
  - apply str_eqb_refl.
  - cbn [gsize] in Hf. assert (L : length l = length ns) by (eapply Forall2_len; exact F). rewrite L, Nat.eqb_refl. cbn [andb].
    apply forallb_forall. intros [x y] Hin. cbn [fst snd].
    assert (G : forall l ns, Forall2 denotes l ns -> In (x, y) (combine l ns) -> In x l /\ denotes x y).
    { clear. induction 1 as [|a b l ns Hab _ IHl]; cbn; [tauto|]. intros [E|H]; [injection E as -> ->; auto | destruct (IHl H); auto]. }
    destruct (G l ns F Hin) as [Hx Dx]. apply IH; [pose proof (gsize_in_list x l Hx); lia | | exact Dx].
    clear -Hk Hx. cbn in Hk. induction l as [|a l IHl]; [contradiction|]. destruct Hk as [Ha Hl]. destruct Hx as [->|Hx]; auto.
  - cbn [gsize] in Hf. assert (L : length l = length ns) by (eapply Forall2_len; exact F). rewrite L, Nat.eqb_refl. cbn [andb].
    apply forallb_forall. intros [x y] Hin. cbn [fst snd].
    assert (G : forall l ns, Forall2 denotes l ns -> In (x, y) (combine l ns) -> In x l /\ denotes x y).
    { clear. induction 1 as [|a b l ns Hab _ IHl]; cbn; [tauto|]. intros [E|H]; [injection E as -> ->; auto | destruct (IHl H); auto]. }
    destruct (G l ns F Hin) as [Hx Dx]. apply IH; [pose proof (gsize_in_list x l Hx); lia | | exact Dx].
    clear -Hk Hx. cbn in Hk. induction l as [|a l IHl]; [contradiction|]. destruct Hk as [Ha Hl]. destruct Hx as [->|Hx]; auto.
  - cbn [gsize] in Hf. cbn in Hk. destruct Hk as [Hn Hk].
    assert (L : length m = length es) by (eapply Forall2_len; exact F).
    assert (Ls : length (sort_keys es) = length es) by (apply Permutation_length, sort_keys_perm).
    rewrite Ls, L, Nat.eqb_refl. cbn [andb].
    assert (Keys : map fst m = map fst es).
    { clear -F. induction F as [|kv kn m es [E _] _ IHF]; [reflexivity|]. cbn. rewrite E, IHF. reflexivity. }
    assert (Hne : NoDup (map fst es)) by (rewrite <- Keys; exact Hn).
    apply forallb_forall. intros kv Hin.
    assert (G : exists kn, In kn es /\ fst kv = fst kn /\ denotes (snd kv) (snd kn)).
    { clear -F Hin. induction F as [|a b m es [E Dab] _ IHF]; [contradiction|]. destruct Hin as [->|Hin]; [exists b; cbn; auto | destruct (IHF Hin) as (kn & ? & ? & ?); exists kn; cbn; auto]. }
    destruct G as ([k' x'] & Hkn & Ek & Dx). cbn [fst snd] in *. subst k'.
    assert (MG : map_get (fst kv) (sort_keys es) = Some x').
    { apply map_get_in_nodup.
      - eapply Permutation_NoDup; [apply Permutation_map, Permutation_sym, sort_keys_perm | exact Hne].
      - eapply Permutation_in; [apply Permutation_sym, sort_keys_perm | exact Hkn]. }
    rewrite MG. apply IH; [pose proof (gsize_in_map kv m Hin); lia | | exact Dx].
    clear -Hk Hin. induction m as [|a m IHm]; [contradiction|]. destruct Hk as [Ha Hm]. destruct Hin as [->|Hin]; auto.
  - cbn [gsize] in Hf. cbn in Hk. apply IH; [lia | exact Hk | exact D].
  - apply str_eqb_refl.
  - apply node_eqb_refl'.
Qed.

(* no false alarm from the checker: whatever denotes the value is accepted *)
Theorem checker_accepts_every_exact_node v n : gkeys_distinct v -> denotes v n -> denotesb (gsize v) v n = true.
Proof. intros Hk D. apply denotesb_complete; [lia | exact Hk | exact D]. Qed.
