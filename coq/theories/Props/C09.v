(* C09 - Decoders fail cleanly on arbitrary untrusted input.
   PARTIAL: what is proved is panic-freedom and termination of go-ucan's own logic (every model function is
   a total Gallina function into Ok | Err | Panic, and the theorems below exclude Panic) and the bound on
   the CAR section buffer. The third-party decoders (go-ipld-prime, refmt, x509, asn1, libp2p) and the Go
   runtime (stack limit, allocator) are exercised by the decoders engine in child processes under a
   memory ceiling and a time limit, not proved. *)
From Coq Require Import String.
Require Import Base Node Varint Did DidProofs Selector SelectorProofs SelParse SelParseProofs Policy PolicyProofs PolicyIpld PolicyIpldProofs Container ContainerProofs.
Local Open Scope N_scope.

Theorem C09_did_parser_never_panics : forall s, did_parse s <> Panic.
Proof. exact did_parse_never_panics. Qed.
Print Assumptions C09_did_parser_never_panics.

Theorem C09_key_extraction_never_panics : forall (key : Type) marshal unmarshal,
  (forall c m, unmarshal c m <> Panic) -> forall d, pubkey key marshal unmarshal d <> (Panic : res key).
Proof. exact pubkey_never_panics. Qed.
Print Assumptions C09_key_extraction_never_panics.

Theorem C09_selector_parser_never_panics : forall s, sel_parse s <> Panic.
Proof. exact sel_parse_never_panics. Qed.
Print Assumptions C09_selector_parser_never_panics.

Theorem C09_selector_resolution_never_panics : forall sel c, resolve sel c <> Panic.
Proof. exact resolve_never_panics. Qed.
Print Assumptions C09_selector_resolution_never_panics.

Theorem C09_policy_decoder_never_panics : forall n, pol_from_ipld n <> Panic.
Proof. exact pol_from_never_panics. Qed.
Print Assumptions C09_policy_decoder_never_panics.

(* policy matching is a total function into the four results: no panic, no divergence, for every
   statement and every node (integers of any size included) *)
Theorem C09_policy_matching_total : forall s n, exists r : mres, ev s n = r.
Proof. exact ev_total. Qed.
Print Assumptions C09_policy_matching_total.

(* the CAR reader never buffers a section beyond the 32 MiB cap *)
Theorem C09_car_section_buffer_bounded : forall s d r, ld_read s = Ok (Some (d, r)) -> N.of_nat (length d) <= max_section.
Proof. exact ld_read_bounded. Qed.
Print Assumptions C09_car_section_buffer_bounded.
