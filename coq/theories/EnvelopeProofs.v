From Coq Require Import String.
Require Import Base Node Cbor CborProofs Did Envelope.
Local Open Scope N_scope.

Lemma scan_spec m : forall i hdr pl i' hdr' pl', scan m i hdr pl = Ok (i', hdr', pl') ->
  i' = (i + length m)%nat /\ (i + length m <= 2)%nat \/ (m = [] /\ i' = i).
Proof.
  induction m as [|[k v] r IH]; intros i hdr pl i' hdr' pl'; cbn [scan].
  - intros [= <- <- <-]. right. auto.
  - destruct (Nat.leb_spec 2 i); [discriminate|]. destruct (str_eqb k hdr_key).
    + destruct v; try discriminate. intros H'. apply IH in H' as [[-> H']|[-> ->]]; left; cbn [length]; lia.
    + destruct (has_prefix ucan_prefix k); [|discriminate].
      intros H'. apply IH in H' as [[-> H']|[-> ->]]; left; cbn [length]; lia.
Qed.

(* an inspected envelope is exactly [signature; {h: header, tag: payload}] (the two entries in either order) *)
Theorem inspect_shape n i : inspect n = Ok i ->
  exists m, n = List [Bytes (in_sig i); Map m] /\ in_sigpayload i = Map m /\
    has_prefix ucan_prefix (in_tag i) = true /\
    (m = [(hdr_key, Bytes (in_hdr i)); (in_tag i, in_payload i)] \/
     m = [(in_tag i, in_payload i); (hdr_key, Bytes (in_hdr i))]).
Proof.
  unfold inspect. destruct n as [| | | | | |l| |]; try discriminate.
  destruct l as [|sg l]; [discriminate|]. destruct sg as [| | | | |sg| | |]; try discriminate.
  destruct l as [|sp l]; [discriminate|]. destruct sp as [| | | | | | |m|]; try discriminate.
  destruct l; [|discriminate].
  destruct (scan m 0 None None) as [[[i0 h] pl]|e|] eqn:E; try discriminate.
  destruct h as [h|]; [|destruct pl as [[? ?]|]; discriminate]. destruct pl as [[tag pl]|]; [|discriminate].
  destruct (Nat.eqb_spec i0 2) as [->|]; [|discriminate]. intros [= <-]. cbn [in_sig in_sigpayload in_tag in_hdr in_payload].
  exists m. split; [reflexivity|]. split; [reflexivity|].
  (* unfold the scan on the at most two entries *)
  destruct m as [|[k1 v1] m]; [cbn in E; discriminate|]. cbn [scan] in E. cbn [Nat.leb] in E.
  destruct (str_eqb k1 hdr_key) eqn:E1.
  - destruct v1 as [| | | | |h1| | |]; try discriminate.
    destruct m as [|[k2 v2] m]; [cbn in E; discriminate|]. cbn [scan Nat.leb] in E.
    destruct (str_eqb k2 hdr_key) eqn:E2.
    + destruct v2; try discriminate. destruct m as [|[k3 v3] m]; cbn [scan Nat.leb] in E; discriminate.
    + destruct (has_prefix ucan_prefix k2) eqn:P2; [|discriminate].
      destruct m as [|[k3 v3] m]; cbn [scan Nat.leb] in E; [|discriminate].
      injection E as <- <- <-. apply str_eqb_eq in E1. subst. split; [exact P2|]. left. reflexivity.
  - destruct (has_prefix ucan_prefix k1) eqn:P1; [|discriminate].
    destruct m as [|[k2 v2] m]; [cbn in E; discriminate|]. cbn [scan Nat.leb] in E.
    destruct (str_eqb k2 hdr_key) eqn:E2.
    + destruct v2 as [| | | | |h2| | |]; try discriminate.
      destruct m as [|[k3 v3] m]; cbn [scan Nat.leb] in E; [|discriminate].
      injection E as <- <- <-. apply str_eqb_eq in E2. subst. split; [exact P1|]. right. reflexivity.
    + destruct (has_prefix ucan_prefix k2); [|discriminate].
      destruct m as [|[k3 v3] m]; cbn [scan Nat.leb] in E; discriminate.
Qed.

Section EnvThms.
  Variable verify : did -> str -> str -> bool.
  Variable header_of : did -> res str.
  Variable A : Type.
  Variable bind : node -> res A.

  (* C06: a token comes out only if the signature verifies, under the key of the issuer named in the
     decoded payload and with the header announced in the envelope, over the canonical encoding of
     exactly the header and payload that were decoded *)
  Theorem accept_verified tag n a : env_decode verify header_of A bind tag n = Ok a ->
    exists sg hdr pl pm iss d m,
      n = List [Bytes sg; Map m] /\
      (m = [(hdr_key, Bytes hdr); (tag, pl)] \/ m = [(tag, pl); (hdr_key, Bytes hdr)]) /\
      pl = Map pm /\ map_get (lit "iss") pm = Some (Str iss) /\ did_parse iss = Ok d /\
      header_of d = Ok hdr /\ verify d (encode (Map m)) sg = true /\ bind pl = Ok a.
  Proof.
    unfold env_decode. destruct (inspect n) as [i|e|] eqn:Ei; try discriminate.
    destruct (str_eqb (in_tag i) tag) eqn:Et; cbn [negb]; [|discriminate]. apply str_eqb_eq in Et.
    destruct (in_payload i) as [| | | | | | |pm|] eqn:Ep; try discriminate.
    destruct (map_get (lit "iss") pm) as [[| | | |iss| | | |]|] eqn:Em; try discriminate.
    destruct (did_parse iss) as [d|e|] eqn:Ed; try discriminate.
    destruct (header_of d) as [h|e|] eqn:Eh; try discriminate.
    destruct (str_eqb (in_hdr i) h) eqn:Ehh; cbn [negb]; [|discriminate]. apply str_eqb_eq in Ehh.
    destruct (verify d (encode (in_sigpayload i)) (in_sig i)) eqn:Ev; cbn [negb]; [|discriminate].
    intros Hb. apply inspect_shape in Ei as (m & Hn & Hsp & _ & Hm).
    exists (in_sig i), h, (Map pm), pm, iss, d, m. rewrite Hsp in Ev. rewrite Ep in Hm. rewrite Ehh, Et in Hm.
    repeat split; auto.
  Qed.

  (* the signed message determines header, tag and payload: two envelopes whose signed messages are
     equal carry the same (canonicalised) SigPayload, so every decoded field is a function of a message
     that verifies under the issuer's key *)
  Theorem signed_message_determines_content sp1 sp2 :
    wf sp1 -> wf sp2 -> encode sp1 = encode sp2 -> canon sp1 = canon sp2.
  Proof.
    intros H1 H2 E. destruct (encode_injective sp1 sp2 [] [] H1 H2) as [H _]; [rewrite !app_nil_r; exact E|exact H].
  Qed.

  Theorem wrong_tag_rejected tag n i : inspect n = Ok i -> in_tag i <> tag ->
    exists e, env_decode verify header_of A bind tag n = Err e.
  Proof.
    intros Hi Ht. unfold env_decode. rewrite Hi. destruct (str_eqb (in_tag i) tag) eqn:E; [apply str_eqb_eq in E; contradiction|].
    cbn [negb]. eauto.
  Qed.
End EnvThms.
