(* Model of token/internal/varsig as the envelope uses it: the header written for (and required of) an issuer
   is a constant per key type. The table itself is Generated.varsig_headers, read off tokens sealed by the
   running implementation for a key of every algorithm, keyed by the multicodec code of the issuer's DID. *)
Require Import Base Node Varint Did Generated.
Local Open Scope N_scope.

Definition header_table (d : did) : res str :=
  match find (fun e => fst e =? fst d) varsig_headers with
  | Some e => Ok (snd e)
  | None => Err 13
  end.

(* libp2p's key type of a did:key multicodec: 0 Ed25519, 1 Secp256k1, 2 ECDSA (P-256/384/521), 3 RSA *)
Definition key_type (c : N) : N :=
  if c =? 237 then 0 else if c =? 231 then 1
  else if (c =? 4608) || (c =? 4609) || (c =? 4610) then 2
  else if c =? 4613 then 3 else 4.

(* a header as a sequence of minimal unsigned varints *)
Fixpoint varints_f (fuel : nat) (b : str) : option (list N) :=
  match fuel with
  | O => None
  | S f =>
      match b with
      | [] => Some []
      | _ => match from_uvarint b with
             | Ok (v, n) => match n with
                            | O => None
                            | S _ => match varints_f f (skipn n b) with Some l => Some (v :: l) | None => None end
                            end
             | _ => None
             end
      end
  end.
Definition varints (b : str) : option (list N) := varints_f (S (length b)) b.
