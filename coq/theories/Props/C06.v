(* C06 - A decoded token was signed by its issuer over exactly the decoded content. *)
From Coq Require Import String.
Require Import Base Node Cbor CborProofs Did Generated Envelope EnvelopeProofs Varsig VarsigProofs Token SealProofs.
Local Open Scope N_scope.

(* [verify d m s]: the signature check of the key extracted from DID d; [header_of d]: the varsig header
   go-ucan derives from that key's type (an error when no key can be extracted); [bind]: the schema-bound
   payload decoder of the requested token type. *)
Theorem C06_accepted_only_if_signature_verifies_over_decoded_content :
  forall verify header_of (A : Type) (bind : node -> res A) tag n a,
  env_decode verify header_of A bind tag n = Ok a ->
  exists sg hdr pl pm iss d m,
    n = List [Bytes sg; Map m] /\
    (m = [(hdr_key, Bytes hdr); (tag, pl)] \/ m = [(tag, pl); (hdr_key, Bytes hdr)]) /\
    pl = Map pm /\ map_get (lit "iss") pm = Some (Str iss) /\ did_parse iss = Ok d /\
    header_of d = Ok hdr /\ verify d (encode (Map m)) sg = true /\ bind pl = Ok a.
Proof. exact accept_verified. Qed.
Print Assumptions C06_accepted_only_if_signature_verifies_over_decoded_content.

(* the canonical encoding is injective and prefix-free: the message that was verified determines the
   header, the tag and every field of the payload (up to the order of map entries, which the encoding
   normalises). With unforgeability of the signature scheme (a premise about the cryptography, not
   proved here) no modification of the sealed bytes yields an accepted token with different content. *)
Theorem C06_signed_message_determines_content : forall x y r1 r2,
  wf x -> wf y -> encode x ++ r1 = encode y ++ r2 -> canon x = canon y /\ r1 = r2.
Proof. exact encode_injective. Qed.
Print Assumptions C06_signed_message_determines_content.

Theorem C06_encoding_roundtrip : forall x, wf x -> forall f r, (depth x <= f)%nat -> dec f (encode x ++ r) = Some (canon x, r).
Proof. exact dec_encode. Qed.
Print Assumptions C06_encoding_roundtrip.

(* the generic decoder accepts exactly what the typed decoder of the envelope's tag accepts *)
Theorem C06_generic_decoder_is_typed_decoder : forall verify header_of n a,
  generic_decode verify header_of n = Ok a ->
  match a with
  | ADlg t => env_decode verify header_of dtok dlg_from_payload dlg_tag n = Ok t
  | AInv t => env_decode verify header_of itok inv_from_payload inv_tag n = Ok t
  end.
Proof. exact generic_only_typed. Qed.
Print Assumptions C06_generic_decoder_is_typed_decoder.

Theorem C06_typed_dlg_implies_generic : forall verify header_of n t,
  env_decode verify header_of dtok dlg_from_payload dlg_tag n = Ok t -> generic_decode verify header_of n = Ok (ADlg t).
Proof. exact generic_typed_agree_dlg. Qed.
Print Assumptions C06_typed_dlg_implies_generic.

Theorem C06_typed_inv_implies_generic : forall verify header_of n t,
  env_decode verify header_of itok inv_from_payload inv_tag n = Ok t -> generic_decode verify header_of n = Ok (AInv t).
Proof. exact generic_typed_agree_inv. Qed.
Print Assumptions C06_typed_inv_implies_generic.

(* the varsig header table go-ucan writes and requires (Generated.varsig_headers, read off tokens sealed by
   the running code for a key of every algorithm): an accepted envelope's header is the one of its issuer's
   key type - a header copied from any algorithm's entry names that same key type - so a signature made for
   one key type is never accepted under an issuer of another; every header starts with the varsig prefix and
   ends with the dag-cbor payload encoding; every algorithm a DID can be built for has a header *)
Theorem C06_accepted_header_names_issuer_key_type : forall verify (A : Type) (bind : node -> res A) tag n a,
  env_decode verify header_table A bind tag n = Ok a ->
  exists sg hdr m iss d pm pl,
    n = List [Bytes sg; Map m] /\
    (m = [(hdr_key, Bytes hdr); (tag, pl)] \/ m = [(tag, pl); (hdr_key, Bytes hdr)]) /\
    pl = Map pm /\ map_get (lit "iss") pm = Some (Str iss) /\ did_parse iss = Ok d /\
    forall c, In (c, hdr) varsig_headers -> key_type c = key_type (fst d).
Proof. exact accepted_header_names_issuer_key_type. Qed.
Print Assumptions C06_accepted_header_names_issuer_key_type.

Theorem C06_header_table_well_formed :
  forallb (fun e => header_shape_ok (snd e)) varsig_headers = true /\
  forallb (fun c => existsb (fun e => fst e =? c) varsig_headers) emit_codes = true.
Proof. exact (conj headers_shape headers_cover_emitted). Qed.
Print Assumptions C06_header_table_well_formed.

(* C06 end to end, with the unforgeability of the signature scheme as an explicit premise: if the only
   messages that verify under a principal's key are encodings of the signed parts that principal produced,
   then the signed part of every accepted envelope (header, tag, payload) is one of those, up to the order of
   map entries - whatever was done to the bytes on the way *)
Theorem C06_accepted_content_was_signed_by_the_issuer : forall verify header_of (signed : did -> list node),
  (forall d m s, verify d m s = true -> exists sp, In sp (signed d) /\ wf sp /\ m = encode sp) ->
  forall (A : Type) (bind : node -> res A) tag n a,
  wf n -> env_decode verify header_of A bind tag n = Ok a ->
  exists sg hdr m d sp iss pm pl,
    n = List [Bytes sg; Map m] /\
    (m = [(hdr_key, Bytes hdr); (tag, pl)] \/ m = [(tag, pl); (hdr_key, Bytes hdr)]) /\ pl = Map pm /\
    map_get (lit "iss") pm = Some (Str iss) /\ did_parse iss = Ok d /\
    In sp (signed d) /\ canon sp = canon (Map m) /\ bind pl = Ok a.
Proof. exact accepted_content_was_signed. Qed.
Print Assumptions C06_accepted_content_was_signed_by_the_issuer.
