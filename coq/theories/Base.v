(* Base: byte strings, results, small list utilities shared by every model file. *)
From Coq Require Export List NArith ZArith Bool Lia Arith.
From Coq Require Import Ascii String.
Export ListNotations.
Local Open Scope N_scope.

(* A Go string / []byte is a list of byte values. *)
Definition str := list N.

(* Coq string literal -> byte list, so that constants stay readable: (lit "ucan/dlg@1.0.0-rc.1"). *)
Fixpoint lit (s : string) : str :=
  match s with
  | EmptyString => []
  | String a r => N_of_ascii a :: lit r
  end.

(* Result of a Go call: value, error (with a coarse class), or panic. *)
Inductive res (A : Type) : Type :=
| Ok (a : A)
| Err (class : N)
| Panic.
Arguments Ok {A} a.
Arguments Err {A} class.
Arguments Panic {A}.

Definition bind {A B} (r : res A) (f : A -> res B) : res B :=
  match r with Ok a => f a | Err c => Err c | Panic => Panic end.
Notation "x <- e ;; k" := (bind e (fun x => k)) (at level 61, e at next level, right associativity).

Definition is_ok {A} (r : res A) : bool := match r with Ok _ => true | _ => false end.

Fixpoint str_eqb (a b : str) : bool :=
  match a, b with
  | [], [] => true
  | x :: a', y :: b' => (x =? y) && str_eqb a' b'
  | _, _ => false
  end.

Lemma str_eqb_eq a b : str_eqb a b = true <-> a = b.
Proof.
  revert b; induction a as [|x a IH]; intros [|y b]; cbn; try (split; congruence).
  rewrite andb_true_iff, N.eqb_eq, IH. split; [intros [-> ->]; reflexivity | intros [= -> ->]; auto].
Qed.

Lemma str_eqb_refl a : str_eqb a a = true.
Proof. apply str_eqb_eq; reflexivity. Qed.

Lemma str_eqb_neq a b : str_eqb a b = false <-> a <> b.
Proof.
  split.
  - intros H E. apply str_eqb_eq in E. congruence.
  - intros H. destruct (str_eqb a b) eqn:E; [apply str_eqb_eq in E; contradiction | reflexivity].
Qed.

Lemma str_eqb_spec a b : reflect (a = b) (str_eqb a b).
Proof. destruct (str_eqb a b) eqn:E; constructor; [apply str_eqb_eq | apply str_eqb_neq]; exact E. Qed.

(* lexicographic byte-wise comparison, as Go's string < *)
Fixpoint str_ltb (a b : str) : bool :=
  match a, b with
  | _, [] => false
  | [], _ :: _ => true
  | x :: a', y :: b' => (x <? y) || ((x =? y) && str_ltb a' b')
  end.

(* strings.HasPrefix(s, p) *)
Fixpoint has_prefix (p s : str) : bool :=
  match p, s with
  | [], _ => true
  | x :: p', y :: s' => (x =? y) && has_prefix p' s'
  | _ :: _, [] => false
  end.

Lemma has_prefix_app p s : has_prefix p s = true <-> exists r, s = p ++ r.
Proof.
  revert s; induction p as [|x p IH]; intros s; cbn.
  - split; eauto.
  - destruct s as [|y s]; [split; [discriminate|intros (r & H); discriminate]|].
    rewrite andb_true_iff, N.eqb_eq, IH. split.
    + intros (-> & r & ->). eauto.
    + intros (r & [= -> ->]). eauto.
Qed.

Definition last_opt {A} (l : list A) : option A :=
  match rev l with [] => None | x :: _ => Some x end.

(* ASCII lower-casing (strings.ToLower restricted to ASCII; non-ASCII is outside the model) *)
Definition lower_c (c : N) : N := if (65 <=? c) && (c <=? 90) then c + 32 else c.
Definition to_lower (s : str) : str := map lower_c s.

Definition is_digit (c : N) : bool := (48 <=? c) && (c <=? 57).
Definition is_ascii_letter (c : N) : bool :=
  ((65 <=? c) && (c <=? 90)) || ((97 <=? c) && (c <=? 122)).

Fixpoint skipn_skipn_aux {A} (n m : nat) (l : list A) : skipn n (skipn m l) = skipn (m + n) l.
Proof.
  destruct m as [|m]; cbn [skipn plus]; [reflexivity|].
  destruct l as [|x l]; [destruct n; reflexivity|]. apply skipn_skipn_aux.
Qed.
