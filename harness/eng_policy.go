package main

import (
	"math"

	"github.com/ipld/go-ipld-prime/datamodel"
	"github.com/ipld/go-ipld-prime/node/basicnode"

	"github.com/ucan-wg/go-ucan/pkg/policy"
	"github.com/ucan-wg/go-ucan/pkg/policy/selector"
)

func init() { register(&Engine{Name: "policy", Gen: genPolicy}) }

// pstmt is the harness's own policy AST: it is turned into go-ucan constructors on one side and
// into the wire form on the other (selectors as the segments go-ucan's parser produced).
type pstmt struct {
	kind string
	sel  string
	val  datamodel.Node
	pat  string
	subs []pstmt
}

func (s pstmt) cstor() policy.Constructor {
	switch s.kind {
	case "==":
		return policy.Equal(s.sel, s.val)
	case ">":
		return policy.GreaterThan(s.sel, s.val)
	case ">=":
		return policy.GreaterThanOrEqual(s.sel, s.val)
	case "<":
		return policy.LessThan(s.sel, s.val)
	case "<=":
		return policy.LessThanOrEqual(s.sel, s.val)
	case "not":
		return policy.Not(s.subs[0].cstor())
	case "and", "or":
		cs := make([]policy.Constructor, len(s.subs))
		for i, x := range s.subs {
			cs[i] = x.cstor()
		}
		if s.kind == "and" {
			return policy.And(cs...)
		}
		return policy.Or(cs...)
	case "like":
		return policy.Like(s.sel, s.pat)
	case "all":
		return policy.All(s.sel, s.subs[0].cstor())
	case "any":
		return policy.Any(s.sel, s.subs[0].cstor())
	}
	panic("bad kind " + s.kind)
}

// selectors go to the model as text: what they mean is for the model's parser to say (the harness only makes
// sure the pool texts are accepted by the implementation)
func selW(text string) W {
	if _, err := selector.Parse(text); err != nil {
		panic("harness selector pool must parse: " + text)
	}
	return WStr(text)
}

func (s pstmt) wire() W {
	switch s.kind {
	case "==", ">", ">=", "<", "<=":
		return WList(WStr(s.kind), selW(s.sel), WNode(s.val))
	case "not":
		return WList(WStr("not"), s.subs[0].wire())
	case "and", "or":
		items := make([]W, len(s.subs))
		for i, x := range s.subs {
			items[i] = x.wire()
		}
		return WList(WStr(s.kind), WList(items...))
	case "like":
		return WList(WStr("like"), selW(s.sel), WStr(s.pat))
	case "all", "any":
		return WList(WStr(s.kind), selW(s.sel), s.subs[0].wire())
	}
	panic("bad kind")
}

func polWire(p []pstmt) W {
	items := make([]W, len(p))
	for i, s := range p {
		items[i] = s.wire()
	}
	return WList(items...)
}

func polBuild(p []pstmt) (policy.Policy, error) {
	cs := make([]policy.Constructor, len(p))
	for i, s := range p {
		cs[i] = s.cstor()
	}
	return policy.Construct(cs...)
}

func verdictW(pol policy.Policy, d datamodel.Node) (obs W) {
	defer func() {
		if r := recover(); r != nil {
			obs = WPanic()
		}
	}()
	m, _ := pol.Match(d)
	p, _ := pol.PartialMatch(d)
	return WList(WBool(m), WBool(p))
}

var polSelPool = []string{".", ".a", ".b", ".a.b", ".zz", ".zz?", ".a?", ".a[0]", ".a[]", ".[0]", ".[-1]?", ".b.a", ".c?", ".a[1:]", ".[]"}
var likePats = []string{"*", "a*", "*c", "a*c", `a\*b`, "h*o w*d", "", "abc", "*l*"}

func polData() []datamodel.Node {
	var d []datamodel.Node
	for _, j := range valuePool {
		d = append(d, J(j))
	}
	for _, j := range []string{`{"a":5}`, `{"a":5.0}`, `{"a":-1,"b":9007199254740991}`, `{"a":2.5,"b":-0.0}`, `{"a":"abc"}`, `{"a":"a*b","b":"héllo wörld"}`,
		`{"a":[5,6,7]}`, `{"a":[1.5,2.5]}`, `{"a":[],"b":{"a":1}}`, `{"a":["abc","aXc","a*b"]}`, `{"a":[{"b":1},{"b":5}]}`, `[5,6]`, `[[5],[6,1]]`, `5`, `5.0`,
		`{"a":{"b":5}}`, `{"a":{"b":"abc"}}`, `{"a":9007199254740991}`, `{"a":-9007199254740991}`, `{"a":[{"a":5},{"a":6}],"b":[1,5]}`} {
		d = append(d, J(j))
	}
	mk := func(f float64) datamodel.Node {
		nb := basicnode.Prototype.Map.NewBuilder()
		ma, _ := nb.BeginMap(1)
		ma.AssembleKey().AssignString("a")
		ma.AssembleValue().AssignFloat(f)
		ma.Finish()
		return nb.Build()
	}
	d = append(d, mk(math.NaN()), mk(math.Inf(1)), mk(math.Inf(-1)), mk(math.Copysign(0, -1)), mk(1e308), mk(5e-324),
		mk(math.MaxFloat64), mk(-math.MaxFloat64), mk(-1e308), mk(-5e-324))
	// the floats right next to the bounds the policies use: order on floats is exact, not "close enough"
	d = append(d, mk(math.Nextafter(5, 6)), mk(math.Nextafter(5, 4)), mk(math.Nextafter(2.5, 3)), mk(math.Nextafter(2.5, 2)),
		mk(math.Nextafter(1e308, math.Inf(1))), mk(math.Nextafter(1e308, 0)), mk(math.Nextafter(math.MaxFloat64, 0)), mk(math.Nextafter(-1e308, 0)),
		mk(math.Nextafter(5, 6)+math.Nextafter(5, 6)-5), mk(5.000000000000002), mk(2.4999999999999996))
	return d
}

func polVals() []datamodel.Node {
	v := []datamodel.Node{}
	for _, j := range []string{`5`, `1`, `-1`, `0`, `5.0`, `2.5`, `0.0`, `"abc"`, `"a*b"`, `null`, `true`, `[5,6,7]`, `[]`, `{"b":5}`, `{}`, `9007199254740991`, `[1.5,2.5]`, `{"/":{"bytes":"AQID"}}`} {
		v = append(v, J(j))
	}
	v = append(v, basicnode.NewFloat(math.NaN()), basicnode.NewFloat(math.Inf(1)), basicnode.NewFloat(math.Copysign(0, -1)),
		basicnode.NewFloat(math.MaxFloat64), basicnode.NewFloat(-math.MaxFloat64), basicnode.NewFloat(1e308), basicnode.NewFloat(-1e308), basicnode.NewFloat(math.Inf(-1)))
	return v
}

func genPolicy(c *Ctx) {
	data := polData()
	vals := polVals()
	ops := []string{"==", ">", ">=", "<", "<="}
	run1 := func(tag string, p []pstmt, d datamodel.Node) {
		pol, err := polBuild(p)
		if err != nil {
			return
		}
		c.Emit(tag, WList(WStr("m"), polWire(p), WNode(d)), verdictW(pol, d))
	}
	run2 := func(tag, op string, p1, p2 []pstmt, d1, d2 datamodel.Node) {
		a, err1 := polBuild(p1)
		b, err2 := polBuild(p2)
		if err1 != nil || err2 != nil {
			return
		}
		if op == "cat" {
			ab, _ := polBuild(append(append([]pstmt{}, p1...), p2...))
			c.Emit(tag, WList(WStr(op), polWire(p1), polWire(p2), WNode(d1), WNode(d2)), WList(verdictW(a, d1), verdictW(b, d1), verdictW(ab, d1)))
			return
		}
		c.Emit(tag, WList(WStr(op), polWire(p1), polWire(p2), WNode(d1), WNode(d2)), WList(verdictW(a, d1), verdictW(b, d2)))
	}
	// 1. every leaf statement over the pools (exhaustive product, thinned in the quick tier)
	stride := 1
	for oi, op := range ops {
		for si, sel := range polSelPool {
			for vi, v := range vals {
				for di, d := range data {
					if !c.Thorough() && (oi+si+vi+di)%4 != 0 {
						continue
					}
					_ = stride
					run1("pol/leaf", []pstmt{{kind: op, sel: sel, val: v}}, d)
				}
			}
		}
	}
	for _, sel := range polSelPool {
		for _, p := range likePats {
			for _, d := range data {
				run1("pol/like", []pstmt{{kind: "like", sel: sel, pat: p}}, d)
			}
		}
	}
	// like over strings in which the literal parts of the pattern overlap or repeat: every pattern over
	// {a, b, *} of length <= 4 against every string over {a, b} of length <= 5, directly, under not, and as any/all
	{
		var pats, strs []string
		allStrings("ab*", 4, func(s string) { pats = append(pats, s) })
		allStrings("ab", 5, func(s string) { strs = append(strs, s) })
		for pi, p := range pats {
			for si, sv := range strs {
				if !c.Thorough() && (pi+si)%3 != 0 {
					continue
				}
				d := J(`{"s":"` + sv + `","l":["` + sv + `","b"]}`)
				st := pstmt{kind: "like", sel: ".s", pat: p}
				switch (pi + si) % 4 {
				case 1:
					st = pstmt{kind: "not", subs: []pstmt{st}}
				case 2:
					st = pstmt{kind: "any", sel: ".l", subs: []pstmt{{kind: "like", sel: ".", pat: p}}}
				case 3:
					st = pstmt{kind: "all", sel: ".l", subs: []pstmt{{kind: "like", sel: ".", pat: p}}}
				}
				run1("pol/like-overlap", []pstmt{st}, d)
			}
		}
	}
	// equality and ordering on integers at and beyond the 53-bit range (constructor-built policies may hold them),
	// against the same value as data: == must hold exactly when >= and <= both do
	{
		ints := []datamodel.Node{basicnode.NewInt(9007199254740991), basicnode.NewInt(9007199254740992), basicnode.NewInt(1 << 60),
			basicnode.NewInt(math.MaxInt64), basicnode.NewInt(math.MinInt64), basicnode.NewInt(-9007199254740992), basicnode.NewInt(0)}
		for _, a := range ints {
			for _, b := range ints {
				d := mkMap(ent{"a", b}, ent{"l", mkList(b, a)})
				for _, op := range ops {
					run1("pol/bigint", []pstmt{{kind: op, sel: ".a", val: a}}, d)
				}
				run1("pol/bigint", []pstmt{{kind: "==", sel: ".l", val: mkList(a, b)}}, d)
				run1("pol/bigint", []pstmt{{kind: "not", subs: []pstmt{{kind: "==", sel: ".a", val: a}}}}, d)
				run1("pol/bigint", []pstmt{{kind: "any", sel: ".l", subs: []pstmt{{kind: "==", sel: ".", val: a}}}}, d)
			}
		}
	}
	// == on maps: the same entries in every order (at two levels), one entry more or fewer, one value changed
	{
		maps := []datamodel.Node{
			mkMap(ent{"id", basicnode.NewInt(7)}, ent{"n", basicnode.NewInt(2)}),
			mkMap(ent{"n", basicnode.NewInt(2)}, ent{"id", basicnode.NewInt(7)}),
			mkMap(ent{"n", basicnode.NewInt(3)}, ent{"id", basicnode.NewInt(7)}),
			mkMap(ent{"id", basicnode.NewInt(7)}),
			mkMap(ent{"id", basicnode.NewInt(7)}, ent{"n", basicnode.NewInt(2)}, ent{"x", datamodel.Null}),
			mkMap(ent{"b", mkMap(ent{"zz", basicnode.NewInt(1)}, ent{"y", basicnode.NewInt(2)})}, ent{"aa", basicnode.NewInt(1)}),
			mkMap(ent{"aa", basicnode.NewInt(1)}, ent{"b", mkMap(ent{"y", basicnode.NewInt(2)}, ent{"zz", basicnode.NewInt(1)})}),
			mkMap(), mkList(mkMap(ent{"n", basicnode.NewInt(2)}, ent{"id", basicnode.NewInt(7)})), mkList(mkMap(ent{"id", basicnode.NewInt(7)}, ent{"n", basicnode.NewInt(2)})),
		}
		for _, a := range maps {
			for _, b := range maps {
				d := mkMap(ent{"v", b}, ent{"l", mkList(b)})
				run1("pol/map-order", []pstmt{{kind: "==", sel: ".v", val: a}}, d)
				run1("pol/map-order", []pstmt{{kind: "not", subs: []pstmt{{kind: "==", sel: ".v", val: a}}}}, d)
				run1("pol/map-order", []pstmt{{kind: "any", sel: ".l", subs: []pstmt{{kind: "==", sel: ".", val: a}}}}, d)
			}
		}
	}
	// like on text that is not UTF-8 / holds U+FFFD, and on values that are not strings behind optional selectors
	{
		bs := []string{"caf\xe9", "caf\xe8 au lait", "caf\ufffd", "\xff", "\xfe", "é", "\ufffd"}
		ps := []string{"caf\xe9*", "caf\ufffd*", "\\\xff", "\\\ufffd", "*\\\ufffd", "*", "caf*"}
		for _, p := range ps {
			for _, b := range bs {
				d := mkMap(ent{"s", basicnode.NewString(b)}, ent{"l", mkList(basicnode.NewString(b))})
				run1("pol/like-bytes", []pstmt{{kind: "like", sel: ".s", pat: p}}, d)
				run1("pol/like-bytes", []pstmt{{kind: "not", subs: []pstmt{{kind: "like", sel: ".s", pat: p}}}}, d)
				run1("pol/like-bytes", []pstmt{{kind: "any", sel: ".l", subs: []pstmt{{kind: "like", sel: ".", pat: p}}}}, d)
			}
		}
		for _, sel := range []string{".a", ".a?", ".a[0]", ".a[0]?", ".a.b?", ".[]", ".a[]?"} {
			for _, j := range []string{`{"a":null}`, `{"a":5}`, `{"a":[null]}`, `{"a":["abc"]}`, `{"a":{"b":null}}`, `{"a":"abc"}`, `{}`, `{"a":[]}`, `null`} {
				for _, p := range []string{"*", "abc", "a*"} {
					run1("pol/like-kinds", []pstmt{{kind: "like", sel: sel, pat: p}}, J(j))
					run1("pol/like-kinds", []pstmt{{kind: "any", sel: ".", subs: []pstmt{{kind: "like", sel: sel, pat: p}}}}, mkList(J(j)))
				}
			}
		}
	}
	// like with the zero byte and U+FFFF in text and pattern, and runs of wildcards beside escaped stars
	{
		ps := []string{"a", "a*", "**a", "\uffff**", "**\uffff", "\\***", "\uffff\\*", "a**b", "a\x00", "\x00*", "\\*\uffff**"}
		bs := []string{"a", "a\x00", "\x00", "\uffff", "\uffff*", "*", "\\*", "ab", "a\x00b", "aXb", "a\x00\x00", "*\uffff", "\\*\uffff"}
		for _, p := range ps {
			for _, b := range bs {
				d := mkMap(ent{"s", basicnode.NewString(b)}, ent{"l", mkList(basicnode.NewString(b))})
				run1("pol/like-sentinels", []pstmt{{kind: "like", sel: ".s", pat: p}}, d)
				run1("pol/like-sentinels", []pstmt{{kind: "not", subs: []pstmt{{kind: "like", sel: ".s", pat: p}}}}, d)
				run1("pol/like-sentinels", []pstmt{{kind: "all", sel: ".l", subs: []pstmt{{kind: "like", sel: ".", pat: p}}}}, d)
			}
		}
	}
	// selectors with several slice segments (each has its own bounds), in every statement kind
	{
		d := J(`{"a":[1,2,3,4,5],"s":"hello","l":[[1,2,3,4,5],[3,4,5,6,7]]}`)
		sels := []string{".a[1:][0:2]", ".a[:4][-1:]", ".a[1:][:1]", ".a[0:2][1:]", ".a[2:][1:][0:1]", ".a[-2:][:1]", ".a[1:3]"}
		for _, sel := range sels {
			for _, v := range []string{"[2,3]", "[4]", "[2]", "[1,2]", "[5]", "[]", "[3,4]", "[1]"} {
				run1("pol/two-slices", []pstmt{{kind: "==", sel: sel, val: J(v)}}, d)
				run1("pol/two-slices", []pstmt{{kind: "not", subs: []pstmt{{kind: "==", sel: sel, val: J(v)}}}}, d)
				run1("pol/two-slices", []pstmt{{kind: "any", sel: ".l", subs: []pstmt{{kind: "==", sel: "." + sel[2:], val: J(v)}}}}, d)
			}
			for _, k := range []string{"0", "1", "-1"} {
				for _, v := range []string{"1", "2", "3", "4", "5"} {
					run1("pol/two-slices", []pstmt{{kind: "==", sel: sel + "[" + k + "]?", val: J(v)}}, d)
					run1("pol/two-slices", []pstmt{{kind: ">=", sel: sel + "[" + k + "]?", val: J(v)}}, d)
				}
			}
		}
		for _, sel := range []string{".s[1:][0:2]", ".s[:4][-1:]", ".s[1:][:1]", ".s[0:2][1:]", ".s[1:3]"} {
			for _, p := range []string{"el", "h*", "e*", "l", "e", "he", "*l", "*"} {
				run1("pol/two-slices", []pstmt{{kind: "like", sel: sel, pat: p}}, d)
				run1("pol/two-slices", []pstmt{{kind: "not", subs: []pstmt{{kind: "like", sel: sel, pat: p}}}}, d)
			}
		}
	}
	// 2. random nested statements
	var gen func(depth int) pstmt
	leaf := func() pstmt {
		if c.R.Chance(20) {
			return pstmt{kind: "like", sel: c.R.Pick(polSelPool), pat: c.R.Pick(likePats)}
		}
		return pstmt{kind: ops[c.R.Intn(len(ops))], sel: c.R.Pick(polSelPool), val: vals[c.R.Intn(len(vals))]}
	}
	gen = func(depth int) pstmt {
		if depth == 0 || c.R.Chance(35) {
			return leaf()
		}
		switch c.R.Intn(5) {
		case 0:
			return pstmt{kind: "not", subs: []pstmt{gen(depth - 1)}}
		case 1, 2:
			k := c.R.Intn(4)
			subs := make([]pstmt, k)
			for i := range subs {
				subs[i] = gen(depth - 1)
			}
			return pstmt{kind: []string{"and", "or"}[c.R.Intn(2)], subs: subs}
		default:
			return pstmt{kind: []string{"all", "any"}[c.R.Intn(2)], sel: c.R.Pick([]string{".a", ".", ".a[]", ".b", ".zz?", ".zz", ".[]", ".a?"}), subs: []pstmt{gen(depth - 1)}}
		}
	}
	n := 20000
	if c.Thorough() {
		n = 1500000
	}
	for i := 0; i < n; i++ {
		k := 1 + c.R.Intn(3)
		p := make([]pstmt, k)
		for j := range p {
			p[j] = gen(4)
		}
		run1("pol/rnd", p, data[c.R.Intn(len(data))])
	}
	// 3. metamorphic groups: permuted operands, permuted elements, one more operand, concatenation
	perms := func(k int) [][]int {
		var out [][]int
		var rec func(cur []int, used int)
		rec = func(cur []int, used int) {
			if len(cur) == k {
				out = append(out, append([]int{}, cur...))
				return
			}
			for i := 0; i < k; i++ {
				if used&(1<<i) == 0 {
					rec(append(cur, i), used|1<<i)
				}
			}
		}
		rec(nil, 0)
		return out
	}
	m := 1500
	if c.Thorough() {
		m = 60000
	}
	for i := 0; i < m; i++ {
		k := 2 + c.R.Intn(3)
		subs := make([]pstmt, k)
		for j := range subs {
			subs[j] = gen(2)
		}
		kind := []string{"and", "or"}[c.R.Intn(2)]
		d := data[c.R.Intn(len(data))]
		base := []pstmt{{kind: kind, subs: subs}}
		for _, pm := range perms(k) {
			ps := make([]pstmt, k)
			for a, b := range pm {
				ps[a] = subs[b]
			}
			run2("pol/perm-ops", "perm", base, []pstmt{{kind: kind, subs: ps}}, d, d)
			// the same pair under a negation and inside an enclosing connective, where a change of
			// result class (not just of pass/fail) becomes visible
			run2("pol/perm-ops-not", "perm", []pstmt{{kind: "not", subs: base}}, []pstmt{{kind: "not", subs: []pstmt{{kind: kind, subs: ps}}}}, d, d)
			outer := []string{"and", "or"}[(i+len(pm))%2]
			run2("pol/perm-ops-nested", "perm", []pstmt{{kind: outer, subs: []pstmt{base[0], subs[0]}}}, []pstmt{{kind: outer, subs: []pstmt{{kind: kind, subs: ps}, subs[0]}}}, d, d)
		}
		// one operand removed (and): passing with it implies passing without it
		for drop := 0; drop < k; drop++ {
			small := append(append([]pstmt{}, subs[:drop]...), subs[drop+1:]...)
			run2("pol/anti-and", "anti", []pstmt{{kind: "and", subs: subs}}, []pstmt{{kind: "and", subs: small}}, d, d)
		}
		run2("pol/cat", "cat", subs[:1], subs[1:], d, d)
	}
	// permuted / shortened element lists under all / any
	elemPool := []string{`5`, `6`, `"abc"`, `{"b":1}`, `{"b":5}`, `{"a":5}`, `[5]`, `null`, `{}`, `1.5`}
	for i := 0; i < m; i++ {
		k := 2 + c.R.Intn(3)
		el := make([]string, k)
		for j := range el {
			el[j] = c.R.Pick(elemPool)
		}
		inner := gen(1)
		st := []pstmt{{kind: []string{"all", "any"}[c.R.Intn(2)], sel: ".", subs: []pstmt{inner}}}
		mkList := func(ix []int) datamodel.Node {
			s := "["
			for a, b := range ix {
				if a > 0 {
					s += ","
				}
				s += el[b]
			}
			return J(s + "]")
		}
		id := make([]int, k)
		for j := range id {
			id[j] = j
		}
		for _, pm := range perms(k) {
			run2("pol/perm-elems", "perm", st, st, mkList(id), mkList(pm))
			nst := []pstmt{{kind: "not", subs: st}}
			run2("pol/perm-elems-not", "perm", nst, nst, mkList(id), mkList(pm))
		}
		stAll := []pstmt{{kind: "all", sel: ".", subs: []pstmt{inner}}}
		for drop := 0; drop < k; drop++ {
			small := append(append([]int{}, id[:drop]...), id[drop+1:]...)
			run2("pol/anti-all", "anti", stAll, stAll, mkList(id), mkList(small))
		}
	}
	// constructed policy vs. the same policy after ToIPLD / FromIPLD (C14)
	for i := 0; i < m*4; i++ {
		k := 1 + c.R.Intn(3)
		p := make([]pstmt, k)
		for j := range p {
			p[j] = gen(3)
		}
		pol, err := polBuild(p)
		if err != nil {
			continue
		}
		d := data[c.R.Intn(len(data))]
		first := verdictW(pol, d)
		second := WErr()
		if nd, err := pol.ToIPLD(); err == nil {
			if p2, err := policy.FromIPLD(nd); err == nil {
				second = verdictW(p2, d)
			}
		}
		c.Emit("pol/ipld-rt", WList(WStr("rt"), polWire(p), polWire(p), WNode(d), WNode(d)), WList(first, second))
	}
	// suite-blessed corner cases and the F7 witnesses
	w := J(`{"a":1}`)
	run1("pol/corpus", []pstmt{{kind: "and", subs: []pstmt{{kind: "==", sel: ".x?", val: J("1")}, {kind: "==", sel: ".a", val: J("2")}}}}, w)
	run1("pol/corpus", []pstmt{{kind: "and", subs: []pstmt{{kind: "==", sel: ".a", val: J("2")}, {kind: "==", sel: ".x?", val: J("1")}}}}, w)
	run1("pol/corpus", []pstmt{{kind: "or", subs: []pstmt{{kind: "==", sel: ".x", val: J("1")}, {kind: "==", sel: ".a", val: J("1")}}}}, w)
	run1("pol/corpus", []pstmt{{kind: "or", subs: []pstmt{{kind: "==", sel: ".a", val: J("1")}, {kind: "==", sel: ".x", val: J("1")}}}}, w)
	run1("pol/corpus", []pstmt{{kind: "or"}}, w)
	run1("pol/corpus", []pstmt{{kind: "and"}}, w)
	run1("pol/corpus", nil, w)
}
