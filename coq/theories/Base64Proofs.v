From Coq Require Import String.
Require Import Base Base64.
From Coq Require Import ZifyBool ZifyNat ZifyN.
Local Open Scope N_scope.
Ltac Zify.zify_post_hook ::= Z.div_mod_to_equations.

Definition range64 : list N := map N.of_nat (seq 0 64).
Lemma b64_table : forallb (fun d => match b64_idx (b64_char d) with Some d' => (d' =? d) | None => false end
                                    && negb (b64_char d =? c_pad) && negb (is_nl (b64_char d))) range64 = true.
Proof. vm_compute. reflexivity. Qed.

Lemma b64_char_props d : d < 64 -> b64_idx (b64_char d) = Some d /\ b64_char d <> c_pad /\ is_nl (b64_char d) = false.
Proof.
  intros H. pose proof b64_table as T. rewrite forallb_forall in T.
  assert (Hin : In d range64). { unfold range64. apply in_map_iff. exists (N.to_nat d). split; [lia|]. apply in_seq. lia. }
  specialize (T d Hin). apply andb_true_iff in T as [T T3]. apply andb_true_iff in T as [T1 T2].
  destruct (b64_idx (b64_char d)) as [d'|]; [|discriminate]. apply N.eqb_eq in T1. subst d'.
  split; [reflexivity|]. split.
  - intros E. rewrite E, N.eqb_refl in T2. discriminate.
  - destruct (is_nl (b64_char d)); [discriminate|reflexivity].
Qed.

Lemma encode_no_nl b : Forall (fun x => x < 256) b -> filter (fun c => negb (is_nl c)) (b64_encode b) = b64_encode b.
Proof.
  assert (Hpad : is_nl c_pad = false) by reflexivity.
  assert (Hc : forall d, d < 64 -> negb (is_nl (b64_char d)) = true).
  { intros d Hd. destruct (b64_char_props d Hd) as (_ & _ & ->). reflexivity. }
  assert (G : forall n b, (length b <= n)%nat -> Forall (fun x => x < 256) b -> filter (fun c => negb (is_nl c)) (b64_encode b) = b64_encode b).
  { induction n as [|n IH]; intros l Hl Hb; [destruct l; [reflexivity|cbn in Hl; lia]|].
    destruct l as [|b0 [|b1 [|b2 r]]]; [reflexivity| | |].
    - inversion Hb; subst. cbn [b64_encode filter]. rewrite !Hc, Hpad by lia. reflexivity.
    - inversion Hb as [|? ? H0 Hb']; subst. inversion Hb'; subst. cbn [b64_encode filter]. rewrite !Hc, Hpad by lia. reflexivity.
    - inversion Hb as [|? ? H0 Hb']; subst. inversion Hb' as [|? ? H1 Hb'']; subst. inversion Hb'' as [|? ? H2 Hr]; subst.
      cbn [b64_encode filter]. rewrite !Hc by lia. cbn [negb]. rewrite IH by (try assumption; cbn in Hl; lia). reflexivity. }
  intros Hb. apply (G (length b)); [lia|exact Hb].
Qed.

Theorem b64_decode_encode b : Forall (fun x => x < 256) b -> b64_decode (b64_encode b) = Ok b.
Proof.
  intros Hb. unfold b64_decode. rewrite encode_no_nl by exact Hb.
  assert (G : forall n b, (length b <= n)%nat -> Forall (fun x => x < 256) b -> b64_decode_q (b64_encode b) = Ok b).
  { induction n as [|n IH]; intros l Hl Hl'; [destruct l; [reflexivity|cbn in Hl; lia]|].
    destruct l as [|b0 [|b1 [|b2 r]]]; [reflexivity| | |].
    - inversion Hl'; subst. cbn [b64_encode b64_decode_q].
      destruct (b64_char_props (b0 / 4) ltac:(lia)) as (-> & _ & _).
      destruct (b64_char_props (b0 mod 4 * 16) ltac:(lia)) as (-> & _ & _).
      rewrite N.eqb_refl. cbn [andb]. repeat f_equal. lia.
    - inversion Hl' as [|? ? H0 Hb']; subst. inversion Hb' as [|? ? H1 _]; subst. cbn [b64_encode b64_decode_q].
      destruct (b64_char_props (b0 / 4) ltac:(lia)) as (-> & _ & _).
      destruct (b64_char_props (b0 mod 4 * 16 + b1 / 16) ltac:(lia)) as (-> & _ & _).
      destruct (b64_char_props (b1 mod 16 * 4) ltac:(lia)) as (-> & Hp & _).
      apply N.eqb_neq in Hp. rewrite Hp, N.eqb_refl. repeat f_equal; lia.
    - inversion Hl' as [|? ? H0 Hb']; subst. inversion Hb' as [|? ? H1 Hb'']; subst. inversion Hb'' as [|? ? H2 Hr]; subst.
      cbn [b64_encode b64_decode_q].
      destruct (b64_char_props (b0 / 4) ltac:(lia)) as (-> & _ & _).
      destruct (b64_char_props (b0 mod 4 * 16 + b1 / 16) ltac:(lia)) as (-> & _ & _).
      destruct (b64_char_props (b1 mod 16 * 4 + b2 / 64) ltac:(lia)) as (-> & Hp2 & _).
      destruct (b64_char_props (b2 mod 64) ltac:(lia)) as (-> & Hp3 & _).
      apply N.eqb_neq in Hp2, Hp3. rewrite Hp2, Hp3.
      rewrite IH by (try assumption; cbn in Hl; lia). repeat f_equal; lia. }
  apply (G (length b)); [lia|exact Hb].
Qed.
