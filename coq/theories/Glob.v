(* Model of pkg/policy/glob.go (parseGlob, glob.Match) and the Spec of the glob language. *)
Require Import Base.
Local Open Scope N_scope.

Definition c_star : N := 42.
Definition c_bsl : N := 92.

(* ---------- Spec: the glob language ---------- *)
Inductive tok := Lit (c : N) | Star.

Fixpoint lang (t : list tok) (s : str) : Prop :=
  match t with
  | [] => s = []
  | Lit c :: t' => exists s', s = c :: s' /\ lang t' s'
  | Star :: t' => exists a b, s = a ++ b /\ lang t' b
  end.

(* tokens of a raw pattern; None = lone trailing backslash (rejected by parseGlob) *)
Fixpoint toks (p : str) : option (list tok) :=
  match p with
  | [] => Some []
  | c :: p' =>
      if c =? c_bsl then
        match p' with
        | [] => None
        | x :: p'' => option_map (cons (Lit x)) (toks p'')
        end
      else if c =? c_star then option_map (cons Star) (toks p')
      else option_map (cons (Lit c)) (toks p')
  end.

(* ---------- Model: the two-pointer matcher, suffix rendering ---------- *)
(* pattern already tokenised positionally: we keep the raw bytes and peel like the Go code *)
Fixpoint all_stars (p : str) : bool :=
  match p with [] => true | c :: p' => (c =? c_star) && all_stars p' end.

Definition backtrack (loop : str -> str -> option (str * str) -> bool) (bt : option (str * str)) : bool :=
  match bt with
  | None => false
  | Some (bp, bs) => match bs with [] => false | _ :: bs' => loop bp bs' (Some (bp, bs')) end
  end.

Fixpoint loop (fuel : nat) (p s : str) (bt : option (str * str)) : bool :=
  match fuel with
  | O => false
  | S f =>
    match s with
    | [] => all_stars p
    | c :: s' =>
      match p with
      | [] => backtrack (loop f) bt
      | x :: p' =>
        if x =? c_bsl then
          match p' with
          | [] => backtrack (loop f) bt          (* unreachable for parsed patterns *)
          | y :: p'' => if y =? c then loop f p'' s' bt else backtrack (loop f) bt
          end
        else if x =? c_star then loop f p' s (Some (p', s))
        else if x =? c then loop f p' s' bt else backtrack (loop f) bt
      end
    end
  end.

(* glob.Match: the fuel is a bound on the number of loop iterations (proved sufficient) *)
Definition glob_match (p s : str) : bool :=
  loop (S (S (length s) * (length p + length s + 1) + (length p + length s))) p s None.

(* parseGlob, glob.go:8-27: the only rejected patterns end in a lone backslash *)
Fixpoint parse_glob_ok (p : str) : bool :=
  match p with
  | [] => true
  | c :: p' => if c =? c_bsl then match p' with [] => false | _ :: p'' => parse_glob_ok p'' end
               else parse_glob_ok p'
  end.
Definition parse_glob (p : str) : res str := if parse_glob_ok p then Ok p else Err 1.

(* A verified reference matcher for the language, used only by the oracle to attribute failures. *)
Fixpoint lang_matchb (t : list tok) (s : str) : bool :=
  match t with
  | [] => match s with [] => true | _ => false end
  | Lit c :: t' => match s with x :: s' => (x =? c) && lang_matchb t' s' | [] => false end
  | Star :: t' =>
      (fix try (s : str) : bool :=
         lang_matchb t' s || match s with [] => false | _ :: s' => try s' end) s
  end.
