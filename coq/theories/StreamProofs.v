Require Import Base Stream.
Local Open Scope N_scope.

Lemma run_data chunks : run (map Data chunks) = (concat chunks, false).
Proof. induction chunks as [|c r IH]; cbn [map run concat]; [reflexivity|]. rewrite IH. reflexivity. Qed.

(* a failure that is reached: after any number of successful reads, before the stream has ended *)
Lemma run_fail pre post : snd (run (map Data pre ++ Fail :: post)) = true.
Proof. induction pre as [|c r IH]; cbn [map app run]; [reflexivity|]. destruct (run (map Data r ++ Fail :: post)). exact IH. Qed.

Lemma run_data_eof chunks c : run (map Data chunks ++ [DataEof c]) = (concat chunks ++ c, false).
Proof. induction chunks as [|x r IH]; cbn [map app run concat]; [reflexivity|]. rewrite IH, app_assoc. reflexivity. Qed.

Section Thms.
  Variable st : Type.
  Variable h_init : st.
  Variable h_update : st -> str -> st.
  Variable h_final : st -> str.
  Variable sha256 : str -> str.
  Hypothesis h_stream : forall chunks, h_final (fold_left h_update chunks h_init) = sha256 (concat chunks).

  Lemma cid_reader_data chunks : forall s, cid_reader st h_update (map Data chunks) s = (fold_left h_update chunks s, false).
  Proof. induction chunks as [|c r IH]; intros s; cbn [map cid_reader fold_left]; [reflexivity|apply IH]. Qed.

  (* however the bytes are chunked, reading from a stream = decoding the same bytes from memory *)
  Theorem chunking_invariant (A : Type) (decode : str -> res A) chunks :
    from_sealed_reader st h_init h_update h_final A decode (map Data chunks)
    = from_sealed sha256 A decode (concat chunks).
  Proof.
    unfold from_sealed_reader, from_sealed. rewrite run_data.
    destruct (decode (concat chunks)); try reflexivity.
    rewrite cid_reader_data. unfold cid_of_state, cid_of. rewrite h_stream. reflexivity.
  Qed.

  (* a read failure anywhere in the stream is an error: never a token, never a CID *)
  Theorem read_fault_surfaces (A : Type) (decode : str -> res A) pre post :
    from_sealed_reader st h_init h_update h_final A decode (map Data pre ++ Fail :: post) = Err 1.
  Proof.
    unfold from_sealed_reader. pose proof (run_fail pre post) as Hf. destruct (run _) as [b f]. cbn in Hf. subst f. reflexivity.
  Qed.

  Lemma cid_reader_data_eof chunks c : forall s,
    cid_reader st h_update (map Data chunks ++ [DataEof c]) s = (fold_left h_update (chunks ++ [c]) s, false).
  Proof. induction chunks as [|x r IH]; intros s; cbn [map app cid_reader fold_left]; [reflexivity|apply IH]. Qed.

  (* the last bytes may arrive together with the end of the stream: same token, same CID *)
  Theorem chunking_invariant_data_with_eof (A : Type) (decode : str -> res A) chunks c :
    from_sealed_reader st h_init h_update h_final A decode (map Data chunks ++ [DataEof c])
    = from_sealed sha256 A decode (concat chunks ++ c).
  Proof.
    unfold from_sealed_reader, from_sealed. rewrite run_data_eof.
    destruct (decode (concat chunks ++ c)); try reflexivity.
    rewrite cid_reader_data_eof. unfold cid_of_state, cid_of. rewrite h_stream, concat_app. cbn [concat]. rewrite app_nil_r. reflexivity.
  Qed.

  (* ---- writers ---- *)
  Lemma write_all_ok ws : forall k sink s out s' out',
    write_all st h_update ws k sink s out = Ok (s', out') ->
    (forall j, (j < length ws)%nat -> sink (k + j)%nat = true) /\ s' = fold_left h_update ws s /\ out' = out ++ concat ws.
  Proof.
    induction ws as [|w r IH]; intros k sink s out s' out'; cbn [write_all].
    - intros [= <- <-]. split; [intros j Hj; cbn in Hj; lia|]. cbn. rewrite app_nil_r. auto.
    - destruct (sink k) eqn:Ek; [|discriminate]. intros H. apply IH in H as (H1 & -> & ->). split.
      + intros j Hj. destruct j as [|j]; [rewrite Nat.add_0_r; exact Ek|].
        replace (k + S j)%nat with (S k + j)%nat by lia. apply H1. cbn in Hj. lia.
      + cbn [fold_left concat]. rewrite <- app_assoc. auto.
  Qed.

  Lemma write_all_fail ws : forall k sink s out j, (j < length ws)%nat -> sink (k + j)%nat = false ->
    write_all st h_update ws k sink s out = Err 2.
  Proof.
    induction ws as [|w r IH]; intros k sink s out j Hj Hs; [cbn in Hj; lia|]. cbn [write_all].
    destruct (sink k) eqn:Ek; [|reflexivity].
    destruct j as [|j]; [rewrite Nat.add_0_r in Hs; congruence|].
    apply (IH (S k) sink _ _ j); [cbn in Hj; lia|]. replace (S k + j)%nat with (k + S j)%nat by lia. exact Hs.
  Qed.

  (* a failing write call, whichever it is (the final flush included), is an error *)
  Theorem write_fault_surfaces ws sink j : (j < length ws)%nat -> sink j = false ->
    to_sealed_writer st h_init h_update h_final ws sink = Err 2.
  Proof. intros Hj Hs. unfold to_sealed_writer. rewrite (write_all_fail ws 0 sink h_init [] j Hj Hs). reflexivity. Qed.

  (* success means every byte reached the sink and the CID is the CID of exactly those bytes, the same
     as the buffered call *)
  Theorem write_ok_complete ws sink c out : to_sealed_writer st h_init h_update h_final ws sink = Ok (c, out) ->
    (c, out) = to_sealed sha256 ws.
  Proof.
    unfold to_sealed_writer, to_sealed. destruct (write_all st h_update ws 0 sink h_init []) as [[s o]|e|] eqn:E; try discriminate.
    intros [= <- <-]. apply write_all_ok in E as (_ & -> & ->). unfold cid_of_state, cid_of. rewrite h_stream. reflexivity.
  Qed.

  Theorem write_stream_equals_buffered ws sink : (forall j, sink j = true) ->
    to_sealed_writer st h_init h_update h_final ws sink = Ok (to_sealed sha256 ws).
  Proof.
    intros Hs. unfold to_sealed_writer.
    assert (G : forall ws k s out, write_all st h_update ws k sink s out = Ok (fold_left h_update ws s, out ++ concat ws)).
    { induction ws0 as [|w r IH]; intros k s out; cbn [write_all fold_left concat]; [rewrite app_nil_r; reflexivity|].
      rewrite Hs, IH, <- app_assoc. reflexivity. }
    rewrite G. unfold to_sealed, cid_of_state, cid_of. rewrite h_stream. reflexivity.
  Qed.
End Thms.
