(* Selector.chars (the []rune view of a string used by slices) against Utf8.runes: grouping never loses a byte,
   and on valid UTF-8 there is exactly one group per code point, each group the encoding of that code point. *)
Require Import Base Node Generated Utf8 Utf8Proofs Selector.
From Coq Require Import ZifyBool ZifyNat ZifyN.
Local Open Scope N_scope.
Ltac Zify.zify_post_hook ::= Z.div_mod_to_equations.

Theorem concat_chars s : concat (chars s) = s.
Proof.
  induction s as [|c r IH]; [reflexivity|]. cbn [chars]. destruct r as [|x r']; [reflexivity|].
  destruct (is_cont x).
  - destruct (chars (x :: r')) as [|g t] eqn:E; [cbn in IH; discriminate|].
    cbn [concat app] in *. rewrite IH. reflexivity.
  - cbn [concat app]. rewrite IH. reflexivity.
Qed.

(* the shape of an encoding: a lead byte that is not a continuation byte, then continuation bytes only *)
Lemma encode_shape r : scalar r -> exists b t, utf8_encode r = b :: t /\ is_cont b = false /\ forallb is_cont t = true.
Proof.
  intros Hs. unfold utf8_encode, is_cont.
  destruct (N.ltb_spec r 128); [exists r, []; repeat split; lia|].
  destruct (N.ltb_spec r 2048); [eexists _, _; split; [reflexivity|]; cbn [forallb]; split; lia|].
  destruct (N.ltb_spec r 65536); [eexists _, _; split; [reflexivity|]; cbn [forallb]; split; lia|].
  assert (r < 1114112) by (destruct Hs; lia).
  eexists _, _; split; [reflexivity|]; cbn [forallb]; split; lia.
Qed.

Lemma chars_cons2 c x r :
  chars (c :: x :: r) = if is_cont x then match chars (x :: r) with g :: t => (c :: g) :: t | [] => [[c]] end
                        else [c] :: chars (x :: r).
Proof. reflexivity. Qed.

Lemma chars_group b t rest : forallb is_cont t = true ->
  match rest with x :: _ => is_cont x = false | [] => True end ->
  chars (b :: t ++ rest) = (b :: t) :: chars rest.
Proof.
  revert b. induction t as [|c t IH]; intros b Ht Hr.
  - cbn [app]. destruct rest as [|x r]; [reflexivity|]. rewrite chars_cons2, Hr. reflexivity.
  - cbn [forallb] in Ht. apply andb_true_iff in Ht as [Hc Ht]. cbn [app]. rewrite chars_cons2, Hc.
    rewrite (IH c Ht Hr). reflexivity.
Qed.

Lemma decode1_lead s r rest : Forall (fun b => b < 256) s -> decode1 s = Some (r, rest) ->
  match s with x :: _ => is_cont x = false | [] => True end.
Proof.
  intros Hb H. destruct (decode1_canonical s r rest Hb H) as [Hs ->].
  destruct (encode_shape r Hs) as (b & t & -> & Hl & _). exact Hl.
Qed.

Theorem chars_runes_f f : forall s rs, Forall (fun b => b < 256) s -> runes_f f s = Some rs ->
  chars s = map utf8_encode rs.
Proof.
  induction f as [|f IH]; intros s rs Hb H; [discriminate|]. cbn [runes_f] in H.
  destruct s as [|c s']; [injection H as <-; reflexivity|].
  destruct (decode1 (c :: s')) as [[r rest]|] eqn:E; [|discriminate].
  destruct (runes_f f rest) as [l|] eqn:El; [|discriminate]. injection H as <-.
  destruct (decode1_canonical _ r rest Hb E) as [Hs Eq].
  destruct (encode_shape r Hs) as (b & t & Ee & Hl & Ht).
  assert (Hbr : Forall (fun b => b < 256) rest).
  { rewrite Eq in Hb. apply Forall_app in Hb as [_ Hb]. exact Hb. }
  rewrite Eq, Ee. cbn [app]. rewrite chars_group; [|exact Ht|].
  - cbn [map]. rewrite Ee, (IH rest l Hbr El). reflexivity.
  - destruct rest as [|x rr]; [exact I|]. cbn [runes_f] in El. destruct f as [|f']; [discriminate|]. cbn [runes_f] in El.
    destruct (decode1 (x :: rr)) as [[r2 rest2]|] eqn:E2; [|discriminate].
    exact (decode1_lead _ _ _ Hbr E2).
Qed.

(* on valid UTF-8, the groups that slices count are the encodings of the code points, one per code point *)
Theorem chars_are_the_code_points s rs : Forall (fun b => b < 256) s -> runes s = Some rs ->
  chars s = map utf8_encode rs /\ length (chars s) = length rs.
Proof.
  intros Hb H. unfold runes in H. pose proof (chars_runes_f _ s rs Hb H) as E. split; [exact E|].
  rewrite E, map_length. reflexivity.
Qed.
