(* Model of the streaming wrappers: envelope.CIDReader / CIDWriter (token/internal/envelope/cid.go),
   FromSealedReader / ToSealedWriter (token/read.go, delegation/ipld.go, invocation/ipld.go) and the
   stream variants of the container reader / writer. A source is a script of read results, a sink is
   told for each write call whether it succeeds. Third-party consumers / producers are section variables. *)
Require Import Base.
Local Open Scope N_scope.

(* one Read call of the underlying io.Reader: some bytes, the last bytes together with io.EOF (Go allows
   returning data and the end of the stream at once: nothing is read after that), or a failure *)
Inductive rd_ev := Data (c : str) | DataEof (c : str) | Fail.

(* bytes delivered before the first failure, and whether a failure occurs *)
Fixpoint run (sc : list rd_ev) : str * bool :=
  match sc with
  | [] => ([], false)
  | Data c :: r => let '(b, f) := run r in (c ++ b, f)
  | DataEof c :: _ => (c, false)
  | Fail :: _ => ([], true)
  end.

Section Hash.
  (* sha256 with its streaming interface (hash.Hash): Write then Sum *)
  Variable st : Type.
  Variable h_init : st.
  Variable h_update : st -> str -> st.
  Variable h_final : st -> str.
  Variable sha256 : str -> str.
  Hypothesis h_stream : forall chunks, h_final (fold_left h_update chunks h_init) = sha256 (concat chunks).

  Definition cid_of (d : str) : str := [1; 113; 18; 32] ++ sha256 d.
  Definition cid_of_state (s : st) : str := [1; 113; 18; 32] ++ h_final s.

  (* CIDReader: every successfully read chunk is hashed, a failure is latched *)
  Fixpoint cid_reader (sc : list rd_ev) (s : st) : st * bool :=
    match sc with
    | [] => (s, false)
    | Data c :: r => cid_reader r (h_update s c)
    | DataEof c :: _ => (h_update s c, false)     (* the bytes that arrive with the end of the stream are hashed too *)
    | Fail :: _ => (s, true)
    end.

  Section Read.
    Variable A : Type.
    (* the decoder: consumes the whole stream up to EOF (go-ipld-prime checks for trailing data) and
       decodes what it has read; a read failure is returned *)
    Variable decode : str -> res A.

    (* FromSealedReader: decode through the CIDReader, then ask it for the CID *)
    Definition from_sealed_reader (sc : list rd_ev) : res (A * str) :=
      let '(b, failed) := run sc in
      if failed then Err 1
      else match decode b with
           | Ok a => let '(s, f) := cid_reader sc h_init in
                     if f then Err 1 else Ok (a, cid_of_state s)
           | Err e => Err e
           | Panic => Panic
           end.
    (* FromSealed *)
    Definition from_sealed (b : str) : res (A * str) :=
      match decode b with Ok a => Ok (a, cid_of b) | Err e => Err e | Panic => Panic end.
  End Read.

  (* ---- writing ---- *)
  (* the encoder performs the write calls [ws] in order and stops at the first one that fails;
     CIDWriter hashes each chunk before handing it to the sink *)
  Fixpoint write_all (ws : list str) (k : nat) (sink : nat -> bool) (s : st) (out : str) : res (st * str) :=
    match ws with
    | [] => Ok (s, out)
    | w :: r => if sink k then write_all r (S k) sink (h_update s w) (out ++ w) else Err 2
    end.

  (* ToSealedWriter: Ok (cid, bytes received by the sink) *)
  Definition to_sealed_writer (ws : list str) (sink : nat -> bool) : res (str * str) :=
    match write_all ws 0 sink h_init [] with
    | Ok (s, out) => Ok (cid_of_state s, out)
    | Err e => Err e
    | Panic => Panic
    end.
  (* ToSealed *)
  Definition to_sealed (ws : list str) : str * str := (cid_of (concat ws), concat ws).
End Hash.
