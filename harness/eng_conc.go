package main

import (
	"fmt"
	"github.com/ucan-wg/go-ucan/pkg/args"
	"github.com/ucan-wg/go-ucan/pkg/meta"
	"runtime"
	"sort"
	"strings"
	"sync"
	"sync/atomic"

	"github.com/ipfs/go-cid"
	"github.com/ipld/go-ipld-prime/datamodel"

	"github.com/ucan-wg/go-ucan/pkg/command"
	"github.com/ucan-wg/go-ucan/pkg/policy"
	"github.com/ucan-wg/go-ucan/token/delegation"
	"github.com/ucan-wg/go-ucan/token/invocation"
)

// the keys a container lists, without the one the caller added (its presence is reported apart), in sorted order:
// the order of iteration is not something a property constrains
func splitMine(keys []string, mine string) (string, bool) {
	found := false
	var others []string
	for _, k := range keys {
		if k == mine {
			found = true
		} else {
			others = append(others, k)
		}
	}
	sort.Strings(others)
	return strings.Join(others, ","), found
}

func init() { register(&Engine{Name: "conc", Gen: genConc}) }

type concFixture struct {
	inv2 *invocation.Token // shares the leaf delegation with inv, under another root
	ld2  mapLoader
	inv  *invocation.Token
	dlgs []*delegation.Token
	ld   mapLoader
	iss  *principal
	keys []principal
}

// a chain root -> ... -> invoker whose delegations carry metadata and policies, and an invocation whose
// arguments and metadata were inserted in the given (unsorted) key order
// the construction is a function of (L, ks): two calls give two identical, independent fixtures
// concSpare: the next fixtures hold a constructed leaf delegation whose policy slice has spare capacity
var concSpare bool

func mkConcFixture(keys []principal, L int, ks []string) *concFixture {
	f := &concFixture{ld: mapLoader{}, keys: keys}
	var prf []cid.Cid
	fixedNonce := []byte("verif-nonce-0123")
	sub := keys[0]
	polOf := func(n int, salt string) policy.Policy {
		var cs []policy.Constructor
		for j := 0; j < n; j++ {
			cs = append(cs, policy.Equal("."+ks[0]+salt+fmt.Sprint(j)+"?", J("1")))
		}
		// selectors with open and negative slice bounds, resolved against lists of different lengths by the two invocations
		cs = append(cs, policy.All(".lst[1:]", policy.Like(".", "*")), policy.Any(".lst[:-1]", policy.Like(".", "*@x")))
		p, _ := policy.Construct(cs...)
		return p
	}
	// every delegation goes through seal -> unseal: shared delegations are decoded ones in practice
	decoded := func(d *delegation.Token, p *principal) *delegation.Token {
		b, _, err := d.ToSealed(p.priv)
		if err != nil {
			panic(err)
		}
		d2, _, err := delegation.FromSealed(b)
		if err != nil {
			panic(err)
		}
		return d2
	}
	if L < 2 {
		L = 2
	}
	for k := 0; k < L; k++ {
		iss := keys[(k+1)%len(keys)]
		if k == L-1 {
			iss = sub
		}
		aud := keys[k%len(keys)]
		opts := []delegation.Option{delegation.WithSubject(sub.did), delegation.WithNonce(fixedNonce)}
		for _, mk := range ks {
			opts = append(opts, delegation.WithMeta(mk, "v"))
		}
		pol := polOf((len(ks)+3*k)%8, "a")
		if k == 0 && concSpare {
			// a leaf delegation built in Go (not decoded) from a policy slice with room behind its length
			pol = append(make(policy.Policy, 0, len(pol)+6), pol...)
		}
		d, err := delegation.New(iss.did, aud.did, command.Command("/"), pol, opts...)
		if err != nil {
			panic(err)
		}
		if !(k == 0 && concSpare) {
			d = decoded(d, &iss)
		}
		ci := fakeCid(100 + k)
		prf = append(prf, ci)
		f.dlgs = append(f.dlgs, d)
		f.ld[ci] = d
	}
	// second chain: same leaf (and middle links), another root with another policy
	f.ld2 = mapLoader{}
	for ci, d := range f.ld {
		f.ld2[ci] = d
	}
	{
		k := L - 1
		aud := keys[k%len(keys)]
		d, err := delegation.New(sub.did, aud.did, command.Command("/"), polOf(3, "b"), delegation.WithSubject(sub.did), delegation.WithNonce(fixedNonce))
		if err != nil {
			panic(err)
		}
		f.ld2[fakeCid(100+k)] = decoded(d, &sub)
	}
	opts := []invocation.Option{invocation.WithNonce(fixedNonce), invocation.WithoutInvokedAt()}
	for i, k := range ks {
		if i == 0 {
			opts = append(opts, invocation.WithArgument(k, 1))
		} else {
			opts = append(opts, invocation.WithArgument(k, map[string]any{"z": i, "a": []any{i}}))
		}
		opts = append(opts, invocation.WithMeta(k, i))
	}
	inv, err := invocation.New(keys[0].did, sub.did, command.Command("/a"), prf, append(append([]invocation.Option{}, opts...), invocation.WithArgument("lst", []any{"a@x", "b@x"}))...)
	if err != nil {
		panic(err)
	}
	f.inv = inv
	inv2, err := invocation.New(keys[0].did, sub.did, command.Command("/b"), prf, append(append([]invocation.Option{}, opts...), invocation.WithArgument("lst", []any{"a@x", "b@x", "c@y"}))...)
	if err != nil {
		panic(err)
	}
	f.inv2 = inv2
	f.iss = &keys[0]
	return f
}

// snapshot of everything a reader can observe about the token's containers, order included
func (f *concFixture) snapshot() string {
	var sb strings.Builder
	for k, v := range f.inv.Arguments().Iter() {
		sb.WriteString(k + "=" + string(WNode(v)) + ";")
	}
	sb.WriteString("|")
	for k, v := range f.inv.Meta().Iter() {
		sb.WriteString(k + "=" + string(WNode(v)) + ";")
	}
	for _, d := range f.dlgs {
		sb.WriteString("|")
		for k, v := range d.Meta().Iter() {
			sb.WriteString(k + "=" + string(WNode(v)) + ";")
		}
		// the policy, and the slots behind it in its backing array (nobody may have written there)
		p := d.Policy()
		sb.WriteString(p.String())
		for _, st := range p[:cap(p)][len(p):] {
			sb.WriteString(fmt.Sprint(st == nil))
		}
	}
	// and every word reachable from the tokens, unexported fields and unused slice capacity included
	sb.WriteString("|deep:")
	sb.WriteString(deepDump(f.inv))
	sb.WriteString(deepDump(f.inv2))
	for _, d := range f.dlgs {
		sb.WriteString(deepDump(d))
	}
	return sb.String()
}

var hookSeq atomic.Int64

type concOp struct {
	name string
	f    func(fx *concFixture) string
}

func nodeStr(n datamodel.Node, err error) string {
	if err != nil {
		return "err"
	}
	return string(WNode(n))
}

var concOps = []concOp{
	{"args_toipld", func(fx *concFixture) string { return nodeStr(fx.inv.Arguments().ToIPLD()) }},
	{"args_string", func(fx *concFixture) string { return fx.inv.Arguments().String() }},
	{"args_iter", func(fx *concFixture) string {
		var ks []string
		for k := range fx.inv.Arguments().Iter() {
			ks = append(ks, k)
		}
		return strings.Join(ks, ",")
	}},
	{"args_equals", func(fx *concFixture) string {
		return fmt.Sprint(fx.inv.Arguments().Equals(fx.inv.Arguments()))
	}},
	{"meta_string", func(fx *concFixture) string { return fx.inv.Meta().String() + fx.dlgs[0].Meta().String() }},
	{"meta_iter", func(fx *concFixture) string {
		var ks []string
		for k := range fx.dlgs[0].Meta().Iter() {
			ks = append(ks, k)
		}
		return strings.Join(ks, ",")
	}},
	{"meta_get", func(fx *concFixture) string {
		var out []string
		for k := range fx.inv.Meta().Iter() {
			v, err := fx.inv.Meta().GetInt64(k)
			out = append(out, fmt.Sprint(k, v, err))
		}
		return strings.Join(out, ",")
	}},
	{"accessors", func(fx *concFixture) string {
		return fmt.Sprint(fx.inv.Issuer(), fx.inv.Subject(), fx.inv.Command(), fx.inv.Proof(), fx.inv.Nonce(), fx.dlgs[0].Issuer(), fx.dlgs[0].Policy().String())
	}},
	{"is_valid", func(fx *concFixture) string { return fmt.Sprint(fx.inv.IsValidNow(), fx.dlgs[0].IsValidNow()) }},
	{"exec_allowed", func(fx *concFixture) string { return fmt.Sprint(fx.inv.ExecutionAllowed(fx.ld) == nil) }},
	{"exec_allowed_2", func(fx *concFixture) string { return fmt.Sprint(fx.inv2.ExecutionAllowed(fx.ld2) == nil) }},
	{"exec_hook_adds", func(fx *concFixture) string {
		// the hook extends its own writeable clone of the arguments: what one check adds, no other check may see
		mine := fmt.Sprintf("extra-%d", hookSeq.Add(1))
		var keys []string
		err := fx.inv.ExecutionAllowedWithArgsHook(fx.ld, func(a args.ReadOnly) (*args.Args, error) {
			na := a.WriteableClone()
			if err := na.Add(mine, 1); err != nil {
				return nil, err
			}
			runtime.Gosched()
			for k := range na.Iter() {
				keys = append(keys, k)
			}
			return na, nil
		})
		others, found := splitMine(keys, mine)
		return fmt.Sprint(err == nil, others, found)
	}},
	{"meta_clone_adds", func(fx *concFixture) string {
		// a writeable clone of a token's metadata (and of its arguments) is the caller's own: additions to it
		// are seen by nobody else, and its key order can be changed without changing the token's
		mine := fmt.Sprintf("extra-%d", hookSeq.Add(1))
		var out []string
		for _, mr := range []meta.ReadOnly{fx.inv.Meta(), fx.dlgs[0].Meta()} {
			cl := mr.WriteableClone()
			if err := cl.Add(mine, 1); err != nil {
				return "err"
			}
			runtime.Gosched()
			var keys []string
			for k := range cl.Iter() {
				keys = append(keys, k)
			}
			others, found := splitMine(keys, mine)
			v, err := cl.GetInt64(mine)
			out = append(out, fmt.Sprint(others, found, v, err))
		}
		ac := fx.inv.Arguments().WriteableClone()
		if err := ac.Add(mine, 1); err != nil {
			return "err"
		}
		runtime.Gosched()
		var keys []string
		for k := range ac.Iter() {
			keys = append(keys, k)
		}
		others, found := splitMine(keys, mine)
		out = append(out, fmt.Sprint(others, found))
		return strings.Join(out, "|")
	}},
	{"to_sealed", func(fx *concFixture) string {
		b, _, err := fx.inv.ToSealed(fx.iss.priv)
		if err != nil {
			return "err"
		}
		tk, _, err := invocation.FromSealed(b)
		if err != nil {
			return "err2"
		}
		return string(invFieldsW(tk))
	}},
	{"to_dagjson", func(fx *concFixture) string {
		b, err := fx.inv.ToDagJson(fx.iss.priv)
		if err != nil {
			return "err"
		}
		tk, err := invocation.FromDagJson(b)
		if err != nil {
			return "err2"
		}
		return string(invFieldsW(tk))
	}},
	{"policy_match", func(fx *concFixture) string {
		n, err := fx.inv.Arguments().ToIPLD()
		if err != nil {
			return "err"
		}
		ok, _ := fx.dlgs[0].Policy().Match(n)
		return fmt.Sprint(ok)
	}},
}

func genConc(c *Ctx) {
	keys := detKeys(c.Seed+2100, 1)
	keys = keys[:1] // Ed25519: deterministic signatures, so sealed results are comparable
	rounds := 12
	if c.Thorough() {
		rounds = 400
	}
	for r := 0; r < rounds; r++ {
		L := 1 + c.R.Intn(3)
		ks := make([]string, 2+c.R.Intn(7))
		for i := range ks {
			ks[i] = fmt.Sprintf("%s%d", c.R.Str("zyxwvutsrqponmlkjihgfedcba", 3), i)
		}
		kk := append(append([]principal{}, keys...), keys[0], keys[0])
		concSpare = r%2 == 1
		fx := mkConcFixture(kk, L, ks)
		// 1. each operation alone: the observable state is unchanged, the result repeatable
		seq := map[string]string{}
		for _, op := range concOps {
			before := fx.snapshot()
			r1 := op.f(fx)
			mid := fx.snapshot()
			r2 := op.f(fx)
			after := fx.snapshot()
			seq[op.name] = r1
			c.Emit("conc/alone-"+op.name, WList(WStr("alone"), WStr(op.name)), WList(WBool(before == mid && mid == after), WBool(r1 == r2)))
		}
		// 2. many goroutines, random mixes, on a FRESH identical fixture (no read-only call has touched it yet)
		fx = mkConcFixture(kk, L, ks)
		G := 8
		perG := 30
		var wg sync.WaitGroup
		bad := make([]string, G)
		plans := make([][]int, G)
		for g := 0; g < G; g++ {
			plans[g] = make([]int, perG)
			for i := range plans[g] {
				plans[g][i] = c.R.Intn(len(concOps))
			}
		}
		start := make(chan struct{})
		for g := 0; g < G; g++ {
			wg.Add(1)
			go func(g int) {
				defer wg.Done()
				<-start
				for _, oi := range plans[g] {
					op := concOps[oi]
					if res := op.f(fx); res != seq[op.name] {
						bad[g] = op.name
					}
				}
			}(g)
		}
		close(start)
		wg.Wait()
		var diffs []string
		for _, b := range bad {
			if b != "" {
				diffs = append(diffs, b)
			}
		}
		sort.Strings(diffs)
		c.Emit("conc/mix", WList(WStr("mix"), WInt(int64(G))), WList(WBool(len(diffs) == 0), WStrs(diffs)))
	}
}
