package main

import (
	"bytes"
	"crypto/rand"
	"golang.org/x/crypto/nacl/secretbox"
	"io"

	"github.com/ucan-wg/go-ucan/pkg/command"
	"github.com/ucan-wg/go-ucan/pkg/meta"
	"github.com/ucan-wg/go-ucan/token"
	"github.com/ucan-wg/go-ucan/token/delegation"
	"github.com/ucan-wg/go-ucan/token/invocation"
)

func init() { register(&Engine{Name: "meta", Gen: genMeta}) }

func genMeta(c *Ctx) {
	keys := detKeys(c.Seed+1700, 1)
	iss := &keys[0]
	good := c.R.Bytes(32)
	good[0] |= 1
	other := c.R.Bytes(32)
	other[1] |= 1
	sizes := []int{0, 1, 8, 31, 32, 33, 100, 1024}
	if c.Thorough() {
		sizes = append(sizes, 2, 3, 15, 16, 17, 23, 24, 25, 63, 64, 65, 4096, 65536)
	}
	keyClasses := []struct {
		name string
		key  []byte
	}{{"good", good}, {"nil", nil}, {"empty", []byte{}}, {"short", good[:31]}, {"long", append(append([]byte{}, good...), 1)},
		{"zero", make([]byte, 32)}, {"sixteen", good[:16]}}
	for _, n := range sizes {
		for variant := 0; variant < 3; variant++ { // 0: []byte value, 1: string value (text), 2: string value holding arbitrary bytes
			pt := c.R.Bytes(n)
			if variant == 2 && n > 0 {
				pt[0] = 0xff // not valid UTF-8
				if n > 2 {
					pt[n-1] = 0xc3 // a truncated sequence at the end
				}
			}
			if variant == 1 {
				for i := range pt {
					pt[i] = "abcdefghijklmnopqrstuvwxyz0123456789"[int(pt[i])%36]
				}
			}
			for _, kc := range keyClasses {
				obs := safe(func() W {
					m := meta.NewMeta()
					var err error
					if variant >= 1 {
						err = m.AddEncrypted("secret", string(pt), kc.key)
					} else {
						err = m.AddEncrypted("secret", pt, kc.key)
					}
					if err != nil {
						// a refused key must also be refused when reading
						m2 := meta.NewMeta()
						_ = m2.AddEncrypted("secret", pt, good)
						_, derr := m2.GetEncryptedBytes("secret", kc.key)
						refused := derr != nil
						// also for a box that really was sealed under that key by someone else (possible for a 32-byte key)
						if len(kc.key) == 32 {
							var k32 [32]byte
							var nonce [24]byte
							copy(k32[:], kc.key)
							copy(nonce[:], c.R.Bytes(24))
							ext := secretbox.Seal(nonce[:], pt, &nonce, &k32)
							m5 := meta.NewMeta()
							_ = m5.Add("secret", ext)
							if _, err := m5.GetEncryptedBytes("secret", kc.key); err == nil {
								refused = false
							}
							if _, err := m5.GetEncryptedString("secret", kc.key); err == nil {
								refused = false
							}
						}
						return WList(WBool(false), WInt(0), WBool(refused))
					}
					stored, _ := m.GetBytes("secret")
					get := func(mm interface {
						GetEncryptedBytes(string, []byte) ([]byte, error)
						GetEncryptedString(string, []byte) (string, error)
					}, k []byte) ([]byte, error) {
						if variant >= 1 {
							s, err := mm.GetEncryptedString("secret", k)
							return []byte(s), err
						}
						return mm.GetEncryptedBytes("secret", k)
					}
					back, err := get(m, kc.key)
					same := err == nil && bytes.Equal(back, pt)
					_, oerr := get(m, other)
					// "a different key": also the thirty-two keys that differ from the right one in a single bit of a single byte
					for i := 0; i < len(kc.key) && len(kc.key) == 32; i++ {
						near := append([]byte{}, kc.key...)
						near[i] ^= 1 << uint(i%8)
						if _, e := get(m, near); e == nil {
							oerr = nil
						}
					}
					// every single-bit modification of the stored ciphertext
					allErr := true
					step := 1
					if !c.Thorough() && len(stored) > 200 {
						step = 7
					}
					for off := 0; off < len(stored); off += step {
						for bit := 0; bit < 8; bit++ {
							if !c.Thorough() && bit != off%8 && len(stored) > 80 {
								continue
							}
							mod := append([]byte{}, stored...)
							mod[off] ^= 1 << uint(bit)
							m3 := meta.NewMeta()
							_ = m3.Add("secret", mod)
							if _, err := m3.GetEncryptedBytes("secret", kc.key); err == nil {
								allErr = false
							}
						}
					}
					// truncations
					for _, l := range []int{0, 1, 23, 24, 39, len(stored) - 1} {
						if l < 0 || l >= len(stored) {
							continue
						}
						m3 := meta.NewMeta()
						_ = m3.Add("secret", stored[:l])
						if _, err := m3.GetEncryptedBytes("secret", kc.key); err == nil {
							allErr = false
						}
					}
					// a second encryption of the same value differs
					m4 := meta.NewMeta()
					_ = m4.AddEncrypted("secret", pt, kc.key)
					stored2, _ := m4.GetBytes("secret")
					differs := !bytes.Equal(stored, stored2)
					// through a sealed token (both token types), and the plaintext is nowhere to be seen
					absent := true
					sealedOK := true
					for _, ty := range []string{"dlg", "inv"} {
						var tk token.Token
						var err error
						if ty == "dlg" {
							if variant >= 1 {
								tk, err = delegation.New(iss.did, iss.did, command.Command("/"), nil, delegation.WithEncryptedMetaString("secret", string(pt), kc.key))
							} else {
								tk, err = delegation.New(iss.did, iss.did, command.Command("/"), nil, delegation.WithEncryptedMetaBytes("secret", pt, kc.key))
							}
						} else {
							if variant >= 1 {
								tk, err = invocation.New(iss.did, iss.did, command.Command("/"), nil, invocation.WithEncryptedMetaString("secret", string(pt), kc.key))
							} else {
								tk, err = invocation.New(iss.did, iss.did, command.Command("/"), nil, invocation.WithEncryptedMetaBytes("secret", pt, kc.key))
							}
						}
						if err != nil {
							sealedOK = false
							continue
						}
						sealed, _, err := tk.ToSealed(iss.priv)
						if err != nil {
							sealedOK = false
							continue
						}
						if len(pt) >= 8 && (bytes.Contains(sealed, pt) || bytes.Contains(stored, pt)) {
							absent = false
						}
						t2, _, err := token.FromSealed(sealed)
						if err != nil {
							sealedOK = false
							continue
						}
						var back2 []byte
						switch v := t2.(type) {
						case *delegation.Token:
							back2, err = get(v.Meta(), kc.key)
						case *invocation.Token:
							back2, err = get(v.Meta(), kc.key)
						}
						if err != nil || !bytes.Equal(back2, pt) {
							sealedOK = false
						}
					}
					// two encrypted entries read one after the other: what the first read returned is still that value
					// after the second read (and after reading the first entry again with another key)
					{
						m6 := meta.NewMeta()
						pt2 := append([]byte("second-"), c.R.Bytes(len(pt))...)
						_ = m6.AddEncrypted("first", pt, kc.key)
						_ = m6.AddEncrypted("second", pt2, kc.key)
						ro := m6.ReadOnly()
						r1, e1 := ro.GetEncryptedBytes("first", kc.key)
						r2, e2 := ro.GetEncryptedBytes("second", kc.key)
						_, _ = ro.GetEncryptedBytes("first", other)
						r3, e3 := m6.GetEncryptedBytes("second", kc.key)
						if e1 != nil || e2 != nil || e3 != nil || !bytes.Equal(r1, pt) || !bytes.Equal(r2, pt2) || !bytes.Equal(r3, pt2) {
							same = false
						}
					}
					// the same options handed to two constructor calls: two tokens, two encryptions
					for _, ty := range []string{"dlg", "inv"} {
						var st [2][]byte
						ok2 := true
						dop := []delegation.Option{delegation.WithEncryptedMetaBytes("secret", pt, kc.key), delegation.WithEncryptedMetaString("s2", string(pt), kc.key)}
						iop := []invocation.Option{invocation.WithEncryptedMetaBytes("secret", pt, kc.key), invocation.WithEncryptedMetaString("s2", string(pt), kc.key)}
						for k := 0; k < 2; k++ {
							var mr meta.ReadOnly
							if ty == "dlg" {
								tk, err := delegation.New(iss.did, iss.did, command.Command("/"), nil, dop...)
								if err != nil {
									ok2 = false
									break
								}
								mr = tk.Meta()
							} else {
								tk, err := invocation.New(iss.did, iss.did, command.Command("/"), nil, iop...)
								if err != nil {
									ok2 = false
									break
								}
								mr = tk.Meta()
							}
							st[k], _ = mr.GetBytes("secret")
							s2, _ := mr.GetBytes("s2")
							st[k] = append(append([]byte{}, st[k]...), s2...)
							if back, err := mr.GetEncryptedBytes("secret", kc.key); err != nil || !bytes.Equal(back, pt) {
								ok2 = false
							}
						}
						if !ok2 || bytes.Equal(st[0], st[1]) {
							differs = false
						}
					}
					return WList(WBool(true), WInt(int64(len(stored))), WBool(same), WBool(oerr != nil), WBool(allErr), WBool(differs), WBool(absent), WBool(sealedOK))
				})
				c.Emit("meta/"+kc.name, WList(WStr("enc"), WInt(int64(n)), WStr(kc.name)), obs)
			}
		}
	}
	// an entropy source that hands out one byte per Read (io.Reader allows it): the nonce is still 24 random bytes
	{
		orig := rand.Reader
		rand.Reader = oneByte{orig}
		pt := []byte("the same value every time")
		same, differs := true, true
		seen := map[string]bool{}
		var l int
		for i := 0; i < 64; i++ {
			m := meta.NewMeta()
			if err := m.AddEncrypted("secret", pt, good); err != nil {
				same = false
				break
			}
			stored, _ := m.GetBytes("secret")
			l = len(stored)
			if back, err := m.GetEncryptedBytes("secret", good); err != nil || !bytes.Equal(back, pt) {
				same = false
			}
			if len(stored) < 24 || seen[string(stored[:24])] || bytes.Equal(stored[1:24], make([]byte, 23)) {
				differs = false
			}
			if len(stored) >= 24 {
				seen[string(stored[:24])] = true
			}
		}
		rand.Reader = orig
		c.Emit("meta/slow-entropy", WList(WStr("enc"), WInt(int64(len(pt))), WStr("good")),
			WList(WBool(true), WInt(int64(l)), WBool(same), WBool(true), WBool(true), WBool(differs), WBool(true), WBool(true)))
	}
}

type oneByte struct{ r io.Reader }

func (o oneByte) Read(p []byte) (int, error) {
	if len(p) > 1 {
		p = p[:1]
	}
	return o.r.Read(p)
}
