(* Extraction of the oracle. ExtrOcamlBasic only: bool, option, unit, list, prod, sumbool, sumor
   map to OCaml's own types; N, Z, positive, nat, ascii, string stay extracted inductives. *)
Require Import Oracle.
Require Import ExtrOcamlBasic.
Extraction Language OCaml.
Extraction "oracle_model.ml" Oracle.run_engine.
