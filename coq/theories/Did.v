(* Model of did/did.go and did/crypto.go at the text / bytes level: multibase base58btc, the
   multicodec varint, Parse, String, and PubKey / FromPubKey around abstract key (un)marshallers. *)
From Coq Require Import String.
Require Import Base Radix Varint Generated.
Local Open Scope N_scope.

Definition b58_alphabet : str := lit "123456789ABCDEFGHJKLMNPQRSTUVWXYZabcdefghijkmnopqrstuvwxyz".
Definition alpha (d : N) : N := nth (N.to_nat d) b58_alphabet 0.
Fixpoint idx_aux (c : N) (l : str) (i : N) : option N :=
  match l with [] => None | x :: r => if x =? c then Some i else idx_aux c r (i + 1) end.
Definition idx (c : N) : option N := idx_aux c b58_alphabet 0.

Fixpoint idx_all (t : str) : option (list N) :=
  match t with
  | [] => Some []
  | c :: r => match idx c, idx_all r with Some d, Some ds => Some (d :: ds) | _, _ => None end
  end.

Definition b58_encode (b : str) : str := map alpha (conv 256 58 b).
(* mr-tron/base58 FastBase58Decoding: the empty string and foreign characters are errors *)
Definition b58_decode (t : str) : res str :=
  match t with
  | [] => Err 2
  | _ => match idx_all t with Some ds => Ok (conv 58 256 ds) | None => Err 3 end
  end.

Definition did := (N * str)%type.     (* multicodec code, bytes = varint(code) ++ key material *)
Definition did_undef : did := (0, []).
Definition did_prefix : str := lit "did:key:".
Definition c_z : N := 122.

Definition mem (c : N) (l : list N) : bool := existsb (N.eqb c) l.

(* did.Parse, did.go:44-68 (error classes: 1 prefix, 2 multibase, 3 base58, 4 varint, 5 unsupported code) *)
Definition did_parse (s : str) : res did :=
  if negb (has_prefix did_prefix s) then Err 1
  else match skipn 8 s with
       | [] => Err 2
       | c :: t =>
           if negb (c =? c_z) then Err 2
           else match b58_decode t with
                | Ok bytes =>
                    match from_uvarint bytes with
                    | Ok (code, _) => if mem code parse_codes then Ok (code, bytes) else Err 5
                    | _ => Err 4
                    end
                | Err e => Err e
                | Panic => Panic
                end
       end.

(* DID.String *)
Definition did_print (d : did) : str := did_prefix ++ c_z :: b58_encode (snd d).

Definition did_eqb (a b : did) : bool := (fst a =? fst b) && str_eqb (snd a) (snd b).

Section Keys.
  Variable key : Type.
  (* FromPubKey's per-algorithm serialisation: the multicodec code and the key material *)
  Variable marshal : key -> res (N * str).
  (* the per-code unmarshaller table of DID.PubKey applied to key material *)
  Variable unmarshal : N -> str -> res key.

  Definition from_pubkey (k : key) : res did :=
    match marshal k with
    | Ok (c, m) => Ok (c, to_uvarint c ++ m)
    | Err e => Err e
    | Panic => Panic
    end.

  (* DID.PubKey, did.go:85-110: unmarshal, then accept only the canonical identifier of the key *)
  Definition pubkey (d : did) : res key :=
    if negb (mem (fst d) unmarshal_codes) then Err 1
    else match unmarshal (fst d) (skipn (length (to_uvarint (fst d))) (snd d)) with
         | Ok k => match from_pubkey k with
                   | Ok d' => if did_eqb d' d then Ok k else Err 3
                   | _ => Err 3
                   end
         | Err e => Err 2
         | Panic => Panic
         end.
End Keys.
