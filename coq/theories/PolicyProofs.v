From Coq Require Import Permutation.
Require Import Base Node Selector Glob GlobProofs Policy.
Local Open Scope Z_scope.

Section StmtInd.
  Variable P : stmt -> Prop.
  Hypothesis HEq : forall sel v, P (SEq sel v).
  Hypothesis HCmp : forall op sel v, P (SCmp op sel v).
  Hypothesis HNot : forall s, P s -> P (SNot s).
  Hypothesis HAnd : forall ss, Forall P ss -> P (SAnd ss).
  Hypothesis HOr : forall ss, Forall P ss -> P (SOr ss).
  Hypothesis HLike : forall sel pat, P (SLike sel pat).
  Hypothesis HAll : forall sel s, P s -> P (SAll sel s).
  Hypothesis HAny : forall sel s, P s -> P (SAny sel s).
  Fixpoint stmt_ind' (s : stmt) : P s :=
    match s with
    | SEq sel v => HEq sel v
    | SCmp op sel v => HCmp op sel v
    | SNot s => HNot s (stmt_ind' s)
    | SAnd ss => HAnd ss ((fix go (l : list stmt) : Forall P l :=
                             match l with [] => Forall_nil _ | x :: r => Forall_cons _ (stmt_ind' x) (go r) end) ss)
    | SOr ss => HOr ss ((fix go (l : list stmt) : Forall P l :=
                           match l with [] => Forall_nil _ | x :: r => Forall_cons _ (stmt_ind' x) (go r) end) ss)
    | SLike sel pat => HLike sel pat
    | SAll sel s => HAll sel s (stmt_ind' s)
    | SAny sel s => HAny sel s (stmt_ind' s)
    end.
End StmtInd.

(* ---- algebra of results ---- *)
Lemma mmin_comm a b : mmin a b = mmin b a. Proof. destruct a, b; reflexivity. Qed.
Lemma mmin_assoc a b c : mmin a (mmin b c) = mmin (mmin a b) c. Proof. destruct a, b, c; reflexivity. Qed.
Lemma mmax_comm a b : mmax a b = mmax b a. Proof. destruct a, b; reflexivity. Qed.
Lemma mmax_assoc a b c : mmax a (mmax b c) = mmax (mmax a b) c. Proof. destruct a, b, c; reflexivity. Qed.

Lemma fold_perm {A} (f : A -> mres) (op : mres -> mres -> mres) u :
  (forall a b, op a b = op b a) -> (forall a b c, op a (op b c) = op (op a b) c) ->
  forall l l', Permutation l l' ->
  fold_right (fun x acc => op (f x) acc) u l = fold_right (fun x acc => op (f x) acc) u l'.
Proof. intros C AS l l' P. induction P; cbn; try congruence. Qed.

Theorem and_perm ss ss' n : Permutation ss ss' -> ev (SAnd ss) n = ev (SAnd ss') n.
Proof. intros P. cbn [ev]. apply fold_perm; auto using mmin_comm, mmin_assoc. Qed.

Theorem or_perm ss ss' n : Permutation ss ss' -> ev (SOr ss) n = ev (SOr ss') n.
Proof.
  intros P. cbn [ev]. destruct ss as [|s ss].
  - apply Permutation_nil in P. subst. reflexivity.
  - destruct ss' as [|s' ss']; [apply Permutation_sym, Permutation_nil in P; discriminate|].
    apply fold_perm; auto using mmax_comm, mmax_assoc.
Qed.

(* the order in which all / any visit the elements is irrelevant *)
Theorem all_perm f l l' : Permutation l l' -> quant f mmin RT (List l) = quant f mmin RT (List l').
Proof. intros P. cbn [quant]. apply fold_perm; auto using mmin_comm, mmin_assoc. Qed.
Theorem any_perm f l l' : Permutation l l' -> quant f mmax RF (List l) = quant f mmax RF (List l').
Proof. intros P. cbn [quant]. apply fold_perm; auto using mmax_comm, mmax_assoc. Qed.

(* adding an operand to an and / an element under all never turns a failing match into a passing one *)
Theorem and_antitone s ss n :
  (pass_match (ev (SAnd (s :: ss)) n) = true -> pass_match (ev (SAnd ss) n) = true) /\
  (pass_partial (ev (SAnd (s :: ss)) n) = true -> pass_partial (ev (SAnd ss) n) = true).
Proof. cbn [ev fold_right]. destruct (ev s n), (fold_right _ RT ss); cbn; auto. Qed.

Theorem and_antitone_anywhere s ss1 ss2 n :
  (pass_match (ev (SAnd (ss1 ++ s :: ss2)) n) = true -> pass_match (ev (SAnd (ss1 ++ ss2)) n) = true) /\
  (pass_partial (ev (SAnd (ss1 ++ s :: ss2)) n) = true -> pass_partial (ev (SAnd (ss1 ++ ss2)) n) = true).
Proof.
  rewrite (and_perm (ss1 ++ s :: ss2) (s :: ss1 ++ ss2)) by (symmetry; apply Permutation_middle).
  apply and_antitone.
Qed.

Theorem all_antitone f x l :
  (pass_match (quant f mmin RT (List (x :: l))) = true -> pass_match (quant f mmin RT (List l)) = true) /\
  (pass_partial (quant f mmin RT (List (x :: l))) = true -> pass_partial (quant f mmin RT (List l)) = true).
Proof. cbn [quant fold_right]. destruct (f x), (fold_right _ RT l); cbn; auto. Qed.

Theorem match_imp_partial p n : policy_match p n = true -> policy_partial p n = true.
Proof.
  unfold policy_match, policy_partial. rewrite !forallb_forall. intros H s Hs. specialize (H s Hs).
  destruct (ev s n); cbn in *; congruence.
Qed.

Theorem match_app p q n : policy_match (p ++ q) n = policy_match p n && policy_match q n.
Proof. unfold policy_match. apply forallb_app. Qed.
Theorem partial_app p q n : policy_partial (p ++ q) n = policy_partial p n && policy_partial q n.
Proof. unfold policy_partial. apply forallb_app. Qed.

Theorem policy_perm p p' n : Permutation p p' -> policy_match p n = policy_match p' n.
Proof.
  intros P. unfold policy_match. induction P; cbn; try congruence.
  rewrite !andb_assoc, (andb_comm (pass_match (ev y n))). reflexivity.
Qed.

(* top-level statements over missing data *)
Theorem toplevel_missing s n : ev s n = RN -> policy_match [s] n = false /\ policy_partial [s] n = true.
Proof. intros H. unfold policy_match, policy_partial. cbn. rewrite H. auto. Qed.
Theorem toplevel_optional_missing s n : ev s n = RO -> policy_match [s] n = true.
Proof. intros H. unfold policy_match. cbn. rewrite H. reflexivity. Qed.

Theorem leaf_missing_is_nodata sel n k e : select sel n = Err e -> on_sel sel n k = RN.
Proof. unfold on_sel. intros ->. reflexivity. Qed.
Theorem leaf_optional_missing_is_optnodata sel n k : select sel n = Ok None -> on_sel sel n k = RO.
Proof. unfold on_sel. intros ->. reflexivity. Qed.

(* ---- classical reading ---- *)
Lemma is_ordered_num_cmp op a b : is_ordered op a b = num_cmp op a b.
Proof.
  unfold is_ordered, num_cmp. destruct a, b; try reflexivity.
  destruct (f_inf _ || f_nan _ || f_inf _ || f_nan _); reflexivity.
Qed.

Lemma on_sel_val sel n k v : sel_val sel n = Some v -> on_sel sel n k = k v.
Proof. unfold sel_val, on_sel. destruct (select sel n) as [[x|]|e|]; try discriminate. intros [= ->]. reflexivity. Qed.

Lemma fold_min_classical (A : Type) (f : A -> mres) (g : A -> bool) l :
  Forall (fun x => f x = of_bool (g x)) l ->
  fold_right (fun x acc => mmin (f x) acc) RT l = of_bool (forallb g l).
Proof.
  induction 1 as [|x l Hx _ IH]; [reflexivity|]. cbn [fold_right forallb]. rewrite Hx, IH.
  destruct (g x), (forallb g l); reflexivity.
Qed.
Lemma fold_max_classical (A : Type) (f : A -> mres) (g : A -> bool) l :
  Forall (fun x => f x = of_bool (g x)) l ->
  fold_right (fun x acc => mmax (f x) acc) RF l = of_bool (existsb g l).
Proof.
  induction 1 as [|x l Hx _ IH]; [reflexivity|]. cbn [fold_right existsb]. rewrite Hx, IH.
  destruct (g x), (existsb g l); reflexivity.
Qed.

Theorem classical s : forall n, resolves s n -> ev s n = of_bool (eval s n).
Proof.
  induction s as [sel v|op sel v|s IH|ss IH|ss IH|sel pat|sel s IH|sel s IH] using stmt_ind'; intros n HR; cbn [ev eval resolves] in *.
  - destruct (sel_val sel n) as [r|] eqn:E; [|congruence]. rewrite (on_sel_val _ _ _ _ E). reflexivity.
  - destruct (sel_val sel n) as [r|] eqn:E; [|congruence]. rewrite (on_sel_val _ _ _ _ E), is_ordered_num_cmp. reflexivity.
  - rewrite (IH n HR). destruct (eval s n); reflexivity.
  - apply fold_min_classical. induction IH as [|x l Hx _ IHl]; [constructor|].
    destruct HR as [H1 H2]. constructor; [apply Hx; exact H1 | apply IHl; exact H2].
  - assert (HF : Forall (fun x => ev x n = of_bool (eval x n)) ss).
    { induction IH as [|x l Hx _ IHl]; [constructor|].
      destruct HR as [H1 H2]. constructor; [apply Hx; exact H1 | apply IHl; exact H2]. }
    destruct ss as [|s0 ss0]; [reflexivity|]. apply (fold_max_classical _ (fun s => ev s n) (fun s => eval s n)). exact HF.
  - destruct HR as [HR Ht]. destruct (sel_val sel n) as [r|] eqn:E; [|congruence]. rewrite (on_sel_val _ _ _ _ E).
    destruct r; try reflexivity. destruct (toks pat) as [t|] eqn:Et; [|congruence].
    rewrite (glob_match_is_reference _ _ _ Et). reflexivity.
  - destruct (sel_val sel n) as [r|] eqn:E; [|contradiction]. rewrite (on_sel_val _ _ _ _ E).
    destruct r; try reflexivity. cbn [quant]. apply fold_min_classical. clear E.
    induction l as [|x l IHl]; [constructor|]. destruct HR as [H1 H2]. constructor; [apply IH; exact H1 | apply IHl; exact H2].
  - destruct (sel_val sel n) as [r|] eqn:E; [|contradiction]. rewrite (on_sel_val _ _ _ _ E).
    destruct r; try reflexivity. cbn [quant]. apply fold_max_classical. clear E.
    induction l as [|x l IHl]; [constructor|]. destruct HR as [H1 H2]. constructor; [apply IH; exact H1 | apply IHl; exact H2].
Qed.

Theorem policy_classical p n : Forall (fun s => resolves s n) p ->
  policy_match p n = forallb (fun s => eval s n) p.
Proof.
  intros H. unfold policy_match. induction H as [|s p Hs _ IH]; [reflexivity|].
  cbn [forallb]. rewrite IH, (classical s n Hs). destruct (eval s n); reflexivity.
Qed.

(* evaluation never produces more than the four results; in particular it is total (no panic in
   go-ucan's own logic for nodes whose integers fit int64) *)

Theorem ev_total s n : exists r : mres, ev s n = r.
Proof. eexists. reflexivity. Qed.
