package main

import (
	"sort"
	"time"

	"github.com/ipld/go-ipld-prime/datamodel"

	"github.com/ucan-wg/go-ucan/did"
	"github.com/ucan-wg/go-ucan/token/delegation"
	"github.com/ucan-wg/go-ucan/token/invocation"
)

// WNodeSorted renders a node with every map sorted bytewise by key (the comparison form of token fields).
func WNodeSorted(n datamodel.Node) W {
	if n == nil {
		return WNull
	}
	switch n.Kind() {
	case datamodel.Kind_List:
		var items []W
		it := n.ListIterator()
		for !it.Done() {
			_, v, err := it.Next()
			if err != nil {
				break
			}
			items = append(items, WNodeSorted(v))
		}
		return WList(items...)
	case datamodel.Kind_Map:
		var kvs []KV
		it := n.MapIterator()
		for !it.Done() {
			k, v, err := it.Next()
			if err != nil {
				break
			}
			ks, _ := k.AsString()
			kvs = append(kvs, KV{ks, WNodeSorted(v)})
		}
		sort.SliceStable(kvs, func(i, j int) bool { return kvs[i].K < kvs[j].K })
		return WMap(kvs...)
	}
	return WNode(n)
}

func sortedKVs(iter func(yield func(string, datamodel.Node) bool)) W {
	var kvs []KV
	iter(func(k string, v datamodel.Node) bool {
		kvs = append(kvs, KV{k, WNodeSorted(v)})
		return true
	})
	sort.SliceStable(kvs, func(i, j int) bool { return kvs[i].K < kvs[j].K })
	return WMap(kvs...)
}

func optDidW(d did.DID) W {
	if !d.Defined() {
		return WNull
	}
	return WStr(d.String())
}
func optTimeW(t *time.Time) W {
	if t == nil {
		return WNull
	}
	return WInt(t.Unix())
}

// the other whole second an instant between two seconds may legitimately be recorded as
func optTimeWr(t *time.Time, round bool) W {
	if t == nil {
		return WNull
	}
	if round {
		return WInt(t.Round(time.Second).Unix())
	}
	return WInt(t.Unix())
}

func dlgFieldsW(t *delegation.Token, round ...bool) W {
	rd := len(round) > 0 && round[0]
	pol, err := t.Policy().ToIPLD()
	polW := WNull
	if err == nil {
		polW = WNodeSorted(pol)
	}
	return WMap(KV{"iss", WStr(t.Issuer().String())}, KV{"aud", WStr(t.Audience().String())}, KV{"sub", optDidW(t.Subject())},
		KV{"cmd", WStr(t.Command().String())}, KV{"pol", polW}, KV{"nonce", WBytes(t.Nonce())},
		KV{"meta", sortedKVs(t.Meta().Iter())}, KV{"nbf", optTimeWr(t.NotBefore(), rd)}, KV{"exp", optTimeWr(t.Expiration(), rd)})
}

func invFieldsW(t *invocation.Token, round ...bool) W {
	rd := len(round) > 0 && round[0]
	var prf []W
	for _, c := range t.Proof() {
		prf = append(prf, WLink(c.Bytes()))
	}
	cause := WNull
	if t.Cause() != nil {
		cause = WLink(t.Cause().Bytes())
	}
	return WMap(KV{"iss", WStr(t.Issuer().String())}, KV{"sub", WStr(t.Subject().String())}, KV{"aud", optDidW(t.Audience())},
		KV{"cmd", WStr(t.Command().String())}, KV{"args", sortedKVs(t.Arguments().Iter())}, KV{"prf", WList(prf...)},
		KV{"meta", sortedKVs(t.Meta().Iter())}, KV{"nonce", WBytes(t.Nonce())}, KV{"exp", optTimeWr(t.Expiration(), rd)},
		KV{"iat", optTimeWr(t.InvokedAt(), rd)}, KV{"cause", cause})
}
