(* Model of pkg/container: CARv1 framing (car.go), the CBOR container, the base64 variants and the
   reader's token map (reader.go, writer.go). Hashing and token unsealing are section variables. *)
From Coq Require Import String.
Require Import Base Node Cbor Varint Base64 Generated.
Local Open Scope N_scope.

(* encoding/binary.ReadUvarint: up to 10 bytes, non-minimal encodings accepted, 64-bit overflow refused *)
Fixpoint go_uvarint_aux (buf : str) (i : nat) (mult x : N) : res (N * str) :=
  match buf with
  | [] => Err 2
  | b :: r =>
      if (10 <=? i)%nat then Err 1
      else if b <? 128 then (if (i =? 9)%nat && (1 <? b) then Err 1 else Ok (x + b * mult, r))
      else go_uvarint_aux r (S i) (mult * 128) (x + (b mod 128) * mult)
  end.
Definition go_read_uvarint (buf : str) : res (N * str) := go_uvarint_aux buf 0 1 0.

Definition max_section : N := src_max_section.    (* maxAllowedSectionSize = 32 MiB *)

(* ldWrite / ldRead: a section is uvarint(length) ++ bytes; Ok None = clean end of input *)
Definition ld_write (d : str) : str := to_uvarint (N.of_nat (length d)) ++ d.
Definition ld_read (s : str) : res (option (str * str)) :=
  match s with
  | [] => Ok None
  | _ => match go_read_uvarint s with
         | Ok (l, r) =>
             if l =? 0 then Err 3
             else if max_section <? l then Err 4
             else if N.of_nat (length r) <? l then Err 5
             else Ok (Some (firstn (N.to_nat l) r, skipn (N.to_nat l) r))
         | Err e => Err e
         | Panic => Panic
         end
  end.

Definition empty_cid : str := [1; 85; 0; 0].
(* a stream of sections given by their lengths (length prefix included): is k the end of one of them? *)
Fixpoint at_boundary (lens : list N) (acc k : N) : bool :=
  match lens with
  | [] => false
  | l :: r => (acc + l =? k) || at_boundary r (acc + l) k
  end.

Definition car_header_node : node := Map [(src_roots_key, List [Link empty_cid]); (src_version_key, Int 1)].
Definition car_header : str := encode car_header_node.
Definition ctn_version : str := src_ctn_version.

Section Container.
  Variable sha256 : str -> str.
  (* the digest a multihash (code, length) prescribes for some data; only sha2-256 is ever written *)
  Variable mh_sum : N -> N -> str -> res str.
  Variable tok : Type.
  Variable unseal : str -> res tok.     (* token.FromSealed: verified decoding of one sealed token *)

  (* envelope.CIDFromBytes: CIDv1, dag-cbor, sha2-256 *)
  Definition cid_of (d : str) : str := [1; 113; 18; 32] ++ sha256 d.

  (* cid.CidFromReader followed by the integrity check of readBlock: returns the data when the CID
     really is the hash of the data it precedes *)
  Definition check_block (raw : str) : res str :=
    match raw with
    | 18 :: 32 :: r =>                                   (* CIDv0: sha2-256 multihash *)
        if (length r <? 32)%nat then Err 6
        else let dg := firstn 32 r in let data := skipn 32 r in
             match mh_sum 18 32 data with Ok h => if str_eqb h dg then Ok data else Err 7 | _ => Err 7 end
    | _ =>
        match from_uvarint raw with
        | Ok (ver, n1) =>
            if negb (ver =? 1) then Err 6
            else let r1 := skipn n1 raw in
              match from_uvarint r1 with
              | Ok (_, n2) =>
                  let r2 := skipn n2 r1 in
                  match from_uvarint r2 with
                  | Ok (code, n3) =>
                      let r3 := skipn n3 r2 in
                      match from_uvarint r3 with
                      | Ok (len, n4) =>
                          let r4 := skipn n4 r3 in
                          if (length r4 <? N.to_nat len)%nat then Err 6
                          else let dg := firstn (N.to_nat len) r4 in let data := skipn (N.to_nat len) r4 in
                               match mh_sum code len data with Ok h => if str_eqb h dg then Ok data else Err 7 | _ => Err 7 end
                      | _ => Err 6
                      end
                  | _ => Err 6
                  end
              | _ => Err 6
              end
        | _ => Err 6
        end
    end.

  (* the reader's map: cid_of(data) -> token, later entries replace earlier ones *)
  Fixpoint put (c : str) (t : tok) (m : list (str * tok)) : list (str * tok) :=
    match m with
    | [] => [(c, t)]
    | (c', t') :: r => if str_eqb c c' then (c, t) :: r else (c', t') :: put c t r
    end.
  Fixpoint add_tokens (blobs : list str) (m : list (str * tok)) : res (list (str * tok)) :=
    match blobs with
    | [] => Ok m
    | d :: r => match unseal d with
                | Ok t => add_tokens r (put (cid_of d) t m)
                | Err e => Err e
                | Panic => Panic
                end
    end.
  Fixpoint lookup (c : str) (m : list (str * tok)) : option tok :=
    match m with [] => None | (c', t) :: r => if str_eqb c c' then Some t else lookup c r end.

  (* readHeader *)
  Definition header_ok (hb : str) : bool :=
    match dec (S (length hb)) hb with
    | Some (Map [(k1, List roots); (k2, Int v)], []) =>
        str_eqb k1 (lit "roots") && str_eqb k2 (lit "version") && forallb (fun n => match n with Link _ => true | _ => false end) roots && (v =? 1)%Z
    | _ => false
    end.

  (* the block loop of readCar / FromCarReader *)
  Fixpoint read_blocks (fuel : nat) (s : str) (acc : list str) : res (list str) :=
    match fuel with
    | O => Err 9
    | S f =>
        match ld_read s with
        | Ok None => Ok (rev acc)
        | Ok (Some (raw, rest)) =>
            match check_block raw with
            | Ok data => read_blocks f rest (data :: acc)
            | Err e => Err e
            | Panic => Panic
            end
        | Err e => Err e
        | Panic => Panic
        end
    end.

  Definition car_blobs (s : str) : res (list str) :=
    match ld_read s with
    | Ok (Some (hb, rest)) => if header_ok hb then read_blocks (S (length rest)) rest [] else Err 8
    | Ok None => Err 2
    | Err e => Err e
    | Panic => Panic
    end.

  (* FromCar / FromCarReader *)
  Definition read_car (s : str) : res (list (str * tok)) :=
    match car_blobs s with Ok blobs => add_tokens blobs [] | Err e => Err e | Panic => Panic end.

  (* Writer.ToCar for the blobs in the order the map iteration happened to produce *)
  Definition write_car (blobs : list str) : str :=
    ld_write car_header ++ concat (map (fun d => ld_write (cid_of d ++ d)) blobs).

  (* the CBOR container {"ctn-v1": [bytes...]} *)
  Definition write_cbor (blobs : list str) : str := encode (Map [(ctn_version, List (map Bytes blobs))]).
  Fixpoint all_bytes (l : list node) : option (list str) :=
    match l with
    | [] => Some []
    | Bytes b :: r => match all_bytes r with Some bs => Some (b :: bs) | None => None end
    | _ => None
    end.
  Definition cbor_blobs (s : str) : res (list str) :=
    match dec (3 + length s) s with
    | Some (Map [(k, List l)], _) =>      (* DecodeStreaming reads one item; what follows is not looked at *)
        if str_eqb k ctn_version then match all_bytes l with Some bs => Ok bs | None => Err 11 end else Err 10
    | _ => Err 10
    end.
  Definition read_cbor (s : str) : res (list (str * tok)) :=
    match cbor_blobs s with Ok blobs => add_tokens blobs [] | Err e => Err e | Panic => Panic end.

  (* base64 variants *)
  Definition write_car_b64 (blobs : list str) : str := b64_encode (write_car blobs).
  Definition write_cbor_b64 (blobs : list str) : str := b64_encode (write_cbor blobs).
  Definition read_car_b64 (s : str) : res (list (str * tok)) :=
    match b64_decode s with Ok b => read_car b | Err e => Err e | Panic => Panic end.
  Definition read_cbor_b64 (s : str) : res (list (str * tok)) :=
    match b64_decode s with Ok b => read_cbor b | Err e => Err e | Panic => Panic end.
End Container.
