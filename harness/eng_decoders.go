package main

import (
	"bytes"
	"encoding/base64"
	"encoding/binary"
	"fmt"
	cid "github.com/ipfs/go-cid"
	"github.com/ipld/go-ipld-prime"
	"github.com/ipld/go-ipld-prime/codec/dagjson"
	"github.com/mr-tron/base58"
	"github.com/ucan-wg/go-ucan/pkg/command"
	"math"
	"os"
	"os/exec"
	"strconv"
	"strings"
	"syscall"
	"time"

	"github.com/ipld/go-ipld-prime/datamodel"
	"github.com/ipld/go-ipld-prime/node/basicnode"

	"github.com/ucan-wg/go-ucan/did"
	"github.com/ucan-wg/go-ucan/pkg/container"
	"github.com/ucan-wg/go-ucan/pkg/policy"
	"github.com/ucan-wg/go-ucan/pkg/policy/selector"
	"github.com/ucan-wg/go-ucan/token"
	"github.com/ucan-wg/go-ucan/token/delegation"
	"github.com/ucan-wg/go-ucan/token/invocation"
)

func init() {
	register(&Engine{Name: "decoders", Gen: genDecoders})
	register(&Engine{Name: "decoders-child", Gen: decodersChild})
}

// outcome class of one call on untrusted input
func classify(f func() error) (cls string) {
	defer func() {
		if r := recover(); r != nil {
			cls = "panic"
		}
	}()
	if err := f(); err != nil {
		return "err"
	}
	return "ok"
}

type entryPoint struct {
	name string
	f    func(b []byte) error
}

// what a caller does next with a decoded value, as far as C09 lists it: public-key extraction from every
// principal of a token (absent optional principals are the zero DID), and the accessors of a container reader
func tokenSweep(tk token.Token, err error) error {
	if err != nil {
		return err
	}
	var ds []did.DID
	switch v := tk.(type) {
	case *delegation.Token:
		ds = []did.DID{v.Issuer(), v.Audience(), v.Subject()}
		_ = v.Policy().String()
		_ = v.Meta().String()
	case *invocation.Token:
		ds = []did.DID{v.Issuer(), v.Audience(), v.Subject()}
		_ = v.Arguments().String()
		_ = v.Meta().String()
	}
	for _, d := range ds {
		_, _ = d.PubKey()
		_ = d.String()
	}
	return nil
}

func readerSweep(r container.Reader, err error) error {
	if err != nil {
		return err
	}
	var cids []cid.Cid
	for c := range r.GetAllDelegations() {
		cids = append(cids, c)
	}
	for c := range r.GetAllInvocations() {
		cids = append(cids, c)
	}
	for range r.GetAllDelegations() {
		break // a consumer that stops after the first element
	}
	for range r.GetAllInvocations() {
		break
	}
	n := 0
	for range r.GetAllInvocations() {
		if n++; n == 2 {
			break
		}
	}
	_, _ = r.GetInvocation()
	for _, c := range cids {
		_, _ = r.GetToken(c)
		_, _ = r.GetDelegation(c)
	}
	_, _ = r.GetToken(cid.Undef)
	return nil
}

var byteEntryPoints = []entryPoint{
	{"token.FromSealed", func(b []byte) error { tk, _, err := token.FromSealed(b); return tokenSweep(tk, err) }},
	{"token.FromDagCbor", func(b []byte) error { return tokenSweep(token.FromDagCbor(b)) }},
	{"token.FromDagJson", func(b []byte) error { return tokenSweep(token.FromDagJson(b)) }},
	{"delegation.FromSealed", func(b []byte) error {
		tk, _, err := delegation.FromSealed(b)
		if err != nil {
			return err
		}
		return tokenSweep(tk, nil)
	}},
	{"delegation.FromDagJson", func(b []byte) error {
		tk, err := delegation.FromDagJson(b)
		if err != nil {
			return err
		}
		return tokenSweep(tk, nil)
	}},
	{"invocation.FromSealed", func(b []byte) error {
		tk, _, err := invocation.FromSealed(b)
		if err != nil {
			return err
		}
		return tokenSweep(tk, nil)
	}},
	{"invocation.FromDagCbor", func(b []byte) error {
		tk, err := invocation.FromDagCbor(b)
		if err != nil {
			return err
		}
		return tokenSweep(tk, nil)
	}},
	{"container.FromCar", func(b []byte) error { return readerSweep(container.FromCar(b)) }},
	{"container.FromCarBase64", func(b []byte) error { return readerSweep(container.FromCarBase64(b)) }},
	{"container.FromCbor", func(b []byte) error { return readerSweep(container.FromCbor(b)) }},
	{"container.FromCborBase64", func(b []byte) error { return readerSweep(container.FromCborBase64(b)) }},
	{"policy.FromDagJson", func(b []byte) error { _, err := policy.FromDagJson(string(b)); return err }},
	{"selector.Parse", func(b []byte) error { _, err := selector.Parse(string(b)); return err }},
	{"did.Parse+PubKey", func(b []byte) error {
		d, err := did.Parse(string(b))
		if err != nil {
			return err
		}
		_, err = d.PubKey()
		return err
	}},
}

func genDecoders(c *Ctx) {
	pool, _ := sealedPool(c, 8)
	// valid artefacts of every kind to mutate
	var arts [][]byte
	for _, s := range pool {
		arts = append(arts, s.b)
		if js, err := s.t.ToDagJson(s.iss.priv); err == nil {
			arts = append(arts, js)
		}
	}
	w := container.NewWriter()
	for _, s := range pool[:3] {
		w.AddSealed(s.c, s.b)
	}
	for _, f := range ctnFmts {
		if b, err := f.write(w); err == nil {
			arts = append(arts, b)
		}
	}
	// containers holding 0..4 invocations beside delegations, in every format; a powerline delegation; an
	// invocation without audience (absent optional principals)
	{
		keys := detKeys(c.Seed+1302, 1)
		p := keys[0]
		var invs, dlgs []sealedTok
		for i := 0; i < 4; i++ {
			if iv, err := invocation.New(p.did, p.did, command.Command("/a"), nil, invocation.WithNonce(bytes.Repeat([]byte{byte(i + 1)}, 12))); err == nil {
				if b, id, err := iv.ToSealed(p.priv); err == nil {
					invs = append(invs, sealedTok{b, id, &p, iv})
				}
			}
			if d, err := delegation.New(p.did, p.did, command.Command("/"), nil, delegation.WithNonce(bytes.Repeat([]byte{byte(i + 9)}, 12))); err == nil { // no subject: powerline
				if b, id, err := d.ToSealed(p.priv); err == nil {
					dlgs = append(dlgs, sealedTok{b, id, &p, d})
				}
			}
		}
		for _, x := range append(append([]sealedTok{}, invs[:1]...), dlgs[:1]...) {
			arts = append(arts, x.b)
		}
		for ni := 0; ni <= len(invs); ni++ {
			w2 := container.NewWriter()
			for _, x := range invs[:ni] {
				w2.AddSealed(x.c, x.b)
			}
			for _, x := range dlgs[:2] {
				w2.AddSealed(x.c, x.b)
			}
			for _, f := range ctnFmts {
				if b, err := f.write(w2); err == nil {
					arts = append(arts, b)
				}
			}
		}
	}
	arts = append(arts, []byte(`[["==",".a",1],["and",[["like",".b","a*"],["all",".c",[">",".",2]]]]]`), []byte(`.a["b"][0][1:-1][]?.c?`), []byte(pool[0].iss.did.String()))
	emit := func(tag string, ep entryPoint, b []byte) {
		cls := classify(func() error { return ep.f(b) })
		shown := b
		if len(shown) > 600 {
			shown = shown[:600]
		}
		c.Emit(tag+"/"+ep.name, WList(WStr("dec"), WStr(ep.name), WInt(int64(len(b))), WBytes(shown)), WStr(cls))
	}
	for _, a := range arts {
		for _, ep := range byteEntryPoints {
			emit("dec/valid", ep, a)
		}
	}
	n := 400
	if c.Thorough() {
		n = 40000
	}
	for i := 0; i < n; i++ {
		// random bytes, with CBOR / JSON / text flavoured prefixes
		l := c.R.Intn(120)
		b := c.R.Bytes(l)
		switch c.R.Intn(6) {
		case 0:
			if l > 0 {
				b[0] = []byte{0x82, 0xa1, 0x9f, 0xbf, 0xd8, 0x5b, 0x9b, 0xbb, 0x7b}[c.R.Intn(9)]
			}
		case 1:
			b = []byte(c.R.Str(`[]{}",:.0123456789truefalsn\/ abc*`, 60))
		case 2:
			b = []byte("." + c.R.Str(`.[]"?\:-0a9 `, 30))
		case 3:
			b = []byte("did:key:z" + c.R.Str("123456789ABCDEFGHJKLMNPQRSTUVWXYZabcdefghijkmnopqrstuvwxyz", 80))
		}
		for _, ep := range byteEntryPoints {
			emit("dec/random", ep, b)
		}
		// mutation of a valid artefact
		a := append([]byte{}, arts[c.R.Intn(len(arts))]...)
		for k := 0; k < 1+c.R.Intn(3); k++ {
			if len(a) == 0 {
				break
			}
			pos := c.R.Intn(len(a))
			switch c.R.Intn(5) {
			case 0:
				a[pos] ^= 1 << uint(c.R.Intn(8))
			case 1:
				a = append(a[:pos], a[pos+1:]...)
			case 2:
				a = append(a[:pos], append([]byte{byte(c.R.U64())}, a[pos:]...)...)
			case 3:
				a = a[:pos]
			case 4:
				a[pos] = []byte{0xff, 0x00, 0x9b, 0xbb, 0x5b, 0x7b, 0x1b, 0x3b, 0xfb, 0xf9, 0xd8}[c.R.Intn(11)]
			}
		}
		for _, ep := range byteEntryPoints {
			emit("dec/mutated", ep, a)
		}
	}
	// hostile declared lengths and moderately deep nesting, in process
	hostile := [][]byte{
		append([]byte{0x5b}, bytes.Repeat([]byte{0xff}, 8)...),                           // byte string of 2^64-1
		append([]byte{0x7b, 0x00, 0x00, 0x00, 0x10, 0x00, 0x00, 0x00, 0x00}, 'a'),        // text string of 2^36
		append([]byte{0x9b}, append(bytes.Repeat([]byte{0x7f}, 8), 0x01)...),             // array of 2^63
		append([]byte{0xbb}, append(bytes.Repeat([]byte{0x7f}, 8), 0x61, 0x61, 0x01)...), // map of 2^63
		append([]byte{0x82, 0x5b}, bytes.Repeat([]byte{0xff}, 8)...),
		bytes.Repeat([]byte{0x81}, 5000),
		append(bytes.Repeat([]byte{0x81}, 5000), 0x01),
		append(bytes.Repeat([]byte{0xa1, 0x61, 0x61}, 3000), 0x01),
		append(bytes.Repeat([]byte{0xd8, 0x2a}, 100), 0x01),
		[]byte(strings.Repeat("[", 5000)),
		[]byte(strings.Repeat(`{"a":`, 3000) + "1" + strings.Repeat("}", 3000)),
		[]byte(strings.Repeat(`["not",`, 3000) + `["==",".a",1]` + strings.Repeat("]", 3000)),
		[]byte("." + strings.Repeat("[0]", 20000)),
		[]byte("." + strings.Repeat(`["a"]`, 20000)),
		[]byte(".a" + strings.Repeat("?", 50000)),
		[]byte(`.["` + strings.Repeat("x", 100000)),
		[]byte("did:key:z" + strings.Repeat("1", 100000)),
		[]byte("did:key:z" + strings.Repeat("z", 20000)),
		// CAR sections: declared 32 MiB - 1 with no data; 2^63; header only
		binary.AppendUvarint(nil, 33554431),
		binary.AppendUvarint(nil, 1<<63),
		append(binary.AppendUvarint(nil, 1<<62), 0xa2),
	}
	// CAR containers whose header is a well-formed DAG-CBOR map of the wrong shape: roots / version of every kind
	for _, roots := range []datamodel.Node{basicnode.NewString("x"), basicnode.NewInt(1), basicnode.NewBool(true), basicnode.NewBytes([]byte{1}), basicnode.NewFloat(1.5),
		datamodel.Null, mkMap(), mkList(basicnode.NewInt(1)), mkList(), mkList(mkList())} {
		for _, version := range []datamodel.Node{basicnode.NewInt(1), basicnode.NewInt(2), basicnode.NewString("1"), datamodel.Null, mkList()} {
			hb := cborOf(mkMap(ent{"roots", roots}, ent{"version", version}))
			car := append(binary.AppendUvarint(nil, uint64(len(hb))), hb...)
			hostile = append(hostile, car, []byte(base64.StdEncoding.EncodeToString(car)))
		}
	}
	for _, hb := range [][]byte{cborOf(mkMap()), cborOf(mkList()), cborOf(basicnode.NewInt(1)), cborOf(mkMap(ent{"roots", mkList()})), cborOf(mkMap(ent{"version", basicnode.NewInt(1)}))} {
		hostile = append(hostile, append(binary.AppendUvarint(nil, uint64(len(hb))), hb...))
	}
	// did:key identifiers of every accepted multicodec with no, one, or too little key material, alone and as
	// the issuer of an (unsigned) envelope
	for _, code := range []uint64{0xed, 0xe7, 0x1200, 0x1201, 0x1202, 0x1205} {
		for _, material := range [][]byte{nil, {0x02}, {0x04}, {0x00}, {0x02, 0x00}, bytes.Repeat([]byte{0x03}, 20)} {
			text := "did:key:z" + base58.Encode(append(binary.AppendUvarint(nil, code), material...))
			hostile = append(hostile, []byte(text))
			for _, tag := range []string{"ucan/dlg@1.0.0-rc.1", "ucan/inv@1.0.0-rc.1"} {
				pay := hostilePayload(tag, text, mkList())
				env := mkList(basicnode.NewBytes([]byte{1, 2, 3}), mkMap(ent{"h", basicnode.NewBytes([]byte{0x34, 0xed, 0x01, 0x71})}, ent{tag, pay}))
				hostile = append(hostile, cborOf(env))
				if js, err := ipld.Encode(env, dagjson.Encode); err == nil {
					hostile = append(hostile, js)
				}
			}
		}
	}
	// (unsigned) envelopes of a well-formed issuer whose varsig header is empty, one byte, or cut short, and whose
	// policy holds operators / selectors / patterns made of UTF-8 continuation bytes or cut multi-byte characters
	{
		gp := detKeys(c.Seed+77, 1)[0] // (Ed25519)
		good := gp.did.String()
		weird := []string{strings.Repeat("\x80", 12), strings.Repeat("\xbf", 11), "aaaaaaaaa\xc3\xa9", "aaaaaaaa\xe6\x97\xa5x", strings.Repeat("é", 6), "\xf0\x9f\x98", strings.Repeat("\xf0", 11)}
		for _, hdr := range [][]byte{{}, {0x34}, {0x34, 0xed}, {0x34, 0xed, 0x01}, {0xed}, {0x00}, nil} {
			for wi := -1; wi < len(weird); wi++ {
				if wi >= 0 && len(hdr) != 4-1 {
					continue // the policy variants ride on one header only
				}
				pol := mkList()
				if wi >= 0 {
					x := basicnode.NewString(weird[wi])
					pol = mkList(mkList(x, basicnode.NewString(".a"), basicnode.NewInt(1)), mkList(basicnode.NewString("=="), x, basicnode.NewInt(1)),
						mkList(basicnode.NewString("like"), basicnode.NewString(".a"), x), mkList(basicnode.NewString("any"), x, mkList(x, x, x)), mkList(x))
				}
				for _, tag := range []string{"ucan/dlg@1.0.0-rc.1", "ucan/inv@1.0.0-rc.1"} {
					pay := hostilePayload(tag, good, pol)
					var h datamodel.Node = basicnode.NewBytes(hdr)
					if hdr == nil {
						h = datamodel.Null
					}
					env := mkList(basicnode.NewBytes(bytes.Repeat([]byte{7}, 64)), mkMap(ent{"h", h}, ent{tag, pay}))
					if wi >= 0 {
						// correctly signed under the issuer's own header: the decoder gets as far as the policy
						sp := mkMap(ent{"h", basicnode.NewBytes([]byte{0x34, 0xed, 0x01, 0x71})}, ent{tag, pay})
						if sig, err := gp.priv.Sign(cborOf(sp)); err == nil {
							env = mkList(basicnode.NewBytes(sig), sp)
						}
					}
					hostile = append(hostile, cborOf(env))
					if js, err := ipld.Encode(env, dagjson.Encode); err == nil {
						hostile = append(hostile, js)
					}
				}
			}
		}
		for _, wd := range weird {
			x := basicnode.NewString(wd)
			for _, nd := range []datamodel.Node{
				mkList(mkList(x, basicnode.NewString(".a"), basicnode.NewInt(1))), mkList(mkList(basicnode.NewString("=="), x, basicnode.NewInt(1))),
				mkList(mkList(basicnode.NewString("like"), basicnode.NewString(".a"), x)), mkList(mkList(basicnode.NewString("all"), x, mkList(x, x, x))),
				mkList(mkList(x)), mkList(x), mkList(mkList(basicnode.NewString("not"), mkList(x, x, x))), mkList(mkList(basicnode.NewString("and"), mkList(mkList(x, x)))),
			} {
				cls := classify(func() error { _, err := policy.FromIPLD(nd); return err })
				c.Emit("dec/policy-node", WList(WStr("polnode"), WNode(nd)), WStr(cls))
			}
		}
	}
	for _, h := range hostile {
		for _, ep := range byteEntryPoints {
			emit("dec/hostile", ep, h)
		}
	}
	// policy matching against arbitrary argument data (nodes that no decoder would produce included)
	pols := [][]pstmt{
		{{kind: "==", sel: ".a", val: basicnode.NewInt(1)}},
		{{kind: ">", sel: ".a", val: basicnode.NewInt(1)}, {kind: "<=", sel: ".a", val: basicnode.NewFloat(1)}},
		{{kind: "all", sel: ".a", subs: []pstmt{{kind: "any", sel: ".", subs: []pstmt{{kind: ">=", sel: ".", val: basicnode.NewInt(0)}}}}}},
		{{kind: "like", sel: ".a", pat: "*a*"}, {kind: "not", subs: []pstmt{{kind: "==", sel: ".a[0]?", val: basicnode.NewUint(math.MaxUint64)}}}},
		{{kind: "==", sel: ".a", val: basicnode.NewUint(math.MaxUint64)}},
		{{kind: "like", sel: ".a[10:]", pat: "*"}, {kind: "==", sel: ".a[-3:]", val: basicnode.NewString("x")}, {kind: "not", subs: []pstmt{{kind: "==", sel: ".a[0:]", val: basicnode.NewString("")}}}},
		{{kind: "all", sel: ".l", subs: []pstmt{{kind: "like", sel: ".[1:][:-1]", pat: "*"}}}},
		{{kind: "or", subs: []pstmt{{kind: "<", sel: ".a[-1]", val: basicnode.NewUint(1 << 63)}, {kind: "==", sel: ".[]", val: mkList()}}}},
	}
	big := basicnode.NewUint(math.MaxUint64)
	datas := []datamodel.Node{
		mkMap(ent{"a", big}), mkMap(ent{"a", mkList(big, basicnode.NewInt(1))}), mkMap(ent{"a", mkList(mkList(big))}), big,
		mkMap(ent{"a", basicnode.NewFloat(math.NaN())}), mkMap(ent{"a", basicnode.NewBytes(nil)}), mkMap(ent{"a", datamodel.Null}), datamodel.Null,
		mkMap(ent{"a", basicnode.NewString(strings.Repeat("a*", 2000))}), mkList(), mkMap(), mkMap(ent{"a", mkMap(ent{"a", big})}),
		// text outside ASCII, short and long (more bytes than code points), invalid UTF-8
		mkMap(ent{"a", basicnode.NewString(strings.Repeat("ж", 40))}), mkMap(ent{"a", basicnode.NewString(strings.Repeat("日本語", 30))}),
		mkMap(ent{"a", basicnode.NewString("né")}), mkMap(ent{"a", basicnode.NewString("\xff\xfe" + strings.Repeat("é", 20))}),
		mkMap(ent{"l", mkList(basicnode.NewString(strings.Repeat("ø", 64)), basicnode.NewString("𐐀𐐨"), basicnode.NewString(""))}),
	}
	for _, j := range valuePool {
		datas = append(datas, J(j))
	}
	for pi, p := range pols {
		pol, err := polBuild(p)
		if err != nil {
			continue
		}
		for _, d := range datas {
			cls := classify(func() error {
				pol.Match(d)
				pol.PartialMatch(d)
				return nil
			})
			c.Emit("dec/match", WList(WStr("match"), WInt(int64(pi)), WNode(d)), WStr(cls))
		}
	}
	// like patterns as they arrive from outside (policy.FromIPLD, not the constructor): every pattern over
	// {a, *, \, b} up to length 5 (odd and even runs of backslashes at the end included) against every string
	// over {a, \, *} up to length 4; one case per pattern, the worst outcome over the strings
	{
		var pats, strs []string
		allStrings("a*\\b", 5, func(x string) { pats = append(pats, x) })
		allStrings("a\\*", 4, func(x string) { strs = append(strs, x) })
		for _, extra := range []string{"dir\\\\\\", "*\\\\\\", "a\\\\\\\\\\", "\\\\\\\\\\\\\\"} {
			pats = append(pats, extra)
		}
		strs = append(strs, "dir\\file", "dir\\", "a\\\\x")
		for _, pat := range pats {
			nd := mkList(mkList(basicnode.NewString("like"), basicnode.NewString(".a"), basicnode.NewString(pat)))
			var pol policy.Policy
			cls := classify(func() error { var err error; pol, err = policy.FromIPLD(nd); return err })
			if cls == "ok" {
				for _, sv := range strs {
					d := mkMap(ent{"a", basicnode.NewString(sv)})
					if k := classify(func() error { pol.Match(d); pol.PartialMatch(d); return nil }); k != "ok" {
						cls = k
						break
					}
				}
			}
			c.Emit("dec/like-match", WList(WStr("likematch"), WStr(pat)), WStr(cls))
		}
	}
	// policy.FromIPLD on nodes (uint64 beyond int64, deep nesting, wrong kinds)
	for _, nd := range []datamodel.Node{
		mkList(mkList(basicnode.NewString("=="), basicnode.NewString(".a"), big)),
		mkList(mkList(basicnode.NewString(">"), basicnode.NewString(".a"), mkMap(ent{"x", mkList(big)}))),
		big, datamodel.Null, mkMap(ent{"a", big}),
		func() datamodel.Node {
			var n datamodel.Node = mkList(basicnode.NewString("=="), basicnode.NewString(".a"), basicnode.NewInt(1))
			for i := 0; i < 2000; i++ {
				n = mkList(basicnode.NewString("not"), n)
			}
			return mkList(n)
		}(),
	} {
		cls := classify(func() error { _, err := policy.FromIPLD(nd); return err })
		c.Emit("dec/policy-node", WList(WStr("polnode"), WNode(nd)), WStr(cls))
	}

	// ---- size-doubling families in child processes (memory ceiling, time limit)
	self, _ := os.Executable()
	fams := []struct {
		name  string
		sizes []int
	}{
		{"polnest", []int{1000, 2000, 4000, 8000, 16000, 32000}},
		{"cbornest", []int{1000, 10000, 100000}},
		{"jsonnest", []int{1000, 10000, 100000}},
		{"selseg", []int{10000, 100000, 1000000}},
		{"bigbytes", []int{1}},
		{"carsection", []int{1}},
		{"prealloc", []int{1, 4}},
		{"prealloc-dagcbor", []int{1, 4}},
		{"prealloc-ctn", []int{1, 4}},
		{"cbornest-deep", []int{3000000}},
		// matching cost must stay polynomial in the nesting depth, whatever the data resolves to
		{"matchnot-missing", []int{16, 32, 64, 4000}},
		{"matchnot-optional", []int{64, 4000}},
		{"matchnot-present", []int{64, 4000}},
		{"matchmix-missing", []int{64, 2000}},
	}
	for _, fam := range fams {
		for _, sz := range fam.sizes {

			cmd := exec.Command("sh", "-c", fmt.Sprintf("ulimit -v 6000000; exec %s decoders-child --tier %s --seed %d", self, fam.name, sz))
			var out bytes.Buffer
			cmd.Stdout = &out
			cmd.Stderr = &out
			done := make(chan error, 1)
			start := time.Now()
			_ = cmd.Start()
			go func() { done <- cmd.Wait() }()
			cls, rss, inLen := "crash", int64(0), int64(0)
			select {
			case err := <-done:
				o := out.String()
				if i := strings.LastIndex(o, "RESULT "); i >= 0 {
					f := strings.Fields(o[i:])
					if len(f) >= 4 {
						cls = f[1]
						rss, _ = strconv.ParseInt(f[2], 10, 64)
						inLen, _ = strconv.ParseInt(f[3], 10, 64)
					}
				} else if err != nil {
					switch {
					case strings.Contains(o, "stack overflow") || strings.Contains(o, "goroutine stack exceeds"):
						cls = "stackoverflow"
					case strings.Contains(o, "out of memory") || strings.Contains(o, "cannot allocate"):
						cls = "oom"
					}
				}
			case <-time.After(map[bool]time.Duration{true: 20 * time.Second, false: 90 * time.Second}[strings.HasPrefix(fam.name, "match")]):
				_ = cmd.Process.Kill()
				cls = "timeout"
			}
			_ = start
			c.Emit("dec/family-"+fam.name, WList(WStr("mem"), WStr(fam.name), WInt(int64(sz)), WInt(inLen)), WList(WStr(cls), WInt(rss)))
		}
	}
}

// hostilePayload: a payload with exactly the fields of its token type, all three principals the same text
func hostilePayload(tag, principal string, pol datamodel.Node) datamodel.Node {
	p := basicnode.NewString(principal)
	nonce := basicnode.NewBytes(bytes.Repeat([]byte{1}, 12))
	if strings.HasPrefix(tag, "ucan/dlg") {
		return mkMap(ent{"iss", p}, ent{"aud", p}, ent{"sub", p}, ent{"cmd", basicnode.NewString("/")}, ent{"pol", pol}, ent{"nonce", nonce}, ent{"exp", datamodel.Null})
	}
	// (an invocation has no policy: the weird strings go into its arguments)
	return mkMap(ent{"iss", p}, ent{"sub", p}, ent{"cmd", basicnode.NewString("/")}, ent{"args", mkMap(ent{"pol", pol})}, ent{"prf", mkList()}, ent{"nonce", nonce}, ent{"exp", datamodel.Null})
}

// decodersChild runs one hostile family at one size and prints "RESULT class maxrss inputlen".
// (--tier carries the family name, --seed the size: the child reuses the harness's flag parser.)
func decodersChild(c *Ctx) {
	fam, sz := c.Tier, int(c.Seed)
	var input []byte
	var f func() error
	switch fam {
	case "polnest":
		input = []byte("[" + strings.Repeat(`["not",`, sz) + `["==",".a",1]` + strings.Repeat("]", sz) + "]")
		f = func() error { _, err := policy.FromDagJson(string(input)); return err }
	case "cbornest", "cbornest-deep":
		input = append(bytes.Repeat([]byte{0x81}, sz), 0x01)
		f = func() error { _, _, err := token.FromSealed(input); return err }
	case "jsonnest":
		input = []byte(strings.Repeat("[", sz) + strings.Repeat("]", sz))
		f = func() error { _, err := token.FromDagJson(input); return err }
	case "selseg":
		input = []byte("." + strings.Repeat("[0]", sz))
		f = func() error {
			sel, err := selector.Parse(string(input))
			if err != nil {
				return err
			}
			_, err = sel.Select(basicnode.NewInt(1))
			return err
		}
	case "bigbytes":
		input = append([]byte{0x82, 0x5b, 0x00, 0x00, 0x01, 0x00, 0x00, 0x00, 0x00, 0x00}, 1, 2, 3) // byte string of 2^40
		f = func() error { _, _, err := token.FromSealed(input); return err }
	case "carsection":
		input = append(binary.AppendUvarint(nil, 33554431), 0xa2)
		f = func() error { _, err := container.FromCar(input); return err }
	case "prealloc", "prealloc-dagcbor", "prealloc-ctn":
		// nested arrays each declaring 10^7 elements: go-ipld-prime pre-allocates from the declared length
		input = bytes.Repeat([]byte{0x9a, 0x00, 0x98, 0x96, 0x80}, sz)
		switch fam {
		case "prealloc":
			f = func() error { _, _, err := token.FromSealed(input); return err }
		case "prealloc-dagcbor":
			f = func() error { _, err := token.FromDagCbor(input); return err }
		default:
			f = func() error { _, err := container.FromCbor(input); return err }
		}
	case "matchnot-missing", "matchnot-optional", "matchnot-present", "matchmix-missing":
		sel := map[string]string{"matchnot-missing": ".zz", "matchnot-optional": ".zz?", "matchnot-present": ".x", "matchmix-missing": ".list[9]"}[fam]
		open, close := `["not",`, "]"
		if fam == "matchmix-missing" {
			open, close = `["and",[["or",[["not",`, "]]]]]"
		}
		input = []byte("[" + strings.Repeat(open, sz) + `["==","` + sel + `",1]` + strings.Repeat(close, sz) + "]")
		f = func() error {
			pol, err := policy.FromDagJson(string(input))
			if err != nil {
				return err
			}
			d := J(`{"x":1,"list":[1,2,3]}`)
			pol.Match(d)
			pol.PartialMatch(d)
			return nil
		}
	default:
		fmt.Println("RESULT unknown 0 0")
		return
	}
	cls := classify(f)
	c.out.Flush()
	fmt.Printf("RESULT %s %d %d\n", cls, peakRSS(), len(input))
}

// peakRSS: the high-water mark of this process image's resident set (VmHWM: counted from exec on, whereas
// getrusage's ru_maxrss also carries the peak of the parent that spawned the process).
func peakRSS() int64 {
	if b, err := os.ReadFile("/proc/self/status"); err == nil {
		for _, line := range strings.Split(string(b), "\n") {
			if strings.HasPrefix(line, "VmHWM:") {
				f := strings.Fields(line)
				if len(f) >= 2 {
					if kb, err := strconv.ParseInt(f[1], 10, 64); err == nil {
						return kb * 1024
					}
				}
			}
		}
	}
	var ru syscall.Rusage
	_ = syscall.Getrusage(syscall.RUSAGE_SELF, &ru)
	return ru.Maxrss * 1024
}
