(* Model of pkg/policy/match.go (matchStatement, Policy.Match, Policy.PartialMatch, isOrdered) and
   of go-ipld-prime's datamodel.DeepEqual on the node kinds; Spec = the classical reading. *)
Require Import Base Node Selector Glob.
Local Open Scope Z_scope.

(* ---- floats, as far as comparisons need them ---- *)
Definition f_exp (b : N) : N := ((b / 4503599627370496) mod 2048)%N.          (* bits 52..62 *)
Definition f_mant (b : N) : N := (b mod 4503599627370496)%N.
Definition f_neg (b : N) : bool := (9223372036854775808 <=? b)%N.
Definition f_nan (b : N) : bool := ((f_exp b =? 2047) && negb (f_mant b =? 0))%N.
Definition f_inf (b : N) : bool := ((f_exp b =? 2047) && (f_mant b =? 0))%N.
(* order-preserving integer key of a non-NaN float; -0 and +0 share key 0 *)
Definition f_key (b : N) : Z :=
  let m := Z.of_N (b mod 9223372036854775808)%N in if f_neg b then - m else m.
(* Go's == on float64 *)
Definition f_eqb (a b : N) : bool := negb (f_nan a) && negb (f_nan b) && (f_key a =? f_key b).

(* datamodel.DeepEqual: same kind, scalars by ==, lists and maps element-wise in iteration order *)
(* datamodel.DeepEqual of go-ipld-prime: lists and maps are compared entry by entry in iteration order, so two
   maps that hold the same entries in another order are different (used by Args.Equals / Meta.Equals) *)
Fixpoint deep_equal_ordered (a b : node) : bool :=
  match a, b with
  | Null, Null => true
  | Bool x, Bool y => Bool.eqb x y
  | Int x, Int y => x =? y
  | Float x, Float y => f_eqb x y
  | Str x, Str y => str_eqb x y
  | Bytes x, Bytes y => str_eqb x y
  | Link x, Link y => str_eqb x y
  | List x, List y =>
      (fix go (x y : list node) : bool :=
         match x, y with
         | [], [] => true
         | p :: x', q :: y' => deep_equal_ordered p q && go x' y'
         | _, _ => false
         end) x y
  | Map x, Map y =>
      (fix go (x y : list (str * node)) : bool :=
         match x, y with
         | [], [] => true
         | (k, p) :: x', (k', q) :: y' => str_eqb k k' && deep_equal_ordered p q && go x' y'
         | _, _ => false
         end) x y
  | _, _ => false
  end.

(* the equality of the policy language (pkg/policy/match.go deepEqual): as above, except that maps are equal
   when they have the same number of entries and every key of the first has an equal value in the second -
   the order of entries is a property of how a value was built (a Go map, a decoded token), not of the value *)
Fixpoint deep_equal (a b : node) : bool :=
  match a, b with
  | Null, Null => true
  | Bool x, Bool y => Bool.eqb x y
  | Int x, Int y => x =? y
  | Float x, Float y => f_eqb x y
  | Str x, Str y => str_eqb x y
  | Bytes x, Bytes y => str_eqb x y
  | Link x, Link y => str_eqb x y
  | List x, List y =>
      (fix go (x y : list node) : bool :=
         match x, y with
         | [], [] => true
         | p :: x', q :: y' => deep_equal p q && go x' y'
         | _, _ => false
         end) x y
  | Map x, Map y =>
      (length x =? length y)%nat &&
      (fix go (x : list (str * node)) : bool :=
         match x with
         | [] => true
         | (k, p) :: x' => match map_get k y with Some q => deep_equal p q | None => false end && go x'
         end) x
  | _, _ => false
  end.

Inductive cmpop := Gt | Ge | Lt | Le.
(* satisfies(cmp.Compare(actual, expected)) *)
Definition sat (op : cmpop) (a b : Z) : bool :=
  match op with Gt => b <? a | Ge => b <=? a | Lt => a <? b | Le => a <=? b end.

(* isOrdered, match.go:248-290: ints with ints, finite floats with finite floats *)
Definition is_ordered (op : cmpop) (expected actual : node) : bool :=
  match expected, actual with
  | Int b, Int a => sat op a b
  | Float b, Float a =>
      if f_inf a || f_nan a || f_inf b || f_nan b then false else sat op (f_key a) (f_key b)
  | _, _ => false
  end.

Inductive stmt :=
| SEq (sel : list seg) (v : node)
| SCmp (op : cmpop) (sel : list seg) (v : node)
| SNot (s : stmt)
| SAnd (ss : list stmt)
| SOr (ss : list stmt)
| SLike (sel : list seg) (pat : str)
| SAll (sel : list seg) (s : stmt)
| SAny (sel : list seg) (s : stmt).

(* matchResult, ordered False < NoData < OptionalNoData < True (matchResult.rank) *)
Inductive mres := RF | RN | RO | RT.
Definition rank (r : mres) : nat := match r with RF => 0 | RN => 1 | RO => 2 | RT => 3 end.
Definition mmin (a b : mres) : mres := if (rank a <=? rank b)%nat then a else b.
Definition mmax (a b : mres) : mres := if (rank a <=? rank b)%nat then b else a.
Definition of_bool (b : bool) : mres := if b then RT else RF.
Definition neg (r : mres) : mres := match r with RT => RF | RF => RT | r => r end.

(* a leaf: select, then test the value *)
Definition on_sel (sel : list seg) (n : node) (k : node -> mres) : mres :=
  match select sel n with
  | Ok (Some v) => k v
  | Ok None => RO
  | _ => RN
  end.

Definition quant (f : node -> mres) (op : mres -> mres -> mres) (unit : mres) (v : node) : mres :=
  match v with
  | List l => fold_right (fun x acc => op (f x) acc) unit l
  | _ => RF
  end.

(* matchStatement, match.go:63-246 (the statement returned next to the result is not modelled) *)
Fixpoint ev (s : stmt) (n : node) : mres :=
  match s with
  | SEq sel v => on_sel sel n (fun r => of_bool (deep_equal v r))
  | SCmp op sel v => on_sel sel n (fun r => of_bool (is_ordered op v r))
  | SNot s => neg (ev s n)
  | SAnd ss => fold_right (fun s acc => mmin (ev s n) acc) RT ss
  | SOr ss => match ss with [] => RT | _ => fold_right (fun s acc => mmax (ev s n) acc) RF ss end
  | SLike sel pat => on_sel sel n (fun r => match r with Str x => of_bool (glob_match pat x) | _ => RF end)
  | SAll sel s => on_sel sel n (quant (ev s) mmin RT)
  | SAny sel s => on_sel sel n (quant (ev s) mmax RF)
  end.

Definition pass_match (r : mres) : bool := match r with RO | RT => true | _ => false end.
Definition pass_partial (r : mres) : bool := match r with RF => false | _ => true end.

(* Policy.Match / Policy.PartialMatch *)
Definition policy_match (p : list stmt) (n : node) : bool := forallb (fun s => pass_match (ev s n)) p.
Definition policy_partial (p : list stmt) (n : node) : bool := forallb (fun s => pass_partial (ev s n)) p.

(* ---------- Spec: the classical reading, defined where every selector resolves to a value ---------- *)
Definition sel_val (sel : list seg) (n : node) : option node :=
  match select sel n with Ok (Some v) => Some v | _ => None end.

(* numbers of the same kind only *)
Definition num_cmp (op : cmpop) (expected actual : node) : bool :=
  match expected, actual with
  | Int b, Int a => sat op a b
  | Float b, Float a => negb (f_inf a || f_nan a || f_inf b || f_nan b) && sat op (f_key a) (f_key b)
  | _, _ => false
  end.

Fixpoint eval (s : stmt) (n : node) : bool :=
  match s with
  | SEq sel v => match sel_val sel n with Some r => deep_equal v r | None => false end
  | SCmp op sel v => match sel_val sel n with Some r => num_cmp op v r | None => false end
  | SNot s => negb (eval s n)
  | SAnd ss => forallb (fun s => eval s n) ss
  | SOr ss => match ss with [] => true | _ => existsb (fun s => eval s n) ss end
  | SLike sel pat => match sel_val sel n with
                     | Some (Str x) => match toks pat with Some t => lang_matchb t x | None => false end
                     | _ => false end
  | SAll sel s => match sel_val sel n with Some (List l) => forallb (eval s) l | _ => false end
  | SAny sel s => match sel_val sel n with Some (List l) => existsb (eval s) l | _ => false end
  end.

(* every selector met during evaluation resolves to a value (and like patterns are accepted ones) *)
Fixpoint resolves (s : stmt) (n : node) : Prop :=
  match s with
  | SEq sel _ | SCmp _ sel _ => sel_val sel n <> None
  | SLike sel pat => sel_val sel n <> None /\ toks pat <> None
  | SNot s => resolves s n
  | SAnd ss | SOr ss => (fix all (l : list stmt) : Prop := match l with [] => True | x :: r => resolves x n /\ all r end) ss
  | SAll sel s | SAny sel s =>
      match sel_val sel n with
      | Some (List l) => (fix all (l : list node) : Prop := match l with [] => True | x :: r => resolves s x /\ all r end) l
      | Some _ => True
      | None => False
      end
  end.
