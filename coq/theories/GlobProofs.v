Require Import Base Glob.
Local Open Scope N_scope.

(* ---- language lemmas ---- *)
Lemma lang_lits_app m t x :
  lang (map Lit m ++ t) x <-> exists y, x = m ++ y /\ lang t y.
Proof.
  revert x; induction m as [|c m IH]; intros x; cbn [map app lang].
  - split; [intros H; exists x; auto | intros (y & -> & H); exact H].
  - split.
    + intros (s' & -> & H). apply IH in H as (y & -> & H). exists y; auto.
    + intros (y & -> & H). exists (m ++ y). split; [reflexivity|]. apply IH. eauto.
Qed.

Lemma lang_star_skipn t s :
  lang (Star :: t) s <-> exists k, lang t (skipn k s).
Proof.
  cbn [lang]. split.
  - intros (a & b & -> & H). exists (length a). rewrite skipn_app, Nat.sub_diag, skipn_all. exact H.
  - intros (k & H). exists (firstn k s), (skipn k s). split; [symmetry; apply firstn_skipn | exact H].
Qed.

Lemma lang_len_lits m t x : lang (map Lit m ++ t) x -> (length m <= length x)%nat.
Proof. intros H. apply lang_lits_app in H as (y & -> & _). rewrite app_length. lia. Qed.

Lemma all_stars_lang_n n : forall p t, (length p <= n)%nat -> toks p = Some t -> (all_stars p = true <-> lang t []).
Proof.
  induction n as [|n IH]; intros p t Hn Ht.
  - destruct p; [|cbn in Hn; lia]. cbn in Ht. injection Ht as <-. cbn. tauto.
  - destruct p as [|c p']; cbn in Ht.
    + injection Ht as <-. cbn. tauto.
    + cbn [all_stars]. destruct (c =? c_bsl) eqn:Eb.
      * apply N.eqb_eq in Eb; subst c. cbn.
        destruct p' as [|x p'']; [discriminate|].
        destruct (toks p'') as [t''|]; [|discriminate]. injection Ht as <-.
        cbn. split; [discriminate|]. intros (s' & H & _); discriminate.
      * destruct (c =? c_star) eqn:Es.
        -- destruct (toks p') as [t'|] eqn:Et; [|discriminate]. injection Ht as <-.
           cbn [andb]. rewrite (IH p' t' ltac:(cbn in Hn; lia) Et).
           rewrite lang_star_skipn. split.
           ++ intros H; exists 0%nat; exact H.
           ++ intros (k & H). rewrite skipn_nil in H. exact H.
        -- destruct (toks p') as [t'|]; [|discriminate]. injection Ht as <-.
           cbn. split; [discriminate|]. intros (s' & H & _); discriminate.
Qed.
Lemma all_stars_lang p t : toks p = Some t -> (all_stars p = true <-> lang t []).
Proof. apply (all_stars_lang_n (length p)); lia. Qed.

(* ---- invariant pieces ---- *)
Definition BT (bt : option (str * str)) : Prop :=
  match bt with
  | None => False
  | Some (bp, bs) => exists tb, toks bp = Some tb /\ exists k, (1 <= k)%nat /\ lang tb (skipn k bs)
  end.

Definition Inv (t : list tok) (s : str) (bt : option (str * str)) : Prop :=
  match bt with
  | None => True
  | Some (bp, bs) => exists m tb, bs = m ++ s /\ toks bp = Some tb /\ tb = map Lit m ++ t
  end.

Definition Bnd (PB SB : nat) (p s : str) (bt : option (str * str)) : Prop :=
  (length p <= PB /\ length s <= SB)%nat /\
  match bt with None => True | Some (bp, bs) => (length bp <= PB /\ length bs <= SB)%nat end.

Definition Bm (s : str) (bt : option (str * str)) : nat :=
  match bt with None => S (length s) | Some (_, bs) => length bs end.

(* backtracking position k>=1 of the old star can't beat the current star (greedy commit) *)
Lemma skipn_skipn' {A} (a b : nat) (l : list A) : skipn a (skipn b l) = skipn (a + b) l.
Proof.
  revert l; induction b as [|b IH]; intros l.
  - rewrite Nat.add_0_r. reflexivity.
  - destruct l as [|x l]; [rewrite !skipn_nil; reflexivity|].
    rewrite Nat.add_succ_r. cbn [skipn]. apply IH.
Qed.

Lemma commit t s bp bs m tb :
  bs = m ++ s -> toks bp = Some tb -> tb = map Lit m ++ Star :: t ->
  BT (Some (bp, bs)) -> lang (Star :: t) s.
Proof.
  intros -> Hb -> (tb' & Hb' & k & Hk & H). rewrite Hb in Hb'. injection Hb' as <-.
  apply lang_lits_app in H as (y & Hy & H).
  apply lang_star_skipn in H as (j & H).
  apply lang_star_skipn.
  assert (E : y = skipn k s).
  { assert (E1: skipn (length m) (skipn k (m ++ s)) = y) by (rewrite Hy, skipn_app, Nat.sub_diag, skipn_all; reflexivity).
    rewrite skipn_skipn', skipn_app in E1.
    rewrite skipn_all2 in E1 by lia. cbn [app] in E1. rewrite <- E1. f_equal. lia. }
  subst y. rewrite skipn_skipn' in H. eauto.
Qed.

Lemma BT_shift bp bs' b0 tb :
  toks bp = Some tb ->
  (lang tb bs' \/ BT (Some (bp, bs'))) <-> BT (Some (bp, b0 :: bs')).
Proof.
  intros Hb. cbn [BT]. split.
  - intros [H | (tb' & Hb' & k & Hk & H)].
    + exists tb; split; [exact Hb|]. exists 1%nat; split; [lia|]. exact H.
    + exists tb'; split; [exact Hb'|]. exists (S k); split; [lia|]. exact H.
  - intros (tb' & Hb' & k & Hk & H). rewrite Hb in Hb'; injection Hb' as <-.
    destruct k as [|k]; [lia|]. cbn [skipn] in H.
    destruct k as [|k].
    + left. exact H.
    + right. exists tb; split; [exact Hb|]. exists (S k); split; [lia|]. exact H.
Qed.

Lemma main fuel : forall PB SB p s bt t,
  toks p = Some t -> Inv t s bt -> Bnd PB SB p s bt ->
  (Bm s bt * (PB + SB + 1) + (length p + length s) < fuel)%nat ->
  (loop fuel p s bt = true <-> lang t s \/ BT bt).
Proof.
  induction fuel as [|f IH]; intros PB SB p s bt t Ht HI HB Hf; [lia|].
  (* generic backtrack case *)
  assert (Hback : forall (Hno : ~ lang t s) (Hs : s <> []),
             backtrack (loop f) bt = true <-> lang t s \/ BT bt).
  { intros Hno Hs. destruct bt as [[bp bs]|]; cbn [backtrack].
    - destruct HI as (m & tb & Hbs & Hbp & Htb).
      destruct bs as [|b0 bs'].
      { destruct m; destruct s; cbn in Hbs; try discriminate; congruence. }
      rewrite (IH PB SB bp bs' (Some (bp, bs')) tb Hbp).
      + rewrite (BT_shift bp bs' b0 tb Hbp). tauto.
      + exists [], tb. cbn. auto.
      + destruct HB as ((?&?)&(?&?)). cbn in *. repeat split; lia.
      + destruct HB as ((?&?)&(?&?)). cbn [Bm length] in *.
        assert (length s <= S (length bs'))%nat.
        { apply (f_equal (@length N)) in Hbs. rewrite app_length in Hbs. cbn in Hbs. lia. }
        nia.
    - cbn. split; [discriminate | intros [H|[]]; contradiction]. }
  cbn [loop]. destruct s as [|c s'].
  - (* string exhausted *)
    rewrite (all_stars_lang p t Ht). split; [auto|]. intros [H|H]; [exact H|].
    destruct bt as [[bp bs]|]; [|destruct H].
    destruct HI as (m & tb & Hbs & Hbp & Htb). rewrite app_nil_r in Hbs. subst bs.
    destruct H as (tb' & Hb' & k & Hk & H). rewrite Hbp in Hb'; injection Hb' as <-. subst tb.
    pose proof (lang_len_lits _ _ _ H) as Hl. rewrite skipn_length in Hl.
    destruct m as [|m0 m']; [|cbn [length] in Hl; lia].
    rewrite skipn_nil in H. exact H.
  - destruct p as [|x p'].
    + (* pattern exhausted, string not *)
      cbn in Ht. injection Ht as <-. apply Hback; [cbn; discriminate | discriminate].
    + cbn [toks] in Ht. destruct (x =? c_bsl) eqn:Eb.
      * destruct p' as [|y p'']; [discriminate|].
        destruct (toks p'') as [t''|] eqn:Et; [|discriminate]. injection Ht as <-.
        destruct (y =? c) eqn:Ey.
        -- apply N.eqb_eq in Ey; subst y.
           rewrite (IH PB SB p'' s' bt t'' Et).
           ++ cbn [lang]. split; [intros [H|H]; [left; eauto|right; exact H]|].
              intros [(s0 & E & H)|H]; [left; injection E as <-; exact H | right; exact H].
           ++ destruct bt as [[bp bs]|]; [|exact I].
              destruct HI as (m & tb & Hbs & Hbp & Htb). exists (m ++ [c]), tb.
              rewrite <- app_assoc, map_app, <- app_assoc. cbn. auto.
           ++ destruct HB as ((?&?)&HB). cbn in *. repeat split; try lia. exact HB.
           ++ destruct bt as [[bp bs]|]; cbn [Bm length] in *; nia.
        -- apply Hback; [|discriminate]. cbn [lang]. intros (s0 & E & _). injection E as E _.
           apply N.eqb_neq in Ey. congruence.
      * destruct (x =? c_star) eqn:Es.
        -- destruct (toks p') as [t'|] eqn:Et; [|discriminate]. injection Ht as <-.
           rewrite (IH PB SB p' (c :: s') (Some (p', c :: s')) t' Et).
           ++ split.
              ** intros [H|(tb & Hb & k & Hk & H)].
                 --- left. apply lang_star_skipn. exists 0%nat. exact H.
                 --- left. rewrite Et in Hb; injection Hb as <-. apply lang_star_skipn. eauto.
              ** intros [H|H].
                 --- apply lang_star_skipn in H as (k & H). destruct k as [|k]; [left; exact H|].
                     right. exists t'; split; [exact Et|]. exists (S k). split; [lia|exact H].
                 --- destruct bt as [[bp bs]|]; [|destruct H].
                     destruct HI as (m & tb & Hbs & Hbp & Htb).
                     pose proof (commit t' (c :: s') bp bs m tb Hbs Hbp Htb H) as H'.
                     apply lang_star_skipn in H' as (k & H'). destruct k as [|k]; [left; exact H'|].
                     right. exists t'; split; [exact Et|]. exists (S k). split; [lia|exact H'].
           ++ exists [], t'. cbn. auto.
           ++ destruct HB as ((Hp&Hs)&HB0). unfold Bnd. cbn [length] in *. repeat split; lia.
           ++ destruct bt as [[bp bs]|]; cbn [Bm length] in *.
              ** destruct HI as (m & tb & Hbs & _). apply (f_equal (@length N)) in Hbs.
                 rewrite app_length in Hbs. cbn in Hbs. nia.
              ** nia.
        -- destruct (toks p') as [t'|] eqn:Et; [|discriminate]. injection Ht as <-.
           destruct (x =? c) eqn:Ex.
           ++ apply N.eqb_eq in Ex; subst x.
              rewrite (IH PB SB p' s' bt t' Et).
              ** cbn [lang]. split; [intros [H|H]; [left; eauto|right; exact H]|].
                 intros [(s0 & E & H)|H]; [left; injection E as <-; exact H | right; exact H].
              ** destruct bt as [[bp bs]|]; [|exact I].
                 destruct HI as (m & tb & Hbs & Hbp & Htb). exists (m ++ [c]), tb.
                 rewrite <- app_assoc, map_app, <- app_assoc. cbn. auto.
              ** destruct HB as ((?&?)&HB). cbn in *. repeat split; try lia. exact HB.
              ** destruct bt as [[bp bs]|]; cbn [Bm length] in *; nia.
           ++ apply Hback; [|discriminate]. cbn [lang]. intros (s0 & E & _). injection E as E _.
              apply N.eqb_neq in Ex. congruence.
Qed.


Theorem glob_match_correct p s t :
  toks p = Some t -> (glob_match p s = true <-> lang t s).
Proof.
  intros Ht. unfold glob_match.
  rewrite (main _ (length p) (length s) p s None t Ht I).
  - cbn [BT]. tauto.
  - unfold Bnd. auto.
  - cbn [Bm]. lia.
Qed.

(* parseGlob accepts exactly the patterns that tokenise *)
Lemma parse_glob_ok_toks_n n : forall p, (length p <= n)%nat -> (parse_glob_ok p = true <-> exists t, toks p = Some t).
Proof.
  induction n as [|n IH]; intros p Hn.
  - destruct p; [|cbn in Hn; lia]. cbn. split; eauto.
  - destruct p as [|c p']; [cbn; split; eauto|].
    cbn [parse_glob_ok toks]. destruct (c =? c_bsl).
    + destruct p' as [|x p'']; [split; [discriminate|intros (t & H); discriminate]|].
      rewrite (IH p'') by (cbn in Hn; lia). split.
      * intros (t & ->). cbn. eauto.
      * intros (t & H). destruct (toks p'') as [t''|]; [eauto|discriminate].
    + rewrite (IH p') by (cbn in Hn; lia). destruct (c =? c_star).
      * split; [intros (t & ->); cbn; eauto | intros (t & H); destruct (toks p'); [eauto|discriminate]].
      * split; [intros (t & ->); cbn; eauto | intros (t & H); destruct (toks p'); [eauto|discriminate]].
Qed.
Lemma parse_glob_ok_toks p : parse_glob_ok p = true <-> exists t, toks p = Some t.
Proof. apply (parse_glob_ok_toks_n (length p)); lia. Qed.

Theorem parse_glob_rejects_lone_backslash p : parse_glob (p ++ [c_bsl]) = Err 1 <-> parse_glob_ok p = true.
Proof.
  unfold parse_glob.
  assert (H : forall n p, (length p <= n)%nat -> parse_glob_ok (p ++ [c_bsl]) = negb (parse_glob_ok p)).
  { induction n as [|n IH]; intros q Hn.
    - destruct q; [reflexivity|cbn in Hn; lia].
    - destruct q as [|c q']; [reflexivity|]. cbn [app parse_glob_ok].
      destruct (c =? c_bsl).
      + destruct q' as [|x q'']; [reflexivity|]. cbn [app]. apply IH. cbn in Hn. lia.
      + apply IH. cbn in Hn. lia. }
  rewrite (H (length p) p) by lia. destruct (parse_glob_ok p); cbn; split; congruence.
Qed.

(* the reference matcher decides the language *)
Lemma lang_matchb_correct t : forall s, lang_matchb t s = true <-> lang t s.
Proof.
  induction t as [|[c|] t IH]; intros s; cbn [lang_matchb lang].
  - destruct s; split; congruence.
  - destruct s as [|x s']; [split; [discriminate|intros (s0 & H & _); discriminate]|].
    rewrite andb_true_iff, N.eqb_eq, IH. split.
    + intros [-> H]. eauto.
    + intros (s0 & [= -> <-] & H). auto.
  - change (exists a b, s = a ++ b /\ lang t b) with (lang (Star :: t) s). rewrite lang_star_skipn.
    induction s as [|x s' IHs].
    + rewrite orb_false_r, IH. split; [intros H; exists 0%nat; exact H | intros (k & H); rewrite skipn_nil in H; exact H].
    + rewrite orb_true_iff, IH, IHs. split.
      * intros [H|(k & H)]; [exists 0%nat; exact H | exists (S k); exact H].
      * intros (k & H). destruct k as [|k]; [left; exact H | right; exists k; exact H].
Qed.

Theorem glob_match_is_reference p s t : toks p = Some t -> glob_match p s = lang_matchb t s.
Proof.
  intros Ht. pose proof (glob_match_correct p s t Ht) as H1. pose proof (lang_matchb_correct t s) as H2.
  destruct (glob_match p s), (lang_matchb t s); try reflexivity.
  - symmetry. apply H2, H1. reflexivity.
  - apply H1, H2. reflexivity.
Qed.

(* ---- consecutive wildcards are one wildcard (token level: an escaped star is a literal, not a wildcard) ---- *)
Lemma lang_star_star t s : lang (Star :: Star :: t) s <-> lang (Star :: t) s.
Proof.
  cbn [lang]. split.
  - intros (a & b & -> & a' & b' & -> & H). exists (a ++ a'), b'. rewrite app_assoc. auto.
  - intros (a & b & -> & H). exists a, b. split; [reflexivity|]. exists [], b. auto.
Qed.

Lemma lang_congr t1 u v : (forall s, lang u s <-> lang v s) -> forall s, lang (t1 ++ u) s <-> lang (t1 ++ v) s.
Proof.
  intros E. induction t1 as [|[c|] t1 IH]; intros s; cbn [app lang]; [apply E| |].
  - split; intros (s' & -> & H); exists s'; (split; [reflexivity|apply IH; exact H]).
  - split; intros (a & b & -> & H); exists a, b; (split; [reflexivity|apply IH; exact H]).
Qed.

Theorem double_star_is_star p p' t1 t2 s :
  toks p = Some (t1 ++ Star :: Star :: t2) -> toks p' = Some (t1 ++ Star :: t2) ->
  glob_match p s = glob_match p' s.
Proof.
  intros Hp Hp'. apply Bool.eq_true_iff_eq. rewrite (glob_match_correct p s _ Hp), (glob_match_correct p' s _ Hp').
  apply lang_congr. intros x. apply lang_star_star.
Qed.

(* the empty pattern matches the empty string only; a lone wildcard matches everything *)
Lemma star_matches_all s : glob_match [c_star] s = true.
Proof. apply (glob_match_correct [c_star] s [Star]); [reflexivity|]. cbn [lang]. exists s, []. split; [symmetry; apply app_nil_r|reflexivity]. Qed.
Lemma empty_matches_empty s : glob_match [] s = true <-> s = [].
Proof. rewrite (glob_match_correct [] s []) by reflexivity. reflexivity. Qed.
