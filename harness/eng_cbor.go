package main

import (
	"bytes"
	"math"

	"github.com/ipld/go-ipld-prime"
	"github.com/ipld/go-ipld-prime/codec/dagcbor"
	"github.com/ipld/go-ipld-prime/codec/dagjson"
	"github.com/ipld/go-ipld-prime/datamodel"
	cidlink "github.com/ipld/go-ipld-prime/linking/cid"
	"github.com/ipld/go-ipld-prime/node/basicnode"
)

func init() { register(&Engine{Name: "cbor", Gen: genCbor}) }

// The model's DAG-CBOR encoder and reference decoder against go-ipld-prime's codec, on random nodes.
func genCbor(c *Ctx) {
	var gen func(depth int) datamodel.Node
	gen = func(depth int) datamodel.Node {
		k := c.R.Intn(11)
		if depth == 0 && k >= 8 {
			k = c.R.Intn(8)
		}
		switch k {
		case 0:
			return datamodel.Null
		case 1:
			return basicnode.NewBool(c.R.Bool())
		case 2:
			// integers around every head boundary, both signs
			bounds := []int64{0, 1, 23, 24, 255, 256, 65535, 65536, 4294967295, 4294967296, math.MaxInt64}
			v := bounds[c.R.Intn(len(bounds))] - int64(c.R.Intn(2))
			if v < 0 {
				v = 0
			}
			if c.R.Bool() {
				return basicnode.NewInt(-v - int64(c.R.Intn(2)))
			}
			return basicnode.NewInt(v)
		case 3:
			return basicnode.NewUint(math.MaxUint64 - uint64(c.R.Intn(3)))
		case 4:
			fs := []float64{0, math.Copysign(0, -1), 1.5, -2.25, 1e300, 5e-324, math.MaxFloat64, 3, float64(float32(1.1))}
			return basicnode.NewFloat(fs[c.R.Intn(len(fs))])
		case 5:
			return basicnode.NewString(c.R.Pick([]string{"", "a", "héllo", "日本語", string(bytes.Repeat([]byte("x"), 23)), string(bytes.Repeat([]byte("y"), 24)), string(bytes.Repeat([]byte("z"), 256))}))
		case 6:
			return basicnode.NewBytes(c.R.Bytes([]int{0, 1, 23, 24, 255, 256, 300}[c.R.Intn(7)]))
		case 7:
			return basicnode.NewLink(cidlink.Link{Cid: fakeCid(c.R.Intn(5))})
		case 8, 9:
			n := c.R.Intn(5)
			if c.R.Chance(5) {
				n = 24 + c.R.Intn(3)
			}
			items := make([]datamodel.Node, n)
			for i := range items {
				items[i] = gen(depth - 1)
			}
			return mkList(items...)
		default:
			n := c.R.Intn(5)
			keys := []string{"a", "b", "aa", "ab", "B", "", "zz", "z", "aaa", "é", "10", "9"}
			c.R.Intn(1)
			seen := map[string]bool{}
			var es []ent
			for i := 0; i < n; i++ {
				k := keys[c.R.Intn(len(keys))]
				if seen[k] {
					continue
				}
				seen[k] = true
				es = append(es, ent{k, gen(depth - 1)})
			}
			return mkMap(es...)
		}
	}
	n := 4000
	if c.Thorough() {
		n = 300000
	}
	for i := 0; i < n; i++ {
		nd := gen(3)
		enc, err := ipld.Encode(nd, dagcbor.Encode)
		if err != nil {
			continue
		}
		// what go-ipld-prime decodes its own output to (maps now in wire order)
		back, err := ipld.Decode(enc, dagcbor.Decode)
		backW := WNull
		if err == nil {
			backW = WNode(back)
		}
		c.Emit("cbor/rnd", WList(WStr("codec"), WNode(nd)), WList(WBytes(enc), backW))
	}
	// DAG-JSON: the model's encoder (DagJson.v) against go-ipld-prime's dagjson on nodes without floats, and its
	// reference decoder against dagjson.Decode on those bytes
	var genj func(depth int) datamodel.Node
	genj = func(depth int) datamodel.Node {
		k := c.R.Intn(10)
		if depth == 0 && k >= 7 {
			k = c.R.Intn(7)
		}
		switch k {
		case 0:
			return datamodel.Null
		case 1:
			return basicnode.NewBool(c.R.Bool())
		case 2:
			bounds := []int64{0, 1, 9, 10, 99, 100, 255, 65536, 4294967296, 9007199254740991, 9007199254740992, math.MaxInt64}
			v := bounds[c.R.Intn(len(bounds))] - int64(c.R.Intn(2))
			if v < 0 {
				v = 0
			}
			if c.R.Bool() {
				return basicnode.NewInt(-v - int64(c.R.Intn(2)))
			}
			return basicnode.NewInt(v)
		case 3, 4:
			pieces := []string{"a", "b", " ", "\"", "\\", "/", "\n", "\r", "\t", "\x00", "\x01", "\x1f", "\x7f", "é", "日本", "\u2028", "\u2029", "\ufffd", "𐐀", "<", "&", "u", "\\u0041"}
			if c.R.Chance(10) {
				pieces = append(pieces, "\xff", "\xc3", "\xed\xa0\x80")
			}
			var sb bytes.Buffer
			for i, n := 0, c.R.Intn(6); i < n; i++ {
				sb.WriteString(pieces[c.R.Intn(len(pieces))])
			}
			return basicnode.NewString(sb.String())
		case 5:
			return basicnode.NewBytes(c.R.Bytes([]int{0, 1, 2, 3, 4, 5, 31, 32, 33}[c.R.Intn(9)]))
		case 6:
			return basicnode.NewLink(cidlink.Link{Cid: fakeCid(c.R.Intn(5))})
		case 7, 8:
			n := c.R.Intn(4)
			items := make([]datamodel.Node, n)
			for i := range items {
				items[i] = genj(depth - 1)
			}
			return mkList(items...)
		default:
			n := c.R.Intn(5)
			keys := []string{"a", "b", "aa", "ab", "B", "", "zz", "z", "aaa", "é", "10", "9", "bytes", "a\"b", "\n"}
			if c.R.Chance(5) {
				keys = append(keys, "/")
			}
			seen := map[string]bool{}
			var es []ent
			for i := 0; i < n; i++ {
				k := keys[c.R.Intn(len(keys))]
				if seen[k] {
					continue
				}
				seen[k] = true
				es = append(es, ent{k, genj(depth - 1)})
			}
			return mkMap(es...)
		}
	}
	for i := 0; i < n; i++ {
		nd := genj(3)
		enc, err := ipld.Encode(nd, dagjson.Encode)
		if err != nil {
			continue
		}
		back, err := ipld.Decode(enc, dagjson.Decode)
		backW := WNull
		if err == nil {
			backW = WNode(back)
		}
		c.Emit("json/rnd", WList(WStr("json"), WNode(nd)), WList(WBytes(enc), backW))
	}
}
