(* Output sizes (C09, memory clause, as far as go-ucan's own logic goes): every decoder of the model returns a
   value that is no larger than its input, and selector resolution never returns more than the data it was
   given.  "Size" is [weight]: one unit per node plus the bytes of every string, byte string, link and map key. *)
From Coq Require Import String.
Require Import Base Node Radix Varint Did DidProofs Cbor CborProofs Selector SelectorProofs SelParse SelParseProofs
  Glob Base64 PolicyIpld PolicyIpldProofs Container ContainerProofs.
From Coq Require Import ZifyBool ZifyNat ZifyN.
Local Open Scope nat_scope.

Fixpoint weight (n : node) : nat :=
  match n with
  | Str s => S (length s)
  | Bytes s => S (length s)
  | Link s => S (length s)
  | List l => S (fold_right (fun x a => weight x + a) 0 l)
  | Map m => S (fold_right (fun kv a => length (fst kv) + weight (snd kv) + a) 0 m)
  | _ => 1
  end.
Definition lweight (l : list node) : nat := fold_right (fun x a => weight x + a) 0 l.
Definition mweight (m : list (str * node)) : nat := fold_right (fun kv a => length (fst kv) + weight (snd kv) + a) 0 m.

Lemma weight_pos n : 1 <= weight n.
Proof. destruct n; cbn; lia. Qed.

(* ---------- lists ---------- *)
Lemma lweight_firstn k l : lweight (firstn k l) <= lweight l.
Proof. revert k; induction l as [|x l IH]; intros [|k]; cbn; try lia. specialize (IH k). unfold lweight in *. lia. Qed.
Lemma lweight_skipn k l : lweight (skipn k l) <= lweight l.
Proof. revert k; induction l as [|x l IH]; intros [|k]; cbn; try lia. specialize (IH k). unfold lweight in *. lia. Qed.
Lemma lweight_sub st en l : lweight (sub st en l) <= lweight l.
Proof. unfold sub. etransitivity; [apply lweight_firstn | apply lweight_skipn]. Qed.
Lemma lweight_nth l k v : nth_error l k = Some v -> weight v <= lweight l.
Proof. revert k; induction l as [|x l IH]; intros [|k] H; cbn in *; try discriminate.
  - injection H as ->. lia.
  - apply IH in H. unfold lweight in *. lia. Qed.
Lemma len_sub {A} st en (l : list A) : length (sub st en l) <= length l.
Proof. unfold sub. rewrite firstn_length, skipn_length. lia. Qed.
Lemma concat_len_firstn {A} k (l : list (list A)) : length (concat (firstn k l)) <= length (concat l).
Proof. revert k; induction l as [|x l IH]; intros [|k]; cbn; try lia. rewrite !app_length. specialize (IH k). lia. Qed.
Lemma concat_len_skipn {A} k (l : list (list A)) : length (concat (skipn k l)) <= length (concat l).
Proof. revert k; induction l as [|x l IH]; intros [|k]; cbn; try lia. rewrite !app_length. specialize (IH k). lia. Qed.
Lemma concat_len_sub {A} st en (l : list (list A)) : length (concat (sub st en l)) <= length (concat l).
Proof. unfold sub. etransitivity; [apply concat_len_firstn | apply concat_len_skipn]. Qed.

Lemma mweight_values m : lweight (map snd m) <= mweight m.
Proof. induction m as [|[k v] m IH]; cbn; [lia|]. unfold lweight, mweight in *. cbn. lia. Qed.
Lemma mweight_get f m v : map_get f m = Some v -> weight v <= mweight m.
Proof. induction m as [|[k x] m IH]; cbn; [discriminate|].
  destruct (str_eqb f k); intros H; [injection H as ->; lia | apply IH in H; unfold mweight in *; lia]. Qed.

(* ---------- selector resolution ---------- *)
Definition wopt (c : option node) : nat := match c with Some n => weight n | None => 1 end.

Lemma weight_list l : weight (List l) = S (lweight l). Proof. reflexivity. Qed.
Lemma weight_map m : weight (Map m) = S (mweight m). Proof. reflexivity. Qed.
Lemma weight_str x : weight (Str x) = S (length x). Proof. reflexivity. Qed.
Lemma weight_bytes x : weight (Bytes x) = S (length x). Proof. reflexivity. Qed.

Lemma unless_weight s cur c0 : unless_opt s = Ok c0 -> wopt c0 <= wopt cur.
Proof. unfold unless_opt. destruct (sopt s); intros [= <-]. destruct cur; cbn [wopt]; [apply weight_pos | lia]. Qed.

Lemma step_weight s cur c : step s cur = Ok c -> wopt c <= wopt cur.
Proof.
  unfold step. destruct (sk s) as [| |f|a b|i].
  - intros [= ->]. lia.
  - unfold step_iter. destruct cur as [[]|]; try (match goal with |- context [sopt s] => destruct (sopt s) end); intros H; try discriminate; injection H as <-;
      cbn [wopt]; rewrite ?weight_list, ?weight_map; try (cbn; lia).
    pose proof (mweight_values m). lia.
  - unfold step_field.
    destruct cur as [[]|]; try (apply unless_weight).
    destruct (map_get f m) eqn:G; [|apply unless_weight]. intros [= <-]. cbn [wopt]. rewrite weight_map.
    apply mweight_get in G. lia.
  - unfold step_slice. destruct cur as [[]|]; try discriminate; try (apply unless_weight).
    + destruct (go_slice a b (zlen (chars s0))) as [st en]. intros [= <-]. cbn [wopt]. rewrite !weight_str.
      pose proof (concat_len_sub st en (chars s0)) as H. rewrite SelectorProofs.concat_chars in H. apply le_n_S, H.
    + destruct (go_slice a b (zlen b0)) as [st en]. intros [= <-]. cbn [wopt]. rewrite !weight_bytes.
      apply le_n_S, len_sub.
    + destruct (go_slice a b (zlen l)) as [st en]. intros [= <-]. cbn [wopt]. rewrite !weight_list.
      apply le_n_S, lweight_sub.
  - unfold step_index.
    destruct cur as [[]|]; try (apply unless_weight).
    + destruct (norm_index i (zlen b)); [|apply unless_weight]. destruct (nth_error b n); intros [= <-]. cbn. lia.
    + destruct (norm_index i (zlen l)); [|apply unless_weight]. destruct (nth_error l n) eqn:E; intros [= <-]. cbn [wopt].
      rewrite weight_list. apply lweight_nth in E. lia.
Qed.

Lemma resolve_weight sel : forall cur c, resolve sel cur = Ok c -> wopt c <= wopt cur.
Proof.
  induction sel as [|s sel IH]; intros cur c; cbn.
  - intros [= ->]. lia.
  - destruct (step s cur) as [c1| |] eqn:E; try discriminate. intros H. apply IH in H. apply step_weight in E. lia.
Qed.

(* Selector.Select never returns more than it was given *)
Theorem select_result_no_larger_than_data sel n v : select sel n = Ok (Some v) -> weight v <= weight n.
Proof. intros H. apply resolve_weight in H. exact H. Qed.

(* ---------- selector parser ---------- *)
Lemma flush_nonempty cur : Forall (fun t : str => t <> []) (flush cur).
Proof. destruct cur; cbn; constructor; [|constructor]. intros E. apply (f_equal (@length _)) in E. cbn in E. rewrite app_length in E. cbn in E. lia. Qed.
Lemma tokenize_aux_nonempty s : forall prev inq cur, Forall (fun t : str => t <> []) (tokenize_aux s prev inq cur).
Proof.
  induction s as [|c r IH]; intros prev inq cur; cbn [tokenize_aux]; [apply flush_nonempty|].
  destruct ((c =? c_quote)%N && negb (prev =? c_bslash)%N); [apply IH|].
  destruct inq; [apply IH|].
  destruct ((c =? c_dot)%N || (c =? c_lbr)%N); [|apply IH].
  apply Forall_app; split; [apply flush_nonempty | apply IH].
Qed.
Lemma nonempty_count (l : list str) : Forall (fun t : str => t <> []) l -> length l <= length (concat l).
Proof. induction 1 as [|x l Hx _ IH]; cbn; [lia|]. rewrite app_length. destruct x; [congruence|]. cbn. lia. Qed.

Theorem parsed_selector_no_larger_than_text s p :
  sel_parse s = Ok p -> length p <= length s /\ length (sel_print p) = length s.
Proof.
  intros H. split; [|rewrite (parse_print _ _ H); reflexivity].
  unfold sel_parse in H. destruct s as [|c s']; [discriminate|].
  destruct (negb (c =? c_dot)%N); [discriminate|].
  destruct (str_eqb (c :: s') [c_dot]); [injection H as <-; cbn; lia|].
  destruct (str_eqb (c :: s') [c_dot; c_qm]); [injection H as <-; cbn; lia|].
  pose proof (parse_toks_strs _ _ _ H) as E.
  rewrite <- (map_length ps_str), E.
  etransitivity; [apply nonempty_count, tokenize_aux_nonempty|]. unfold tokenize in *. fold (tokenize (c :: s')).
  rewrite tokenize_partition. lia.
Qed.

(* ---------- did:key ---------- *)
Lemma val_lower r l : (2 <= r)%N -> nlz l -> l <> [] -> (r ^ N.of_nat (length l - 1) <= val r l)%N.
Proof.
  intros Hr Hn Hl. destruct l as [|d l]; [congruence|]. rewrite val_cons. cbn [length]. replace (S (length l) - 1) with (length l) by lia.
  destruct d; [contradiction|]. nia.
Qed.
Lemma val_upper r l : (2 <= r)%N -> Forall (fun d => (d < r)%N) l -> (val r l < r ^ N.of_nat (length l))%N.
Proof.
  intros Hr. induction l as [|d l IH] using rev_ind; intros F; [cbn; lia|].
  apply Forall_app in F as [F1 F2]. inversion F2 as [|? ? Hd _]; subst.
  rewrite val_snoc, app_length. cbn [length]. replace (length l + 1) with (S (length l)) by lia.
  rewrite Nat2N.inj_succ, N.pow_succ_r'. specialize (IH F1). nia.
Qed.

Lemma digits_len r n k : (2 <= r)%N -> (n < r ^ N.of_nat k)%N -> length (digits r n) <= k.
Proof.
  intros Hr Hn. unfold digits.
  destruct (digits_fuel_shape r Hr (N.to_nat (N.size n)) n []) as (pre & E & F & Z & NZ).
  { rewrite N2Nat.id. apply N.size_gt. }
  rewrite E, app_nil_r. destruct (N.eq_dec n 0) as [->|Hn0]; [rewrite (Z eq_refl); cbn; lia|].
  destruct (NZ Hn0) as [Hne Hnl].
  assert (V : val r pre = n).
  { pose proof (val_digits r n Hr) as V. unfold digits in V. rewrite E, app_nil_r in V. exact V. }
  pose proof (val_lower r pre Hr Hnl Hne) as L. rewrite V in L.
  destruct (le_lt_dec (length pre) k) as [|G]; [assumption|exfalso].
  assert ((r ^ N.of_nat k <= r ^ N.of_nat (length pre - 1))%N) by (apply N.pow_le_mono_r; lia). lia.
Qed.

Lemma skipn_forall {A} (P : A -> Prop) k l : Forall P l -> Forall P (skipn k l).
Proof. revert k; induction l as [|x l IH]; intros [|k] F; cbn; auto. inversion F; subst. apply IH; assumption. Qed.

Lemma conv_58_256_len ds : Forall (fun d => (d < 58)%N) ds -> length (conv 58 256 ds) <= length ds.
Proof.
  intros F. unfold conv. rewrite app_length, repeat_length.
  assert (L : length (strip ds) = length ds - lz ds) by (unfold strip; apply skipn_length).
  assert (lz ds <= length ds) by (clear; induction ds as [|[|p] ds IH]; cbn; lia).
  pose proof (val_upper 58 (strip ds) ltac:(lia) (skipn_forall _ _ _ F)) as U.
  assert (U' : (val 58 (strip ds) < 256 ^ N.of_nat (length (strip ds)))%N).
  { eapply N.lt_le_trans; [exact U|]. apply N.pow_le_mono_l. lia. }
  pose proof (digits_len 256 _ _ ltac:(lia) U'). lia.
Qed.

Lemma idx_aux_lt c l : forall i d, idx_aux c l i = Some d -> (d < i + N.of_nat (length l))%N.
Proof. induction l as [|x l IH]; intros i d; cbn [idx_aux length]; [discriminate|].
  destruct (x =? c)%N; [intros [= <-]; lia|]. intros H. apply IH in H. lia. Qed.
Lemma idx_all_lt t : forall ds, idx_all t = Some ds -> Forall (fun d => (d < 58)%N) ds /\ length ds = length t.
Proof.
  induction t as [|c t IH]; intros ds; cbn [idx_all]; [intros [= <-]; split; [constructor|reflexivity]|].
  destruct (idx c) eqn:E; [|discriminate]. destruct (idx_all t) as [ds'|]; [|discriminate]. intros [= <-].
  destruct (IH _ eq_refl) as [F L]. split; [constructor; [|exact F] | cbn; lia].
  unfold idx in E. apply idx_aux_lt in E. cbn in E. lia.
Qed.

(* did.Parse: the identifier's bytes are never longer than its text *)
Theorem parsed_did_no_larger_than_text s d : did_parse s = Ok d -> length (snd d) <= length s.
Proof.
  unfold did_parse. destruct (negb (has_prefix did_prefix s)); [discriminate|].
  destruct (skipn 8 s) as [|c t] eqn:E; [discriminate|]. destruct (negb (c =? c_z)%N); [discriminate|].
  assert (Lt : length t < length s).
  { apply (f_equal (@length _)) in E. rewrite skipn_length in E. cbn in E. lia. }
  unfold b58_decode. destruct t as [|t0 t']; [discriminate|]. destruct (idx_all (t0 :: t')) as [ds|] eqn:I; [|discriminate].
  destruct (from_uvarint (conv 58 256 ds)) as [[code k]| |]; try discriminate.
  destruct (mem code Generated.parse_codes); [|discriminate]. intros [= <-]. cbn [snd].
  destruct (idx_all_lt _ _ I) as [F L]. pose proof (conv_58_256_len ds F). lia.
Qed.

(* ---------- glob, base64 ---------- *)
Theorem parsed_glob_is_the_text p g : parse_glob p = Ok g -> g = p.
Proof. unfold parse_glob. destruct (parse_glob_ok p); [intros [= <-]; reflexivity | discriminate]. Qed.

Lemma b64_decode_q_len s : forall b, b64_decode_q s = Ok b -> length b <= length s.
Proof.
  induction s as [s IH] using (well_founded_induction (Wf_nat.well_founded_ltof _ (@length N))). intros b.
  destruct s as [|c0 [|c1 [|c2 [|c3 r]]]]; cbn [b64_decode_q]; try discriminate; [intros [= <-]; cbn; lia|].
  destruct (b64_idx c0), (b64_idx c1); try discriminate.
  destruct (c2 =? c_pad)%N.
  { destruct ((c3 =? c_pad)%N && match r with [] => true | _ => false end); [intros [= <-]; cbn; lia | discriminate]. }
  destruct (b64_idx c2); [|discriminate].
  destruct (c3 =? c_pad)%N; [destruct r; [intros [= <-]; cbn; lia | discriminate]|].
  destruct (b64_idx c3); [|discriminate].
  destruct (b64_decode_q r) as [t| |] eqn:E; try discriminate. intros [= <-].
  assert (length t <= length r) by (apply IH; [unfold ltof; cbn; lia | exact E]). cbn. lia.
Qed.
Lemma filter_len {A} (f : A -> bool) l : length (filter f l) <= length l.
Proof. induction l as [|x l IH]; cbn; [lia|]. destruct (f x); cbn; lia. Qed.
Theorem base64_decoding_no_larger_than_text s b : b64_decode s = Ok b -> length b <= length s.
Proof.
  unfold b64_decode. intros H. apply b64_decode_q_len in H.
  pose proof (filter_len (fun c => negb (is_nl c)) s). lia.
Qed.

(* ---------- DAG-CBOR (reference decoder) ---------- *)
Lemma take_len n l a r : take n l = Some (a, r) -> length a + length r = length l /\ length a = N.to_nat n.
Proof.
  unfold take, nlen. destruct (N.leb_spec n (N.of_nat (length l))); [|discriminate]. intros [= <- <-].
  rewrite firstn_length, skipn_length. lia.
Qed.
Lemma dec_head_len bs mj n r : dec_head bs = Some (mj, n, r) -> S (length r) <= length bs.
Proof.
  unfold dec_head. destruct bs as [|b r0]; [discriminate|]. cbn [length].
  destruct (b mod 32 <? 24)%N; [intros [= _ _ <-]; lia|].
  repeat match goal with
  | |- context [if ?c then _ else _] => destruct c
  | |- context [match take ?k r0 with _ => _ end] => destruct (take k r0) as [[v r']|] eqn:T; [apply take_len in T|]
  end; try discriminate; intros [= _ _ <-]; lia.
Qed.

Section DecW.
  Variable dec1 : str -> option (node * str).
  Hypothesis H1 : forall s x r, dec1 s = Some (x, r) -> weight x + length r <= length s.
  Lemma dec_items_weight k : forall r xs r', dec_items dec1 k r = Some (xs, r') -> lweight xs + length r' <= length r.
  Proof.
    induction k as [|k IH]; intros r xs r'; cbn [dec_items]; [intros [= <- <-]; cbn; lia|].
    destruct (dec1 r) as [[x r1]|] eqn:E; [|discriminate]. destruct (dec_items dec1 k r1) as [[ys r2]|] eqn:E2; [|discriminate].
    intros [= <- <-]. apply H1 in E. apply IH in E2. cbn. unfold lweight in *. lia.
  Qed.
  Lemma dec_entries_weight k : forall r es r', dec_entries dec1 k r = Some (es, r') -> mweight es + length r' <= length r.
  Proof.
    induction k as [|k IH]; intros r es r'; cbn [dec_entries]; [intros [= <- <-]; cbn; lia|].
    destruct (dec_head r) as [[[mj n] r1]|] eqn:Hd; [|discriminate]. destruct (mj =? 3)%N; [|discriminate].
    destruct (take n r1) as [[key r2]|] eqn:T; [|discriminate].
    destruct (dec1 r2) as [[v r3]|] eqn:E; [|discriminate]. destruct (dec_entries dec1 k r3) as [[es' r4]|] eqn:E2; [|discriminate].
    intros [= <- <-]. apply dec_head_len in Hd. apply take_len in T. apply H1 in E. apply IH in E2. cbn. unfold mweight in *. lia.
  Qed.
End DecW.

Theorem decoded_cbor_no_larger_than_bytes f : forall bs x r, dec f bs = Some (x, r) -> weight x + length r <= length bs.
Proof.
  induction f as [|f IH]; intros bs x r; [discriminate|]. cbn [dec].
  destruct bs as [|b r0]; [discriminate|].
  destruct (b =? 246)%N; [intros [= <- <-]; cbn; lia|].
  destruct (b =? 245)%N; [intros [= <- <-]; cbn; lia|].
  destruct (b =? 244)%N; [intros [= <- <-]; cbn; lia|].
  destruct (b =? 251)%N.
  { destruct (take 8 r0) as [[v r']|] eqn:T; [|discriminate]. intros [= <- <-]. apply take_len in T. cbn. lia. }
  destruct (b =? 216)%N.
  { destruct r0 as [|t r1]; [discriminate|]. destruct (t =? 42)%N; [|discriminate].
    destruct (dec_head r1) as [[[mj n] r2]|] eqn:Hd; [|discriminate]. destruct (mj =? 2)%N; [|discriminate].
    destruct (take n r2) as [[[|z c] r3]|] eqn:T; try discriminate. destruct (z =? 0)%N; [|discriminate].
    intros [= <- <-]. apply dec_head_len in Hd. apply take_len in T. cbn in *. lia. }
  destruct (dec_head (b :: r0)) as [[[mj n] r1]|] eqn:Hd; [|discriminate]. apply dec_head_len in Hd.
  destruct (mj =? 0)%N; [intros [= <- <-]; cbn in *; lia|].
  destruct (mj =? 1)%N; [intros [= <- <-]; cbn in *; lia|].
  destruct (mj =? 2)%N.
  { destruct (take n r1) as [[v r']|] eqn:T; [|discriminate]. intros [= <- <-]. apply take_len in T. cbn in *. lia. }
  destruct (mj =? 3)%N.
  { destruct (take n r1) as [[v r']|] eqn:T; [|discriminate]. intros [= <- <-]. apply take_len in T. cbn in *. lia. }
  destruct (mj =? 4)%N.
  { destruct (n <=? nlen r1)%N; [|discriminate].
    destruct (dec_items (dec f) (N.to_nat n) r1) as [[l r']|] eqn:E; [|discriminate]. intros [= <- <-].
    apply (dec_items_weight (dec f) IH) in E. cbn in *. unfold lweight in E. lia. }
  destruct (mj =? 5)%N; [|discriminate].
  destruct (n <=? nlen r1)%N; [|discriminate].
  destruct (dec_entries (dec f) (N.to_nat n) r1) as [[m r']|] eqn:E; [|discriminate]. intros [= <- <-].
  apply (dec_entries_weight (dec f) IH) in E. cbn in *. unfold mweight in E. lia.
Qed.

(* ---------- policies ---------- *)
(* the IPLD form of a decoded policy is the node it was read from, so it weighs the same *)
Theorem decoded_policy_weighs_what_was_read n p : pol_from_ipld n = Ok p -> weight (pol_to_ipld p) = weight n.
Proof. intros H. rewrite (pol_ipld_roundtrip _ _ H). reflexivity. Qed.

(* ---------- containers ---------- *)
Lemma go_uvarint_aux_len buf : forall i mult x v r, go_uvarint_aux buf i mult x = Ok (v, r) -> S (length r) <= length buf.
Proof.
  induction buf as [|b buf IH]; intros i mult x v r; cbn [go_uvarint_aux]; [discriminate|].
  destruct (10 <=? i); [discriminate|]. destruct (b <? 128)%N.
  - destruct ((i =? 9) && (1 <? b)%N); [discriminate|]. intros [= _ <-]. cbn. lia.
  - intros H. apply IH in H. cbn. lia.
Qed.

Lemma ld_read_len s raw rest : ld_read s = Ok (Some (raw, rest)) -> S (length raw + length rest) <= length s.
Proof.
  unfold ld_read. destruct s as [|c s']; [discriminate|].
  destruct (go_read_uvarint (c :: s')) as [[l r]| |] eqn:E; try discriminate.
  destruct (l =? 0)%N; [discriminate|]. destruct (max_section <? l)%N; [discriminate|].
  destruct (N.ltb_spec (N.of_nat (length r)) l); [discriminate|]. intros [= <- <-].
  apply go_uvarint_aux_len in E. rewrite firstn_length, skipn_length. lia.
Qed.

Lemma skipn_len_le {A} k (l : list A) : length (skipn k l) <= length l.
Proof. rewrite skipn_length. lia. Qed.

Lemma concat_rev_len {A} (l : list (list A)) : length (concat (rev l)) = length (concat l).
Proof. induction l as [|x l IH]; [reflexivity|]. cbn [rev concat]. rewrite concat_app, !app_length, IH. cbn [concat length]. rewrite app_nil_r. clear IH. lia. Qed.

Section ContainerSizes.
  Variable mh_sum : N -> N -> str -> res str.

  Lemma check_block_len raw data : check_block mh_sum raw = Ok data -> length data <= length raw.
  Proof.
    unfold check_block.
    assert (G : forall (r : str) code len k, match mh_sum code len (skipn k r) with
                  | Ok h => if str_eqb h (firstn k r) then Ok (skipn k r) else Err 7%N | _ => Err 7%N end = Ok data ->
                length data <= length r).
    { intros r code len k. destruct (mh_sum code len (skipn k r)); try discriminate.
      destruct (str_eqb a (firstn k r)); [|discriminate]. intros [= <-]. apply skipn_len_le. }
    assert (D : match from_uvarint raw with
       | Ok (ver, n1) =>
           if negb (ver =? 1)%N then Err 6%N
           else match from_uvarint (skipn n1 raw) with
             | Ok (_, n2) => match from_uvarint (skipn n2 (skipn n1 raw)) with
                 | Ok (code, n3) => match from_uvarint (skipn n3 (skipn n2 (skipn n1 raw))) with
                     | Ok (len, n4) =>
                         if length (skipn n4 (skipn n3 (skipn n2 (skipn n1 raw)))) <? N.to_nat len then Err 6%N
                         else match mh_sum code len (skipn (N.to_nat len) (skipn n4 (skipn n3 (skipn n2 (skipn n1 raw))))) with
                              | Ok h => if str_eqb h (firstn (N.to_nat len) (skipn n4 (skipn n3 (skipn n2 (skipn n1 raw)))))
                                        then Ok (skipn (N.to_nat len) (skipn n4 (skipn n3 (skipn n2 (skipn n1 raw))))) else Err 7%N
                              | _ => Err 7%N end
                     | _ => Err 6%N end
                 | _ => Err 6%N end
             | _ => Err 6%N end
       | _ => Err 6%N end = Ok data -> length data <= length raw).
    { destruct (from_uvarint raw) as [[ver n1]| |]; try discriminate. destruct (negb (ver =? 1)%N); [discriminate|].
      destruct (from_uvarint (skipn n1 raw)) as [[c2 n2]| |]; try discriminate.
      destruct (from_uvarint (skipn n2 (skipn n1 raw))) as [[code n3]| |]; try discriminate.
      destruct (from_uvarint (skipn n3 (skipn n2 (skipn n1 raw)))) as [[len n4]| |]; try discriminate.
      destruct (length (skipn n4 (skipn n3 (skipn n2 (skipn n1 raw)))) <? N.to_nat len); [discriminate|].
      intros H. apply G in H.
      pose proof (skipn_len_le n4 (skipn n3 (skipn n2 (skipn n1 raw)))).
      pose proof (skipn_len_le n3 (skipn n2 (skipn n1 raw))). pose proof (skipn_len_le n2 (skipn n1 raw)).
      pose proof (skipn_len_le n1 raw). lia. }
    destruct raw as [|b0 raw1]; [exact D|]. destruct b0 as [|p]; [exact D|].
    do 5 (destruct p as [p|p|]; try exact D).
    destruct raw1 as [|b1 r]; [exact D|]. destruct b1 as [|p]; [exact D|].
    do 6 (destruct p as [p|p|]; try exact D).
    destruct (length r <? 32); [discriminate|]. intros H. apply G in H. clear D G. cbn [length]. do 2 apply le_S. exact H.
  Qed.

  Lemma read_blocks_len fuel : forall s acc blobs, read_blocks mh_sum fuel s acc = Ok blobs ->
    length (concat blobs) + length blobs <= length (concat acc) + length acc + length s.
  Proof.
    induction fuel as [|f IH]; intros s acc blobs; cbn [read_blocks]; [discriminate|].
    destruct (ld_read s) as [[[raw rest]|]| |] eqn:E; try discriminate.
    - destruct (check_block mh_sum raw) as [data| |] eqn:C; try discriminate. intros H. apply IH in H.
      apply ld_read_len in E. apply check_block_len in C. cbn [concat length] in H. rewrite app_length in H. clear IH. lia.
    - intros [= <-]. clear. unfold str in *. rewrite (concat_rev_len acc), (rev_length acc). lia.
  Qed.

  (* a CAR never yields more token bytes (plus one per token) than it is long *)
  Theorem car_blocks_no_larger_than_input s blobs : car_blobs mh_sum s = Ok blobs -> length (concat blobs) + length blobs <= length s.
  Proof.
    unfold car_blobs. destruct (ld_read s) as [[[hb rest]|]| |] eqn:E; try discriminate.
    destruct (header_ok hb); [|discriminate]. intros H. apply read_blocks_len in H. apply ld_read_len in E. cbn in H. lia.
  Qed.
End ContainerSizes.

Lemma all_bytes_weight l bs : all_bytes l = Some bs -> length (concat bs) + length bs = lweight l.
Proof.
  revert bs; induction l as [|x l IH]; intros bs; cbn [all_bytes]; [intros [= <-]; reflexivity|].
  destruct x; try discriminate. destruct (all_bytes l) as [bs'|]; [|discriminate]. intros [= <-].
  specialize (IH _ eq_refl). cbn. rewrite app_length. unfold lweight in *. lia.
Qed.

(* the same for the CBOR container *)
Theorem cbor_container_entries_no_larger_than_input s blobs : cbor_blobs s = Ok blobs -> length (concat blobs) + length blobs <= length s.
Proof.
  unfold cbor_blobs. destruct (dec (3 + length s) s) as [[x r]|] eqn:E; [|discriminate].
  apply decoded_cbor_no_larger_than_bytes in E.
  destruct x; try discriminate. destruct m as [|[k v] [|? ?]]; try discriminate; [|destruct v; discriminate]. destruct v; try discriminate.
  destruct (str_eqb k ctn_version); [|discriminate]. destruct (all_bytes l) as [bs|] eqn:A; [|discriminate]. intros [= <-].
  apply all_bytes_weight in A. rewrite weight_map in E. cbn [mweight fold_right fst snd] in E. rewrite weight_list in E. lia.
Qed.
