(* Unsigned varint as implemented by multiformats/go-varint (ToUvarint / FromUvarint):
   LEB128, at most 9 bytes (63 bits), minimal encodings only. Shifts and ors are written as
   multiplications and additions (equal because the accumulated value is below the multiplier). *)
Require Import Base.
From Coq Require Import ZifyBool ZifyNat ZifyN.
Local Open Scope N_scope.
Ltac Zify.zify_post_hook ::= Z.div_mod_to_equations.

Fixpoint to_uvarint_f (f : nat) (n : N) : str :=
  match f with
  | O => []
  | S f' => if n <? 128 then [n] else (n mod 128 + 128) :: to_uvarint_f f' (n / 128)
  end.
Definition to_uvarint (n : N) : str := to_uvarint_f 10 n.

(* error classes: 1 overflow, 2 underflow, 3 not minimal *)
Fixpoint from_uvarint_aux (buf : str) (i : nat) (mult x : N) : res (N * nat) :=
  match buf with
  | [] => Err 2
  | b :: r =>
      if ((i =? 8)%nat && (128 <=? b)) || (9 <=? i)%nat then Err 1
      else if b <? 128 then (if (b =? 0) && (0 <? i)%nat then Err 3 else Ok (x + b * mult, S i))
      else from_uvarint_aux r (S i) (mult * 128) (x + (b mod 128) * mult)
  end.
Definition from_uvarint (buf : str) : res (N * nat) := from_uvarint_aux buf 0 1 0.

Lemma from_to_aux : forall k f n i mult x rest,
  (k <= f)%nat -> (0 < k)%nat -> (i + k <= 9)%nat -> n < 128 ^ N.of_nat k -> (i = 0%nat \/ 0 < n) ->
  from_uvarint_aux (to_uvarint_f f n ++ rest) i mult x = Ok (x + n * mult, (i + length (to_uvarint_f f n))%nat).
Proof.
  induction k as [|k IH]; intros f n i mult x rest Hkf Hk Hi Hn Hz; [lia|].
  destruct f as [|f]; [lia|]. cbn [to_uvarint_f].
  destruct (N.ltb_spec n 128) as [Hlt|Hge].
  - cbn [app from_uvarint_aux length].
    destruct (Nat.eqb_spec i 8), (Nat.leb_spec 9 i), (N.leb_spec 128 n), (N.ltb_spec n 128), (N.eqb_spec n 0), (Nat.ltb_spec 0 i);
      cbn [andb orb]; try lia; f_equal; f_equal; lia.
  - destruct k as [|k]; [cbn in Hn; lia|].
    cbn [app from_uvarint_aux length].
    assert (Hb : 128 <= n mod 128 + 128 < 256) by lia.
    destruct (Nat.eqb_spec i 8), (Nat.leb_spec 9 i), (N.leb_spec 128 (n mod 128 + 128)), (N.ltb_spec (n mod 128 + 128) 128);
      cbn [andb orb]; try lia.
    assert (H1' : n / 128 < 128 ^ N.of_nat (S k)).
    { rewrite Nat2N.inj_succ, N.pow_succ_r' in Hn. apply N.div_lt_upper_bound; lia. }
    assert (H2' : 0 < n / 128) by (apply N.div_str_pos; lia).
    rewrite (IH f (n / 128) (S i) (mult * 128) (x + (n mod 128 + 128) mod 128 * mult) rest); try lia; try (right; exact H2').
    f_equal. f_equal; [|lia].
    replace ((n mod 128 + 128) mod 128) with (n mod 128) by lia.
    pose proof (N.div_mod n 128 ltac:(lia)). nia.
Qed.

Theorem from_to_uvarint n rest : n < 2 ^ 63 ->
  from_uvarint (to_uvarint n ++ rest) = Ok (n, length (to_uvarint n)).
Proof.
  intros H. unfold from_uvarint, to_uvarint.
  assert (Hn : n < 128 ^ N.of_nat 9) by (change (128 ^ N.of_nat 9) with (2 ^ 63); exact H).
  rewrite (from_to_aux 9 10 n 0 1 0 rest) by (try lia; try exact Hn; left; reflexivity).
  f_equal. f_equal; lia.
Qed.

Lemma to_uvarint_nonempty n : to_uvarint n <> [].
Proof. unfold to_uvarint. cbn [to_uvarint_f]. destruct (n <? 128); discriminate. Qed.

