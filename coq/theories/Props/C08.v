(* C08 - A token's CID is the content address of its canonical sealed bytes. *)
Require Import Base Node Cbor CborProofs Stream StreamProofs SealedBytes.
Local Open Scope N_scope.

(* buffered seal / unseal report cid_of(bytes) by definition (to_sealed, from_sealed in Stream.v);
   the streaming APIs report the same CID for every chunking and every sequence of write calls *)
Theorem C08_stream_unseal_cid_is_cid_of_bytes : forall (st : Type) h_init h_update h_final sha256,
  (forall chunks, h_final (fold_left h_update chunks h_init) = sha256 (concat chunks)) ->
  forall (A : Type) (decode : str -> res A) chunks,
  from_sealed_reader st h_init h_update h_final A decode (map Data chunks) = from_sealed sha256 A decode (concat chunks).
Proof. exact chunking_invariant. Qed.
Print Assumptions C08_stream_unseal_cid_is_cid_of_bytes.

Theorem C08_stream_seal_cid_is_cid_of_bytes : forall (st : Type) h_init h_update h_final sha256,
  (forall chunks, h_final (fold_left h_update chunks h_init) = sha256 (concat chunks)) ->
  forall ws sink c out, to_sealed_writer st h_init h_update h_final ws sink = Ok (c, out) -> (c, out) = to_sealed sha256 ws.
Proof. exact write_ok_complete. Qed.
Print Assumptions C08_stream_seal_cid_is_cid_of_bytes.

(* canonicity: the encoder is injective and prefix-free, so byte strings that are the canonical encoding
   of the same content are the same byte string (hence have the same CID); the decoders accept a sealed
   token only when its bytes are the re-encoding of what was decoded (DecodeSealed). *)
Theorem C08_canonical_bytes_are_unique : forall x y r1 r2,
  wf x -> wf y -> encode x ++ r1 = encode y ++ r2 -> canon x = canon y /\ r1 = r2.
Proof. exact encode_injective. Qed.
Print Assumptions C08_canonical_bytes_are_unique.

Theorem C08_same_content_same_bytes : forall x y, canon x = x -> canon y = y -> wf x -> wf y ->
  (encode x = encode y <-> x = y).
Proof. exact encode_eq_iff. Qed.
Print Assumptions C08_same_content_same_bytes.

(* the acceptance condition of the sealed decoders (envelope.DecodeSealed = [sealed_decode_f]: decode, then
   require the input to be the encoding of the result): an accepted byte string is the canonical encoding
   of what it decodes to, what sealing produces is accepted, and two accepted byte strings that carry the
   same content (up to the order of map entries) are the same byte string, hence have the same CID *)
Theorem C08_accepted_bytes_are_the_encoding_of_their_content : forall f b n,
  sealed_decode_f f b = Some n -> encode n = b.
Proof. exact sealed_bytes_are_the_encoding. Qed.
Print Assumptions C08_accepted_bytes_are_the_encoding_of_their_content.

Theorem C08_sealed_output_is_accepted : forall x f, wf x -> keys_distinct x -> (depth x <= f)%nat ->
  sealed_decode_f f (encode x) = Some (canon x).
Proof. exact sealed_accepts_encoding. Qed.
Print Assumptions C08_sealed_output_is_accepted.

Theorem C08_same_content_same_accepted_bytes : forall f1 f2 b1 b2 n1 n2,
  sealed_decode_f f1 b1 = Some n1 -> sealed_decode_f f2 b2 = Some n2 ->
  keys_distinct n1 -> keys_distinct n2 -> canon n1 = canon n2 -> b1 = b2.
Proof. exact sealed_unique. Qed.
Print Assumptions C08_same_content_same_accepted_bytes.

Theorem C08_encoding_ignores_map_entry_order : forall x, keys_distinct x -> encode (canon x) = encode x.
Proof. exact encode_canon. Qed.
Print Assumptions C08_encoding_ignores_map_entry_order.
