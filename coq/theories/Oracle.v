(* Oracle: the executable face of the model.  One entry point [run_engine engine line]:
   [line] is the wire text of  List [input; impl_obs]  produced by the Go harness,
   the answer is   ("=" | "!") props* TAB wire(model_obs)
   where "=" means the implementation's observation equals the model's, and props are the ids of
   the properties whose Spec the implementation's observation falsifies on this input. *)
From Coq Require Import String.
Require Import Base Node Command Glob Selector SelParse Policy PolicyIpld Chain Varint Generated Did Cbor Envelope Token SealProofs Base64 Container Stream SealedBytes Args DagJson Literal.
Local Open Scope N_scope.

Definition nstr (n : node) : str := match n with Str s => s | Bytes s => s | _ => [] end.
Definition nlist (n : node) : list node := match n with List l => l | _ => [] end.
Definition nbool (n : node) : bool := match n with Bool b => b | _ => false end.
Definition nint (n : node) : Z := match n with Int z => z | _ => 0%Z end.

Definition oz (n : node) : option Z := match n with Int z => Some z | _ => None end.
Definition mget (k : string) (n : node) : node :=
  match n with Map m => match map_get (lit k) m with Some v => v | None => Null end | _ => Null end.

Definition mget_l (k : str) (m : list (str * node)) : node := match map_get k m with Some v => v | None => Null end.

Definition res_node {A} (f : A -> node) (r : res A) : node :=
  match r with
  | Ok a => List [Str (lit "ok"); f a]
  | Err c => List [Str (lit "err")]
  | Panic => List [Str (lit "panic")]
  end.
(* with the error class (only for engines whose Go side can classify errors with errors.Is) *)
Definition res_node_c {A} (f : A -> node) (r : res A) : node :=
  match r with
  | Ok a => List [Str (lit "ok"); f a]
  | Err c => List [Str (lit "err"); Int (Z.of_N c)]
  | Panic => List [Str (lit "panic")]
  end.

Record verdict := { model_obs : node; violated : list str }.

Definition bad : verdict := {| model_obs := Str (lit "oracle: bad case"); violated := [] |}.

(* ---------------- engine: command (C15) ---------------- *)
Fixpoint strs_eqb (a b : list str) : bool :=
  match a, b with
  | [], [] => true
  | x :: a', y :: b' => str_eqb x y && strs_eqb a' b'
  | _, _ => false
  end.

Fixpoint list_prefixb (a b : list str) : bool :=
  match a, b with
  | [], _ => true
  | x :: a', y :: b' => str_eqb x y && list_prefixb a' b'
  | _, _ => false
  end.

Definition validb (s : str) : bool := is_ok (parse s).

Definition eng_command (inp impl : node) : verdict :=
  match inp with
  | List [Str op; a] =>
      if str_eqb op (lit "parse") then
        let m := res_node Str (parse (nstr a)) in
        {| model_obs := m; violated := if node_eqb m impl then [] else [lit "C15"] |}
      else if str_eqb op (lit "segments") then
        let m := List (map Str (segments (nstr a))) in
        (* the property speaks about Segments only through covers/join; constrained for valid commands *)
        {| model_obs := if validb (nstr a) then m else impl; violated := if node_eqb m impl || negb (validb (nstr a)) then [] else [lit "C15"] |}
      else bad
  | List [Str op; a; b] =>
      if str_eqb op (lit "covers") then
        let m := Bool (covers (nstr a) (nstr b)) in
        let spec := list_prefixb (segments (nstr a)) (segments (nstr b)) in
        let constrained := validb (nstr a) && validb (nstr b) in
        {| model_obs := if constrained then m else impl;
           violated := if constrained && negb (Bool.eqb spec (nbool impl)) then [lit "C15"] else [] |}
      else if str_eqb op (lit "join") then
        let segs := map nstr (nlist b) in
        let m := Str (join_cmd (nstr a) segs) in
        let good := forallb (fun g => negb (match g with [] => true | _ => false end) && negb (existsb (N.eqb sep) g)) segs in
        let constrained := validb (nstr a) && good in
        let spec_ok := match impl with
                       | Str r => strs_eqb (segments r) (segments (nstr a) ++ segs)
                       | _ => false end in
        (* an empty string contributes no segment (the model skips it, as the code does); what is open is an argument that
           contains the separator *)
        let no_sep := forallb (fun g => negb (existsb (N.eqb sep) g)) segs in
        {| model_obs := if validb (nstr a) && no_sep then m else impl; violated := if constrained && negb spec_ok then [lit "C15"] else [] |}
      else bad
  | _ => bad
  end.

(* ---------------- engine: glob (C13) ---------------- *)
Definition eng_glob (inp impl : node) : verdict :=
  match inp with
  | List [Str p; Str s] =>
      let m := res_node Bool (_ <- parse_glob p ;; Ok (glob_match p s)) in
      let spec := match toks p with
                  | None => List [Str (lit "err")]
                  | Some t => List [Str (lit "ok"); Bool (lang_matchb t s)]
                  end in
      {| model_obs := m; violated := if node_eqb spec impl then [] else [lit "C13"] |}
  | _ => bad
  end.

(* ---------------- engine: selector (C12) ---------------- *)
(* segment descriptor as read through the Go accessors:
   [identity; optional; iterator; slice (0 or 2 ints); field; index], dispatched as resolve does *)
Definition min_int64 : Z := (- 9223372036854775808)%Z.
Definition max_int64 : Z := 9223372036854775807%Z.
Definition seg_of_node (n : node) : option seg :=
  match n with
  | List [Bool idt; Bool opt; Bool itr; List sl; Str f; Int i] =>
      let k := if idt then Some KIdent
               else if itr then Some KIter
               else match f with
                    | _ :: _ => Some (KField f)
                    | [] => match sl with
                            | [Int a; Int b] => Some (KSlice (if (a =? min_int64)%Z then None else Some a)
                                                             (if (b =? max_int64)%Z then None else Some b))
                            | [] => Some (KIndex i)
                            | _ => None
                            end
                    end in
      match k with Some k => Some {| sk := k; sopt := opt |} | None => None end
  | _ => None
  end.

Fixpoint segs_of_nodes (l : list node) : option (list seg) :=
  match l with
  | [] => Some []
  | n :: r => match seg_of_node n, segs_of_nodes r with
              | Some s, Some ss => Some (s :: ss)
              | _, _ => None
              end
  end.

Definition sres_node (r : sres) : node :=
  match r with
  | Ok (Some v) => List [Str (lit "ok"); v]
  | Ok None => List [Str (lit "novalue")]
  | Err _ => List [Str (lit "err")]
  | Panic => List [Str (lit "panic")]
  end.

(* ---- the reading of C12 that the property leaves open: "a failing optional field/index segment yields 'no value'" says
   nothing about a failing optional slice or iterator segment (error in the model's transcription of the code). The lenient
   variants below take the other reading (no value); an implementation observation that agrees with either reading is
   taken as the model's. ---- *)
Definition step_l (s : seg) (cur : option node) : sres :=
  match sk s, step s cur with
  | KSlice _ _, Err _ => if sopt s then Ok None else Err 1
  | KIter, Err _ => if sopt s then Ok None else Err 1
  | _, r => r
  end.
Fixpoint resolve_l (sel : list seg) (cur : option node) : sres :=
  match sel with
  | [] => Ok cur
  | s :: r => match step_l s cur with Ok c => resolve_l r c | Err e => Err e | Panic => Panic end
  end.
Definition select_l (sel : list seg) (n : node) : sres := resolve_l sel (Some n).
Definition on_sel_l (sel : list seg) (n : node) (k : node -> mres) : mres :=
  match select_l sel n with Ok (Some v) => k v | Ok None => RO | _ => RN end.
Fixpoint ev_l (s : stmt) (n : node) : mres :=
  match s with
  | SEq sel v => on_sel_l sel n (fun r => of_bool (deep_equal v r))
  | SCmp op sel v => on_sel_l sel n (fun r => of_bool (is_ordered op v r))
  | SNot s => neg (ev_l s n)
  | SAnd ss => fold_right (fun s acc => mmin (ev_l s n) acc) RT ss
  | SOr ss => match ss with [] => RT | _ => fold_right (fun s acc => mmax (ev_l s n) acc) RF ss end
  | SLike sel pat => on_sel_l sel n (fun r => match r with Str x => of_bool (glob_match pat x) | _ => RF end)
  | SAll sel s => on_sel_l sel n (quant (ev_l s) mmin RT)
  | SAny sel s => on_sel_l sel n (quant (ev_l s) mmax RF)
  end.
Definition policy_match_l (p : list stmt) (n : node) : bool := forallb (fun s => pass_match (ev_l s n)) p.
Definition policy_partial_l (p : list stmt) (n : node) : bool := forallb (fun s => pass_partial (ev_l s n)) p.

Definition eng_selector (inp impl : node) : verdict :=
  match inp with
  | List [Str text; List segs; v] =>
      (* the selector is what its text means (the model's parser); the segments the implementation's parser
         produced are only used for a text outside the modelled grammar *)
      match (match sel_parse text with Ok ps => Some (sel_segs ps) | _ => segs_of_nodes segs end) with
      | Some sel =>
          let m := sres_node (select sel v) in
          let ml := sres_node (select_l sel v) in
          let m := if node_eqb ml impl then ml else m in
          {| model_obs := m; violated := if node_eqb m impl then [] else [lit "C12"] |}
      | None => bad
      end
  | _ => bad
  end.

(* ---------------- engine: policy (C11) ---------------- *)
(* statement on the wire: [kind; segs; value] | ["not"; s] | ["and"/"or"; [ss]] | ["like"; segs; pat] | ["all"/"any"; segs; s] *)
Fixpoint stmt_of_node (fuel : nat) (n : node) : option stmt :=
  match fuel with
  | O => None
  | S f =>
    match n with
    | List [Str k; selw; v] =>
        (* the selector comes as its text and means what the model's parser says it means *)
        match (match selw with
               | Str text => match sel_parse text with Ok ps => Some (sel_segs ps) | _ => None end
               | List segs => segs_of_nodes segs
               | _ => None end) with
        | None => None
        | Some sel =>
            if str_eqb k (lit "==") then Some (SEq sel v)
            else if str_eqb k (lit ">") then Some (SCmp Gt sel v)
            else if str_eqb k (lit ">=") then Some (SCmp Ge sel v)
            else if str_eqb k (lit "<") then Some (SCmp Lt sel v)
            else if str_eqb k (lit "<=") then Some (SCmp Le sel v)
            else if str_eqb k (lit "like") then match v with Str p => Some (SLike sel p) | _ => None end
            else if str_eqb k (lit "all") then option_map (SAll sel) (stmt_of_node f v)
            else if str_eqb k (lit "any") then option_map (SAny sel) (stmt_of_node f v)
            else None
        end
    | List [Str k; a] =>
        if str_eqb k (lit "not") then option_map SNot (stmt_of_node f a)
        else
          let subs := (fix go (l : list node) : option (list stmt) :=
                         match l with
                         | [] => Some []
                         | x :: r => match stmt_of_node f x, go r with
                                     | Some s, Some ss => Some (s :: ss)
                                     | _, _ => None end
                         end) (nlist a) in
          if str_eqb k (lit "and") then option_map SAnd subs
          else if str_eqb k (lit "or") then option_map SOr subs
          else None
    | _ => None
    end
  end.

Fixpoint policy_of_nodes (l : list node) : option (list stmt) :=
  match l with
  | [] => Some []
  | x :: r => match stmt_of_node (node_size x) x, policy_of_nodes r with
              | Some s, Some ss => Some (s :: ss)
              | _, _ => None end
  end.

(* decidable version of [resolves] *)
Fixpoint resolvesb (s : stmt) (n : node) : bool :=
  match s with
  | SEq sel _ | SCmp _ sel _ => match sel_val sel n with Some _ => true | None => false end
  | SLike sel pat => match sel_val sel n, toks pat with Some _, Some _ => true | _, _ => false end
  | SNot s => resolvesb s n
  | SAnd ss | SOr ss => forallb (fun x => resolvesb x n) ss
  | SAll sel s | SAny sel s =>
      match sel_val sel n with
      | Some (List l) => forallb (resolvesb s) l
      | Some _ => true
      | None => false
      end
  end.

Definition verdicts (p : list stmt) (d : node) : node := List [Bool (policy_match p d); Bool (policy_partial p d)].
Definition verdicts_l (p : list stmt) (d : node) : node := List [Bool (policy_match_l p d); Bool (policy_partial_l p d)].
(* the model's verdicts, in the reading the implementation's observation agrees with (if any) *)
Definition verdicts_for (impl : node) (p : list stmt) (d : node) : node :=
  if node_eqb impl (verdicts_l p d) then verdicts_l p d else verdicts p d.

Definition c11 (ok : bool) : list str := if ok then [] else [lit "C11"].

Definition is_leaf (s : stmt) : bool :=
  match s with SEq _ _ | SCmp _ _ _ | SLike _ _ => true | _ => false end.
Definition leaf_sel (s : stmt) : list seg :=
  match s with SEq sel _ | SCmp _ sel _ | SLike sel _ => sel | _ => [] end.

Fixpoint has_like (s : stmt) : bool :=
  match s with
  | SLike _ _ => true
  | SNot s | SAll _ s | SAny _ s => has_like s
  | SAnd ss | SOr ss => (fix go (l : list stmt) : bool := match l with [] => false | x :: r => has_like x || go r end) ss
  | _ => false
  end.

Definition eng_policy (inp impl : node) : verdict :=
  match inp with
  | List [Str op; List pol; d] =>
      match policy_of_nodes pol with
      | None => bad
      | Some p =>
          let m := verdicts_for impl p d in
          let im := nbool (nth 0 (nlist impl) Null) in
          let ip := nbool (nth 1 (nlist impl) Null) in
          let wellformed := match impl with List [Bool _; Bool _] => true | _ => false end in
          (* Spec clauses that pin the verdict on this input *)
          let ok_classical := if forallb (fun s => resolvesb s d) p
                              then Bool.eqb im (forallb (fun s => eval s d) p) else true in
          let ok_imp := implb im ip in
          let ok_leaf := match p with
                         | [s] => if is_leaf s then
                                    match select (leaf_sel s) d with
                                    | Err _ => (negb im && ip) || is_ok (select_l (leaf_sel s) d)   (* required data missing *)
                                    | Ok None => im && ip             (* optional data missing *)
                                    | _ => true
                                    end
                                  else true
                         | _ => true
                         end in
          (* a like statement whose verdict is not the model's: the glob language is not what decides (C13) *)
          let c13 := if existsb has_like p && negb (node_eqb impl m) then [lit "C13"] else [] in
          {| model_obs := m; violated := c11 (wellformed && ok_classical && ok_imp && ok_leaf) ++ c13 |}
      end
  (* two policies that must agree (operands permuted) or two data values (elements permuted) *)
  | List [Str op; List pol1; List pol2; d1; d2] =>
      match policy_of_nodes pol1, policy_of_nodes pol2 with
      | Some p1, Some p2 =>
          let m := List [verdicts_for (nth 0 (nlist impl) Null) p1 d1; verdicts_for (nth 1 (nlist impl) Null) p2 d2] in
          if str_eqb op (lit "perm") then
            {| model_obs := m;
               violated := c11 (match impl with List [a; b] => node_eqb a b | _ => false end) |}
          else if str_eqb op (lit "anti") then
            (* p1 has one more operand / d1 one more element than p2 / d2: pass(p1) -> pass(p2) *)
            {| model_obs := m;
               violated := c11 (match impl with
                                | List [List [Bool m1; Bool q1]; List [Bool m2; Bool q2]] => implb m1 m2 && implb q1 q2
                                | _ => false end) |}
          else if str_eqb op (lit "rt") then
            (* p1 = p2: the implementation evaluated the constructed policy and its IPLD round trip *)
            {| model_obs := m;
               violated := if match impl with List [a; b] => node_eqb a b | _ => false end then [] else [lit "C14"] |}
          else if str_eqb op (lit "cat") then
            (* d1 = d2; p1 ++ p2 is sent as a third evaluation by the harness: impl = [v1; v2; v12] *)
            {| model_obs := List [verdicts_for (nth 0 (nlist impl) Null) p1 d1; verdicts_for (nth 1 (nlist impl) Null) p2 d1;
                                  verdicts_for (nth 2 (nlist impl) Null) (p1 ++ p2) d1];
               violated := c11 (match impl with
                                | List [List [Bool m1; _]; List [Bool m2; _]; List [Bool m12; _]] => Bool.eqb m12 (m1 && m2)
                                | _ => false end) |}
          else bad
      | _, _ => bad
      end
  | _ => bad
  end.

(* ---------------- engines: selparse, policyipld (C14) ---------------- *)
Definition seg_desc (s : seg) : node :=
  let d idt itr sl f i := List [Bool idt; Bool (sopt s); Bool itr; List sl; Str f; Int i] in
  match sk s with
  | KIdent => d true false [] [] 0%Z
  | KIter => d false true [] [] 0%Z
  | KField f => d false false [] f 0%Z
  | KSlice a b => d false false [Int (match a with Some x => x | None => min_int64 end);
                                 Int (match b with Some x => x | None => max_int64 end)] [] 0%Z
  | KIndex i => d false false [] [] i
  end.

Definition c14 (ok : bool) : list str := if ok then [] else [lit "C14"].

(* input: text; impl: ["err"] | ["ok"; segs; String(); reparse-gives-same-segments] *)
Definition eng_selparse (inp impl : node) : verdict :=
  match inp with
  | Str s =>
      (* accepted texts must print back to a text that parses to the same segments (C14: "a text that parses to a
         selector with the same meaning" - the printed text itself is the implementation's choice); and a text outside
         the grammar for which losslessness is proved (sel_parse rejects it) must not be accepted *)
      let same_meaning (printed : str) : bool :=
        match sel_parse printed, sel_parse s with
        | Ok p', Ok p => node_eqb (List (map seg_desc (sel_segs p'))) (List (map seg_desc (sel_segs p)))
        | _, _ => false
        end in
      (* a text the model's grammar does not cover, accepted: losslessness is not shown for it (the correspondence breaks),
         but it is a failing input only if the implementation's own printing does not give the text back *)
      let outside_but_consistent := match impl with
                                    | List [Str _; _; Str printed; Bool same] => negb (is_ok (sel_parse s)) && str_eqb printed s && same
                                    | _ => false
                                    end in
      let spec_ok := match impl with
                     | List [Str _; _; Str printed; Bool same] => (same_meaning printed && same && is_ok (sel_parse s)) || outside_but_consistent
                     | List [Str k] => str_eqb k (lit "err")
                     | _ => false
                     end in
      let printed_m := match impl with
                       | List [Str _; _; Str printed; _] => if same_meaning printed then Some printed else None
                       | _ => None
                       end in
      let m := match sel_parse s with
               | Ok p => List [Str (lit "ok"); List (map seg_desc (sel_segs p));
                               Str (match printed_m with Some t => t | None => sel_print p end); Bool true]
               | Err _ => List [Str (lit "err")]
               | Panic => List [Str (lit "panic")]
               end in
      (* "either rejected or interpreted in full": a rejection is never a loss *)
      let m := match impl with List [Str k] => if str_eqb k (lit "err") then impl else m | _ => m end in
      {| model_obs := m; violated := c14 spec_ok |}
  | _ => bad
  end.

(* a decoded statement with its selectors as segments (their text is the implementation's choice) *)
Fixpoint stmt_desc (s : tstmt) : node :=
  match s with
  | TCmp op sel v => List [Str op; List (map seg_desc (sel_segs sel)); v]
  | TNot s => List [Str (lit "not"); stmt_desc s]
  | TConn op ss => List [Str op; List (map stmt_desc ss)]
  | TLike sel pat => List [Str (lit "like"); List (map seg_desc (sel_segs sel)); Str pat]
  | TQuant op sel s => List [Str op; List (map seg_desc (sel_segs sel)); stmt_desc s]
  end.

(* input: node offered as a policy; impl: ["err"] | ["ok"; ToIPLD; FromDagJson-agrees] *)
Definition eng_policyipld (inp impl : node) : verdict :=
  (* written back, the policy is the one that was read "up to selector normalisation": same statements, selectors with
     the same segments *)
  let same_policy (back : node) : bool :=
    match pol_from_ipld back, pol_from_ipld inp with
    | Ok p', Ok p => node_eqb (List (map stmt_desc p')) (List (map stmt_desc p))
    | _, _ => false
    end in
  let m := match pol_from_ipld inp with
           | Ok p => List [Str (lit "ok");
                           match impl with List [Str _; back; _] => if same_policy back then back else pol_to_ipld p | _ => pol_to_ipld p end;
                           Bool true]
           | Err _ => List [Str (lit "err")]
           | Panic => List [Str (lit "panic")]
           end in
  let spec_ok := match impl with
                 | List [Str _; back; Bool agree] => same_policy back && agree
                 | List [Str k] => str_eqb k (lit "err")
                 | _ => false
                 end in
  {| model_obs := m; violated := c14 spec_ok |}.

(* ---------------- engine: did (C16) ---------------- *)
Definition c16 (ok : bool) : list str := if ok then [] else [lit "C16"].

(* keys are instantiated by (code, canonical material); the library facts come with the case *)
Definition eng_did (inp impl : node) : verdict :=
  match inp with
  | List [Str op; Str text; facts] =>
      let lib_ok := nbool (mget "ok" facts) in
      let canon := nstr (mget "canon" facts) in
      let unmarshal (c : N) (m : str) : res (N * str) := if lib_ok then Ok (c, canon) else Err 1 in
      let marshal (k : N * str) : res (N * str) := Ok k in
      let m := match did_parse text with
               | Ok d =>
                   let pk := pubkey (N * str) marshal unmarshal d in
                   List [Str (lit "ok"); Str (did_print d);
                         Str (match pk with Ok _ => lit "ok" | Err _ => lit "err" | Panic => lit "panic" end);
                         Bool (is_ok pk)]
               | Err _ => List [Str (lit "err")]
               | Panic => List [Str (lit "panic")]
               end in
      (* the parser must accept the canonical identifier of every key (C16: "parses back to an equal DID"); whether
         it also accepts an identifier of a supported type from which no key can be extracted is left open *)
      let no_key := match did_parse text with
                    | Ok d => negb (is_ok (pubkey (N * str) marshal unmarshal d))
                    | _ => true
                    end in
      let m := match impl with List [Str k] => if str_eqb k (lit "err") && no_key then impl else m | _ => m end in
      let spec_ok :=
        match impl with
        | List [Str k] => str_eqb k (lit "err") && no_key
        | List [Str _; Str printed; Str cls; Bool can] =>
            is_ok (did_parse text) && str_eqb printed text &&
            (* a key or an error, the same at every call ("unstable" = calls disagreed), canonical when a key *)
            (str_eqb cls (lit "ok") || str_eqb cls (lit "err")) && (negb (str_eqb cls (lit "ok")) || can)
        | _ => false
        end in
      {| model_obs := m; violated := c16 spec_ok |}
  | List [Str op; Str _] =>
      (* key -> DID -> text -> DID -> key for a generated key: everything must succeed *)
      {| model_obs := List [Bool true; Bool true; Bool true];
         violated := c16 (node_eqb impl (List [Bool true; Bool true; Bool true])) |}
  | List [Str op; Bool keys_equal] =>
      {| model_obs := Bool keys_equal; violated := c16 (Bool.eqb (nbool impl) keys_equal) |}
  | _ => bad
  end.

(* ---------------- engine: token (C06, C07, C10) ---------------- *)
(* canonical rendering of a token's fields, the same on the Go side: maps sorted bytewise, recursively *)
Fixpoint ins_lex (e : str * node) (l : list (str * node)) : list (str * node) :=
  match l with
  | [] => [e]
  | x :: r => if str_ltb (fst e) (fst x) then e :: l else x :: ins_lex e r
  end.
Fixpoint sort_maps (n : node) : node :=
  match n with
  | List l => List (map sort_maps l)
  | Map m => Map (fold_right ins_lex [] (map (fun kv => (fst kv, sort_maps (snd kv))) m))
  | _ => n
  end.
Definition odid (d : option did) : node := match d with Some x => Str (did_print x) | None => Null end.
Definition oint (z : option Z) : node := match z with Some x => Int x | None => Null end.
Definition dlg_fields (t : dtok) : node :=
  Map [(lit "iss", Str (did_print (dk_iss t))); (lit "aud", Str (did_print (dk_aud t))); (lit "sub", odid (dk_sub t));
       (lit "cmd", Str (dk_cmd t)); (lit "pol", sort_maps (pol_to_ipld (dk_pol t))); (lit "nonce", Bytes (dk_nonce t));
       (lit "meta", sort_maps (Map (dk_meta t))); (lit "nbf", oint (dk_nbf t)); (lit "exp", oint (dk_exp t))].
Definition inv_fields (t : itok) : node :=
  Map [(lit "iss", Str (did_print (ik_iss t))); (lit "sub", Str (did_print (ik_sub t))); (lit "aud", odid (ik_aud t));
       (lit "cmd", Str (ik_cmd t)); (lit "args", sort_maps (Map (ik_args t))); (lit "prf", List (map Link (ik_prf t)));
       (lit "meta", sort_maps (Map (ik_meta t))); (lit "nonce", Bytes (ik_nonce t)); (lit "exp", oint (ik_exp t));
       (lit "iat", oint (ik_iat t)); (lit "cause", match ik_cause t with Some c => Link c | None => Null end)].

Definition fields_res {A} (f : A -> node) (r : res A) : node :=
  match r with Ok a => f a | Err _ => List [Str (lit "err")] | Panic => List [Str (lit "panic")] end.
Definition any_fields (a : anytok) : node :=
  match a with ADlg t => List [Str (lit "dlg"); dlg_fields t] | AInv t => List [Str (lit "inv"); inv_fields t] end.
Definition is_err_obs (n : node) : bool := match n with List [Str k] => str_eqb k (lit "err") | _ => false end.

(* well-formedness of a decoded token as seen through its rendered fields (C10) *)
Definition fields_wf (f : node) : bool :=
  (12 <=? length (nstr (mget "nonce" f)))%nat &&
  validb (nstr (mget "cmd" f)) &&
  is_ok (did_parse (nstr (mget "iss" f))) &&
  forallb (fun k => match mget k f with Int z => in53 z | Null => true | _ => false end) ["nbf"%string; "exp"%string; "iat"%string] &&
  ints_in53 (mget "pol" f) && ints_in53 (mget "args" f).

Definition eng_token (inp impl : node) : verdict :=
  match inp with
  (* seal -> unseal: payload node of the sealed token, fields of the original token;
     impl = fields from [generic cbor; typed cbor; generic json; typed json] *)
  | List [Str op; Str ty; payload; f0] =>
      let fm := if str_eqb ty (lit "dlg") then fields_res dlg_fields (dlg_from_payload payload)
                else fields_res inv_fields (inv_from_payload payload) in
      let all_equal := forallb (fun o => node_eqb o f0) (nlist impl) && (length (nlist impl) =? 4)%nat in
      let all_wf := forallb (fun o => is_err_obs o || fields_wf o) (nlist impl) in
      {| model_obs := List [fm; fm; fm; fm];
         violated := (if all_equal then [] else [lit "C07"]) ++ (if all_wf then [] else [lit "C10"]) |}
  (* the same for a token built with an instant between two seconds: "time bounds compared at whole-second resolution"
     lets it come back as either neighbouring second ([f0] floor, [f0r] nearest) *)
  | List [Str op; Str ty; payload; f0; f0r] =>
      let fm := if str_eqb ty (lit "dlg") then fields_res dlg_fields (dlg_from_payload payload)
                else fields_res inv_fields (inv_from_payload payload) in
      let all_equal := (forallb (fun o => node_eqb o f0) (nlist impl) || forallb (fun o => node_eqb o f0r) (nlist impl))
                       && (length (nlist impl) =? 4)%nat in
      let all_wf := forallb (fun o => is_err_obs o || fields_wf o) (nlist impl) in
      {| model_obs := List [fm; fm; fm; fm];
         violated := (if all_equal then [] else [lit "C07"]) ++ (if all_wf then [] else [lit "C10"]) |}
  (* a constructor call: which principals are defined, the command, the nonce given (length, -1 = none),
     two time bounds in seconds, the largest policy integer -> accepted (with the nonce length) or rejected *)
  | List [Str op; Str ty; Map spec] =>
      let g k := mget_l k spec in
      let d (b : node) : did := if nbool b then (237, [237; 1; 7]) else did_undef in
      let nl := nint (g (lit "nonce")) in
      let given := if (nl <? 0)%Z then [] else repeat 1 (Z.to_nat nl) in
      let r12 := repeat 2 12%nat in
      let pol := [TCmp (lit "==") [] (Int (nint (g (lit "polmax"))))] in
      let run (t1 t2 : option Z) :=
               if str_eqb ty (lit "dlg")
               then match dlg_new (d (g (lit "iss"))) (d (g (lit "other"))) None (nstr (g (lit "cmd"))) pol given r12 [] t1 t2 with
                    | Ok t => List [Str (lit "ok"); Int (Z.of_nat (length (dk_nonce t))); Bool true]
                    | _ => List [Str (lit "err")] end
               else match inv_new (d (g (lit "iss"))) (d (g (lit "other"))) None (nstr (g (lit "cmd"))) [] [] given r12 [] t2 t1 None with
                    | Ok t => List [Str (lit "ok"); Int (Z.of_nat (length (ik_nonce t))); Bool true]
                    | _ => List [Str (lit "err")] end in
      let m := run (oz (g (lit "t1"))) (oz (g (lit "t2"))) in
      (* an instant between two seconds is recorded as one of its neighbours ("whole-second resolution"): the bound applies to
         whichever the implementation records; t1r / t2r carry the other neighbour when there is one *)
      let has k := match mget_l k spec with Null => false | _ => true end in
      let m_alt := run (if has (lit "t1r") then oz (g (lit "t1r")) else oz (g (lit "t1")))
                       (if has (lit "t2r") then oz (g (lit "t2r")) else oz (g (lit "t2"))) in
      let m := if is_err_obs impl then (if is_err_obs m_alt then m_alt else m)
               else (if is_err_obs m then m_alt else m) in
      (* C10: nothing ill-formed comes out; C07: what comes out must be sealable, i.e. exactly the validated ones *)
      let accepted := negb (is_err_obs impl) in
      let c10_ok := negb accepted ||
                    (nbool (g (lit "iss")) && nbool (g (lit "other")) &&
                     match impl with List [_; Int l; _] => (12 <=? l)%Z | _ => false end) in
      (* a generated nonce has "at least 12 bytes": its exact length is the implementation's choice *)
      let m := match m, impl with
               | List [Str _; Int _; b], List [Str o; Int l; _] =>
                   if (nl <=? 0)%Z && str_eqb o (lit "ok") && (12 <=? l)%Z then List [Str o; Int l; b] else m
               | _, _ => m
               end in
      {| model_obs := m;
         violated := (if c10_ok then [] else [lit "C10"]) ++ (if node_eqb impl m then [] else [lit "C07"]) |}
  (* a (large) token decoded while other goroutines decode other tokens: accepted exactly when the signature
     verifies over its own SigPayload (a fact of the case), whatever else is in flight: the decision of
     env_decode is a function of the envelope alone *)
  | List [Str op; Str what; Bool sig_ok] =>
      let m := Str (if sig_ok then lit "accepted" else lit "refused") in
      {| model_obs := m; violated := if node_eqb impl m then [] else [lit "C06"] |}
  (* an envelope node offered to the three decoders, with the facts about the issuer key *)
  | List [Str op; n; facts] =>
      let hdr := mget "hdr" facts in
      let spb := nstr (mget "spbytes" facts) in
      let vfy := nbool (mget "verify" facts) in
      let header_of (d : did) : res str := match hdr with Bytes h => Ok h | _ => Err 1 end in
      let verify (d : did) (m sg : str) : bool := vfy && str_eqb m spb in
      let enc_ok := match n with List (_ :: sp :: _) => match sp with Map _ => str_eqb (encode sp) spb | _ => true end | _ => true end in
      (* FromSealed only accepts bytes that are the canonical encoding of the decoded node (the model
         works on the node: whether the offered bytes were canonical is a fact of the case) *)
      let canonical := match mget "canonical" facts with Bool false => false | _ => true end in
      let gate {A} (r : res A) : res A := if canonical then r else Err 20 in
      let rd0 := env_decode verify header_of dtok dlg_from_payload dlg_tag n in
      let ri0 := env_decode verify header_of itok inv_from_payload inv_tag n in
      let rg0 := generic_decode verify header_of n in
      let rd := gate rd0 in
      let ri := gate ri0 in
      let rg := gate rg0 in
      (* impl = [generic; delegation; invocation] through the sealed entry points, a flag, and (when present)
         the same three through the plain DAG-CBOR / node-level / DAG-JSON entry points, which do not require
         canonical bytes; each observation is the consensus of a family of equivalent entry points *)
      let lenient := (7 <=? length (nlist impl))%nat in
      let m := List ([fields_res any_fields rg; fields_res dlg_fields rd; fields_res inv_fields ri; Bool enc_ok] ++
                     (if lenient then [fields_res any_fields rg0; fields_res dlg_fields rd0; fields_res inv_fields ri0] else [])) in
      let sig_ok := vfy && match hdr, inspect n with Bytes h, Ok i => str_eqb h (in_hdr i) | _, _ => false end in
      let judge (og od oi : node) (rg : res anytok) (rd : res dtok) (ri : res itok) : bool * bool :=
        let accepted := negb (is_err_obs og) || negb (is_err_obs od) || negb (is_err_obs oi) in
        (* C06: nothing is accepted unless the signature verifies under the issuer's key with the announced
           header, and what comes out is exactly the decoded content of that envelope *)
        let same_content := node_eqb og (fields_res any_fields rg) && node_eqb od (fields_res dlg_fields rd) && node_eqb oi (fields_res inv_fields ri) in
        let c06 := negb accepted || (sig_ok && same_content) in
        (* C10: only well-formed tokens, of the requested type *)
        let wf1 (o : node) := is_err_obs o || fields_wf o in
        let wfg := match og with List [Str _; f] => fields_wf f | _ => is_err_obs og end in
        let type_ok := (is_err_obs od || match inspect n with Ok i => str_eqb (in_tag i) dlg_tag | _ => false end) &&
                       (is_err_obs oi || match inspect n with Ok i => str_eqb (in_tag i) inv_tag | _ => false end) in
        let shape_ok := negb accepted || is_ok (inspect n) in
        let c10 := wfg && wf1 od && wf1 oi && type_ok && shape_ok &&
                   (is_err_obs od || is_ok rd) && (is_err_obs oi || is_ok ri) in
        (c06, c10) in
      let ob k := nth k (nlist impl) Null in
      let '(c06a, c10a) := judge (ob 0%nat) (ob 1%nat) (ob 2%nat) rg rd ri in
      (* the entry points that do not ask for canonical bytes need not agree with one another on input no encoder of the library
         writes: some may refuse what others take. Each is judged on its own: what it returns is what the model decodes, or
         nothing. [settle] gives the observation to judge: the expected one when every member is fine, else an offending one *)
      let settle (o expected : node) : node :=
        match o with
        | List (Str k :: members) =>
            if str_eqb k (lit "disagree") then
              let obs_of (mem : node) := match mem with List [_; x] => x | _ => mem end in
              let fine (mem : node) := is_err_obs (obs_of mem) || node_eqb (obs_of mem) expected in
              if forallb fine members then (if existsb (fun mem => node_eqb (obs_of mem) expected) members then expected else List [Str (lit "err")])
              else match filter (fun mem => negb (fine mem)) members with bad :: _ => obs_of bad | [] => o end
            else o
        | _ => o
        end in
      let og4 := settle (ob 4%nat) (fields_res any_fields rg0) in
      let od5 := settle (ob 5%nat) (fields_res dlg_fields rd0) in
      let oi6 := settle (ob 6%nat) (fields_res inv_fields ri0) in
      let '(c06b, c10b) := if lenient then judge og4 od5 oi6 rg0 rd0 ri0 else (true, true) in
      let settled (k : nat) (o' expected : node) := negb (node_eqb (ob k) o') && (node_eqb o' expected || is_err_obs o') in
      let m := if lenient && c06b && c10b &&
                  (settled 4%nat og4 (fields_res any_fields rg0) || settled 5%nat od5 (fields_res dlg_fields rd0) || settled 6%nat oi6 (fields_res inv_fields ri0))
               then List (firstn 4 (nlist m) ++ [if settled 4%nat og4 (fields_res any_fields rg0) then ob 4%nat else nth 4 (nlist m) Null;
                                                 if settled 5%nat od5 (fields_res dlg_fields rd0) then ob 5%nat else nth 5 (nlist m) Null;
                                                 if settled 6%nat oi6 (fields_res inv_fields ri0) then ob 6%nat else nth 6 (nlist m) Null])
               else m in
      {| model_obs := m; violated := (if c06a && c06b then [] else [lit "C06"]) ++ (if c10a && c10b then [] else [lit "C10"]) |}
  (* a sequence of constructor calls sharing a caller's value: the observation is what the caller asked for *)
  | List [Str op; List [want]] =>
      {| model_obs := want; violated := if node_eqb impl want then [] else [lit "C10"] |}
  (* a Go number offered as an argument / metadata value: stored exactly or rejected *)
  | List [Str op; Int v] =>
      let m := if in53 v then List [Str (lit "ok"); Int v] else List [Str (lit "err")] in
      {| model_obs := m;
         violated := if is_err_obs impl || node_eqb impl (List [Str (lit "ok"); Int v]) then [] else [lit "C10"] |}
  | _ => bad
  end.

(* ---------------- engines: container (C17), cid (C08), stream (C18) ---------------- *)
(* facts: list of [blob; sha256(blob); unseals-ok] computed by the harness with crypto/sha256 and the
   implementation's own token.FromSealed; extra: list of [code; len; blob; digest] for other multihashes *)
Fixpoint fact_of (b : str) (facts : list node) : option (str * bool) :=
  match facts with
  | [] => None
  | List [Bytes x; Bytes h; Bool ok] :: r => if str_eqb x b then Some (h, ok) else fact_of b r
  | _ :: r => fact_of b r
  end.
Fixpoint extra_of (code len : N) (b : str) (extra : list node) : option str :=
  match extra with
  | [] => None
  | List [Int c; Int l; Bytes x; Bytes h] :: r =>
      if (Z.of_N code =? c)%Z && (Z.of_N len =? l)%Z && str_eqb x b then Some h else extra_of code len b r
  | _ :: r => extra_of code len b r
  end.

Fixpoint ins_str (e : str) (l : list str) : list str :=
  match l with [] => [e] | x :: r => if str_ltb e x then e :: l else if str_eqb e x then l else x :: ins_str e r end.
Definition sorted_cids (m : list (str * str)) : node := List (map Bytes (fold_right ins_str [] (map fst m))).

Definition ctn_read (fmt : str) (facts extra : list node) (s : str) : res (list (str * str)) :=
  let sha (b : str) : str := match fact_of b facts with Some (h, _) => h | None => [] end in
  let mh (code len : N) (b : str) : res str :=
    if (code =? 18) && (len =? 32) then (match fact_of b facts with Some (h, _) => Ok h | None => Err 1 end)
    else match extra_of code len b extra with Some h => Ok h | None => Err 1 end in
  let uns (b : str) : res str := match fact_of b facts with Some (_, true) => Ok b | _ => Err 1 end in
  if str_eqb fmt (lit "car") then read_car sha mh str uns s
  else if str_eqb fmt (lit "carb64") then read_car_b64 sha mh str uns s
  else if str_eqb fmt (lit "cbor") then read_cbor sha str uns s
  else if str_eqb fmt (lit "cborb64") then read_cbor_b64 sha str uns s
  else Err 99.

(* is [s] byte for byte something the library's own writers produce (sections with minimal length prefixes, every block
   under the CIDv1 / dag-cbor / sha2-256 of its data, no block twice; for the base64 forms the canonical text)? C17 pins what
   comes back from what was written, and that corrupt input fails; whether a reader also takes hand-made input that says the
   same thing another way (padded varints, other CID forms, a block twice) is left open *)
Fixpoint str_nodup (l : list str) : bool :=
  match l with [] => true | x :: r => negb (existsb (str_eqb x) r) && str_nodup r end.
Definition writer_image (fmt : str) (facts extra : list node) (s : str) : bool :=
  let sha (b : str) : str := match fact_of b facts with Some (h, _) => h | None => [] end in
  let mh (code len : N) (b : str) : res str :=
    if (code =? 18) && (len =? 32) then (match fact_of b facts with Some (h, _) => Ok h | None => Err 1 end)
    else match extra_of code len b extra with Some h => Ok h | None => Err 1 end in
  let car_img (b : str) : bool :=
    match car_blobs mh b with Ok blobs => str_eqb (write_car sha blobs) b && str_nodup blobs | _ => false end in
  let cbor_img (b : str) : bool :=
    match cbor_blobs b with Ok blobs => str_nodup blobs && (length (write_cbor blobs) =? length b)%nat | _ => false end in
  if str_eqb fmt (lit "car") then car_img s
  else if str_eqb fmt (lit "carb64") then match b64_decode s with Ok b => car_img b && str_eqb (b64_encode b) s | _ => false end
  else if str_eqb fmt (lit "cbor") then cbor_img s
  else if str_eqb fmt (lit "cborb64") then match b64_decode s with Ok b => cbor_img b && str_eqb (b64_encode b) s | _ => false end
  else false.

Definition ctn_obs (r : res (list (str * str))) : node :=
  match r with Ok m => List [Str (lit "ok"); sorted_cids m] | Err _ => List [Str (lit "err")] | Panic => List [Str (lit "panic")] end.

Definition c17 (ok : bool) : list str := if ok then [] else [lit "C17"].

Definition eng_container (inp impl : node) : verdict :=
  match inp with
  | List [Str fmt; Bytes s; List facts; List extra; expect] =>
      let m := ctn_obs (ctn_read fmt facts extra s) in
      let want := match expect with List _ => List [Str (lit "ok"); expect] | _ => m end in
      (* an input no writer of the library produces, refused by both readers although the model would take it: open *)
      let refused := match impl with List [List [Str a]; List [Str b]] => str_eqb a (lit "err") && str_eqb b (lit "err") | _ => false end in
      let open_case := refused && negb (writer_image fmt facts extra s) in
      let m := if open_case then List [Str (lit "err")] else m in
      let want := if open_case then m else want in
      let ok := match impl with List [a; b] => node_eqb a want && node_eqb b want | _ => false end in
      let is_okobs (n : node) := match n with List (Str k :: _) => str_eqb k (lit "ok") | _ => false end in
      (* both sides return tokens, but not under the same CIDs: the reader's keys are not the content
         addresses of the sealed bytes (C08 observes the keys of container.Reader) *)
      let keyed_wrong := negb ok && is_okobs want && match impl with List [a; b] => is_okobs a || is_okobs b | _ => false end in
      {| model_obs := List [m; m];
         violated := c17 ok ++ (if keyed_wrong then [lit "C08"] else []) |}
  (* a Read call of the source fails after k bytes (at a boundary between sections): the reader reports it
     (StreamProofs.read_fault_surfaces: a failed read is never a clean end) *)
  | List [Str kind; Str fmt; Int k] =>
      let m := if snd (Stream.run [Data []; Fail]) then Str (lit "refused") else Str (lit "accepted") in
      {| model_obs := m; violated := c17 (node_eqb impl m) |}
  | _ => bad
  end.

Definition c08 (ok : bool) : list str := if ok then [] else [lit "C08"].
Definition cid_bytes (digest : str) : str := [1; 113; 18; 32] ++ digest.

Definition eng_cid (inp impl : node) : verdict :=
  match inp with
  (* the four CIDs of one sealed token: ToSealed, ToSealedWriter, FromSealed, FromSealedReader *)
  | List [Str op; Bytes digest] =>
      let c := Bytes (cid_bytes digest) in
      {| model_obs := List [c; c; c; c]; violated := c08 (node_eqb impl (List [c; c; c; c])) |}
  (* a sealed token of a given size, alone (clean = true) or followed by further bytes: every sealed entry
     point accepts it under the content address of the input, or refuses it *)
  | List [Str op; Int size; Bool clean] =>
      let w := Str (if clean then lit "accepted under the cid of the input" else lit "refused") in
      let m := List [w; w; w; w] in
      {| model_obs := m; violated := c08 (node_eqb impl m) |}
  (* a re-encoding of a sealed token: [variant bytes; decodes to the same data as the original;
     same signed content; original bytes] -> accepted? *)
  | List [Str op; Bytes variant; Bool same_data; Bool same_signed; Bytes original] =>
      let canonical := match sealed_decode variant with Some _ => true | None => false end in
      let accepted := nbool impl in
      (* two accepted byte strings that carry the same signed content must be the same bytes *)
      {| model_obs := Bool (canonical && (same_data || negb (str_eqb variant original)) && accepted || (canonical && accepted));
         violated := c08 (negb (accepted && same_signed && negb (str_eqb variant original))) |}
  | _ => bad
  end.

Definition c18 (ok : bool) : list str := if ok then [] else [lit "C18"].

(* stream engine: the implementation reports, for an artefact, the offsets at which an injected fault
   did NOT produce an error; the model computes where a truncated stream is legitimately readable *)
Fixpoint prefixes_ok (f : str -> bool) (s : str) (k : nat) (acc : str) : list node :=
  (* acc = first k bytes of the artefact (reversed) *)
  match s with
  | [] => []
  | c :: r => (if f (rev acc) then [Int (Z.of_nat k)] else []) ++ prefixes_ok f r (S k) (c :: acc)
  end.

Definition eng_stream (inp impl : node) : verdict :=
  match inp with
  | List [Str kind; Str fmt; Bytes s; List facts; List extra] =>
      (* legit early-EOF successes: only a CAR (or its base64 form) cut between two blocks, header included *)
      let readable (p : str) : bool := is_ok (ctn_read fmt facts extra p) in
      let cuts := if str_eqb kind (lit "container") then prefixes_ok readable s 0 [] else [] in
      let m := List [List []; List cuts; List []; Bool true] in
      (* impl = [offsets where an injected read error was swallowed; offsets where early EOF succeeded;
                 write calls whose failure was swallowed; chunkings and writers agree with the buffered call] *)
      {| model_obs := m; violated := c18 (node_eqb impl m) |}
  (* a well-formed CAR given by the lengths of its sections (header first), cut after k bytes: by
     CarCutProofs.read_car_cut the prefix is readable exactly when the cut falls between two sections *)
  | List [Str kind; List lens; Int k; Int _] =>
      (* Container.at_boundary over the announced lengths (CarCutProofs.accepted_prefix_ends_at_a_section) *)
      let m := if at_boundary (map (fun n => Z.to_N (nint n)) lens) 0 (Z.to_N k) then Str (lit "accepted") else Str (lit "refused") in
      {| model_obs := m; violated := c18 (node_eqb impl m) |}
  | _ => bad
  end.

(* ---------------- engine: meta (C19) ---------------- *)
Definition eng_meta (inp impl : node) : verdict :=
  match inp with
  | List [Str op; Int n; Str keyclass] =>
      (* the wrapper's contract with an ideal secretbox: stored value = 24-byte nonce ++ (plaintext + 16-byte tag) *)
      let m := if str_eqb keyclass (lit "good")
               then List [Bool true; Int (n + 40)%Z; Bool true; Bool true; Bool true; Bool true; Bool true; Bool true]
               else List [Bool false; Int 0; Bool true] in
      {| model_obs := m; violated := if node_eqb impl m then [] else [lit "C19"] |}
  | _ => bad
  end.

(* ---------------- engine: conc (C20) ---------------- *)
Definition eng_conc (inp impl : node) : verdict :=
  match inp with
  | List [Str kind; _] =>
      (* by readonly_no_writes / results_independent_of_schedule: state unchanged, results repeatable
         and equal to the sequential ones *)
      let m := if str_eqb kind (lit "alone") then List [Bool true; Bool true] else List [Bool true; List []] in
      {| model_obs := m; violated := if node_eqb impl m then [] else [lit "C20"] |}
  | _ => bad
  end.

(* ---------------- engine: decoders (C09) ---------------- *)
(* outcome classes: "ok" | "err" are clean; anything else (panic, crash, stack overflow, out of memory,
   timeout) is a violation. Memory families: peak RSS <= 96 MiB (runtime baseline + twice the CAR section
   cap) + 4 KiB per input byte. *)
Definition clean (cls : str) : bool := str_eqb cls (lit "ok") || str_eqb cls (lit "err").
Definition eng_decoders (inp impl : node) : verdict :=
  match inp with
  | List [Str kind; Str fam; Int sz; Int inlen] =>
      match impl with
      | List [Str cls; Int rss] =>
          let bound := (100663296 + 4096 * inlen)%Z in
          let ok := clean cls && (rss <=? bound)%Z in
          {| model_obs := if ok then impl else List [Str (lit "err"); Int 0];
             violated := if ok then [] else [lit "C09"] |}
      | _ => bad
      end
  | List (Str kind :: _) =>
      match impl with
      | Str cls => {| model_obs := if clean cls then impl else Str (lit "err");
                      violated := if clean cls then [] else [lit "C09"] |}
      | _ => bad
      end
  | _ => bad
  end.

(* ---------------- engine: cbor (ties Cbor.v to go-ipld-prime's dagcbor; serves C06, C07, C08, C17) ---------------- *)
Definition eng_cbor (inp impl : node) : verdict :=
  match inp with
  | List [Str op; n] =>
      if str_eqb op (lit "json") then
        let b := jenc n in
        {| model_obs := List [Bytes b; match jdecode b with Some x => x | None => Null end]; violated := [] |}
      else
      let b := encode n in
      let d := match dec (3 + length b) b with Some (x, []) => x | _ => Str (lit "model decoder failed") end in
      {| model_obs := List [Bytes b; d]; violated := [] |}
  | _ => bad
  end.

(* ---------------- engine: chain (C01-C05) ---------------- *)

Definition dlg_of_node (n : node) : option dlg :=
  match policy_of_nodes (nlist (mget "pol" n)) with
  | None => None
  | Some p => Some {| d_iss := nstr (mget "iss" n); d_aud := nstr (mget "aud" n); d_sub := nstr (mget "sub" n);
                      d_cmd := nstr (mget "cmd" n); d_pol := p; d_nbf := oz (mget "nbf" n); d_exp := oz (mget "exp" n) |}
  end.

Definition inv_of_node (n : node) : inv :=
  {| i_iss := nstr (mget "iss" n); i_sub := nstr (mget "sub" n); i_aud := nstr (mget "aud" n);
     i_cmd := nstr (mget "cmd" n); i_args := mget "args" n; i_prf := map nstr (nlist (mget "prf" n));
     i_exp := oz (mget "exp" n) |}.

Fixpoint store_of_nodes (l : list node) : option (list (str * dlg)) :=
  match l with
  | [] => Some []
  | List [c; d] :: r => match dlg_of_node d, store_of_nodes r with
                        | Some d', Some s => Some ((nstr c, d') :: s)
                        | _, _ => None end
  | _ => None
  end.
Fixpoint store_get (s : list (str * dlg)) (c : str) : option dlg :=
  match s with [] => None | (k, d) :: r => if str_eqb k c then Some d else store_get r c end.

(* Spec clauses evaluated directly (not through [allowed]) for attribution *)
Definition principals_ok (i : inv) (ds : list dlg) : bool :=
  negb (match ds with [] => true | _ => false end) &&
  (fix go (iss : str) (ds : list dlg) : bool :=
     match ds with [] => true | d :: r => str_eqb (d_aud d) iss && str_eqb (d_sub d) (i_sub i) && go (d_iss d) r end) (i_iss i) ds &&
  match last_opt ds with Some l => str_eqb (d_iss l) (d_sub l) | None => false end.
Definition commands_ok (i : inv) (ds : list dlg) : bool :=
  (fix go (c : str) (ds : list dlg) : bool :=
     match ds with [] => true | d :: r => list_prefixb (segments (d_cmd d)) (segments c) && go (d_cmd d) r end) (i_cmd i) ds.
Definition policies_ok (a : node) (ds : list dlg) : bool :=
  forallb (fun d => forallb (fun s => pass_match (ev s a)) (d_pol d)) ds.
Definition policies_ok_l (a : node) (ds : list dlg) : bool :=
  forallb (fun d => forallb (fun s => pass_match (ev_l s a)) (d_pol d)) ds.
Definition strip_pol (d : dlg) : dlg :=
  {| d_iss := d_iss d; d_aud := d_aud d; d_sub := d_sub d; d_cmd := d_cmd d; d_pol := []; d_nbf := d_nbf d; d_exp := d_exp d |}.
Definition time_ok (now : Z) (i : inv) (ds : list dlg) : bool :=
  inv_valid_at now i && forallb (dlg_valid_at now) ds.
(* strictly inside / outside every bound by more than [slack] (the wall clock moves during a run) *)
Definition clear_of (slack now : Z) (b : option Z) : bool :=
  match b with None => true | Some x => (slack <? Z.abs (x - now))%Z end.

(* C04 speaks about instants strictly inside and strictly outside a window; at an instant equal to a bound the
   property leaves the answer open, and so does the oracle *)
Definition strictly_in (t : Z) (nbf exp : option Z) : bool :=
  match nbf with Some n => (n <? t)%Z | None => true end && match exp with Some e => (t <? e)%Z | None => true end.
Definition strictly_out (t : Z) (nbf exp : option Z) : bool :=
  match nbf with Some n => (t <? n)%Z | None => false end || match exp with Some e => (e <? t)%Z | None => false end.
Definition time_decided (now : Z) (i : inv) (ds : list dlg) : bool :=
  (strictly_in now None (i_exp i) && forallb (fun d => strictly_in now (d_nbf d) (d_exp d)) ds)
  || strictly_out now None (i_exp i) || existsb (fun d => strictly_out now (d_nbf d) (d_exp d)) ds.

Definition eng_chain (inp impl : node) : verdict :=
  match inp with
  | List [Str op; iv; List st; Int now; hk] =>
      match store_of_nodes st with
      | None => bad
      | Some s =>
          let i := inv_of_node iv in
          let ld := store_get s in
          (* hook: Null = no hook; List [] = hook fails; List [a] = hook returns a *)
          let args := match hk with List [a] => Some a | List [] => None | _ => Some (i_args i) end in
          let timeat := str_eqb op (lit "timeat") in
          let m := if timeat then match load ld (i_prf i) with Some ds => verify_time now i ds | None => false end
                   else match args with None => false | Some a => allowed_with now ld i a end in
          let im := nbool impl in
          let v :=
            if timeat then
              match load ld (i_prf i) with
              | Some ds =>
                  let strictly t (nbf exp : option Z) :=
                    (match nbf with Some n => (n <? t)%Z | None => true end && match exp with Some e => (t <? e)%Z | None => true end,
                     match nbf with Some n => (t <? n)%Z | None => false end || match exp with Some e => (e <? t)%Z | None => false end) in
                  let all_in := fst (strictly now None (i_exp i)) && forallb (fun d => fst (strictly now (d_nbf d) (d_exp d))) ds in
                  let some_out := snd (strictly now None (i_exp i)) || existsb (fun d => snd (strictly now (d_nbf d) (d_exp d))) ds in
                  if (all_in && negb im) || (some_out && im) then [lit "C04"] else []
              | None => []
              end
            else
            match args, load ld (i_prf i) with
            | Some a, Some ds =>
                let valid_cmds := validb (i_cmd i) && forallb (fun d => validb (d_cmd d)) ds in
                (* bounds are compared with the wall clock of the check: the Spec clauses about time bind only when
                   every bound is clear of that instant by the slack (60 s; none for the cases timed against the
                   clock, whose sign is certain by construction) *)
                let slack := if str_eqb op (lit "execclock") then 0%Z else 60000000000%Z in
                let far := clear_of slack now (i_exp i) &&
                           forallb (fun d => clear_of slack now (d_nbf d) && clear_of slack now (d_exp d)) ds in
                let p1 := principals_ok i ds in
                let p2 := negb valid_cmds || commands_ok i ds in
                (* between the two readings of an optional slice / iterator that fails, either verdict is accepted *)
                let p3 := if im then policies_ok_l a ds else policies_ok a ds in
                let p4 := negb far || time_ok now i ds in
                if im then
                  (if p1 then [] else [lit "C01"]) ++ (if p2 then [] else [lit "C02"]) ++
                  (if p3 then [] else [lit "C03"]) ++ (if p4 then [] else [lit "C04"])
                else
                  if p1 && valid_cmds && commands_ok i ds && p3 && far && time_ok now i ds then [lit "C05"] else []
            | _, _ => if im then [lit "C01"] else []     (* unloadable delegation / failed hook, yet allowed *)
            end in
          let open_case := timeat && match load ld (i_prf i) with Some ds => negb (time_decided now i ds) | None => false end in
          (* the decision under the other reading of a failing optional slice / iterator segment *)
          let m_l := if timeat then m
                     else match args, load ld (i_prf i) with
                          | Some a, Some ds => allowed_with now (fun c => option_map strip_pol (ld c)) i a && policies_ok_l a ds
                          | _, _ => m
                          end in
          {| model_obs := if open_case then impl else if Bool.eqb im m_l then Bool m_l else Bool m; violated := v |}
      end
  (* single token timeline: ["valid"; kind; nbf; exp; t] -> IsValidAt(t) *)
  | List [Str op; nbf; exp; Int t] =>
      let m := valid_at (oz nbf) (oz exp) t in
      let inside := match oz nbf with Some n => (n <? t)%Z | None => true end && match oz exp with Some e => (t <? e)%Z | None => true end in
      let outside := match oz nbf with Some n => (t <? n)%Z | None => false end || match oz exp with Some e => (e <? t)%Z | None => false end in
      {| model_obs := if inside || outside then Bool m else impl;
         violated := if (inside && negb (nbool impl)) || (outside && nbool impl) then [lit "C04"] else [] |}
  | _ => bad
  end.

(* ---------------- engine: args (pkg/args.Args and pkg/meta.Meta as containers; serves C10, C20) ---------------- *)
(* [ist]: what the implementation answered to this operation. A metadata value holding an integer beyond +-(2^53-1) may be
   stored or refused (C10 asks "stored exactly or rejected" of argument values and bounds only arguments and policies): when
   the implementation refuses one, the model follows it *)
Definition run_aop (ci : bool) (st : list node * cont * list cont) (opi : node * node) : list node * cont * list cont :=
  let '(sts, a, cls) := st in
  let '(op, ist) := opi in
  match op with
  | List [Str kind; Str k; v] =>
      (* the same key with the same value once more: already "stored exactly" - reporting a duplicate or not is open *)
      let same_there := match map_get k a with Some x => node_eqb x v | None => false end in
      let add := if same_there then (if nbool ist then Ok a else Err 9)
                 else if negb ci && negb (ints_in53 v) && negb (nbool ist) then Err 9 else c_add ci a k v in
      if str_eqb kind (lit "add") then
        match add with Ok a' => (sts ++ [Bool true], a', cls) | _ => (sts ++ [Bool false], a, cls) end
      else (* cloneadd: the clone takes the value or refuses it; the original is untouched, and the clone keeps what it got *)
        match add with Ok a' => (sts ++ [Bool true], a, cls ++ [a']) | _ => (sts ++ [Bool false], a, cls ++ [a]) end
  | List [Str kind; List kvs] =>
      let other := fold_left (fun o e => match e with
                                        | List [Str k; v] => match c_add ci o k v with Ok o' => o' | _ => o end
                                        | _ => o end) kvs [] in
      (sts ++ [Bool true], c_include a other, cls)
  | _ => st
  end.

(* the order in which a container lists its entries is not constrained by any property: entries are compared as sets *)
Definition ent_key (e : node) : str := match e with List (Str k :: _) => k | _ => [] end.
Fixpoint ins_ent (e : node) (l : list node) : list node :=
  match l with [] => [e] | x :: r => if str_ltb (ent_key e) (ent_key x) then e :: l else x :: ins_ent e r end.
Definition sort_ents (n : node) : node := match n with List l => List (fold_right ins_ent [] l) | _ => n end.
Definition args_unordered (o : node) : node :=
  match o with
  | List [sts; e; ipld; eq; List cls] => List [sts; sort_ents e; ipld; eq; List (map sort_ents cls)]
  | _ => o
  end.

(* a Go value as the harness describes it: [tag; payload] *)
Fixpoint gval_of (fuel : nat) (n : node) : gval :=
  match fuel with
  | O => GOther
  | S f =>
    match n with
    | List [Str t; p] =>
        if str_eqb t (lit "bool") then GBool (nbool p)
        else if str_eqb t (lit "str") then GStr (nstr p)
        else if str_eqb t (lit "int") then GInt (nint p)
        else if str_eqb t (lit "uint") then GUint (Z.to_N (nint p))
        else if str_eqb t (lit "float") then match p with Float b => GFloat b | _ => GOther end
        else if str_eqb t (lit "bytes") then match p with Bytes b => GBytes b | _ => GOther end
        else if str_eqb t (lit "nbytes") then match p with Bytes b => GNamedBytes b | _ => GOther end
        else if str_eqb t (lit "node") then GNode p
        else if str_eqb t (lit "cid") then match p with Link c => GCid c | _ => GOther end
        else if str_eqb t (lit "slice") then GSlice (map (gval_of f) (nlist p))
        else if str_eqb t (lit "array") then GArray (map (gval_of f) (nlist p))
        else if str_eqb t (lit "map") then
          GMap (map (fun e => match e with List [Str k; v] => (k, gval_of f v) | _ => ([], GOther) end) (nlist p))
        else if str_eqb t (lit "ptr") then GPtr (gval_of f p)
        else if str_eqb t (lit "nil") then GNilPtr
        else GOther
    | _ => GOther
    end
  end.

Definition eng_args (inp impl : node) : verdict :=
  match inp with
  | List [Str op; Str what; desc] =>
      (* literal.Any on a Go value. C10: "stored exactly or rejected, never silently altered" - which values are taken is the
         implementation's choice (Literal.v transcribes today's); what is pinned is that a node that comes out says what the
         value says ([denotesb], the executable face of Literal.denotes, order of map entries aside) *)
      let v := gval_of (S (node_size desc)) desc in
      let m := res_node (fun x => x) (lit_any v) in
      match impl with
      | List [Str o; n] =>
          if str_eqb o (lit "ok") then
            if denotesb (S (node_size desc)) v n then {| model_obs := impl; violated := [] |}
            else {| model_obs := m; violated := [lit "C10"] |}
          else {| model_obs := m; violated := [lit "C10"] |}
      | List [Str o] => if str_eqb o (lit "err") then {| model_obs := impl; violated := [] |} else {| model_obs := m; violated := [lit "C10"] |}
      | _ => {| model_obs := m; violated := [lit "C10"] |}
      end
  | List [Str kind; List ops] =>
      let ci := str_eqb kind (lit "args") in
      let ists := match impl with List (List l :: _) => l | _ => [] end in
      let '(sts, a, cls) := fold_left (run_aop ci) (combine ops (ists ++ repeat (Bool true) (length ops))) ([], [], []) in
      let ents (c : cont) := List (map (fun kv => List [Str (fst kv); snd kv]) c) in
      let m := List [List sts; ents a;
                     (if ci then c_to_ipld a else Null); Bool (c_equals a a); List (map ents cls)] in
      let m := if node_eqb (args_unordered impl) (args_unordered m) then impl else m in
      {| model_obs := m; violated := if node_eqb impl m then [] else [lit "C10"] |}
  | _ => bad
  end.

(* ---------------- dispatcher ---------------- *)
Definition engines : list (str * (node -> node -> verdict)) :=
  [ (lit "command", eng_command); (lit "glob", eng_glob);
    (lit "selector", eng_selector);
    (lit "policy", eng_policy);
    (lit "chain", eng_chain);
    (lit "selparse", eng_selparse); (lit "cbor", eng_cbor); (lit "decoders", eng_decoders); (lit "conc", eng_conc); (lit "meta", eng_meta); (lit "container", eng_container); (lit "cid", eng_cid); (lit "stream", eng_stream); (lit "token", eng_token); (lit "did", eng_did); (lit "policyipld", eng_policyipld); (lit "args", eng_args) ].

Fixpoint find_engine (e : str) (l : list (str * (node -> node -> verdict))) : option (node -> node -> verdict) :=
  match l with
  | [] => None
  | (k, f) :: r => if str_eqb k e then Some f else find_engine e r
  end.

Definition render (impl : node) (v : verdict) : str :=
  (if node_eqb (model_obs v) impl then [61] else [33])
  ++ flat_map (fun p => 32 :: p) (violated v) ++ [9] ++ print_node (model_obs v).

Definition run_engine (engine line : str) : str :=
  match find_engine engine engines with
  | None => lit "?unknown engine"
  | Some f =>
      match parse_wire line with
      | Some (List [inp; impl]) => render impl (f inp impl)
      | _ => lit "?unparsable case"
      end
  end.
