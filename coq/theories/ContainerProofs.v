From Coq Require Import String Permutation.
Require Import Base Node Cbor CborProofs Varint Base64 Base64Proofs Container Generated.
From Coq Require Import ZifyBool ZifyNat ZifyN.
Local Open Scope N_scope.
Ltac Zify.zify_post_hook ::= Z.div_mod_to_equations.

(* ---- Go's ReadUvarint reads back what PutUvarint wrote ---- *)
Lemma go_from_to_aux : forall k f n i mult x rest,
  (k <= f)%nat -> (0 < k)%nat -> (i + k <= 9)%nat -> n < 128 ^ N.of_nat k ->
  go_uvarint_aux (to_uvarint_f f n ++ rest) i mult x = Ok (x + n * mult, rest).
Proof.
  induction k as [|k IH]; intros f n i mult x rest Hkf Hk Hi Hn; [lia|].
  destruct f as [|f]; [lia|]. cbn [to_uvarint_f].
  destruct (N.ltb_spec n 128) as [Hlt|Hge].
  - cbn [app go_uvarint_aux].
    destruct (Nat.leb_spec 10 i), (N.ltb_spec n 128), (Nat.eqb_spec i 9), (N.ltb_spec 1 n); cbn [andb]; try lia; reflexivity.
  - destruct k as [|k]; [cbn in Hn; lia|].
    cbn [app go_uvarint_aux].
    assert (Hb : 128 <= n mod 128 + 128 < 256) by lia.
    destruct (Nat.leb_spec 10 i), (N.ltb_spec (n mod 128 + 128) 128); try lia.
    assert (H1' : n / 128 < 128 ^ N.of_nat (S k)).
    { rewrite Nat2N.inj_succ, N.pow_succ_r' in Hn. apply N.div_lt_upper_bound; lia. }
    rewrite (IH f (n / 128) (S i) (mult * 128) (x + (n mod 128 + 128) mod 128 * mult) rest); try lia.
    f_equal. f_equal.
    replace ((n mod 128 + 128) mod 128) with (n mod 128) by lia.
    pose proof (N.div_mod n 128 ltac:(lia)). nia.
Qed.

Lemma go_read_to_uvarint n rest : n < 2 ^ 63 -> go_read_uvarint (to_uvarint n ++ rest) = Ok (n, rest).
Proof.
  intros H. unfold go_read_uvarint, to_uvarint.
  assert (Hn : n < 128 ^ N.of_nat 9) by (change (128 ^ N.of_nat 9) with (2 ^ 63); exact H).
  rewrite (go_from_to_aux 9 10 n 0 1 0 rest) by (try lia; exact Hn). f_equal. f_equal. lia.
Qed.

Lemma skipn_app_len {A} (a b : list A) : skipn (length a) (a ++ b) = b.
Proof. induction a; cbn; auto. Qed.
Lemma firstn_app_len {A} (a b : list A) : firstn (length a) (a ++ b) = a.
Proof. induction a; cbn; f_equal; auto. Qed.

(* the cap read from the source stays far below what a ten-byte varint can say *)
Lemma max_section_bound : max_section < 2 ^ 56.
Proof. vm_compute. reflexivity. Qed.

Theorem ld_read_write d rest : d <> [] -> N.of_nat (length d) <= max_section ->
  ld_read (ld_write d ++ rest) = Ok (Some (d, rest)).
Proof.
  intros Hne Hmax. unfold ld_read, ld_write. rewrite <- app_assoc.
  destruct (to_uvarint (N.of_nat (length d)) ++ d ++ rest) eqn:E.
  { pose proof (to_uvarint_nonempty (N.of_nat (length d))). destruct (to_uvarint _); [congruence|discriminate]. }
  rewrite <- E. pose proof max_section_bound as Hcap.
  rewrite go_read_to_uvarint by lia.
  destruct (N.eqb_spec (N.of_nat (length d)) 0); [destruct d; [congruence|cbn in *; lia]|].
  destruct (N.ltb_spec max_section (N.of_nat (length d))) as [Hbig|_]; [lia|].
  destruct (N.ltb_spec (N.of_nat (length (d ++ rest))) (N.of_nat (length d))); [rewrite app_length in *; lia|].
  rewrite Nat2N.id, firstn_app_len, skipn_app_len. reflexivity.
Qed.

Theorem ld_read_rejects_zero_and_oversize l r s :
  go_read_uvarint s = Ok (l, r) -> (l = 0 \/ max_section < l) -> s <> [] -> exists e, ld_read s = Err e.
Proof.
  intros H Hl Hs. unfold ld_read. destruct s; [congruence|]. rewrite H.
  destruct (N.eqb_spec l 0); [eauto|]. destruct (N.ltb_spec max_section l); [eauto|lia].
Qed.

Theorem ld_read_bounded s d r : ld_read s = Ok (Some (d, r)) -> N.of_nat (length d) <= max_section.
Proof.
  unfold ld_read. destruct s as [|c s']; [discriminate|].
  destruct (go_read_uvarint (c :: s')) as [[l rest]|e|]; try discriminate.
  destruct (l =? 0); [discriminate|]. destruct (N.ltb_spec max_section l); [discriminate|].
  destruct (N.ltb_spec (N.of_nat (length rest)) l); [discriminate|]. intros [= <- _].
  rewrite firstn_length. lia.
Qed.

Example header_ok_car_header : header_ok car_header = true.
Proof. vm_compute. reflexivity. Qed.

Section Thms.
  Variable sha256 : str -> str.
  Variable mh_sum : N -> N -> str -> res str.
  Variable tok : Type.
  Variable unseal : str -> res tok.
  Hypothesis sha_len : forall d, length (sha256 d) = 32%nat.
  Hypothesis mh_sha256 : forall d, mh_sum 18 32 d = Ok (sha256 d).

  Notation cid_of := (cid_of sha256).
  Notation check_block := (check_block mh_sum).
  Notation read_blocks := (read_blocks mh_sum).

  Lemma check_block_written d : check_block (cid_of d ++ d) = Ok d.
  Proof.
    unfold Container.check_block, Container.cid_of. cbn [app].
    change (from_uvarint (1 :: 113 :: 18 :: 32 :: sha256 d ++ d)) with (Ok (1, 1%nat) : res (N * nat)).
    cbn [negb N.eqb Pos.eqb skipn].
    change (from_uvarint (113 :: 18 :: 32 :: sha256 d ++ d)) with (Ok (113, 1%nat) : res (N * nat)). cbn [skipn].
    change (from_uvarint (18 :: 32 :: sha256 d ++ d)) with (Ok (18, 1%nat) : res (N * nat)). cbn [skipn].
    change (from_uvarint (32 :: sha256 d ++ d)) with (Ok (32, 1%nat) : res (N * nat)). cbn [skipn].
    change (N.to_nat 32) with 32%nat. rewrite <- (sha_len d), firstn_app_len, skipn_app_len.
    rewrite app_length. destruct (Nat.ltb_spec (length (sha256 d) + length d) (length (sha256 d))); [lia|].
    rewrite mh_sha256, str_eqb_refl. reflexivity.
  Qed.

  (* a v1 block whose digest is not the hash its multihash prescribes for the data is refused *)
  Theorem car_integrity ver codec code len dg data h :
    ver < 128 -> codec < 128 -> code < 128 -> len < 128 -> ver = 1 ->
    length dg = N.to_nat len -> mh_sum code len data = Ok h -> h <> dg ->
    check_block (ver :: codec :: code :: len :: dg ++ data) = Err 7.
  Proof.
    intros Hv Hc Hcd Hl -> Hdg Hh Hne. unfold Container.check_block.
    assert (F : forall b r, b < 128 -> from_uvarint (b :: r) = Ok (b, 1%nat)).
    { intros b r Hb. unfold from_uvarint. cbn [from_uvarint_aux Nat.eqb Nat.leb andb orb].
      destruct (N.ltb_spec b 128); [|lia]. cbn [Nat.ltb Nat.leb andb]. rewrite andb_false_r. f_equal. f_equal. lia. }
    rewrite (F 1 _ ltac:(lia)). cbn [negb N.eqb Pos.eqb skipn].
    rewrite (F codec _ Hc). cbn [skipn]. rewrite (F code _ Hcd). cbn [skipn]. rewrite (F len _ Hl). cbn [skipn].
    rewrite <- Hdg, firstn_app_len, skipn_app_len, app_length.
    destruct (Nat.ltb_spec (length dg + length data) (length dg)); [lia|].
    rewrite Hh. destruct (str_eqb h dg) eqn:E; [apply str_eqb_eq in E; contradiction|reflexivity].
  Qed.

  Definition block_ok (d : str) : Prop := N.of_nat (length (cid_of d ++ d)) <= max_section.

  Lemma read_blocks_written blobs : forall fuel acc,
    Forall block_ok blobs -> (length blobs < fuel)%nat ->
    read_blocks fuel (concat (map (fun d => ld_write (cid_of d ++ d)) blobs)) acc = Ok (rev acc ++ blobs).
  Proof.
    induction blobs as [|d r IH]; intros fuel acc Hok Hf.
    - destruct fuel; [lia|]. cbn. rewrite app_nil_r. reflexivity.
    - destruct fuel; [cbn in Hf; lia|]. inversion Hok as [|? ? Hd Hr]; subst. cbn [map concat Container.read_blocks].
      rewrite ld_read_write; [|unfold Container.cid_of; discriminate|exact Hd].
      rewrite check_block_written. rewrite IH by (try assumption; cbn in Hf; lia).
      cbn [rev]. rewrite <- app_assoc. reflexivity.
  Qed.

  Theorem car_blobs_written blobs : Forall block_ok blobs -> car_blobs mh_sum (write_car sha256 blobs) = Ok blobs.
  Proof.
    intros Hok. unfold car_blobs, write_car.
    rewrite ld_read_write; [|vm_compute; discriminate|vm_compute; discriminate].
    rewrite header_ok_car_header. apply (read_blocks_written blobs _ [] Hok).
    rewrite <- (map_length (fun d => ld_write (cid_of d ++ d)) blobs).
    assert (G : forall l : list str, Forall (fun x => x <> []) l -> (length l <= length (concat l))%nat).
    { induction 1 as [|x l Hx _ IHl]; cbn; [lia|]. rewrite app_length. destruct x; [congruence|cbn; lia]. }
    assert (Hne : Forall (fun x => x <> []) (map (fun d => ld_write (cid_of d ++ d)) blobs)).
    { apply Forall_forall. intros x Hx. apply in_map_iff in Hx as (d & <- & _). unfold ld_write.
      pose proof (to_uvarint_nonempty (N.of_nat (length (cid_of d ++ d)))). destruct (to_uvarint _); [congruence|discriminate]. }
    specialize (G _ Hne). lia.
  Qed.

  (* what was written to a CAR is what is read back, whatever order the writer iterated in *)
  Theorem car_roundtrip blobs : Forall block_ok blobs ->
    read_car sha256 mh_sum tok unseal (write_car sha256 blobs) = add_tokens sha256 tok unseal blobs [].
  Proof. intros H. unfold read_car. rewrite car_blobs_written by exact H. reflexivity. Qed.

  (* ---- CBOR container ---- *)
  Lemma all_bytes_map blobs : all_bytes (map Bytes blobs) = Some blobs.
  Proof. induction blobs as [|b r IH]; cbn; [reflexivity|]. rewrite IH. reflexivity. Qed.

  Definition blobs_wf (blobs : list str) : Prop :=
    nlen blobs < u64 /\ Forall (fun b => nlen b < u64) blobs.

  Lemma canon_bytes_list blobs : map canon (map Bytes blobs) = map Bytes blobs.
  Proof. induction blobs; cbn; f_equal; auto. Qed.

  Theorem cbor_blobs_written blobs rest : blobs_wf blobs -> cbor_blobs (write_cbor blobs ++ rest) = Ok blobs.
  Proof.
    intros [Hn Hall]. unfold cbor_blobs, write_cbor.
    assert (Hwf : wf (Map [(ctn_version, List (map Bytes blobs))])).
    { cbn. split; [unfold u64; vm_compute; reflexivity|]. split; [|exact I]. split; [vm_compute; reflexivity|].
      split; [unfold nlen in *; rewrite map_length; exact Hn|].
      induction Hall as [|b l Hb _ IH]; cbn; [exact I|]. split; [exact Hb|]. apply IH. unfold nlen in *. cbn in Hn. lia. }
    rewrite (dec_encode _ Hwf).
    - cbn [canon map sortk insert fst snd]. rewrite canon_bytes_list, str_eqb_refl, all_bytes_map. reflexivity.
    - cbn [depth fold_right snd].
      assert (G : (fold_right (fun y a => Nat.max (depth y) a) 0 (map Bytes blobs) <= 1)%nat) by (clear; induction blobs as [|b l IHl]; cbn [map fold_right depth]; [lia | apply Nat.max_lub; [lia|exact IHl]]).
      lia.
  Qed.

  Theorem cbor_roundtrip blobs : blobs_wf blobs ->
    read_cbor sha256 tok unseal (write_cbor blobs) = add_tokens sha256 tok unseal blobs [].
  Proof.
    intros H. unfold read_cbor. rewrite <- (app_nil_r (write_cbor blobs)), (cbor_blobs_written blobs [] H). reflexivity.
  Qed.

  (* ---- base64 variants ---- *)
  Hypothesis sha_bytes : forall d, Forall (fun x => x < 256) (sha256 d).

  Lemma be_bytes_lt k : forall n, Forall (fun x => x < 256) (be_bytes k n).
  Proof. induction k as [|k IH]; intros n; cbn [be_bytes]; [constructor|]. apply Forall_app. split; [apply IH|]. repeat constructor. lia. Qed.

  Lemma head_bytes mj n : mj < 8 -> Forall (fun x => x < 256) (head mj n).
  Proof.
    intros Hm. unfold head.
    destruct (n <? 24) eqn:E1; [apply N.ltb_lt in E1; repeat constructor; lia|].
    destruct (n <? 256) eqn:E2; [apply N.ltb_lt in E2; repeat constructor; lia|].
    destruct (n <? 65536); [constructor; [lia|apply be_bytes_lt]|].
    destruct (n <? 4294967296); constructor; try lia; apply be_bytes_lt.
  Qed.

  Lemma to_uvarint_lt n : Forall (fun x => x < 256) (to_uvarint n).
  Proof.
    unfold to_uvarint. generalize 10%nat. intros f. revert n. induction f as [|f IH]; intros n; cbn [to_uvarint_f]; [constructor|].
    destruct (N.ltb_spec n 128); [repeat constructor; lia|]. constructor; [lia|]. apply IH.
  Qed.

  Definition bytes_ok (blobs : list str) : Prop := Forall (Forall (fun x => x < 256)) blobs.

  Lemma write_car_bytes blobs : bytes_ok blobs -> Forall (fun x => x < 256) (write_car sha256 blobs).
  Proof.
    intros Hb. unfold write_car. apply Forall_app. split.
    - unfold ld_write. apply Forall_app. split; [apply to_uvarint_lt|]. vm_compute. repeat constructor.
    - induction Hb as [|d l Hd _ IH]; cbn [map concat]; [constructor|]. apply Forall_app. split; [|exact IH].
      unfold ld_write. apply Forall_app. split; [apply to_uvarint_lt|]. apply Forall_app. split; [|exact Hd].
      unfold Container.cid_of. repeat (constructor; [lia|]). apply sha_bytes.
  Qed.

  Theorem car_b64_roundtrip blobs : Forall block_ok blobs -> bytes_ok blobs ->
    read_car_b64 sha256 mh_sum tok unseal (write_car_b64 sha256 blobs) = add_tokens sha256 tok unseal blobs [].
  Proof.
    intros H Hb. unfold read_car_b64, write_car_b64. rewrite b64_decode_encode by (apply write_car_bytes; exact Hb).
    apply car_roundtrip. exact H.
  Qed.

  Lemma write_cbor_bytes blobs : bytes_ok blobs -> Forall (fun x => x < 256) (write_cbor blobs).
  Proof.
    intros Hb. unfold write_cbor. cbn [encode map sortk insert fst snd concat enc_entry].
    apply Forall_app. split; [apply head_bytes; lia|]. rewrite app_nil_r. cbn [fst snd].
    apply Forall_app. split; [apply head_bytes; lia|]. apply Forall_app. split; [vm_compute; repeat constructor|].
    apply Forall_app. split; [apply head_bytes; lia|].
    induction Hb as [|d l Hd _ IH]; cbn [map concat encode]; [constructor|]. apply Forall_app. split; [|exact IH].
    apply Forall_app. split; [apply head_bytes; lia|exact Hd].
  Qed.

  Theorem cbor_b64_roundtrip blobs : blobs_wf blobs -> bytes_ok blobs ->
    read_cbor_b64 sha256 tok unseal (write_cbor_b64 blobs) = add_tokens sha256 tok unseal blobs [].
  Proof.
    intros H Hb. unfold read_cbor_b64, write_cbor_b64. rewrite b64_decode_encode by (apply write_cbor_bytes; exact Hb).
    apply cbor_roundtrip. exact H.
  Qed.

  (* ---- what the reader's map contains ---- *)
  Notation put := (put tok).
  Notation lookup := (lookup tok).
  Notation add_tokens := (add_tokens sha256 tok unseal).

  Lemma lookup_put c t m c' : lookup c' (put c t m) = if str_eqb c' c then Some t else lookup c' m.
  Proof.
    induction m as [|[k v] r IH]; cbn [Container.put Container.lookup].
    - destruct (str_eqb c' c); reflexivity.
    - destruct (str_eqb c k) eqn:E.
      + apply str_eqb_eq in E. subst k. cbn [Container.lookup]. destruct (str_eqb c' c); reflexivity.
      + cbn [Container.lookup]. rewrite IH. destruct (str_eqb c' k) eqn:E2; [|reflexivity].
        apply str_eqb_eq in E2. subst k. destruct (str_eqb c' c) eqn:E3; [|reflexivity].
        apply str_eqb_eq in E3. subst. rewrite str_eqb_refl in E. discriminate.
  Qed.

  (* all or nothing: one entry that fails verification fails the whole read *)
  Theorem add_tokens_all_verified blobs : forall m m', add_tokens blobs m = Ok m' -> Forall (fun d => exists t, unseal d = Ok t) blobs.
  Proof.
    induction blobs as [|d r IH]; intros m m'; cbn [Container.add_tokens]; [constructor|].
    destruct (unseal d) as [t|e|] eqn:E; try discriminate. intros H. constructor; [eauto|]. eapply IH. exact H.
  Qed.
  Theorem add_tokens_one_bad blobs1 d blobs2 m e : Forall (fun x => exists t, unseal x = Ok t) blobs1 -> unseal d = Err e ->
    add_tokens (blobs1 ++ d :: blobs2) m = Err e.
  Proof.
    revert m. induction blobs1 as [|x l IH]; intros m Hall Hd; cbn [app Container.add_tokens].
    - rewrite Hd. reflexivity.
    - inversion Hall as [|? ? (t & Ht) Hl]; subst. rewrite Ht. apply IH; assumption.
  Qed.

  (* every token is retrievable under the CID of its sealed bytes, and nothing else is in the map *)
  Theorem add_tokens_lookup blobs : forall m m' c, add_tokens blobs m = Ok m' ->
    (forall d1 d2, In d1 blobs -> In d2 blobs -> cid_of d1 = cid_of d2 -> d1 = d2) ->
    lookup c m' = match find (fun d => str_eqb (cid_of d) c) blobs with
                  | Some d => match unseal d with Ok t => Some t | _ => None end
                  | None => lookup c m
                  end.
  Proof.
    induction blobs as [|d r IH]; intros m m' c; cbn [Container.add_tokens find].
    - intros [= <-] _. reflexivity.
    - destruct (unseal d) as [t|e|] eqn:E; try discriminate. intros H Hinj.
      rewrite (IH _ _ c H) by (intros d1 d2 H1 H2; apply Hinj; right; assumption).
      destruct (str_eqb (cid_of d) c) eqn:Ec.
      + apply str_eqb_eq in Ec. subst c.
        destruct (find (fun d0 => str_eqb (cid_of d0) (cid_of d)) r) as [d'|] eqn:Ef.
        * apply find_some in Ef as [Hin Heq]. apply str_eqb_eq in Heq.
          assert (d' = d) by (apply Hinj; [right; exact Hin|left; reflexivity|exact Heq]). subst d'. rewrite E. reflexivity.
        * rewrite lookup_put, str_eqb_refl, E. reflexivity.
      + destruct (find (fun d0 => str_eqb (cid_of d0) c) r); [reflexivity|].
        rewrite lookup_put. destruct (str_eqb c (cid_of d)) eqn:E2; [|reflexivity].
        apply str_eqb_eq in E2. subst c. rewrite str_eqb_refl in Ec. discriminate.
  Qed.

  (* hence the result does not depend on the order in which the writer iterated *)
  Theorem add_tokens_order_irrelevant blobs blobs' m1 m2 c : Permutation blobs blobs' -> NoDup blobs ->
    (forall d1 d2, In d1 blobs -> In d2 blobs -> cid_of d1 = cid_of d2 -> d1 = d2) ->
    add_tokens blobs [] = Ok m1 -> add_tokens blobs' [] = Ok m2 -> lookup c m1 = lookup c m2.
  Proof.
    intros P Hnd Hinj H1 H2.
    assert (Hinj' : forall d1 d2, In d1 blobs' -> In d2 blobs' -> cid_of d1 = cid_of d2 -> d1 = d2).
    { intros d1 d2 I1 I2. apply Hinj; eapply Permutation_in; try (apply Permutation_sym; exact P); assumption. }
    rewrite (add_tokens_lookup _ _ _ c H1 Hinj), (add_tokens_lookup _ _ _ c H2 Hinj').
    destruct (find (fun d => str_eqb (cid_of d) c) blobs) as [d|] eqn:F1.
    - apply find_some in F1 as [I1 E1]. apply str_eqb_eq in E1.
      destruct (find (fun d => str_eqb (cid_of d) c) blobs') as [d'|] eqn:F2.
      + apply find_some in F2 as [I2 E2]. apply str_eqb_eq in E2.
        assert (d' = d). { apply Hinj; [eapply Permutation_in; [apply Permutation_sym; exact P|exact I2]|exact I1|congruence]. }
        subst. reflexivity.
      + exfalso. pose proof (find_none _ _ F2 d (Permutation_in _ P I1)) as Hf. cbn beta in Hf. rewrite E1, str_eqb_refl in Hf. discriminate.
    - destruct (find (fun d => str_eqb (cid_of d) c) blobs') as [d'|] eqn:F2; [|reflexivity].
      apply find_some in F2 as [I2 E2]. exfalso.
      pose proof (find_none _ _ F1 d' (Permutation_in _ (Permutation_sym P) I2)) as Hf. cbn beta in Hf. rewrite E2 in Hf. discriminate.
  Qed.
End Thms.
