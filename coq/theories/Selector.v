(* Model of pkg/policy/selector/selector.go: segments, resolve, resolveSliceIndices. *)
Require Import Base Node.
Local Open Scope Z_scope.

(* A parsed segment. Go stores flags + field + slice + index in one struct and dispatches
   identity, iterator, field <> "", len(slice) > 0, else index (selector.go:88-245); the parser never
   produces an empty field name, so the dispatch is rendered as an explicit kind. *)
Inductive segk :=
| KIdent
| KIter
| KField (f : str)
| KSlice (a b : option Z)     (* None = absent bound (math.MinInt / math.MaxInt sentinels) *)
| KIndex (i : Z).
Record seg := { sk : segk; sopt : bool }.

(* resolveSliceIndices, selector.go:257-310 *)
Definition go_slice (s0 s1 : option Z) (len : Z) : Z * Z :=
  let start := match s0 with None => 0 | Some a => if a <? 0 then (if len <? - a then 0 else len + a) else a end in
  let stop  := match s1 with None => len | Some b => if b <? 0 then (if len <? - b then 0 else len + b) else b end in
  if stop <=? start then (0, 0)
  else
    let start := if start <? 0 then 0 else start in
    let start := if len <? start then len else start in
    let stop := if stop <? 0 then 0 else stop in
    let stop := if len <? stop then len else stop in
    (start, stop).

Definition zlen {A} (l : list A) : Z := Z.of_nat (length l).
Definition sub {A} (st en : Z) (l : list A) : list A :=
  firstn (Z.to_nat (en - st)) (skipn (Z.to_nat st) l).

(* []rune(str): one group per code point (lead byte + continuation bytes); exact on valid UTF-8 *)
Definition is_cont (c : N) : bool := ((128 <=? c) && (c <? 192))%N.
Fixpoint chars (s : str) : list str :=
  match s with
  | [] => []
  | c :: r =>
      match r with
      | x :: _ => if is_cont x then match chars r with g :: t => (c :: g) :: t | [] => [[c]] end
                  else [c] :: chars r
      | [] => [[c]]
      end
  end.

Definition sres := res (option node).    (* Ok None = "no value" (Go: nil, nil) *)

Definition unless_opt (s : seg) : sres := if sopt s then Ok None else Err 1%N.

Definition step_iter (s : seg) (cur : option node) : sres :=
  match cur with
  | None | Some Null => if sopt s then Ok (Some (List [])) else Err 1%N
  | Some (List l) => Ok cur
  | Some (Map m) => Ok (Some (List (map snd m)))
  | Some _ => Err 1%N
  end.

Definition step_field (s : seg) (f : str) (cur : option node) : sres :=
  match cur with
  | Some (Map m) => match map_get f m with Some v => Ok (Some v) | None => unless_opt s end
  | _ => unless_opt s
  end.

Definition step_slice (s : seg) (a b : option Z) (cur : option node) : sres :=
  match cur with
  | None => unless_opt s
  | Some (List l) => let '(st, en) := go_slice a b (zlen l) in Ok (Some (List (sub st en l)))
  | Some (Bytes x) => let '(st, en) := go_slice a b (zlen x) in Ok (Some (Bytes (sub st en x)))
  | Some (Str x) => let cs := chars x in
                    let '(st, en) := go_slice a b (zlen cs) in Ok (Some (Str (concat (sub st en cs))))
  | Some _ => Err 1%N
  end.

Definition norm_index (i len : Z) : option nat :=
  let idx := if i <? 0 then len + i else i in
  if (idx <? 0) || (len <=? idx) then None else Some (Z.to_nat idx).

Definition step_index (s : seg) (i : Z) (cur : option node) : sres :=
  match cur with
  | Some (List l) => match norm_index i (zlen l) with
                     | Some k => match nth_error l k with Some v => Ok (Some v) | None => Panic end
                     | None => unless_opt s
                     end
  | Some (Bytes x) => match norm_index i (zlen x) with
                      | Some k => match nth_error x k with Some v => Ok (Some (Int (Z.of_N v))) | None => Panic end
                      | None => unless_opt s
                      end
  | _ => unless_opt s
  end.

Definition step (s : seg) (cur : option node) : sres :=
  match sk s with
  | KIdent => Ok cur
  | KIter => step_iter s cur
  | KField f => step_field s f cur
  | KSlice a b => step_slice s a b cur
  | KIndex i => step_index s i cur
  end.

(* resolve, selector.go:81-250: the loop over segments with the running value [cur] *)
Fixpoint resolve (sel : list seg) (cur : option node) : sres :=
  match sel with
  | [] => Ok cur
  | s :: r => match step s cur with
              | Ok c => resolve r c
              | Err e => Err e
              | Panic => Panic
              end
  end.

(* Selector.Select *)
Definition select (sel : list seg) (n : node) : sres := resolve sel (Some n).

(* ---------- Spec ---------- *)
(* CPython PySlice_AdjustIndices, step = 1 *)
Definition py_adjust (i : Z) (len : Z) : Z :=
  if i <? 0 then (if i + len <? 0 then 0 else i + len) else (if len <=? i then len else i).
Definition py_slice (s0 s1 : option Z) (len : Z) : Z * Z :=
  let start := match s0 with None => 0 | Some a => py_adjust a len end in
  let stop := match s1 with None => len | Some b => py_adjust b len end in
  (start, stop).
(* l[a:b] in Python *)
Definition py_sub {A} (a b : option Z) (l : list A) : list A :=
  let '(st, en) := py_slice a b (zlen l) in sub st (Z.max st en) l.
