(* Driver around the extracted oracle: oracle <engine>; one wire case per stdin line, one verdict
   per stdout line.  The only logic here is byte <-> N conversion. *)
module M = Oracle_model

let rec pos_of_int (i : int) : M.positive =
  if i = 1 then M.XH
  else if i land 1 = 0 then M.XO (pos_of_int (i lsr 1))
  else M.XI (pos_of_int (i lsr 1))

let n_table : M.n array = Array.init 256 (fun i -> if i = 0 then M.N0 else M.Npos (pos_of_int i))

let rec int_of_pos (p : M.positive) : int =
  match p with M.XH -> 1 | M.XO q -> 2 * int_of_pos q | M.XI q -> 2 * int_of_pos q + 1

let int_of_n (x : M.n) : int = match x with M.N0 -> 0 | M.Npos p -> int_of_pos p

let str_of_string (s : Stdlib.String.t) : M.n list =
  let rec go i acc = if i < 0 then acc else go (i - 1) (n_table.(Char.code s.[i]) :: acc) in
  go (String.length s - 1) []

let string_of_str (l : M.n list) : Stdlib.String.t =
  let b = Buffer.create 256 in
  List.iter (fun x -> Buffer.add_char b (Char.chr (int_of_n x land 255))) l;
  Buffer.contents b

let () =
  let engine = str_of_string Sys.argv.(1) in
  let out = Buffer.create (1 lsl 16) in
  (try
     while true do
       let line = input_line stdin in
       Buffer.add_string out (string_of_str (M.run_engine engine (str_of_string line)));
       Buffer.add_char out '\n';
       if Buffer.length out > (1 lsl 16) then (print_string (Buffer.contents out); Buffer.clear out)
     done
   with End_of_file -> ());
  print_string (Buffer.contents out)
