Require Import Base Node Selector.
Local Open Scope Z_scope.

Theorem slice_is_python s0 s1 len : 0 <= len ->
  let '(gs, ge) := go_slice s0 s1 len in
  let '(ps, pe) := py_slice s0 s1 len in
  0 <= gs <= ge /\ ge <= len /\ ge - gs = Z.max 0 (pe - ps) /\ (gs < ge -> gs = ps).
Proof.
  intros Hl. unfold go_slice, py_slice, py_adjust.
  destruct s0 as [a|], s1 as [b|]; cbv beta iota zeta;
  repeat match goal with |- context [if ?c then _ else _] =>
    lazymatch c with
    | context [if _ then _ else _] => fail
    | (?x <? ?y) => destruct (Z.ltb_spec0 x y)
    | (?x <=? ?y) => destruct (Z.leb_spec0 x y)
    end; cbv beta iota zeta end; lia.
Qed.

(* the selected elements are Python's l[a:b] *)
Theorem go_sub_is_py_sub {A} a b (l : list A) :
  (let '(st, en) := go_slice a b (zlen l) in sub st en l) = py_sub a b l.
Proof.
  unfold py_sub. pose proof (slice_is_python a b (zlen l) ltac:(unfold zlen; lia)) as H.
  destruct (go_slice a b (zlen l)) as [gs ge], (py_slice a b (zlen l)) as [ps pe].
  destruct H as (H1 & H2 & H3 & H4). unfold sub.
  destruct (Z.eq_dec gs ge) as [E|E].
  - subst ge. replace (Z.to_nat (gs - gs)) with 0%nat by lia.
    replace (Z.to_nat (Z.max ps pe - ps)) with 0%nat by lia. reflexivity.
  - rewrite <- H4 by lia. f_equal. lia.
Qed.

Lemma resolve_app s1 : forall s2 c,
  resolve (s1 ++ s2) c = match resolve s1 c with Ok c' => resolve s2 c' | Err e => Err e | Panic => Panic end.
Proof.
  induction s1 as [|s r IH]; intros s2 c; cbn [app resolve]; [reflexivity|].
  destruct (step s c); auto.
Qed.

Theorem resolve_is_fold sel c :
  resolve sel c = fold_left (fun acc s => match acc with Ok c' => step s c' | Err e => Err e | Panic => Panic end) sel (Ok c).
Proof.
  revert c; induction sel as [|s r IH]; intros c; cbn [resolve fold_left]; [reflexivity|].
  destruct (step s c) as [c'|e|]; [apply IH| |].
  - clear. induction r; cbn; auto.
  - clear. induction r; cbn; auto.
Qed.

Theorem last_segment_not_ignored s1 s c r :
  resolve (s1 ++ [s]) c = Ok r -> exists c', resolve s1 c = Ok c' /\ step s c' = Ok r.
Proof.
  rewrite resolve_app. destruct (resolve s1 c) as [c'|e|]; try discriminate.
  cbn [resolve]. destruct (step s c') as [r'|e|] eqn:E; try discriminate. intros [= <-]. eauto.
Qed.

(* ---- index ---- *)
Ltac zcases :=
  repeat match goal with
  | |- context [?x <? ?y] =>
      lazymatch constr:((x, y)) with context [if _ then _ else _] => fail | _ => idtac end;
      destruct (Z.ltb_spec0 x y); cbn [orb andb]
  | |- context [?x <=? ?y] =>
      lazymatch constr:((x, y)) with context [if _ then _ else _] => fail | _ => idtac end;
      destruct (Z.leb_spec0 x y); cbn [orb andb]
  end.

Lemma norm_index_spec i len k : norm_index i len = Some k ->
  (0 <= i < len /\ k = Z.to_nat i) \/ (- len <= i < 0 /\ k = Z.to_nat (len + i)).
Proof. unfold norm_index. cbv zeta. zcases; intros H; try discriminate; injection H as <-; lia. Qed.

Lemma norm_index_none i len : norm_index i len = None <-> (i < - len \/ len <= i).
Proof. unfold norm_index. cbv zeta. zcases; split; intros H; try discriminate; try reflexivity; lia. Qed.

Theorem index_list_in_range s i l : - zlen l <= i < zlen l ->
  step_index s i (Some (List l)) =
  Ok (nth_error l (Z.to_nat (if i <? 0 then zlen l + i else i))).
Proof.
  intros Hr. unfold step_index.
  destruct (norm_index i (zlen l)) as [k|] eqn:E.
  - apply norm_index_spec in E.
    assert (Hk : k = Z.to_nat (if i <? 0 then zlen l + i else i)).
    { destruct (Z.ltb_spec0 i 0); lia. }
    rewrite <- Hk. destruct (nth_error l k) eqn:En; [reflexivity|].
    apply nth_error_None in En. unfold zlen in *. lia.
  - apply norm_index_none in E. lia.
Qed.

Theorem index_list_out_of_range s i l : (i < - zlen l \/ zlen l <= i) ->
  step_index s i (Some (List l)) = unless_opt s.
Proof. intros H. unfold step_index. apply norm_index_none in H. rewrite H. reflexivity. Qed.

Theorem index_never_panics s i c : step_index s i c <> Panic.
Proof.
  unfold step_index, unless_opt. destruct c as [[| | | | | x | l | |]|]; try (destruct (sopt s); discriminate).
  - destruct (norm_index i (zlen x)) as [k|] eqn:E; [|destruct (sopt s); discriminate].
    apply norm_index_spec in E. destruct (nth_error x k) eqn:En; [discriminate|].
    apply nth_error_None in En. unfold zlen in *. lia.
  - destruct (norm_index i (zlen l)) as [k|] eqn:E; [|destruct (sopt s); discriminate].
    apply norm_index_spec in E. destruct (nth_error l k) eqn:En; [discriminate|].
    apply nth_error_None in En. unfold zlen in *. lia.
Qed.

Theorem step_never_panics s c : step s c <> Panic.
Proof.
  unfold step. destruct (sk s) as [| |f|a b|i]; try discriminate.
  - unfold step_iter. destruct c as [[]|]; try destruct (sopt s); discriminate.
  - unfold step_field, unless_opt. destruct c as [[| | | | | | |m|]|]; try (destruct (sopt s); discriminate).
    destruct (map_get f m); [discriminate|destruct (sopt s); discriminate].
  - unfold step_slice, unless_opt. destruct c as [[| | | |x|x|l| |]|]; try (destruct (sopt s); discriminate); try discriminate;
      match goal with |- context [go_slice ?a ?b ?n] => destruct (go_slice a b n) end; discriminate.
  - apply index_never_panics.
Qed.

Theorem resolve_never_panics sel : forall c, resolve sel c <> Panic.
Proof.
  induction sel as [|s r IH]; intros c; cbn [resolve]; [discriminate|].
  pose proof (step_never_panics s c). destruct (step s c); [apply IH|discriminate|congruence].
Qed.

(* ---- optional / non-optional ---- *)
Definition applies (s : seg) (cur : option node) : Prop := exists v, step s cur = Ok (Some v).

Theorem failing_nonoptional_is_error s c :
  sopt s = false -> sk s <> KIdent -> ~ applies s c -> exists e, step s c = Err e.
Proof.
  intros Ho Hk Hn. pose proof (step_never_panics s c) as Hp.
  destruct (step s c) as [[v|]|e|] eqn:E; [exfalso; apply Hn; exists v; exact E| |eauto|congruence].
  exfalso. unfold step in E. destruct (sk s) as [| |f|a b|i]; [congruence| | | |].
  - unfold step_iter in E. rewrite Ho in E. destruct c as [[]|]; discriminate.
  - unfold step_field, unless_opt in E. rewrite Ho in E. destruct c as [[| | | | | | |m|]|]; try discriminate.
    destruct (map_get f m); discriminate.
  - unfold step_slice, unless_opt in E. rewrite Ho in E. destruct c as [[| | | |x|x|l| |]|]; try discriminate;
      match type of E with context [go_slice ?a ?b ?n] => destruct (go_slice a b n) end; discriminate.
  - unfold step_index, unless_opt in E. rewrite Ho in E.
    destruct c as [[| | | | |x|l| |]|]; try discriminate.
    + destruct (norm_index i (zlen x)); [destruct (nth_error x n)|]; discriminate.
    + destruct (norm_index i (zlen l)); [destruct (nth_error l n)|]; discriminate.
Qed.

Theorem failing_optional_field_is_novalue s f c :
  sopt s = true -> (forall v, step_field s f c <> Ok (Some v)) -> step_field s f c = Ok None.
Proof.
  intros Ho Hn. unfold step_field, unless_opt in *. rewrite Ho in *.
  destruct c as [[| | | | | | |m|]|]; try reflexivity.
  destruct (map_get f m) as [v|]; [exfalso; apply (Hn v); reflexivity | reflexivity].
Qed.

Theorem failing_optional_index_is_novalue s i c :
  sopt s = true -> (forall v, step_index s i c <> Ok (Some v)) -> step_index s i c = Ok None.
Proof.
  intros Ho Hn. pose proof (index_never_panics s i c) as Hp.
  unfold step_index, unless_opt in *. rewrite Ho in *.
  destruct c as [[| | | | |x|l| |]|]; try reflexivity.
  - destruct (norm_index i (zlen x)) as [k|]; [|reflexivity].
    destruct (nth_error x k) as [v|]; [exfalso; eapply Hn; reflexivity | congruence].
  - destruct (norm_index i (zlen l)) as [k|]; [|reflexivity].
    destruct (nth_error l k) as [v|]; [exfalso; eapply Hn; reflexivity | congruence].
Qed.

(* ---- iterator / identity ---- *)
Theorem iterator_on_map s m : step_iter s (Some (Map m)) = Ok (Some (List (map snd m))).
Proof. reflexivity. Qed.
Theorem iterator_on_list s l : step_iter s (Some (List l)) = Ok (Some (List l)).
Proof. reflexivity. Qed.
Theorem identity_is_noop o c : step {| sk := KIdent; sopt := o |} c = Ok c.
Proof. reflexivity. Qed.

(* ---- characters ---- *)
Lemma concat_chars s : concat (chars s) = s.
Proof.
  induction s as [|c r IH]; [reflexivity|]. cbn [chars].
  destruct r as [|x r']; [reflexivity|].
  destruct (is_cont x).
  - destruct (chars (x :: r')) as [|g t] eqn:E; [cbn in IH; discriminate|].
    cbn [concat app] in *. rewrite IH. reflexivity.
  - cbn [concat app]. rewrite IH. reflexivity.
Qed.
