package main

// args engine: operation sequences on pkg/args.Args and pkg/meta.Meta (Add, Include, Clone + Add on the clone)
// against the container model of Args.v: per-operation status, final iteration order and values, ToIPLD.

import (
	"github.com/ucan-wg/go-ucan/pkg/policy/limits"
	"github.com/ipld/go-ipld-prime/datamodel"
	"github.com/ipld/go-ipld-prime/node/basicnode"

	"github.com/ucan-wg/go-ucan/pkg/args"
	"github.com/ucan-wg/go-ucan/pkg/meta"
)

func init() { register(&Engine{Name: "args", Gen: genArgs}) }

type argOp struct {
	kind string // add | include | cloneadd
	key  string
	val  datamodel.Node
	kvs  []KVn
}

type KVn struct {
	k string
	v datamodel.Node
}

func (o argOp) wire() W {
	switch o.kind {
	case "include":
		var es []W
		for _, e := range o.kvs {
			es = append(es, WList(WStr(e.k), WNode(e.v)))
		}
		return WList(WStr("include"), WList(es...))
	default:
		return WList(WStr(o.kind), WStr(o.key), WNode(o.val))
	}
}

func runArgOps(isArgs bool, ops []argOp) W {
	return safe(func() W {
		var status []W
		var aclones []*args.Args
		var mclones []*meta.Meta
		if isArgs {
			a := args.New()
			for _, o := range ops {
				switch o.kind {
				case "add":
					status = append(status, WBool(a.Add(o.key, o.val) == nil))
				case "include":
					other := args.New()
					for _, e := range o.kvs {
						_ = other.Add(e.k, e.v)
					}
					a.Include(other)
					status = append(status, WBool(true))
				case "cloneadd":
					cl := a.Clone()
					status = append(status, WBool(cl.Add(o.key, o.val) == nil))
					ro := a.ReadOnly().WriteableClone()
					_ = ro.Add(o.key+"-2", o.val)
					aclones = append(aclones, cl)
				}
			}
			var es []W
			for k, v := range a.Iter() {
				es = append(es, WList(WStr(k), WNode(v)))
			}
			n, err := a.ToIPLD()
			ip := WNull
			if err == nil {
				ip = WNode(n)
			}
			eq := a.Equals(a.Clone()) && a.ReadOnly().Equals(a.Clone().ReadOnly())
			// every clone taken on the way still holds what it held (its own entries, in its own order)
			var cls []W
			for _, cl := range aclones {
				var ce []W
				for k, v := range cl.Iter() {
					ce = append(ce, WList(WStr(k), WNode(v)))
				}
				cls = append(cls, WList(ce...))
			}
			return WList(WList(status...), WList(es...), ip, WBool(eq), WList(cls...))
		}
		m := meta.NewMeta()
		for _, o := range ops {
			switch o.kind {
			case "add":
				status = append(status, WBool(m.Add(o.key, o.val) == nil))
			case "include":
				other := meta.NewMeta()
				for _, e := range o.kvs {
					_ = other.Add(e.k, e.v)
				}
				m.Include(other)
				status = append(status, WBool(true))
			case "cloneadd":
				cl := m.Clone()
				status = append(status, WBool(cl.Add(o.key, o.val) == nil))
				ro := m.ReadOnly().WriteableClone()
				_ = ro.Add(o.key+"-2", o.val)
				mclones = append(mclones, cl)
			}
		}
		var es []W
		for k, v := range m.Iter() {
			es = append(es, WList(WStr(k), WNode(v)))
		}
		eq := m.Equals(m.Clone()) && m.ReadOnly().Equals(m.Clone().ReadOnly())
		var cls []W
		for _, cl := range mclones {
			var ce []W
			for k, v := range cl.Iter() {
				ce = append(ce, WList(WStr(k), WNode(v)))
			}
			cls = append(cls, WList(ce...))
		}
		return WList(WList(status...), WList(es...), WNull, WBool(eq), WList(cls...))
	})
}

func genArgs(c *Ctx) {
	genLiteral(c)
	keys := []string{"a", "b", "ab", "", "é", "z", "B", "a.b"}
	var vals []datamodel.Node
	for _, j := range []string{`1`, `"x"`, `null`, `[1,2]`, `{"k":1}`, `{"b":2,"a":1}`, `9007199254740991`, `[{"x":[9007199254740991]}]`, `1.5`, `true`, `{"/":{"bytes":"AQI"}}`} {
		vals = append(vals, J(j))
	}
	// integers outside the safe range, alone and nested (refused by Args.Add, kept by Meta.Add)
	vals = append(vals, basicnode.NewInt(9007199254740992), basicnode.NewInt(-9007199254740992), mkList(mkMap(ent{"deep", mkList(basicnode.NewInt(1 << 60))})))
	emit := func(tag string, ops []argOp) {
		var ow []W
		for _, o := range ops {
			ow = append(ow, o.wire())
		}
		c.Emit(tag+"/args", WList(WStr("args"), WList(ow...)), runArgOps(true, ops))
		// metadata: whether a value with an integer beyond 2^53-1 is kept or refused is open (the status of an Add tells
		// the model which); inside the container handed to Include nothing reports it, so such pairs are left out there
		var mops []argOp
		var mw []W
		for _, o := range ops {
			if o.kind == "include" {
				var kvs []KVn
				for _, kv := range o.kvs {
					if limits.ValidateIntegerBoundsIPLD(kv.v) == nil {
						kvs = append(kvs, kv)
					}
				}
				o.kvs = kvs
			}
			mops = append(mops, o)
			mw = append(mw, o.wire())
		}
		c.Emit(tag+"/meta", WList(WStr("meta"), WList(mw...)), runArgOps(false, mops))
	}
	// exhaustive: two operations over 3 keys x 3 values
	small := []string{"a", "b", ""}
	sv := []datamodel.Node{vals[0], vals[5], vals[11]}
	var one []argOp
	for _, k := range small {
		for _, v := range sv {
			one = append(one, argOp{kind: "add", key: k, val: v}, argOp{kind: "cloneadd", key: k, val: v})
			one = append(one, argOp{kind: "include", kvs: []KVn{{k, v}, {"b", sv[0]}}})
		}
	}
	for _, o1 := range one {
		for _, o2 := range one {
			emit("args/exh2", []argOp{o1, o2})
		}
	}
	n := 3000
	if c.Thorough() {
		n = 200000
	}
	for i := 0; i < n; i++ {
		var ops []argOp
		for j := 0; j < 1+c.R.Intn(7); j++ {
			switch c.R.Intn(5) {
			case 0, 1, 2:
				ops = append(ops, argOp{kind: "add", key: c.R.Pick(keys), val: vals[c.R.Intn(len(vals))]})
			case 3:
				var kvs []KVn
				seen := map[string]bool{}
				for q := 0; q < c.R.Intn(5); q++ {
					k := c.R.Pick(keys)
					if seen[k] {
						continue
					}
					seen[k] = true
					kvs = append(kvs, KVn{k, vals[c.R.Intn(11)]}) // (values an Args accepts, so that `other` holds them)
				}
				ops = append(ops, argOp{kind: "include", kvs: kvs})
			case 4:
				ops = append(ops, argOp{kind: "cloneadd", key: c.R.Pick(keys), val: vals[c.R.Intn(len(vals))]})
			}
		}
		emit("args/rnd", ops)
	}
}
