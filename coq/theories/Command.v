(* Model of pkg/command/command.go (Parse, Top, Join, Segments, Covers) and its Spec. *)
Require Import Base Generated Utf8.
Local Open Scope N_scope.

Definition sep : N := 47.
Definition top : str := [sep].

(* strings.Split(s, "/") : never empty *)
Fixpoint split (s : str) : list str :=
  match s with
  | [] => [[]]
  | c :: s' => if c =? sep then [] :: split s'
               else match split s' with h :: t => (c :: h) :: t | [] => [[c]] end
  end.

(* Command.Segments, command.go:99-104 *)
Definition segments (c : str) : list str := if str_eqb c top then [] else tl (split c).

(* Command.Covers, the fast path in command.go:107-114 *)
Definition covers (c o : str) : bool :=
  has_prefix c o && (str_eqb c top || (length c =? length o)%nat || (nth (length c) o 0 =? sep)).

(* command.Parse, command.go:32-49. Error classes: 1 leading slash, 2 trailing slash, 3 lowercase *)
Definition parse (s : str) : res str :=
  if negb (has_prefix top s) then Err 1
  else if (1 <? length s)%nat && (last s 0 =? sep) then Err 2
  else if negb (lower_fixed s) then Err 3
  else Ok s.

(* Command.Join, command.go:76-96 *)
Definition join_step (buf seg : str) : str :=
  match seg with
  | [] => buf
  | _ => (if (1 <? length buf)%nat then buf ++ [sep] else buf) ++ seg
  end.
Definition join_cmd (c : str) (segs : list str) : str :=
  if (fold_right (fun s a => length s + a) 0 segs =? 0)%nat then c
  else fold_left join_step segs c.

(* ---------- Spec ---------- *)
Definition leading (s : str) : Prop := exists s0, s = sep :: s0.
Definition seg_prefix (a b : list str) : Prop := exists t, b = a ++ t.
Definition no_trailing (s : str) : Prop := s = top \/ last s 0 <> sep.
(* "no upper-case letters" is strings.ToLower(s) == s: s is valid UTF-8 and none of its code points is one
   that unicode.ToLower maps elsewhere (Generated.lower_changes); on ASCII text: no byte in 'A'..'Z' *)
Definition lower_changed (r : N) : Prop := exists lo hi, In (lo, hi) lower_changes /\ lo <= r <= hi.
Definition no_upper (s : str) : Prop := exists rs, runes s = Some rs /\ Forall (fun r => ~ lower_changed r) rs.
Definition valid (s : str) : Prop := leading s /\ no_trailing s /\ no_upper s.
Definition good_seg (g : str) : Prop := g <> [] /\ ~ In sep g.
