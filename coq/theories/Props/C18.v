(* C18 - Streaming APIs agree with buffered APIs and surface every I/O fault. *)
Require Import Base Stream StreamProofs Container ContainerProofs CarCutProofs.
Local Open Scope N_scope.

(* h_init / h_update / h_final: the streaming interface of sha256, with the premise that hashing chunk by
   chunk is hashing the concatenation; decode: the (third-party) decoder, which reads its input to EOF. *)
Theorem C18_chunking_is_irrelevant : forall (st : Type) h_init h_update h_final sha256,
  (forall chunks, h_final (fold_left h_update chunks h_init) = sha256 (concat chunks)) ->
  forall (A : Type) (decode : str -> res A) chunks,
  from_sealed_reader st h_init h_update h_final A decode (map Data chunks) = from_sealed sha256 A decode (concat chunks).
Proof. exact chunking_invariant. Qed.
Print Assumptions C18_chunking_is_irrelevant.

Theorem C18_data_with_eof_is_irrelevant : forall (st : Type) h_init h_update h_final sha256,
  (forall chunks, h_final (fold_left h_update chunks h_init) = sha256 (concat chunks)) ->
  forall (A : Type) (decode : str -> res A) chunks c,
  from_sealed_reader st h_init h_update h_final A decode (map Data chunks ++ [DataEof c]) = from_sealed sha256 A decode (concat chunks ++ c).
Proof. exact chunking_invariant_data_with_eof. Qed.
Print Assumptions C18_data_with_eof_is_irrelevant.

Theorem C18_read_fault_is_an_error : forall (st : Type) h_init h_update h_final (A : Type) (decode : str -> res A) pre post,
  from_sealed_reader st h_init h_update h_final A decode (map Data pre ++ Fail :: post) = Err 1.
Proof. exact read_fault_surfaces. Qed.
Print Assumptions C18_read_fault_is_an_error.

Theorem C18_write_fault_is_an_error : forall (st : Type) h_init h_update h_final ws sink j,
  (j < length ws)%nat -> sink j = false -> to_sealed_writer st h_init h_update h_final ws sink = Err 2.
Proof. exact write_fault_surfaces. Qed.
Print Assumptions C18_write_fault_is_an_error.

Theorem C18_success_means_complete_output_and_true_cid : forall (st : Type) h_init h_update h_final sha256,
  (forall chunks, h_final (fold_left h_update chunks h_init) = sha256 (concat chunks)) ->
  forall ws sink c out, to_sealed_writer st h_init h_update h_final ws sink = Ok (c, out) -> (c, out) = to_sealed sha256 ws.
Proof. exact write_ok_complete. Qed.
Print Assumptions C18_success_means_complete_output_and_true_cid.

Theorem C18_stream_writer_equals_buffered : forall (st : Type) h_init h_update h_final sha256,
  (forall chunks, h_final (fold_left h_update chunks h_init) = sha256 (concat chunks)) ->
  forall ws sink, (forall j, sink j = true) -> to_sealed_writer st h_init h_update h_final ws sink = Ok (to_sealed sha256 ws).
Proof. exact write_stream_equals_buffered. Qed.
Print Assumptions C18_stream_writer_equals_buffered.

(* truncation of a CAR: every proper prefix of what the writer produced is refused, except a cut that falls
   exactly between two sections, which reads as exactly the tokens of the blocks before the cut - the one
   truncation the format cannot reveal (CARv1 has no length or trailer). No token that was not completely
   present is ever returned. *)
Theorem C18_truncated_car : forall sha256 mh_sum (tok : Type) (unseal : str -> res tok),
  (forall d, length (sha256 d) = 32%nat) -> (forall d, mh_sum 18 32 d = Ok (sha256 d)) ->
  forall blobs p q, Forall (block_ok sha256) blobs -> write_car sha256 blobs = p ++ q -> q <> [] ->
  (exists k, (k < length blobs)%nat /\ p = write_car sha256 (firstn k blobs) /\
             read_car sha256 mh_sum tok unseal p = add_tokens sha256 tok unseal (firstn k blobs) [])
  \/ exists e, read_car sha256 mh_sum tok unseal p = Err e.
Proof. exact read_car_cut. Qed.
Print Assumptions C18_truncated_car.

Theorem C18_untruncated_car : forall sha256 mh_sum (tok : Type) (unseal : str -> res tok),
  (forall d, length (sha256 d) = 32%nat) -> (forall d, mh_sum 18 32 d = Ok (sha256 d)) ->
  forall blobs, Forall (block_ok sha256) blobs -> car_blobs mh_sum (write_car sha256 blobs) = Ok blobs.
Proof. exact car_blobs_written. Qed.
Print Assumptions C18_untruncated_car.

(* ... and conversely whatever prefix is accepted ends exactly at the end of a section: with the lengths of the
   sections in hand, "is this cut refused?" is decided by Container.at_boundary (the oracle's rule for the
   large-section cases, where the artefact itself is too big to be sent to the model) *)
Theorem C18_accepted_prefix_ends_at_a_section : forall sha256 mh_sum (tok : Type) (unseal : str -> res tok),
  (forall d, length (sha256 d) = 32%nat) -> (forall d, mh_sum 18 32 d = Ok (sha256 d)) ->
  forall blobs p q m, Forall (block_ok sha256) blobs -> write_car sha256 blobs = p ++ q -> q <> [] ->
  read_car sha256 mh_sum tok unseal p = Ok m ->
  at_boundary (section_lengths sha256 blobs) 0 (N.of_nat (length p)) = true.
Proof. exact accepted_prefix_ends_at_a_section. Qed.
Print Assumptions C18_accepted_prefix_ends_at_a_section.
