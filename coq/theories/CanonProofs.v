(* The payload decoders are insensitive to the canonicalisation the codec applies (map entries sorted,
   recursively): decoding the canonical form of a payload gives the canonical form of the token. With
   Cbor.dec_encode and SealedBytes this closes seal -> bytes -> unseal. *)
From Coq Require Import String Permutation.
Require Import Base Node Cbor CborProofs SealedBytes Did Command SelParse Policy PolicyIpld PolicyIpldProofs Generated Token.
From Coq Require Import ZifyBool ZifyNat ZifyN.
Local Open Scope N_scope.

(* ---- sorting is a permutation; lookups don't see it ---- *)
Lemma insert_perm {V} (e : str * V) l : Permutation (insert e l) (e :: l).
Proof.
  induction l as [|x l IH]; cbn [insert]; [reflexivity|]. destruct (key_ltb (fst e) (fst x)); [reflexivity|].
  rewrite IH. apply perm_swap.
Qed.
Lemma sortk_perm {V} (l : list (str * V)) : Permutation (sortk l) l.
Proof. induction l as [|e l IH]; cbn [sortk]; [reflexivity|]. rewrite insert_perm, IH. reflexivity. Qed.

Lemma map_get_in k (v : node) m : NoDup (map fst m) -> (map_get k m = Some v <-> In (k, v) m).
Proof.
  induction m as [|[k' v'] r IH]; intros Hn; cbn [map_get]; [split; [discriminate|contradiction]|].
  inversion Hn as [|? ? Hni Hn']; subst. destruct (str_eqb k k') eqn:E.
  - apply str_eqb_eq in E. subst k'. split; [intros [= ->]; left; reflexivity|].
    intros [[= ->]|Hin]; [reflexivity|]. exfalso. apply Hni. apply in_map_iff. exists (k, v). auto.
  - rewrite (IH Hn'). split; [auto using in_cons|]. intros [[= -> ->]|Hin]; [rewrite str_eqb_refl in E; discriminate|exact Hin].
Qed.

Lemma map_get_perm k m m' : NoDup (map fst m) -> Permutation m m' -> map_get k m' = map_get k m.
Proof.
  intros Hn P. assert (Hn' : NoDup (map fst m')) by (eapply Permutation_NoDup; [apply Permutation_map; exact P|exact Hn]).
  destruct (map_get k m) as [v|] eqn:E.
  - apply (map_get_in k v m' Hn'). eapply Permutation_in; [exact P|]. apply (map_get_in k v m Hn). exact E.
  - destruct (map_get k m') as [v'|] eqn:E'; [|reflexivity]. exfalso.
    apply (map_get_in k v' m' Hn') in E'. apply (Permutation_in _ (Permutation_sym P)) in E'.
    apply (map_get_in k v' m Hn) in E'. congruence.
Qed.

Lemma map_get_map k (f : node -> node) m : map_get k (map (fun e => (fst e, f (snd e))) m) = option_map f (map_get k m).
Proof. induction m as [|[k' v] r IH]; cbn [map map_get fst snd]; [reflexivity|]. destruct (str_eqb k k'); [reflexivity|exact IH]. Qed.

Definition cmap (m : list (str * node)) : list (str * node) := sortk (map (fun e => (fst e, canon (snd e))) m).

Lemma map_fst_cmap_perm m : Permutation (map fst (cmap m)) (map fst m).
Proof. unfold cmap. rewrite (Permutation_map fst (sortk_perm _)), map_fst_lift. reflexivity. Qed.

Lemma map_get_cmap k m : NoDup (map fst m) -> map_get k (cmap m) = option_map canon (map_get k m).
Proof.
  intros Hn. unfold cmap. rewrite (map_get_perm k (map (fun e => (fst e, canon (snd e))) m)).
  - apply map_get_map.
  - rewrite map_fst_lift. exact Hn.
  - symmetry. apply sortk_perm.
Qed.

Lemma forallb_ext' {A} (f g : A -> bool) l : (forall x, f x = g x) -> forallb f l = forallb g l.
Proof. intros H. induction l as [|x r IH]; cbn; [reflexivity|]. rewrite H, IH. reflexivity. Qed.
Lemma forallb_perm {A} (f : A -> bool) l l' : Permutation l l' -> forallb f l = forallb f l'.
Proof. induction 1; cbn; try congruence. rewrite !andb_assoc, (andb_comm (f y)). reflexivity. Qed.

(* ---- canonicalisation preserves what the decoders look at ---- *)
Lemma is_null_canon v : is_null (canon v) = is_null v.
Proof. destruct v; reflexivity. Qed.
Lemma is_link_canon v : is_link (canon v) = is_link v.
Proof. destruct v; reflexivity. Qed.

Lemma no_null_cmap m : no_null_values (cmap m) = no_null_values m.
Proof.
  unfold no_null_values, cmap. rewrite (forallb_perm _ _ _ (sortk_perm _)).
  induction m as [|e r IH]; cbn [map forallb snd]; [reflexivity|]. rewrite is_null_canon, IH. reflexivity.
Qed.

Lemma kind_ok_canon k v : kind_ok k (canon v) = kind_ok k v.
Proof.
  unfold kind_ok. destruct v as [| | | | | |l|m|]; try reflexivity.
  - cbn [canon]. f_equal. f_equal. induction l as [|x r IH]; cbn [map forallb]; [reflexivity|]. rewrite is_link_canon, IH. reflexivity.
  - cbn [canon]. f_equal. f_equal. apply no_null_cmap.
Qed.

Lemma keys_nodup_iff m : keys_nodup m = true <-> NoDup (map fst m).
Proof.
  induction m as [|[k v] r IH]; cbn [keys_nodup map fst]; [split; [constructor|reflexivity]|].
  rewrite andb_true_iff, IH, negb_true_iff. split.
  - intros [He Hn]. constructor; [|exact Hn]. intros Hin. apply in_map_iff in Hin as ([k' v'] & Hk & Hin). cbn in Hk. subst k'.
    assert (existsb (fun kv => str_eqb (fst kv) k) r = true) by (apply existsb_exists; exists (k, v'); split; [exact Hin|apply str_eqb_refl]). congruence.
  - intros Hn. inversion Hn as [|? ? Hni Hn']; subst. split; [|exact Hn'].
    destruct (existsb (fun kv => str_eqb (fst kv) k) r) eqn:E; [|reflexivity]. exfalso.
    apply existsb_exists in E as ([k' v'] & Hin & He). apply str_eqb_eq in He. cbn in He. subst k'.
    apply Hni. apply in_map_iff. exists (k, v'). auto.
Qed.

Lemma keys_nodup_cmap m : keys_nodup (cmap m) = keys_nodup m.
Proof.
  destruct (keys_nodup m) eqn:E.
  - apply keys_nodup_iff. apply keys_nodup_iff in E. eapply Permutation_NoDup; [symmetry; apply map_fst_cmap_perm|exact E].
  - destruct (keys_nodup (cmap m)) eqn:E'; [|reflexivity]. apply keys_nodup_iff in E'.
    assert (NoDup (map fst m)) by (eapply Permutation_NoDup; [apply map_fst_cmap_perm|exact E']).
    apply keys_nodup_iff in H. congruence.
Qed.

Theorem bind_struct_canon sc m : bind_struct sc (canon (Map m)) = bind_struct sc (Map m).
Proof.
  cbn [canon bind_struct]. fold (cmap m). rewrite keys_nodup_cmap.
  destruct (keys_nodup m) eqn:En; [|reflexivity]. cbn [andb]. apply keys_nodup_iff in En. f_equal.
  - unfold cmap. rewrite (forallb_perm _ _ _ (sortk_perm _)).
    induction m as [|e r IH]; cbn [map forallb fst]; [reflexivity|]. f_equal. apply IH. inversion En; assumption.
  - apply forallb_ext'. intros [[[name k] opt] nl]. unfold field_ok. rewrite (map_get_cmap name m En).
    destruct (map_get name m) as [v|]; cbn [option_map]; [|reflexivity]. rewrite is_null_canon, kind_ok_canon. reflexivity.
Qed.

(* accessors *)
Lemma fget_canon k m : NoDup (map fst m) -> fget k (canon (Map m)) = option_map canon (fget k (Map m)).
Proof.
  intros Hn. cbn [canon fget]. fold (cmap m). rewrite (map_get_cmap (lit k) m Hn).
  destruct (map_get (lit k) m) as [v|]; cbn [option_map]; [|reflexivity]. destruct v; reflexivity.
Qed.
Lemma fstr_canon k m : NoDup (map fst m) -> fstr k (canon (Map m)) = fstr k (Map m).
Proof. intros Hn. unfold fstr. rewrite (fget_canon k m Hn). destruct (fget k (Map m)) as [[]|]; reflexivity. Qed.
Lemma fbytes_canon k m : NoDup (map fst m) -> fbytes k (canon (Map m)) = fbytes k (Map m).
Proof. intros Hn. unfold fbytes. rewrite (fget_canon k m Hn). destruct (fget k (Map m)) as [[]|]; reflexivity. Qed.
Lemma fint_canon k m : NoDup (map fst m) -> fint k (canon (Map m)) = fint k (Map m).
Proof. intros Hn. unfold fint. rewrite (fget_canon k m Hn). destruct (fget k (Map m)) as [[]|]; reflexivity. Qed.
Lemma has_canon k m : NoDup (map fst m) -> has k (canon (Map m)) = has k (Map m).
Proof. intros Hn. unfold has. rewrite (fget_canon k m Hn). destruct (fget k (Map m)); reflexivity. Qed.
Lemma fmap_canon k m : NoDup (map fst m) -> fmap k (canon (Map m)) = cmap (fmap k (Map m)).
Proof. intros Hn. unfold fmap. rewrite (fget_canon k m Hn). destruct (fget k (Map m)) as [[]|]; reflexivity. Qed.

(* ---- integers and policies ---- *)
Lemma ints_in53_canon n : ints_in53 (canon n) = ints_in53 n.
Proof.
  induction n as [| b | z | bits | s | s | l IH | m IH | c] using node_ind'; try reflexivity.
  - cbn [canon ints_in53]. induction IH as [|x r Hx _ IHr]; cbn [map forallb]; [reflexivity|]. rewrite Hx, IHr. reflexivity.
  - cbn [canon ints_in53]. rewrite (forallb_perm _ _ _ (sortk_perm _)).
    induction IH as [|x r Hx _ IHr]; cbn [map forallb snd]; [reflexivity|]. rewrite Hx, IHr. reflexivity.
Qed.

Fixpoint canon_stmt (s : tstmt) : tstmt :=
  match s with
  | TCmp op sel v => TCmp op sel (canon v)
  | TNot s => TNot (canon_stmt s)
  | TConn op ss => TConn op (map canon_stmt ss)
  | TLike sel pat => TLike sel pat
  | TQuant op sel s => TQuant op sel (canon_stmt s)
  end.

Lemma rmap_rmap {A B C} (f : A -> B) (g : B -> C) r : rmap g (rmap f r) = rmap (fun a => g (f a)) r.
Proof. destruct r; reflexivity. Qed.

Lemma stmts_from_list_canon l :
  (forall x, In x l -> stmt_from (canon x) = rmap canon_stmt (stmt_from x)) ->
  stmts_from_list (map canon l) = rmap (map canon_stmt) (stmts_from_list l).
Proof.
  induction l as [|x r IH]; intros H; cbn [map stmts_from_list]; [reflexivity|].
  rewrite (H x (or_introl eq_refl)). destruct (stmt_from x) as [s|e|]; cbn [rmap]; try reflexivity.
  rewrite (IH (fun y Hy => H y (or_intror Hy))). destruct (stmts_from_list r); reflexivity.
Qed.

Lemma stmt_from_canon_n k : forall n, (node_size n <= k)%nat -> stmt_from (canon n) = rmap canon_stmt (stmt_from n).
Proof.
  induction k as [|k IH]; intros n Hk; [destruct n; cbn in Hk; lia|].
  destruct n as [| | | | | |l| |]; try reflexivity.
  destruct l as [|x0 l]; [reflexivity|]. destruct x0 as [| | | |op| | | |]; try reflexivity.
  destruct l as [|a l]; [reflexivity|]. destruct l as [|c l].
  - cbn [canon map stmt_from]. destruct (str_eqb op (lit "not")).
    + rewrite (IH a) by (pose proof (size_in a [Str op; a] (or_intror (or_introl eq_refl))); lia).
      rewrite !rmap_rmap. reflexivity.
    + destruct (is_conn_op op); [|reflexivity]. destruct a as [| | | | | |l2| |]; try reflexivity.
      cbn [canon]. rewrite !inner_go_eq, stmts_from_list_canon, !rmap_rmap; [reflexivity|].
      intros x Hx. apply IH. pose proof (size_in x l2 Hx).
      pose proof (size_in (List l2) [Str op; List l2] (or_intror (or_introl eq_refl))). lia.
  - destruct l as [|d l]; [|reflexivity].
    destruct a as [| | | |st| | | |]; try reflexivity.
    cbn [canon map stmt_from]. destruct (is_cmp_op op); [rewrite !rmap_rmap; reflexivity|].
    destruct (str_eqb op (lit "like")).
    + destruct (sel_parse st); try reflexivity. destruct c; try reflexivity. cbn [canon]. destruct (Glob.parse_glob_ok _); reflexivity.
    + destruct (is_quant_op op); [|reflexivity]. destruct (sel_parse st); try reflexivity.
      rewrite (IH c) by (pose proof (size_in c [Str op; Str st; c] (or_intror (or_intror (or_introl eq_refl)))); lia).
      rewrite !rmap_rmap. reflexivity.
Qed.

Theorem pol_from_ipld_canon n : pol_from_ipld (canon n) = rmap (map canon_stmt) (pol_from_ipld n).
Proof.
  unfold pol_from_ipld. rewrite ints_in53_canon. destruct (negb (ints_in53 n)); [reflexivity|].
  destruct n as [| | | | | |l| |]; try reflexivity.
  cbn [canon]. apply stmts_from_list_canon. intros x _. apply (stmt_from_canon_n (node_size x)). lia.
Qed.

(* ---- the payload decoders on a canonicalised payload ---- *)
Definition canon_dtok (t : dtok) : dtok :=
  {| dk_iss := dk_iss t; dk_aud := dk_aud t; dk_sub := dk_sub t; dk_cmd := dk_cmd t; dk_pol := map canon_stmt (dk_pol t);
     dk_nonce := dk_nonce t; dk_meta := cmap (dk_meta t); dk_nbf := dk_nbf t; dk_exp := dk_exp t |}.
Definition canon_itok (t : itok) : itok :=
  {| ik_iss := ik_iss t; ik_sub := ik_sub t; ik_aud := ik_aud t; ik_cmd := ik_cmd t; ik_args := cmap (ik_args t);
     ik_prf := ik_prf t; ik_meta := cmap (ik_meta t); ik_nonce := ik_nonce t; ik_exp := ik_exp t; ik_iat := ik_iat t;
     ik_cause := ik_cause t |}.

Lemma pol_node_canon m : NoDup (map fst m) ->
  match canon (Map m) with Map m0 => match map_get (lit "pol") m0 with Some p => p | None => Null end | _ => Null end
  = canon (match map_get (lit "pol") m with Some p => p | None => Null end).
Proof. intros Hn. cbn [canon]. fold (cmap m). rewrite (map_get_cmap _ m Hn). destruct (map_get _ m); reflexivity. Qed.

Theorem dlg_from_payload_canon m : NoDup (map fst m) ->
  dlg_from_payload (canon (Map m)) = rmap canon_dtok (dlg_from_payload (Map m)).
Proof.
  intros Hn. unfold dlg_from_payload. rewrite bind_struct_canon.
  destruct (negb (bind_struct dlg_schema (Map m))); [reflexivity|].
  rewrite !(fstr_canon _ m Hn), !(has_canon _ m Hn), !(fbytes_canon _ m Hn), !(fint_canon _ m Hn), (fmap_canon _ m Hn).
  rewrite (pol_node_canon m Hn), pol_from_ipld_canon.
  destruct (did_parse (fstr "iss" (Map m))); try reflexivity.
  destruct (did_parse (fstr "aud" (Map m))); try reflexivity.
  destruct (opt_did _ _); try reflexivity.
  destruct (Command.parse _); try reflexivity.
  destruct (pol_from_ipld _); cbn [rmap]; try reflexivity.
  destruct (length (fbytes "nonce" (Map m)) =? 0)%nat; [reflexivity|].
  destruct (opt_timestamp (fint "nbf" (Map m))); try reflexivity.
  destruct (opt_timestamp (fint "exp" (Map m))); try reflexivity.
  destruct (length (fbytes "nonce" (Map m)) <? 12)%nat; reflexivity.
Qed.

Lemma links_of_canon x : links_of (canon x) = links_of x.
Proof.
  destruct x as [| | | | | |l| |]; try reflexivity. cbn [canon links_of]. rewrite map_map. apply map_ext.
  intros y. destruct y; reflexivity.
Qed.

Lemma args_ints_cmap a : forallb (fun kv => ints_in53 (snd kv)) (cmap a) = forallb (fun kv => ints_in53 (snd kv)) a.
Proof.
  unfold cmap. rewrite (forallb_perm _ _ _ (sortk_perm _)).
  induction a as [|e r IH]; cbn [map forallb snd]; [reflexivity|]. rewrite ints_in53_canon, IH. reflexivity.
Qed.

Theorem inv_from_payload_canon m : NoDup (map fst m) ->
  inv_from_payload (canon (Map m)) = rmap canon_itok (inv_from_payload (Map m)).
Proof.
  intros Hn. unfold inv_from_payload. rewrite bind_struct_canon.
  destruct (negb (bind_struct inv_schema (Map m))); [reflexivity|].
  rewrite !(fstr_canon _ m Hn), !(has_canon _ m Hn), !(fbytes_canon _ m Hn), !(fint_canon _ m Hn), !(fmap_canon _ m Hn),
          !(fget_canon _ m Hn), args_ints_cmap.
  destruct (did_parse (fstr "iss" (Map m))); try reflexivity.
  destruct (did_parse (fstr "sub" (Map m))); try reflexivity.
  destruct (opt_did _ _); try reflexivity.
  destruct (Command.parse _); try reflexivity.
  destruct (length (fbytes "nonce" (Map m)) =? 0)%nat; [reflexivity|].
  destruct (negb (forallb _ _)); [reflexivity|].
  destruct (opt_timestamp (fint "exp" (Map m))); try reflexivity.
  destruct (opt_timestamp (fint "iat" (Map m))); try reflexivity.
  destruct (length (fbytes "nonce" (Map m)) <? 12)%nat; [reflexivity|].
  cbn [rmap]. unfold canon_itok. cbn [ik_iss ik_sub ik_aud ik_cmd ik_args ik_prf ik_meta ik_nonce ik_exp ik_iat ik_cause].
  assert (E1 : links_of (match option_map canon (fget "prf" (Map m)) with Some l => l | None => Null end)
             = links_of (match fget "prf" (Map m) with Some l => l | None => Null end))
    by (destruct (fget "prf" (Map m)) as [x|]; cbn [option_map]; [apply links_of_canon|reflexivity]).
  assert (E2 : match option_map canon (fget "cause" (Map m)) with Some (Link c) => Some c | _ => None end
             = match fget "cause" (Map m) with Some (Link c) => Some c | _ => None end)
    by (destruct (fget "cause" (Map m)) as [[]|]; reflexivity).
  rewrite E1, E2. reflexivity.
Qed.
