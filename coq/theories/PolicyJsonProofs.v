(* C14, the DAG-JSON route: a policy written as DAG-JSON text and read back is the policy that was written, up to the
   order of the entries of map literals in its values - and such a policy gives the same verdict on every data. *)
From Coq Require Import String.
Require Import Base Node Cbor CborProofs SealedBytes Selector SelParse Glob Policy PolicyProofs PolicyIpld PolicyIpldProofs
  EqualityProofs CanonProofs DagJson DagJsonProofs JsonSealProofs.
Local Open Scope N_scope.

(* ---------- evaluation does not see the canonical order of map literals ---------- *)
Lemma is_ordered_canon op v r : is_ordered op (canon v) r = is_ordered op v r.
Proof. destruct v; reflexivity. Qed.

Lemma sem_canon_stmt_ev : forall s n, ev (sem (canon_stmt s)) n = ev (sem s) n.
Proof.
  fix IH 1. intros s n. destruct s as [op sel v | s | op ss | sel pat | op sel s]; cbn [canon_stmt sem].
  - destruct (cmp_of op); cbn [ev]; unfold on_sel; destruct (select (sel_segs sel) n) as [[r|]| |]; try reflexivity.
    + rewrite is_ordered_canon. reflexivity.
    + rewrite deep_equal_canon_l. reflexivity.
  - cbn [ev]. rewrite IH. reflexivity.
  - rewrite map_map.
    assert (A1 : fold_right (fun s acc => mmin (ev s n) acc) RT (map (fun x => sem (canon_stmt x)) ss)
               = fold_right (fun s acc => mmin (ev s n) acc) RT (map sem ss)).
    { revert ss. fix IHl 1. intros [|x r]; [reflexivity|]. cbn [map fold_right]. rewrite IH, IHl. reflexivity. }
    assert (A2 : fold_right (fun s acc => mmax (ev s n) acc) RF (map (fun x => sem (canon_stmt x)) ss)
               = fold_right (fun s acc => mmax (ev s n) acc) RF (map sem ss)).
    { clear A1. revert ss. fix IHl 1. intros [|x r]; [reflexivity|]. cbn [map fold_right]. rewrite IH, IHl. reflexivity. }
    destruct (str_eqb op (lit "and")); cbn [ev]; [exact A1|].
    destruct ss as [|s0 ss']; [reflexivity|]. cbn [map] in *. exact A2.
  - reflexivity.
  - destruct (str_eqb op (lit "all")); cbn [ev]; unfold on_sel; destruct (select (sel_segs sel) n) as [[r|]| |]; try reflexivity;
      destruct r; try reflexivity; unfold quant;
      (induction l as [|x l IHl]; [reflexivity|]; cbn [fold_right]; rewrite IH, IHl; reflexivity).
Qed.

Lemma forallb_map' {A B} (g : B -> bool) (f : A -> B) l : forallb g (map f l) = forallb (fun x => g (f x)) l.
Proof. induction l as [|x l IH]; cbn; [reflexivity|]. rewrite IH. reflexivity. Qed.

Theorem policy_verdict_ignores_literal_order p p' n : map canon_stmt p' = map canon_stmt p ->
  policy_match (map sem p') n = policy_match (map sem p) n /\ policy_partial (map sem p') n = policy_partial (map sem p) n.
Proof.
  intros E.
  assert (V : map (fun s => ev (sem s) n) p' = map (fun s => ev (sem s) n) p).
  { transitivity (map (fun s => ev (sem s) n) (map canon_stmt p')).
    - rewrite map_map. apply map_ext. intros s. symmetry. apply sem_canon_stmt_ev.
    - rewrite E, map_map. apply map_ext. intros s. apply sem_canon_stmt_ev. }
  unfold policy_match, policy_partial. rewrite !forallb_map'.
  rewrite <- (forallb_map' pass_match (fun s => ev (sem s) n) p'), <- (forallb_map' pass_match (fun s => ev (sem s) n) p).
  rewrite <- (forallb_map' pass_partial (fun s => ev (sem s) n) p'), <- (forallb_map' pass_partial (fun s => ev (sem s) n) p).
  rewrite V. split; reflexivity.
Qed.

(* ---------- ToDagJson then FromDagJson ---------- *)
Definition pol_to_json (p : list tstmt) : str := jenc (pol_to_ipld p).
Definition pol_from_json (fuel : nat) (t : str) : res (list tstmt) :=
  match jdec fuel t with Some (n, []) => pol_from_ipld n | _ => Err 50 end.

Theorem policy_json_roundtrip p f : Forall wf_stmt p -> ints_in53 (pol_to_ipld p) = true ->
  jsafe (pol_to_ipld p) -> keys_distinct (pol_to_ipld p) -> (jdepth (pol_to_ipld p) <= f)%nat ->
  exists p', pol_from_json f (pol_to_json p) = Ok p' /\ map canon_stmt p' = map canon_stmt p.
Proof.
  intros Hw Hi Hs Hk Hf. unfold pol_from_json, pol_to_json. rewrite (dagjson_roundtrip _ f Hs Hf).
  pose proof (pol_to_from p Hw Hi) as R.
  pose proof (pol_from_ipld_canon (pol_to_ipld p)) as C1. rewrite R in C1. cbn [rmap] in C1.
  pose proof (pol_from_ipld_canon (canonj (pol_to_ipld p))) as C2. rewrite (canon_canonj _ Hk), C1 in C2.
  destruct (pol_from_ipld (canonj (pol_to_ipld p))) as [p'| |]; cbn [rmap] in C2; try discriminate.
  exists p'. split; [reflexivity|]. congruence.
Qed.

(* a policy that went through DAG-JSON gives the verdicts of the one that was written *)
Corollary policy_json_same_verdicts p f n : Forall wf_stmt p -> ints_in53 (pol_to_ipld p) = true ->
  jsafe (pol_to_ipld p) -> keys_distinct (pol_to_ipld p) -> (jdepth (pol_to_ipld p) <= f)%nat ->
  exists p', pol_from_json f (pol_to_json p) = Ok p' /\
             policy_match (map sem p') n = policy_match (map sem p) n /\ policy_partial (map sem p') n = policy_partial (map sem p) n.
Proof.
  intros Hw Hi Hs Hk Hf. destruct (policy_json_roundtrip p f Hw Hi Hs Hk Hf) as (p' & E & C).
  exists p'. split; [exact E|]. apply policy_verdict_ignores_literal_order. exact C.
Qed.
