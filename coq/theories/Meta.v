(* Model of pkg/meta/internal/crypto/secretbox.go and of the encrypted accessors of pkg/meta/meta.go.
   NaCl secretbox (XSalsa20-Poly1305) is a section variable. *)
Require Import Base Node.
Local Open Scope N_scope.

Section Secretbox.
  (* secretbox.Seal / Open for a key, a 24-byte nonce and a message (without the nonce prefix) *)
  Variable box : str -> str -> str -> str.
  Variable unbox : str -> str -> str -> option str.

  (* validateKey: 1 = no key, 2 = wrong size, 3 = all zero *)
  Definition validate_key (key : option str) : res str :=
    match key with
    | None => Err 1
    | Some k => if negb (length k =? 32)%nat then Err 2
                else if forallb (N.eqb 0) k then Err 3 else Ok k
    end.

  (* EncryptWithKey, with the 24 random bytes as a parameter *)
  Definition encrypt (key : option str) (nonce data : str) : res str :=
    match validate_key key with
    | Ok k => Ok (nonce ++ box k nonce data)
    | Err e => Err e
    | Panic => Panic
    end.

  (* DecryptStringWithKey: 4 = ciphertext too short, 5 = authentication failed *)
  Definition decrypt (key : option str) (data : str) : res str :=
    match validate_key key with
    | Ok k => if (length data <? 24)%nat then Err 4
              else match unbox k (firstn 24 data) (skipn 24 data) with Some p => Ok p | None => Err 5 end
    | Err e => Err e
    | Panic => Panic
    end.

  (* Meta as an association list in insertion order; Add refuses duplicate keys (6) *)
  Definition meta := list (str * node).
  Definition meta_add (m : meta) (k : str) (v : node) : res meta :=
    match map_get k m with Some _ => Err 6 | None => Ok (m ++ [(k, v)]) end.
  (* AddEncrypted (string or []byte value) *)
  Definition add_encrypted (m : meta) (k : str) (val : str) (key : option str) (nonce : str) : res meta :=
    match encrypt key nonce val with
    | Ok ct => meta_add m k (Bytes ct)
    | Err e => Err e
    | Panic => Panic
    end.
  (* GetEncryptedBytes / GetEncryptedString: 7 = not found, 8 = not bytes *)
  Definition get_encrypted (m : meta) (k : str) (key : option str) : res str :=
    match map_get k m with
    | None => Err 7
    | Some (Bytes ct) => decrypt key ct
    | Some _ => Err 8
    end.
End Secretbox.
