From Coq Require Import String.
Require Import Base Node Did Command CommandProofs SelParse Policy PolicyIpld PolicyIpldProofs Generated Token.
Local Open Scope N_scope.

Lemma in53_int64 z : in53 z = true -> in_int64 z = true.
Proof. unfold in53, in_int64, max53, src_max_int53. rewrite !andb_true_iff, !Z.leb_le. lia. Qed.

Lemma opt_timestamp_ok z : opt_in53 z -> opt_timestamp z = Ok z.
Proof. destruct z as [s|]; cbn; [intros ->; reflexivity|reflexivity]. Qed.

Theorem dlg_payload_roundtrip t : dlg_constructed t -> dlg_from_payload (dlg_to_payload t) = Ok t.
Proof.
  intros [Hiss Haud Hsub Hcmd [Hpol Hpi] Hn Hmeta Hnbf Hexp].
  destruct t as [iss aud sub cmd pol nonce meta nbf exp]. cbn [dk_iss dk_aud dk_sub dk_cmd dk_pol dk_nonce dk_meta dk_nbf dk_exp] in *.
  unfold dlg_from_payload.
  assert (Hb : bind_struct dlg_schema (dlg_to_payload {| dk_iss := iss; dk_aud := aud; dk_sub := sub; dk_cmd := cmd; dk_pol := pol;
                 dk_nonce := nonce; dk_meta := meta; dk_nbf := nbf; dk_exp := exp |}) = true).
  { unfold dlg_to_payload. cbn [dk_iss dk_aud dk_sub dk_cmd dk_pol dk_nonce dk_meta dk_nbf dk_exp].
    generalize (did_print iss) (did_print aud) (pol_to_ipld pol). intros si sa p.
    destruct sub as [sub|]; cbn [option_map opt_entry app]; [generalize (did_print sub); intros ss|];
    unfold no_null_values in Hmeta;
    destruct meta as [|m0 meta], nbf as [nbf|], exp as [exp|]; cbn [option_map opt_entry app]; cbn in Hnbf, Hexp;
      try (apply in53_int64 in Hnbf); try (apply in53_int64 in Hexp);
      cbv -[in_int64]; cbv in Hmeta; rewrite ?Hnbf, ?Hexp, ?Hmeta; reflexivity. }
  rewrite Hb. cbn [negb]. clear Hb.
  set (P := dlg_to_payload _).
  assert (E_iss : fstr "iss" P = did_print iss) by (subst P; destruct sub, meta, nbf, exp; reflexivity).
  assert (E_aud : fstr "aud" P = did_print aud) by (subst P; destruct sub, meta, nbf, exp; reflexivity).
  assert (E_sub : opt_did (has "sub" P) (fstr "sub" P) = Ok sub).
  { subst P; destruct sub as [d|], meta, nbf, exp; cbn in Hsub; try reflexivity;
      (change (opt_did true (did_print d) = Ok (Some d)); unfold opt_did; rewrite Hsub; reflexivity). }
  assert (E_cmd : fstr "cmd" P = cmd) by (subst P; destruct sub, meta, nbf, exp; reflexivity).
  assert (E_pol : match P with Map m => match map_get (lit "pol") m with Some p => p | None => Null end | _ => Null end = pol_to_ipld pol)
    by (subst P; destruct sub, meta, nbf, exp; reflexivity).
  assert (E_nonce : fbytes "nonce" P = nonce) by (subst P; destruct sub, meta, nbf, exp; reflexivity).
  assert (E_meta : fmap "meta" P = meta) by (subst P; destruct sub, meta, nbf, exp; reflexivity).
  assert (E_nbf : fint "nbf" P = nbf) by (subst P; destruct sub, meta, nbf, exp; reflexivity).
  assert (E_exp : fint "exp" P = exp) by (subst P; destruct sub, meta, nbf, exp; reflexivity).
  rewrite E_iss, E_aud, E_sub, E_cmd, E_pol, E_nonce, E_meta, E_nbf, E_exp. clearbody P.
  unfold did_ok in Hiss, Haud. rewrite Hiss, Haud. cbn [bind]. rewrite Hcmd. cbn [bind].
  rewrite (pol_to_from _ Hpol Hpi). cbn [bind].
  destruct (Nat.eqb_spec (length nonce) 0); [lia|].
  rewrite (opt_timestamp_ok _ Hnbf), (opt_timestamp_ok _ Hexp). cbn [bind].
  destruct (Nat.ltb_spec (length nonce) 12); [lia|]. reflexivity.
Qed.

Theorem inv_payload_roundtrip t : inv_constructed t -> inv_from_payload (inv_to_payload t) = Ok t.
Proof.
  intros [Hiss Hsub Haud Hcmd [Hargs Hnd] Hn [Hmeta Hargsn] Hexp Hiat].
  destruct t as [iss sub aud cmd args prf meta nonce exp iat cause].
  cbn [ik_iss ik_sub ik_aud ik_cmd ik_args ik_prf ik_meta ik_nonce ik_exp ik_iat ik_cause] in *.
  unfold inv_from_payload.
  assert (Hl : forallb is_link (map Link prf) = true) by (induction prf; cbn; auto).
  assert (Hb : bind_struct inv_schema (inv_to_payload {| ik_iss := iss; ik_sub := sub; ik_aud := aud; ik_cmd := cmd; ik_args := args;
                 ik_prf := prf; ik_meta := meta; ik_nonce := nonce; ik_exp := exp; ik_iat := iat; ik_cause := cause |}) = true).
  { unfold inv_to_payload. cbn [ik_iss ik_sub ik_aud ik_cmd ik_args ik_prf ik_meta ik_nonce ik_exp ik_iat ik_cause].
    generalize (did_print iss) (did_print sub). intros si ss. revert Hl. generalize (map Link prf). intros lp Hl.
    destruct aud as [aud|]; cbn [option_map opt_entry app]; [generalize (did_print aud); intros sa|];
    unfold no_null_values in Hmeta, Hargsn;
    destruct meta as [|m0 meta], exp as [exp|], iat as [iat|], cause as [cause|]; cbn [option_map opt_entry app]; cbn in Hexp, Hiat;
      try (apply in53_int64 in Hexp); try (apply in53_int64 in Hiat);
      cbv -[in_int64]; cbv in Hl; cbv in Hmeta; cbv in Hargsn; rewrite ?Hexp, ?Hiat, ?Hl, ?Hargsn, ?Hmeta; reflexivity. }
  rewrite Hb. cbn [negb]. clear Hb.
  set (P := inv_to_payload _).
  assert (E_iss : fstr "iss" P = did_print iss) by (subst P; destruct aud, meta, exp, iat, cause; reflexivity).
  assert (E_sub : fstr "sub" P = did_print sub) by (subst P; destruct aud, meta, exp, iat, cause; reflexivity).
  assert (E_aud : opt_did (has "aud" P) (fstr "aud" P) = Ok aud).
  { subst P; destruct aud as [d|], meta, exp, iat, cause; cbn in Haud; try reflexivity;
      (change (opt_did true (did_print d) = Ok (Some d)); unfold opt_did; rewrite Haud; reflexivity). }
  assert (E_cmd : fstr "cmd" P = cmd) by (subst P; destruct aud, meta, exp, iat, cause; reflexivity).
  assert (E_args : fmap "args" P = args) by (subst P; destruct aud, meta, exp, iat, cause; reflexivity).
  assert (E_prf : links_of (match fget "prf" P with Some l => l | None => Null end) = prf).
  { assert (forall l, links_of (List (map Link l)) = l) by (intros l; induction l as [|x l IHl]; [reflexivity|]; cbn [map links_of] in *; f_equal; exact IHl).
    subst P; destruct aud, meta, exp, iat, cause; apply H. }
  assert (E_nonce : fbytes "nonce" P = nonce) by (subst P; destruct aud, meta, exp, iat, cause; reflexivity).
  assert (E_meta : fmap "meta" P = meta) by (subst P; destruct aud, meta, exp, iat, cause; reflexivity).
  assert (E_exp : fint "exp" P = exp) by (subst P; destruct aud, meta, exp, iat, cause; reflexivity).
  assert (E_iat : fint "iat" P = iat) by (subst P; destruct aud, meta, exp, iat, cause; reflexivity).
  assert (E_cause : match fget "cause" P with Some (Link c) => Some c | _ => None end = cause)
    by (subst P; destruct aud, meta, exp, iat, cause; reflexivity).
  rewrite E_iss, E_sub, E_aud, E_cmd, E_args, E_prf, E_nonce, E_meta, E_exp, E_iat, E_cause. clearbody P.
  unfold did_ok in Hiss, Hsub. rewrite Hiss, Hsub. cbn [bind]. rewrite Hcmd. cbn [bind].
  destruct (Nat.eqb_spec (length nonce) 0); [lia|]. rewrite Hargs. cbn [negb].
  rewrite (opt_timestamp_ok _ Hexp), (opt_timestamp_ok _ Hiat). cbn [bind].
  destruct (Nat.ltb_spec (length nonce) 12); [lia|]. reflexivity.
Qed.

(* ---- what every decoded token satisfies (C10) ---- *)
Lemma bind_ok {A B} (r : res A) (f : A -> res B) b : bind r f = Ok b -> exists a, r = Ok a /\ f a = Ok b.
Proof. destruct r; cbn; try discriminate. eauto. Qed.

Lemma opt_timestamp_in53 z r : opt_timestamp z = Ok r -> r = z /\ opt_in53 z.
Proof. destruct z as [s|]; cbn; [destruct (in53 s) eqn:E; [intros [= <-]; auto|discriminate] | intros [= <-]; auto]. Qed.

Theorem dlg_decoded_wf n t : dlg_from_payload n = Ok t ->
  bind_struct dlg_schema n = true /\
  (exists s, did_parse s = Ok (dk_iss t)) /\ (exists s, did_parse s = Ok (dk_aud t)) /\
  (match dk_sub t with Some d => exists s, did_parse s = Ok d | None => True end) /\
  (exists s, Command.parse s = Ok (dk_cmd t)) /\
  (exists p, pol_from_ipld p = Ok (dk_pol t) /\ ints_in53 p = true) /\
  (12 <= length (dk_nonce t))%nat /\ opt_in53 (dk_nbf t) /\ opt_in53 (dk_exp t).
Proof.
  unfold dlg_from_payload. destruct (bind_struct dlg_schema n) eqn:Eb; cbn [negb]; [|discriminate]. intros H.
  apply bind_ok in H as (iss & Hi & H). apply bind_ok in H as (aud & Ha & H). apply bind_ok in H as (sub & Hs & H).
  apply bind_ok in H as (cmd & Hc & H). apply bind_ok in H as (pol & Hp & H).
  destruct (Nat.eqb_spec (length (fbytes "nonce" n)) 0); [discriminate|].
  apply bind_ok in H as (nbf & Hn & H). apply bind_ok in H as (exp & He & H).
  destruct (Nat.ltb_spec (length (fbytes "nonce" n)) 12); [discriminate|]. injection H as <-.
  cbn [dk_iss dk_aud dk_sub dk_cmd dk_pol dk_nonce dk_nbf dk_exp].
  apply opt_timestamp_in53 in Hn as [-> Hn]. apply opt_timestamp_in53 in He as [-> He].
  repeat split; eauto.
  - unfold opt_did in Hs. destruct (has "sub" n); [|injection Hs as <-; exact I].
    destruct (did_parse (fstr "sub" n)) eqn:E; try discriminate. injection Hs as <-. eauto.
  - eexists. split; [exact Hp|]. unfold pol_from_ipld in Hp. destruct (ints_in53 _); [reflexivity|discriminate].
Qed.

Theorem inv_decoded_wf n t : inv_from_payload n = Ok t ->
  bind_struct inv_schema n = true /\
  (exists s, did_parse s = Ok (ik_iss t)) /\ (exists s, did_parse s = Ok (ik_sub t)) /\
  (match ik_aud t with Some d => exists s, did_parse s = Ok d | None => True end) /\
  (exists s, Command.parse s = Ok (ik_cmd t)) /\
  forallb (fun kv => ints_in53 (snd kv)) (ik_args t) = true /\
  (12 <= length (ik_nonce t))%nat /\ opt_in53 (ik_exp t) /\ opt_in53 (ik_iat t).
Proof.
  unfold inv_from_payload. destruct (bind_struct inv_schema n) eqn:Eb; cbn [negb]; [|discriminate]. intros H.
  apply bind_ok in H as (iss & Hi & H). apply bind_ok in H as (sub & Hs & H). apply bind_ok in H as (aud & Ha & H).
  apply bind_ok in H as (cmd & Hc & H).
  destruct (Nat.eqb_spec (length (fbytes "nonce" n)) 0); [discriminate|].
  destruct (forallb _ (fmap "args" n)) eqn:Eargs; cbn [negb] in H; [|discriminate].
  apply bind_ok in H as (exp & He & H). apply bind_ok in H as (iat & Ht & H).
  destruct (Nat.ltb_spec (length (fbytes "nonce" n)) 12); [discriminate|]. injection H as <-.
  cbn [ik_iss ik_sub ik_aud ik_cmd ik_args ik_nonce ik_exp ik_iat].
  apply opt_timestamp_in53 in He as [-> He]. apply opt_timestamp_in53 in Ht as [-> Ht].
  repeat split; eauto.
  unfold opt_did in Ha. destruct (has "aud" n); [|injection Ha as <-; exact I].
  destruct (did_parse (fstr "aud" n)) eqn:E; try discriminate. injection Ha as <-. eauto.
Qed.

(* ---- schema strictness ---- *)
Definition fname (f : str * N * bool * bool) : str := fst (fst (fst f)).

Theorem unknown_field_rejected sc m k v :
  In (k, v) m -> (forall f, In f sc -> fname f <> k) -> bind_struct sc (Map m) = false.
Proof.
  intros Hin Hno. unfold bind_struct. apply andb_false_iff. left. apply andb_false_iff. right.
  apply not_true_is_false. intros H. rewrite forallb_forall in H. specialize (H _ Hin).
  apply existsb_exists in H as (f & Hf & He). apply str_eqb_eq in He. apply (Hno f Hf). exact He.
Qed.

Theorem missing_required_field_rejected sc m name k nl :
  In (name, k, false, nl) sc -> map_get name m = None -> bind_struct sc (Map m) = false.
Proof.
  intros Hin Hm. unfold bind_struct. apply andb_false_iff. right.
  apply not_true_is_false. intros H. rewrite forallb_forall in H. specialize (H _ Hin).
  unfold field_ok in H. rewrite Hm in H. discriminate.
Qed.

Theorem wrongly_typed_field_rejected sc m name k o nl v :
  In (name, k, o, nl) sc -> map_get name m = Some v -> k <> 3 -> is_null v = false -> kind_ok k v = false ->
  bind_struct sc (Map m) = false.
Proof.
  intros Hin Hm Hk Hn Hv. unfold bind_struct. apply andb_false_iff. right.
  apply not_true_is_false. intros H. rewrite forallb_forall in H. specialize (H _ Hin).
  unfold field_ok in H. rewrite Hm, Hn, Hv in H. apply N.eqb_neq in Hk. rewrite Hk in H. discriminate.
Qed.

Theorem null_for_non_nullable_rejected sc m name k o :
  In (name, k, o, false) sc -> map_get name m = Some Null -> k <> 3 -> bind_struct sc (Map m) = false.
Proof.
  intros Hin Hm Hk. unfold bind_struct. apply andb_false_iff. right.
  apply not_true_is_false. intros H. rewrite forallb_forall in H. specialize (H _ Hin).
  unfold field_ok in H. rewrite Hm in H. cbn [is_null] in H. apply N.eqb_neq in Hk. rewrite Hk in H. discriminate.
Qed.

(* ---- what every constructed token satisfies (C10), and why it can be sealed and read back (C07) ---- *)
Lemma opt_in53b_prop z : opt_in53b z = true -> opt_in53 z.
Proof. destruct z; cbn; auto. Qed.

Lemma parse_ok_self s : is_ok (Command.parse s) = true -> Command.parse s = Ok s.
Proof.
  unfold Command.parse. destruct (negb (has_prefix top s)); [discriminate|].
  destruct ((1 <? length s)%nat && (last s 0 =? sep)); [discriminate|].
  destruct (negb (Utf8.lower_fixed s)); [discriminate|]. reflexivity.
Qed.

Theorem dlg_new_wf iss aud sub cmd pol ng r12 meta nbf exp t :
  dlg_new iss aud sub cmd pol ng r12 meta nbf exp = Ok t ->
  defined (dk_iss t) = true /\ defined (dk_aud t) = true /\ (12 <= length (dk_nonce t))%nat /\
  Command.parse (dk_cmd t) = Ok (dk_cmd t) /\ opt_in53 (dk_nbf t) /\ opt_in53 (dk_exp t) /\
  ints_in53 (pol_to_ipld (dk_pol t)) = true /\
  t = {| dk_iss := iss; dk_aud := aud; dk_sub := sub; dk_cmd := cmd; dk_pol := pol;
         dk_nonce := default_nonce ng r12; dk_meta := meta; dk_nbf := nbf; dk_exp := exp |}.
Proof.
  unfold dlg_new, dlg_validate. cbn [dk_iss dk_aud dk_sub dk_cmd dk_pol dk_nonce dk_meta dk_nbf dk_exp].
  destruct (defined iss) eqn:E1; cbn [negb]; [|discriminate].
  destruct (defined aud) eqn:E2; cbn [negb]; [|discriminate].
  destruct (Nat.ltb_spec (length (default_nonce ng r12)) 12); [discriminate|].
  destruct (is_ok (Command.parse cmd)) eqn:E4; cbn [negb]; [|discriminate].
  destruct (opt_in53b nbf && opt_in53b exp) eqn:E5; cbn [negb]; [|discriminate].
  destruct (ints_in53 (pol_to_ipld pol)) eqn:E6; cbn [negb]; [|discriminate].
  intros [= <-]. cbn. apply andb_true_iff in E5 as [E5a E5b].
  repeat split; auto using parse_ok_self, opt_in53b_prop.
Qed.

Theorem inv_new_wf iss sub aud cmd args prf ng r12 meta exp iat cause t :
  inv_new iss sub aud cmd args prf ng r12 meta exp iat cause = Ok t ->
  defined (ik_iss t) = true /\ defined (ik_sub t) = true /\ (12 <= length (ik_nonce t))%nat /\
  Command.parse (ik_cmd t) = Ok (ik_cmd t) /\ opt_in53 (ik_exp t) /\ opt_in53 (ik_iat t) /\
  ik_aud t = norm_aud sub aud.
Proof.
  unfold inv_new, inv_validate. cbn [ik_iss ik_sub ik_aud ik_cmd ik_args ik_prf ik_meta ik_nonce ik_exp ik_iat ik_cause].
  destruct (defined iss) eqn:E1; cbn [negb]; [|discriminate].
  destruct (defined sub) eqn:E2; cbn [negb]; [|discriminate].
  destruct (Nat.ltb_spec (length (default_nonce ng r12)) 12); [discriminate|].
  destruct (is_ok (Command.parse cmd)) eqn:E4; cbn [negb]; [|discriminate].
  destruct (opt_in53b exp && opt_in53b iat) eqn:E5; cbn [negb]; [|discriminate].
  intros [= <-]. cbn. apply andb_true_iff in E5 as [E5a E5b].
  repeat split; auto using parse_ok_self, opt_in53b_prop.
Qed.

(* a token a constructor returned, over DIDs that came out of the DID package and statements that came out
   of the policy constructors, meets the premises of the seal -> unseal theorems *)
Theorem dlg_new_constructed iss aud sub cmd pol ng r12 meta nbf exp t :
  dlg_new iss aud sub cmd pol ng r12 meta nbf exp = Ok t ->
  did_ok iss -> did_ok aud -> match sub with Some d => did_ok d | None => True end ->
  Forall wf_stmt pol -> no_null_values meta = true -> dlg_constructed t.
Proof.
  intros H Hi Ha Hs Hp Hm. apply dlg_new_wf in H as (_ & _ & Hn & Hc & Hnbf & Hexp & Hpi & ->).
  constructor; cbn; auto.
Qed.

Lemma norm_aud_ok sub aud : match aud with Some d => did_ok d | None => True end ->
  match norm_aud sub aud with Some d => did_ok d | None => True end.
Proof. unfold norm_aud. destruct aud as [a|]; [|auto]. destruct (did_eqb a sub); auto. Qed.

Theorem inv_new_constructed iss sub aud cmd args prf ng r12 meta exp iat cause t :
  inv_new iss sub aud cmd args prf ng r12 meta exp iat cause = Ok t ->
  did_ok iss -> did_ok sub -> match aud with Some d => did_ok d | None => True end ->
  forallb (fun kv => ints_in53 (snd kv)) args = true -> keys_nodup args = true ->
  no_null_values meta = true -> no_null_values args = true -> inv_constructed t.
Proof.
  intros H Hi Hs Ha Hai Hak Hm Han. pose proof H as H0. apply inv_new_wf in H0 as (_ & _ & Hn & Hc & Hexp & Hiat & Haud).
  unfold inv_new, inv_validate in H.
  cbn [ik_iss ik_sub ik_aud ik_cmd ik_args ik_prf ik_meta ik_nonce ik_exp ik_iat ik_cause] in H.
  destruct (negb (defined iss)); [discriminate|]. destruct (negb (defined sub)); [discriminate|].
  destruct (length (default_nonce ng r12) <? 12)%nat; [discriminate|].
  destruct (negb (is_ok (Command.parse cmd))); [discriminate|].
  destruct (negb (opt_in53b exp && opt_in53b iat)); [discriminate|]. injection H as <-.
  constructor; cbn [ik_iss ik_sub ik_aud ik_cmd ik_args ik_prf ik_meta ik_nonce ik_exp ik_iat ik_cause] in *; auto.
  apply norm_aud_ok. exact Ha.
Qed.
