(* C01 - Authority is rooted in the subject and flows link by link to the invoker. *)
Require Import Base Node Command Selector Policy Chain ChainProofs.
Local Open Scope Z_scope.

Theorem C01_allowed_only_if_principals_aligned : forall now ld i,
  allowed now ld i = true ->
  exists ds, i_prf i <> [] /\ map ld (i_prf i) = map Some ds /\
    (forall d0 r, ds = d0 :: r -> d_aud d0 = i_iss i) /\
    (forall k d d', nth_error ds k = Some d -> nth_error ds (S k) = Some d' -> d_iss d = d_aud d') /\
    (exists l, last ds l = l /\ d_iss l = d_sub l) /\
    Forall (fun d => d_sub d = i_sub i) ds.
Proof. exact allowed_principals. Qed.
Print Assumptions C01_allowed_only_if_principals_aligned.

(* equality of the whole decision, for every value of the audience *)
Theorem C01_audience_has_no_influence : forall now ld i aud,
  allowed now ld (set_irrelevant aud i) = allowed now ld i.
Proof. exact audience_irrelevant. Qed.
Print Assumptions C01_audience_has_no_influence.

Theorem C01_decision_is_exactly_the_rules : forall now ld i,
  allowed now ld i = true <-> exists ds, spec_allowed now ld i (i_args i) ds.
Proof. exact allowed_iff_spec. Qed.
Print Assumptions C01_decision_is_exactly_the_rules.

(* non-vacuity: a 3-link chain with a self-delegation is allowed; the same chain rooted in the
   audience's authority instead of the subject's is denied *)
Definition mk (i a s : N) (c : str) : dlg :=
  {| d_iss := [i]; d_aud := [a]; d_sub := [s]; d_cmd := c; d_pol := []; d_nbf := None; d_exp := None |}.
Definition store (l : list (N * dlg)) : loader :=
  fun c => match c with [k] => (fix go l := match l with [] => None | (k', d) :: r => if (k =? k')%N then Some d else go r end) l | _ => None end.
Example C01_nonvacuous :
  let ld := store [(1%N, mk 66 67 65 [47%N]); (2%N, mk 66 66 65 [47%N]); (3%N, mk 65 66 65 [47%N]); (4%N, mk 88 67 88 [47%N])] in
  let i := {| i_iss := [67%N]; i_sub := [65%N]; i_aud := [88%N]; i_cmd := [47%N; 97%N]; i_args := Map []; i_prf := [[1%N]; [2%N]; [3%N]]; i_exp := None |} in
  allowed 0 ld i = true /\
  allowed 0 ld {| i_iss := [67%N]; i_sub := [65%N]; i_aud := [88%N]; i_cmd := [47%N]; i_args := Map []; i_prf := [[4%N]]; i_exp := None |} = false.
Proof. split; vm_compute; reflexivity. Qed.
