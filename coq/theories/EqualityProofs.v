(* The equality of the policy language does not see the order of map entries: comparing values is comparing
   their canonical forms (Cbor.canon: entries sorted, recursively), on either side. *)
From Coq Require Import String Permutation.
Require Import Base Node Cbor CborProofs SealedBytes Policy CanonProofs.
Local Open Scope N_scope.

Definition entries_eq (deq : node -> node -> bool) (y : list (str * node)) (x : list (str * node)) : bool :=
  forallb (fun kp => match map_get (fst kp) y with Some q => deq (snd kp) q | None => false end) x.

Lemma deep_equal_map x y : deep_equal (Map x) (Map y) = (length x =? length y)%nat && entries_eq deep_equal y x.
Proof.
  cbn [deep_equal]. f_equal. unfold entries_eq. induction x as [|[k p] r IH]; [reflexivity|].
  cbn [forallb fst snd]. rewrite IH. reflexivity.
Qed.

Lemma deep_equal_list x y : deep_equal (List x) (List y) =
  (fix go (x y : list node) : bool := match x, y with [] , [] => true | p :: x', q :: y' => deep_equal p q && go x' y' | _, _ => false end) x y.
Proof. reflexivity. Qed.

(* canonicalising the right-hand value changes nothing *)
Theorem deep_equal_canon_r a : forall b, keys_distinct b -> deep_equal a (canon b) = deep_equal a b.
Proof.
  induction a as [| ba | za | fa | sa | sa | la IH | ma IH | ca] using node_ind'; intros b Hb;
    destruct b as [| bb | zb | fb | sb | sb | lb | mb | cb]; try reflexivity.
  - (* lists *)
    cbn [canon]. rewrite !deep_equal_list. revert lb Hb.
    induction IH as [|p r Hp _ IHr]; intros lb Hb; destruct lb as [|q lb']; try reflexivity.
    cbn [map]. destruct Hb as [Hq Hb']. rewrite (Hp q Hq), (IHr lb' Hb'). reflexivity.
  - (* maps *)
    cbn [canon]. fold (cmap mb). rewrite !deep_equal_map. destruct Hb as [Hnd Hb].
    unfold cmap at 1. rewrite sortk_len, map_length. f_equal.
    unfold entries_eq. clear -IH Hnd Hb.
    induction IH as [|[k p] r Hp _ IHr]; [reflexivity|]. cbn [forallb fst snd]. rewrite IHr. f_equal.
    rewrite (map_get_cmap k mb Hnd). destruct (map_get k mb) as [q|] eqn:E; cbn [option_map]; [|reflexivity].
    apply Hp. cbn [snd] in Hp.
    (* q is a value of mb: its maps have distinct keys *)
    clear -Hb E. induction mb as [|[k' v'] mb' IHm]; [discriminate|]. cbn [map_get] in E. destruct Hb as [Hv Hb'].
    destruct (str_eqb k k'); [injection E as <-; exact Hv|exact (IHm Hb' E)].
Qed.

Lemma entries_eq_perm deq y x x' : Permutation x x' -> entries_eq deq y x = entries_eq deq y x'.
Proof. intros P. unfold entries_eq. apply forallb_perm. exact P. Qed.

(* ... nor does canonicalising the left-hand value *)
Theorem deep_equal_canon_l a : forall b, deep_equal (canon a) b = deep_equal a b.
Proof.
  induction a as [| ba | za | fa | sa | sa | la IH | ma IH | ca] using node_ind'; intros b;
    destruct b as [| bb | zb | fb | sb | sb | lb | mb | cb]; try reflexivity;
    try (cbn [canon]; destruct (sortk _) as [|[? ?] ?]; reflexivity).
  - cbn [canon]. rewrite !deep_equal_list. revert lb.
    induction IH as [|p r Hp _ IHr]; intros lb; destruct lb as [|q lb']; try reflexivity.
    cbn [map]. rewrite (Hp q), (IHr lb'). reflexivity.
  - cbn [canon]. rewrite !deep_equal_map. rewrite sortk_len, map_length. f_equal.
    rewrite (entries_eq_perm _ _ _ _ (sortk_perm _)).
    unfold entries_eq. clear -IH. induction IH as [|[k p] r Hp _ IHr]; [reflexivity|].
    cbn [map forallb fst snd]. rewrite IHr. f_equal. destruct (map_get k mb) as [q|]; [apply Hp|reflexivity].
Qed.

(* together: the order of entries, at any depth, on either side, is invisible to == *)
Theorem deep_equal_ignores_map_order a b : keys_distinct b -> deep_equal (canon a) (canon b) = deep_equal a b.
Proof. intros Hb. rewrite deep_equal_canon_l. apply deep_equal_canon_r. exact Hb. Qed.
