(* C04 - Expired or not-yet-active tokens never authorize. *)
Require Import Base Node Command Selector Policy Chain ChainProofs.
Local Open Scope Z_scope.

Theorem C04_valid_strictly_inside : forall nbf exp t,
  (forall n, nbf = Some n -> n < t) -> (forall e, exp = Some e -> t < e) -> valid_at nbf exp t = true.
Proof. exact valid_inside. Qed.
Print Assumptions C04_valid_strictly_inside.

Theorem C04_invalid_strictly_outside : forall nbf exp t,
  (exists n, nbf = Some n /\ t < n) \/ (exists e, exp = Some e /\ e < t) -> valid_at nbf exp t = false.
Proof. exact invalid_outside. Qed.
Print Assumptions C04_invalid_strictly_outside.

Theorem C04_allowed_only_if_all_valid_now : forall now ld i,
  allowed now ld i = true ->
  exists ds, map ld (i_prf i) = map Some ds /\ inv_valid_at now i = true /\
             Forall (fun d => dlg_valid_at now d = true) ds.
Proof. exact allowed_time. Qed.
Print Assumptions C04_allowed_only_if_all_valid_now.

Example C04_nonvacuous :
  valid_at (Some 10) (Some 20) 15 = true /\ valid_at (Some 10) (Some 20) 9 = false /\
  valid_at (Some 10) (Some 20) 21 = false /\ valid_at None None 0 = true.
Proof. repeat split. Qed.

(* the instants at which a chain authorises form an interval: allowed at two instants, allowed in between
   (only the time stage reads the clock); an expired token stays expired *)
Theorem C04_allowed_instants_form_an_interval : forall ld i t1 t2 t, t1 <= t <= t2 ->
  allowed t1 ld i = true -> allowed t2 ld i = true -> allowed t ld i = true.
Proof. exact allowed_convex. Qed.
Print Assumptions C04_allowed_instants_form_an_interval.
Theorem C04_expired_stays_expired : forall nbf e t t', e < t -> t <= t' -> valid_at nbf (Some e) t' = false.
Proof. exact expired_stays_expired. Qed.
Print Assumptions C04_expired_stays_expired.
Theorem C04_not_valid_before_not_before : forall n exp t t', t < n -> t' <= t -> valid_at (Some n) exp t' = false.
Proof. exact not_yet_valid_before. Qed.
Print Assumptions C04_not_valid_before_not_before.
