(* seal -> DAG-JSON text -> unseal: what ToDagJson writes, FromDagJson reads back as a token that agrees with the
   original on every field, maps compared up to the order of their entries.  Composes the JSON codec theorem
   (DagJsonProofs.v) with the envelope and payload decoders; the signature is checked over the DAG-CBOR
   re-encoding of what was decoded, which does not see the order of map entries. *)
From Coq Require Import String Permutation.
Require Import Base Node Cbor CborProofs SealedBytes Did Command SelParse Policy PolicyIpld Generated Envelope EnvelopeProofs
  Token TokenProofs SealProofs CanonProofs DagJson DagJsonProofs.
From Coq Require Import ZifyBool ZifyNat ZifyN.
Local Open Scope N_scope.

(* ---------- the canonical key order is a strict total order: sorting forgets the order it was given ---------- *)
Lemma lex_ltb_trans a : forall b c, lex_ltb a b = true -> lex_ltb b c = true -> lex_ltb a c = true.
Proof.
  induction a as [|x a IH]; intros [|y b] [|z c] H1 H2; cbn in *; try discriminate; try reflexivity.
  destruct (N.ltb_spec x y), (N.ltb_spec y z); try discriminate.
  - destruct (N.ltb_spec x z); [reflexivity|lia].
  - destruct (N.ltb_spec z y); [discriminate|]. assert (y = z) by lia. subst. destruct (N.ltb_spec x z); [reflexivity|lia].
  - destruct (N.ltb_spec y x); [discriminate|]. assert (x = y) by lia. subst. destruct (N.ltb_spec y z); [reflexivity|lia].
  - destruct (N.ltb_spec y x); [discriminate|]. destruct (N.ltb_spec z y); [discriminate|]. assert (x = y) by lia. assert (y = z) by lia. subst.
    destruct (N.ltb_spec z z); [lia|]. eapply IH; eassumption.
Qed.

Lemma key_ltb_trans a b c : key_ltb a b = true -> key_ltb b c = true -> key_ltb a c = true.
Proof.
  unfold key_ltb. intros H1 H2.
  destruct (Nat.ltb_spec (length a) (length b)), (Nat.ltb_spec (length b) (length c)).
  - destruct (Nat.ltb_spec (length a) (length c)); [reflexivity|lia].
  - destruct (Nat.ltb_spec (length c) (length b)); [discriminate|]. destruct (Nat.ltb_spec (length a) (length c)); [reflexivity|lia].
  - destruct (Nat.ltb_spec (length b) (length a)); [discriminate|]. destruct (Nat.ltb_spec (length a) (length c)); [reflexivity|lia].
  - destruct (Nat.ltb_spec (length b) (length a)); [discriminate|]. destruct (Nat.ltb_spec (length c) (length b)); [discriminate|].
    destruct (Nat.ltb_spec (length a) (length c)); [reflexivity|]. destruct (Nat.ltb_spec (length c) (length a)); [lia|].
    eapply lex_ltb_trans; eassumption.
Qed.

Section SortUnique.
  Context {V : Type}.
  Lemma ssorted_head_lt (e : str * V) r : ssorted (e :: r) -> forall x, In x r -> key_ltb (fst e) (fst x) = true.
  Proof.
    revert e; induction r as [|y r IH]; intros e [He Hr] x Hx; [contradiction|].
    destruct Hx as [->|Hx]; [exact He|]. eapply key_ltb_trans; [exact He|]. apply IH; assumption.
  Qed.

  Lemma ssorted_perm_eq (l : list (str * V)) : forall l', ssorted l -> ssorted l' -> Permutation l l' -> NoDup (map fst l) -> l = l'.
  Proof.
    induction l as [|e r IH]; intros l' Hs Hs' P Hn.
    - apply Permutation_nil in P. congruence.
    - destruct l' as [|e' r']; [apply Permutation_sym, Permutation_nil in P; discriminate|].
      assert (Hin' : In e' (e :: r)) by (eapply Permutation_in; [apply Permutation_sym, P | left; reflexivity]).
      assert (Hin : In e (e' :: r')) by (eapply Permutation_in; [exact P | left; reflexivity]).
      assert (E : e = e').
      { destruct Hin' as [E|Hr]; [exact E|]. destruct Hin as [E|Hr']; [symmetry; exact E|]. exfalso.
        pose proof (ssorted_head_lt e r Hs e' Hr) as L1. pose proof (ssorted_head_lt e' r' Hs' e Hr') as L2.
        apply key_ltb_asym in L1. congruence. }
      subst e'. f_equal. apply IH.
      + apply Hs.
      + apply Hs'.
      + eapply Permutation_cons_inv. exact P.
      + inversion Hn; assumption.
  Qed.

  Lemma sortk_perm_eq (l l' : list (str * V)) : Permutation l l' -> NoDup (map fst l) -> sortk l = sortk l'.
  Proof.
    intros P Hn.
    assert (Hn' : NoDup (map fst l')) by (eapply Permutation_NoDup; [apply Permutation_map, P | exact Hn]).
    apply ssorted_perm_eq.
    - apply sortk_ssorted, Hn.
    - apply sortk_ssorted, Hn'.
    - eapply Permutation_trans; [apply sortk_perm|]. eapply Permutation_trans; [exact P|]. apply Permutation_sym, sortk_perm.
    - eapply Permutation_NoDup; [apply Permutation_map, Permutation_sym, sortk_perm | exact Hn].
  Qed.

  Lemma jinsert_perm (e : str * V) l : Permutation (jinsert e l) (e :: l).
  Proof. induction l as [|x l IH]; cbn; [reflexivity|]. destruct (str_ltb (fst e) (fst x)); [reflexivity|]. rewrite IH. apply perm_swap. Qed.
  Lemma jsort_perm (l : list (str * V)) : Permutation (jsort l) l.
  Proof. induction l as [|e l IH]; cbn; [reflexivity|]. rewrite jinsert_perm. constructor. exact IH. Qed.
End SortUnique.

(* ---------- the JSON order of a value has the same canonical form, and the same DAG-CBOR bytes ---------- *)
Lemma keys_distinct_list l : keys_distinct (List l) -> Forall keys_distinct l.
Proof. cbn. induction l as [|y l IH]; intros A; constructor; [apply A | apply IH, A]. Qed.
Lemma keys_distinct_map m : keys_distinct (Map m) -> NoDup (map fst m) /\ Forall (fun e => keys_distinct (snd e)) m.
Proof. cbn. intros [Hn A]. split; [exact Hn|]. clear Hn. induction m as [|e m IH]; constructor; [apply A | apply IH, A]. Qed.
Lemma keys_distinct_list_intro l : Forall keys_distinct l -> keys_distinct (List l).
Proof. cbn. induction l as [|y l IH]; intros F; [exact I|]. inversion F; subst. split; [assumption | apply IH; assumption]. Qed.
Lemma keys_distinct_map_intro m : NoDup (map fst m) -> Forall (fun e => keys_distinct (snd e)) m -> keys_distinct (Map m).
Proof. cbn. intros Hn F. split; [exact Hn|]. clear Hn. induction m as [|e m IH]; [exact I|]. inversion F; subst. split; [assumption | apply IH; assumption]. Qed.

Theorem canon_canonj x : keys_distinct x -> canon (canonj x) = canon x.
Proof.
  induction x as [| b | z | bits | s | s | l IH | m IH | c] using node_ind'; intros Hk; try reflexivity.
  - apply keys_distinct_list in Hk. cbn [canonj canon]. f_equal. rewrite map_map. apply map_ext_in. intros y Hy.
    rewrite Forall_forall in IH, Hk. apply IH; [exact Hy | apply Hk, Hy].
  - apply keys_distinct_map in Hk as [Hn Hk]. cbn [canonj canon]. f_equal.
    rewrite (jsort_map canonj), map_map. cbn [fst snd].
    rewrite (sortk_perm_eq (map (fun x => (fst x, canon (canonj (snd x)))) (jsort m)) (map (fun x => (fst x, canon (canonj (snd x)))) m)).
    + f_equal. apply map_ext_in. intros e He. f_equal. rewrite Forall_forall in IH, Hk. apply IH; [exact He | apply Hk, He].
    + apply Permutation_map, jsort_perm.
    + rewrite (map_fst_lift (fun v => canon (canonj v))). eapply Permutation_NoDup; [apply Permutation_map, Permutation_sym, jsort_perm | exact Hn].
Qed.

Theorem keys_distinct_canonj x : keys_distinct x -> keys_distinct (canonj x).
Proof.
  induction x as [| b | z | bits | s | s | l IH | m IH | c] using node_ind'; intros Hk; try exact I.
  - apply keys_distinct_list in Hk. cbn [canonj]. apply keys_distinct_list_intro.
    rewrite Forall_forall in *. intros y Hy. apply in_map_iff in Hy as (y0 & <- & Hy0). apply IH; [exact Hy0 | apply Hk, Hy0].
  - apply keys_distinct_map in Hk as [Hn Hk]. cbn [canonj]. apply keys_distinct_map_intro.
    + eapply Permutation_NoDup; [apply Permutation_map, Permutation_sym, jsort_perm|]. rewrite map_fst_lift. exact Hn.
    + rewrite Forall_forall in *. intros e He. apply jsort_in in He. apply in_map_iff in He as (e0 & <- & He0). cbn [snd].
      apply IH; [exact He0 | apply Hk, He0].
Qed.

Theorem encode_canonj x : keys_distinct x -> encode (canonj x) = encode x.
Proof.
  intros Hk. rewrite <- (encode_canon (canonj x)) by (apply keys_distinct_canonj, Hk).
  rewrite canon_canonj by exact Hk. apply encode_canon, Hk.
Qed.

Lemma map_get_jsort k (m : list (str * node)) : NoDup (map fst m) -> map_get k (jsort m) = map_get k m.
Proof. intros Hn. apply map_get_perm; [exact Hn | apply Permutation_sym, jsort_perm]. Qed.

Section JsonSeal.
  Variable verify : did -> str -> str -> bool.
  Variable header_of : did -> res str.
  Variable sign : str -> str.

  (* Token.ToDagJson / FromDagJson *)
  Definition to_json (hdr tag : str) (payload : node) : str := jenc (env_seal sign hdr tag payload).
  Definition from_json (A : Type) (bind : node -> res A) (tag : str) (fuel : nat) (b : str) : res A :=
    match jdec fuel b with
    | Some (n, []) => env_decode verify header_of A bind tag n
    | _ => Err 50
    end.

  Lemma canonj_env_seal hdr tag pm : str_ltb hdr_key tag = true -> keys_distinct (env_seal sign hdr tag (Map pm)) ->
    canonj (env_seal sign hdr tag (Map pm)) = env_seal sign hdr tag (canonj (Map pm)).
  Proof.
    intros Hlt Hk. unfold env_seal. cbn [canonj map jsort jinsert fst snd]. rewrite Hlt.
    assert (E : encode (Map [(hdr_key, Bytes hdr); (tag, Map pm)]) = encode (Map [(hdr_key, Bytes hdr); (tag, canonj (Map pm))])).
    { rewrite <- (encode_canonj (Map [(hdr_key, Bytes hdr); (tag, Map pm)])) by (cbn in Hk; cbn; tauto).
      cbn [canonj map jsort jinsert fst snd]. rewrite Hlt. reflexivity. }
    rewrite E. reflexivity.
  Qed.

  Theorem env_json_decode (A : Type) (bind : node -> res A) hdr tag pm iss d f :
    has_prefix ucan_prefix tag = true -> str_eqb tag hdr_key = false -> str_ltb hdr_key tag = true ->
    map_get (lit "iss") pm = Some (Str iss) -> did_parse iss = Ok d -> header_of d = Ok hdr ->
    (forall m, verify d m (sign m) = true) ->
    jsafe (env_seal sign hdr tag (Map pm)) -> keys_distinct (env_seal sign hdr tag (Map pm)) ->
    (jdepth (env_seal sign hdr tag (Map pm)) <= f)%nat ->
    from_json A bind tag f (to_json hdr tag (Map pm)) = bind (canonj (Map pm)).
  Proof.
    intros Hp Hk Hlt Hi Hd Hh Hv Hs Hkd Hf. unfold from_json, to_json.
    rewrite (dagjson_roundtrip _ f Hs Hf), (canonj_env_seal hdr tag pm Hlt Hkd).
    assert (Hn : NoDup (map fst pm)) by (cbn in Hkd; tauto).
    cbn [canonj].
    apply (env_seal_decode verify header_of sign A bind hdr tag _ iss d Hp Hk); try assumption.
    rewrite map_get_jsort by (rewrite map_fst_lift; exact Hn). rewrite map_get_map, Hi. reflexivity.
  Qed.

  (* the decoded token is the sealed one up to the order of map entries (metadata, arguments, map literals in policies) *)
  Theorem dlg_seal_json_unseal t hdr f : dlg_constructed t -> header_of (dk_iss t) = Ok hdr ->
    (forall m, verify (dk_iss t) m (sign m) = true) ->
    jsafe (env_seal sign hdr dlg_tag (dlg_to_payload t)) -> keys_distinct (env_seal sign hdr dlg_tag (dlg_to_payload t)) ->
    (jdepth (env_seal sign hdr dlg_tag (dlg_to_payload t)) <= f)%nat ->
    exists t', from_json dtok dlg_from_payload dlg_tag f (to_json hdr dlg_tag (dlg_to_payload t)) = Ok t' /\ canon_dtok t' = canon_dtok t.
  Proof.
    intros Hc Hh Hv Hs Hkd Hf. destruct (dlg_iss_field t) as (pm & E & Hi). rewrite E in *.
    rewrite (env_json_decode dtok dlg_from_payload hdr dlg_tag pm (did_print (dk_iss t)) (dk_iss t) f); try reflexivity; try assumption.
    2:{ apply (dc_iss t Hc). }
    assert (Hn : NoDup (map fst pm)) by (cbn in Hkd; tauto).
    assert (Hkp : keys_distinct (Map pm)) by (cbn in Hkd; cbn; tauto).
    pose proof (dlg_from_payload_canon pm Hn) as C1. rewrite <- E, (dlg_payload_roundtrip t Hc), E in C1. cbn [rmap] in C1.
    assert (Hnj : exists pj, canonj (Map pm) = Map pj /\ NoDup (map fst pj)).
    { cbn [canonj]. eexists. split; [reflexivity|]. eapply Permutation_NoDup; [apply Permutation_map, Permutation_sym, jsort_perm|]. rewrite map_fst_lift. exact Hn. }
    destruct Hnj as (pj & Ej & Hnj).
    pose proof (dlg_from_payload_canon pj Hnj) as C2.
    assert (Ec : canon (Map pj) = canon (Map pm)) by (rewrite <- Ej; apply canon_canonj; exact Hkp). rewrite Ec, C1 in C2.
    rewrite Ej. destruct (dlg_from_payload (Map pj)) as [t'| |]; cbn [rmap] in C2; try discriminate.
    exists t'. split; [reflexivity|]. congruence.
  Qed.

  Theorem inv_seal_json_unseal t hdr f : inv_constructed t -> header_of (ik_iss t) = Ok hdr ->
    (forall m, verify (ik_iss t) m (sign m) = true) ->
    jsafe (env_seal sign hdr inv_tag (inv_to_payload t)) -> keys_distinct (env_seal sign hdr inv_tag (inv_to_payload t)) ->
    (jdepth (env_seal sign hdr inv_tag (inv_to_payload t)) <= f)%nat ->
    exists t', from_json itok inv_from_payload inv_tag f (to_json hdr inv_tag (inv_to_payload t)) = Ok t' /\ canon_itok t' = canon_itok t.
  Proof.
    intros Hc Hh Hv Hs Hkd Hf. destruct (inv_iss_field t) as (pm & E & Hi). rewrite E in *.
    rewrite (env_json_decode itok inv_from_payload hdr inv_tag pm (did_print (ik_iss t)) (ik_iss t) f); try reflexivity; try assumption.
    2:{ apply (ic_iss t Hc). }
    assert (Hn : NoDup (map fst pm)) by (cbn in Hkd; tauto).
    assert (Hkp : keys_distinct (Map pm)) by (cbn in Hkd; cbn; tauto).
    pose proof (inv_from_payload_canon pm Hn) as C1. rewrite <- E, (inv_payload_roundtrip t Hc), E in C1. cbn [rmap] in C1.
    assert (Hnj : exists pj, canonj (Map pm) = Map pj /\ NoDup (map fst pj)).
    { cbn [canonj]. eexists. split; [reflexivity|]. eapply Permutation_NoDup; [apply Permutation_map, Permutation_sym, jsort_perm|]. rewrite map_fst_lift. exact Hn. }
    destruct Hnj as (pj & Ej & Hnj).
    pose proof (inv_from_payload_canon pj Hnj) as C2.
    assert (Ec : canon (Map pj) = canon (Map pm)) by (rewrite <- Ej; apply canon_canonj; exact Hkp). rewrite Ec, C1 in C2.
    rewrite Ej. destruct (inv_from_payload (Map pj)) as [t'| |]; cbn [rmap] in C2; try discriminate.
    exists t'. split; [reflexivity|]. congruence.
  Qed.
End JsonSeal.
