(* C03 - Every policy statement of every delegation in the chain binds the arguments. *)
Require Import Base Node Command Selector Policy Chain ChainProofs.
Local Open Scope Z_scope.

Theorem C03_allowed_only_if_every_statement_passes : forall now ld i,
  allowed now ld i = true ->
  exists ds, map ld (i_prf i) = map Some ds /\
    Forall (fun d => Forall (fun s => pass_match (ev s (i_args i)) = true) (d_pol d)) ds.
Proof. exact allowed_policies. Qed.
Print Assumptions C03_allowed_only_if_every_statement_passes.

Theorem C03_adding_a_delegation_never_helps : forall ds1 d ds2 a,
  verify_args (ds1 ++ d :: ds2) a = true -> verify_args (ds1 ++ ds2) a = true.
Proof. exact args_antitone_link. Qed.
Print Assumptions C03_adding_a_delegation_never_helps.

Theorem C03_adding_a_statement_never_helps : forall ds1 d ds2 s k a,
  verify_args (ds1 ++ add_stmt s k d :: ds2) a = true -> verify_args (ds1 ++ d :: ds2) a = true.
Proof. exact args_antitone_stmt. Qed.
Print Assumptions C03_adding_a_statement_never_helps.

Theorem C03_hook_arguments_are_the_ones_checked : forall now ld h i,
  allowed_hook now ld h i = true ->
  exists a ds, h (i_args i) = Some a /\ map ld (i_prf i) = map Some ds /\
    Forall (fun d => Forall (fun s => pass_match (ev s a) = true) (d_pol d)) ds.
Proof. exact allowed_hook_policies. Qed.
Print Assumptions C03_hook_arguments_are_the_ones_checked.

Theorem C03_hook_decision : forall now ld h i a,
  h (i_args i) = Some a -> allowed_hook now ld h i = allowed_with now ld i a.
Proof. exact hook_args_checked. Qed.
Print Assumptions C03_hook_decision.

Theorem C03_hook_failure_denies : forall now ld h i, h (i_args i) = None -> allowed_hook now ld h i = false.
Proof. exact hook_failure_denies. Qed.
Print Assumptions C03_hook_failure_denies.
