Require Import Base SliceHeap.
Local Open Scope nat_scope.

(* ---------- lists ---------- *)
Lemma set_nth_length {A} i (x : A) l : length (set_nth i x l) = length l.
Proof. revert i; induction l as [|y l IH]; intros [|i]; cbn; auto. Qed.
Lemma nth_set_nth_same {A} i (x d : A) l : i < length l -> nth i (set_nth i x l) d = x.
Proof. revert i; induction l as [|y l IH]; intros [|i] H; cbn in *; try lia; auto. apply IH. lia. Qed.
Lemma nth_set_nth_other {A} i j (x d : A) l : i <> j -> nth j (set_nth i x l) d = nth j l d.
Proof. revert i j; induction l as [|y l IH]; intros [|i] [|j] H; cbn; auto; try congruence. Qed.
Lemma firstn_set_nth_ge {A} n i (x : A) l : n <= i -> firstn n (set_nth i x l) = firstn n l.
Proof. revert n i; induction l as [|y l IH]; intros [|n] [|i] H; cbn; auto; try lia. f_equal. apply IH. lia. Qed.
Lemma firstn_S_set_nth {A} n (x : A) l : n < length l -> firstn (S n) (set_nth n x l) = firstn n l ++ [x].
Proof. revert n; induction l as [|y l IH]; intros [|n] H; cbn in *; try lia; auto. f_equal. apply IH. lia. Qed.

Lemma cells_app_old (h : heap) v a : a < length h -> cells (h ++ [v]) a = cells h a.
Proof. intros H. unfold cells. apply app_nth1. exact H. Qed.
Lemma cells_app_new (h : heap) v : cells (h ++ [v]) (length h) = v.
Proof. unfold cells. rewrite app_nth2 by lia. rewrite Nat.sub_diag. reflexivity. Qed.
Lemma cells_set_same (h : heap) a v : a < length h -> cells (set_nth a v h) a = v.
Proof. intros H. unfold cells. apply nth_set_nth_same. exact H. Qed.
Lemma cells_set_other (h : heap) a b v : a <> b -> cells (set_nth a v h) b = cells h b.
Proof. intros H. unfold cells. apply nth_set_nth_other. exact H. Qed.

(* ---------- one append ---------- *)
Lemma append_view h s x : wf_slice h s ->
  let '(h', s') := go_append h s x in
  wf_slice h' s' /\ view h' s' = view h s ++ [x] /\ length h <= length h' /\
  (forall a, a < length h -> a <> s_arr s -> cells h' a = cells h a) /\
  (s_arr s' = s_arr s \/ s_arr s' = length h).
Proof.
  intros (Ha & Hl & Hc). unfold go_append. destruct (Nat.ltb_spec (s_len s) (s_cap s)) as [Lt|Ge].
  - split; [|split; [|split; [|split]]].
    + unfold wf_slice. cbn [s_arr s_len s_cap]. split; [|split].
      * rewrite set_nth_length. exact Ha.
      * lia.
      * rewrite cells_set_same by exact Ha. rewrite set_nth_length. exact Hc.
    + unfold view. cbn [s_arr s_len]. rewrite cells_set_same by exact Ha. apply firstn_S_set_nth. lia.
    + rewrite set_nth_length. lia.
    + intros a _ Hne. apply cells_set_other. congruence.
    + left. reflexivity.
  - assert (E : s_len s = s_cap s) by lia.
    assert (L : length (view h s) = s_len s) by (unfold view; rewrite firstn_length; lia).
    split; [|split; [|split; [|split]]].
    + unfold wf_slice. cbn [s_arr s_len s_cap]. split; [|split].
      * rewrite app_length. cbn. lia.
      * lia.
      * rewrite cells_app_new. rewrite !app_length, repeat_length, L. cbn [length]. lia.
    + unfold view at 1. cbn [s_arr s_len]. rewrite cells_app_new.
      rewrite app_assoc. rewrite firstn_app. rewrite app_length. cbn [length]. rewrite L.
      replace (S (s_len s) - (s_len s + 1)) with 0 by lia. rewrite firstn_O, app_nil_r. apply firstn_all2. rewrite app_length. cbn. lia.
    + rewrite app_length. cbn. lia.
    + intros a Hlt _. apply cells_app_old. exact Hlt.
    + right. reflexivity.
Qed.

Lemma clone_view h s : wf_slice h s ->
  let '(h', c) := go_clone h s in
  wf_slice h' c /\ view h' c = view h s /\ length h' = S (length h) /\ s_arr c = length h /\
  (forall a, a < length h -> cells h' a = cells h a).
Proof.
  intros (Ha & Hl & Hc). unfold go_clone.
  assert (L : length (view h s) = s_len s) by (unfold view; rewrite firstn_length; lia).
  split; [|split; [|split; [|split]]].
  - unfold wf_slice. cbn [s_arr s_len s_cap]. split; [|split].
    + rewrite app_length. cbn. lia.
    + lia.
    + rewrite cells_app_new. exact L.
  - unfold view at 1. cbn [s_arr s_len]. rewrite cells_app_new. apply firstn_all2. lia.
  - rewrite app_length. cbn. lia.
  - reflexivity.
  - intros a Hlt. apply cells_app_old. exact Hlt.
Qed.

(* lia with the quantified hypotheses of the invariant out of the way (it can fail to find a witness in their presence) *)
Ltac slia := solve [lia] || (repeat match goal with H : forall _, _ |- _ => clear H end; lia).

(* ---------- the invariant over every interleaving ---------- *)
Section Inv.
  Variable h0 : heap.
  Variable tok : slice.
  Hypothesis Htok : wf_slice h0 tok.

  Definition Inv (st : state) (g : nat -> option (list str)) : Prop :=
    length h0 <= length (st_heap st) /\
    (forall a, a < length h0 -> cells (st_heap st) a = cells h0 a) /\
    (forall tid, match g tid with
                 | Some l => exists c, st_local st tid = Some c /\ wf_slice (st_heap st) c /\ length h0 <= s_arr c /\
                                       view (st_heap st) c = view h0 tok ++ l
                 | None => st_local st tid = None
                 end) /\
    (forall t1 t2 c1 c2, t1 <> t2 -> st_local st t1 = Some c1 -> st_local st t2 = Some c2 -> s_arr c1 <> s_arr c2).

  Lemma view_tok_stable st g : Inv st g -> view (st_heap st) tok = view h0 tok.
  Proof. intros (_ & Hp & _). unfold view. rewrite Hp; [reflexivity|apply Htok]. Qed.

  Lemma wf_tok_stable st g : Inv st g -> wf_slice (st_heap st) tok.
  Proof. intros (Hl & Hp & _). destruct Htok as (A & B & C). repeat split; [lia | exact B | rewrite Hp by exact A; exact C]. Qed.

  Lemma step_inv st g a : Inv st g -> Inv (step go_clone tok st a) (gstep g a).
  Proof.
    intros I. pose proof (view_tok_stable st g I) as Vt. pose proof (wf_tok_stable st g I) as Wt.
    destruct I as (Hl & Hp & Hloc & Hdis). destruct a as [tid [|x]]; cbn [step gstep].
    - (* clone *)
      pose proof (clone_view (st_heap st) tok Wt) as C. destruct (go_clone (st_heap st) tok) as [h' c].
      destruct C as (Wc & Vc & Lh & Ac & Old). unfold Inv. cbn [st_heap st_local]. split; [|split; [|split]].
      + slia.
      + intros a Ha. rewrite Old by slia. apply Hp, Ha.
      + intros t. unfold upd. destruct (Nat.eqb_spec t tid) as [->|Ne].
        * exists c. repeat split; try apply Wc; [slia | rewrite Vc, Vt, app_nil_r; reflexivity].
        * specialize (Hloc t). destruct (g t) as [l|]; [|exact Hloc].
          destruct Hloc as (c0 & E0 & (W1 & W2 & W3) & A0 & V0). exists c0. repeat split; try assumption; try slia.
          -- rewrite Old by exact W1. exact W3.
          -- unfold view. rewrite Old by exact W1. exact V0.
      + intros t1 t2 c1 c2 Hne E1 E2. unfold upd in E1, E2.
        destruct (Nat.eqb_spec t1 tid) as [->|N1], (Nat.eqb_spec t2 tid) as [->|N2]; try congruence.
        * injection E1 as <-. specialize (Hloc t2). destruct (g t2) as [l|]; [|congruence].
          destruct Hloc as (c0 & E0 & (W1 & _) & _). rewrite E0 in E2. injection E2 as <-. slia.
        * injection E2 as <-. specialize (Hloc t1). destruct (g t1) as [l|]; [|congruence].
          destruct Hloc as (c0 & E0 & (W1 & _) & _). rewrite E0 in E1. injection E1 as <-. slia.
        * apply (Hdis t1 t2 c1 c2 Hne E1 E2).
    - (* append *)
      pose proof (Hloc tid) as Hme. destruct (g tid) as [l|] eqn:G.
      2:{ rewrite Hme. repeat split; assumption. }
      destruct Hme as (c & Ec & Wc & Ac & Vc). rewrite Ec.
      pose proof (append_view (st_heap st) c x Wc) as A. destruct (go_append (st_heap st) c x) as [h' c'].
      destruct A as (Wc' & Vc' & Lh & Other & Arr). unfold Inv. cbn [st_heap st_local]. split; [|split; [|split]].
      + slia.
      + intros a Ha. rewrite Other; [apply Hp, Ha | slia | slia].
      + intros t. unfold upd. destruct (Nat.eqb_spec t tid) as [->|Ne].
        * exists c'. repeat split; try apply Wc'; [destruct Arr as [->| ->]; slia | rewrite Vc', Vc, app_assoc; reflexivity].
        * specialize (Hloc t). destruct (g t) as [l0|]; [|exact Hloc].
          destruct Hloc as (c0 & E0 & (W1 & W2 & W3) & A0 & V0).
          assert (Hd : s_arr c0 <> s_arr c) by (eapply Hdis; eassumption).
          exists c0. repeat split; try assumption; try slia.
          -- rewrite Other by (try exact W1; exact Hd). exact W3.
          -- unfold view. rewrite Other by (try exact W1; exact Hd). exact V0.
      + intros t1 t2 c1 c2 Hne E1 E2. unfold upd in E1, E2.
        destruct (Nat.eqb_spec t1 tid) as [->|N1], (Nat.eqb_spec t2 tid) as [->|N2]; try congruence.
        * injection E1 as <-. assert (W2 : s_arr c2 < length (st_heap st)).
          { specialize (Hloc t2). destruct (g t2); [|congruence]. destruct Hloc as (c0 & E0 & (W1 & _) & _). congruence. }
          destruct Arr as [->| ->]; [|slia]. intros E. eapply (Hdis tid t2 c c2); eauto.
        * injection E2 as <-. assert (W1 : s_arr c1 < length (st_heap st)).
          { specialize (Hloc t1). destruct (g t1); [|congruence]. destruct Hloc as (c0 & E0 & (W0 & _) & _). congruence. }
          destruct Arr as [->| ->]; [|slia]. intros E. eapply (Hdis t1 tid c1 c); eauto.
        * apply (Hdis t1 t2 c1 c2 Hne E1 E2).
  Qed.

  Definition init : state := {| st_heap := h0; st_local := fun _ => None |}.

  Lemma run_inv steps : forall st g, Inv st g -> Inv (fold_left (step go_clone tok) steps st) (fold_left gstep steps g).
  Proof. induction steps as [|a r IH]; intros st g I; cbn [fold_left]; [exact I|]. apply IH, step_inv, I. Qed.

  Lemma init_inv : Inv init (fun _ => None).
  Proof. unfold init. repeat split; cbn; auto; try lia. intros; congruence. Qed.

  (* every interleaving of goroutines that clone the token's keys and append to their own clone: the token's array (and
     everything else that existed) is untouched, and each goroutine's clone holds the token's keys followed by exactly what
     that goroutine appended, in its order *)
  Theorem clones_are_private steps :
    let st := run go_clone tok init steps in
    (forall a, a < length h0 -> cells (st_heap st) a = cells h0 a) /\
    view (st_heap st) tok = view h0 tok /\
    (forall tid, match ghost steps tid with
                 | Some l => exists c, st_local st tid = Some c /\ view (st_heap st) c = view h0 tok ++ l
                 | None => st_local st tid = None
                 end).
  Proof.
    cbv zeta. pose proof (run_inv steps init (fun _ => None) init_inv) as I. fold (run go_clone tok init steps) in I. fold (ghost steps) in I.
    pose proof (view_tok_stable _ _ I) as Vt. destruct I as (_ & Hp & Hloc & _). repeat split; [exact Hp | exact Vt |].
    intros tid. specialize (Hloc tid). destruct (ghost steps tid); [|exact Hloc].
    destruct Hloc as (c & E & _ & _ & V). exists c. split; assumption.
  Qed.
End Inv.

(* the seeded variant is refuted: a token whose key slice has room for one more key, two goroutines; the second one's
   key ends up in the first one's clone *)
Definition ex_heap : heap := [[[107%N]; []]].                       (* one array: "k" and one spare cell *)
Definition ex_tok : slice := {| s_arr := 0; s_len := 1; s_cap := 2 |}.
Theorem shared_capacity_clone_refuted :
  let st := run bad_clone ex_tok (init ex_heap) [(0, AClone); (1, AClone); (0, AAppend [97%N]); (1, AAppend [98%N])] in
  match st_local st 0 with Some c => view (st_heap st) c = [[107%N]; [98%N]] | None => False end.
Proof. vm_compute. reflexivity. Qed.
