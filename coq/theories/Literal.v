(* Model of pkg/policy/literal.Any (literal.go:60-208): a Go value offered as an argument, a metadata value or a policy
   literal becomes an IPLD node or is refused.  The fast path handles the scalar types and []byte at the top level; everything
   else goes through reflection (anyAssemble), where an unsupported shape panics and the panic is turned into an error.
   Go values are rendered by their reflect.Kind, which is all the code looks at. *)
Require Import Base Node SelParse PolicyIpld.
Local Open Scope Z_scope.

Inductive gval :=
| GBool (b : bool)
| GStr (s : str)
| GInt (z : Z)                 (* int, int8 .. int64: the value, within the type's range *)
| GUint (n : N)                (* uint, uint8 .. uint64 *)
| GFloat (bits : N)            (* float64, or a float32 widened *)
| GBytes (b : str)             (* []byte *)
| GNamedBytes (b : str)        (* a named type over []byte, or a [N]byte array *)
| GNode (n : node)             (* a datamodel.Node *)
| GCid (c : str)
| GSlice (l : list gval)       (* []T, T not a byte *)
| GArray (l : list gval)       (* [N]T, T not a byte *)
| GMap (m : list (str * gval)) (* map[string]T, listed in any order *)
| GPtr (v : gval)              (* pointer or interface holding v *)
| GNilPtr
| GOther.                      (* struct, chan, func, map with another key type, ... *)

(* entries in the order sort.Strings gives: bytewise *)
Fixpoint ins_key {V} (e : str * V) (l : list (str * V)) : list (str * V) :=
  match l with [] => [e] | x :: r => if str_ltb (fst e) (fst x) then e :: l else x :: ins_key e r end.
Definition sort_keys {V} (l : list (str * V)) : list (str * V) := fold_right ins_key [] l.

Definition int_node (z : Z) : res node := if in53 z then Ok (Int z) else Err 1%N.
Definition uint_node (n : Z) : res node := if n <=? max53 then Ok (Int n) else Err 1%N.

Definition mapres {A B} (f : A -> res B) : list A -> res (list B) :=
  fix go (l : list A) : res (list B) :=
    match l with
    | [] => Ok []
    | x :: r => match f x with
                | Ok n => match go r with Ok ns => Ok (n :: ns) | Err e => Err e | Panic => Panic end
                | Err e => Err e
                | Panic => Panic
                end
    end.

(* anyAssemble: the reflective walk *)
Fixpoint assemble (v : gval) : res node :=
  match v with
  | GBool b => Ok (Bool b)
  | GStr s => Ok (Str s)
  | GInt z => int_node z
  | GUint n => uint_node (Z.of_N n)
  | GFloat f => Ok (Float f)
  | GBytes _ => Err 2%N                    (* val.([]byte) on a reflect.Value: the assertion fails *)
  | GNamedBytes _ => Err 2%N               (* "bytes array are not supported yet" / failed assertion *)
  | GNode _ => Err 3%N                     (* basicnode's nodes are pointers: behind an interface the walk meets a pointer it does not follow *)
  | GCid c => Ok (Link c)
  | GSlice l | GArray l => match mapres assemble l with Ok ns => Ok (List ns) | Err e => Err e | Panic => Panic end
  | GMap m =>
      match mapres (fun kv : str * gval => match assemble (snd kv) with Ok n => Ok (fst kv, n) | Err e => Err e | Panic => Panic end) m with
      | Ok es => Ok (Map (sort_keys es)) | Err e => Err e | Panic => Panic end
  | GPtr x => match x with GPtr _ | GNilPtr => Err 4%N | _ => assemble x end    (* one level of pointer / interface is looked through *)
  | GNilPtr => Err 4%N
  | GOther => Err 4%N
  end.

Fixpoint gsize (v : gval) : nat :=
  match v with
  | GSlice l | GArray l => S (fold_right (fun x a => gsize x + a)%nat 0%nat l)
  | GMap m => S (fold_right (fun kv a => gsize (snd kv) + a)%nat 0%nat m)
  | GPtr x => S (gsize x)
  | _ => 1%nat
  end.

(* literal.Any *)
Definition lit_any (v : gval) : res node :=
  match v with
  | GBytes b => Ok (Bytes b)               (* fast path *)
  | GNode n => Ok n                        (* handed through unchanged *)
  | _ => assemble v
  end.

(* ---------- Spec: the node says what the value says ---------- *)
Inductive denotes : gval -> node -> Prop :=
| DBool b : denotes (GBool b) (Bool b)
| DStr s : denotes (GStr s) (Str s)
| DInt z : denotes (GInt z) (Int z)
| DUint n : denotes (GUint n) (Int (Z.of_N n))
| DFloat f : denotes (GFloat f) (Float f)
| DCid c : denotes (GCid c) (Link c)
| DSlice l ns : Forall2 denotes l ns -> denotes (GSlice l) (List ns)
| DArray l ns : Forall2 denotes l ns -> denotes (GArray l) (List ns)
| DMap m es : Forall2 (fun kv kn => fst kv = fst kn /\ denotes (snd kv) (snd kn)) m es -> denotes (GMap m) (Map (sort_keys es))
| DPtr x n : denotes x n -> denotes (GPtr x) n
| DBytes b : denotes (GBytes b) (Bytes b)
| DNode n : denotes (GNode n) n.

(* the executable face of [denotes], up to the order of map entries (a nil inside a container read as null, a named byte
   string as bytes): what the args engine judges literal.Any by *)
Fixpoint denotesb (fuel : nat) (v : gval) (n : node) : bool :=
  match fuel with
  | O => false
  | S f =>
    match v, n with
    | GBool b, Bool b' => Bool.eqb b b'
    | GStr s, Str s' => str_eqb s s'
    | GInt z, Int z' => (z =? z')%Z
    | GUint u, Int z' => (Z.of_N u =? z')%Z
    | GFloat x, Float y => (x =? y)%N
    | GBytes b, Bytes b' => str_eqb b b'
    | GNamedBytes b, Bytes b' => str_eqb b b'
    | GNode x, _ => node_eqb x n
    | GCid c, Link c' => str_eqb c c'
    | GSlice l, List ns | GArray l, List ns =>
        (length l =? length ns)%nat && forallb (fun p => denotesb f (fst p) (snd p)) (combine l ns)
    | GMap m, Map es =>
        (length m =? length es)%nat &&
        forallb (fun kv => match map_get (fst kv) es with Some x => denotesb f (snd kv) x | None => false end) m
    | GPtr x, _ => denotesb f x n
    | GNilPtr, Null => true
    | _, _ => false
    end
  end.

