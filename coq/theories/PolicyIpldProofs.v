From Coq Require Import String.
Require Import Base Node Selector SelParse SelParseProofs Glob Policy PolicyIpld.
Local Open Scope N_scope.

Lemma size_in x l : In x l -> (node_size x < node_size (List l))%nat.
Proof.
  induction l as [|y l IH]; [contradiction|]. cbn [node_size fold_right] in *. intros [->|H]; [lia|].
  specialize (IH H). lia.
Qed.

Lemma rmap_ok {A B} (f : A -> B) r b : rmap f r = Ok b -> exists a, r = Ok a /\ b = f a.
Proof. destruct r; cbn; try discriminate. intros [= <-]. eauto. Qed.

Lemma go_roundtrip (l : list node) :
  (forall x, In x l -> forall s, stmt_from x = Ok s -> stmt_to s = x) ->
  forall ss, stmts_from_list l = Ok ss -> map stmt_to ss = l.
Proof.
  induction l as [|x r IH]; intros HP ss; cbn [stmts_from_list].
  - intros [= <-]. reflexivity.
  - destruct (stmt_from x) as [s|e|] eqn:E; try discriminate.
    destruct (stmts_from_list r) as [ss'|e|] eqn:E'; try discriminate.
    intros [= <-]. cbn [map]. rewrite (HP x (or_introl eq_refl) s E).
    rewrite (IH (fun y Hy => HP y (or_intror Hy)) ss' eq_refl). reflexivity.
Qed.

(* the anonymous fix inside stmt_from is stmts_from_list *)
Lemma inner_go_eq l :
  (fix go (l : list node) : res (list tstmt) :=
     match l with
     | [] => Ok []
     | x :: r => match stmt_from x with
                 | Ok s => match go r with Ok ss => Ok (s :: ss) | Err e => Err e | Panic => Panic end
                 | Err e => Err e
                 | Panic => Panic
                 end
     end) l = stmts_from_list l.
Proof. induction l as [|x r IH]; [reflexivity|]. cbn [stmts_from_list]. rewrite IH. reflexivity. Qed.

Lemma stmt_from_roundtrip_n k : forall n, (node_size n <= k)%nat -> forall s, stmt_from n = Ok s -> stmt_to s = n.
Proof.
  induction k as [|k IH]; intros n Hk s H.
  { destruct n; cbn in Hk; lia. }
  destruct n as [| | | | | |l| |]; try discriminate.
  destruct l as [|x0 l]; [discriminate|]. destruct x0 as [| | | |op| | | |]; try discriminate.
  destruct l as [|a l]; [discriminate|].
  destruct l as [|c l].
  - (* two elements *)
    cbn [stmt_from] in H. destruct (str_eqb op (lit "not")) eqn:En.
    + apply str_eqb_eq in En. subst op. apply rmap_ok in H as (s' & Hs & ->).
      cbn [stmt_to]. rewrite (IH a); [reflexivity| |exact Hs].
      pose proof (size_in a [Str (lit "not"); a] (or_intror (or_introl eq_refl))). lia.
    + destruct (is_conn_op op); [|discriminate].
      destruct a as [| | | | | |l2| |]; try discriminate.
      rewrite inner_go_eq in H. apply rmap_ok in H as (ss & Hs & ->). cbn [stmt_to].
      rewrite (go_roundtrip l2); [reflexivity| |exact Hs].
      intros x Hx s' Hs'. apply IH; [|exact Hs'].
      pose proof (size_in x l2 Hx). pose proof (size_in (List l2) [Str op; List l2] (or_intror (or_introl eq_refl))). lia.
  - destruct l as [|d l].
    + (* three elements *)
      destruct a as [| | | |st| | | |]; try discriminate.
      cbn [stmt_from] in H. destruct (is_cmp_op op).
      * apply rmap_ok in H as (sel & Hs & ->). cbn [stmt_to]. rewrite (parse_print _ _ Hs). reflexivity.
      * destruct (str_eqb op (lit "like")) eqn:El.
        -- apply str_eqb_eq in El. subst op. destruct (sel_parse st) as [sel|e|] eqn:Es; try discriminate.
           destruct c as [| | | |pat| | | |]; try discriminate. destruct (parse_glob_ok pat); [|discriminate].
           injection H as <-. cbn [stmt_to]. rewrite (parse_print _ _ Es). reflexivity.
        -- destruct (is_quant_op op); [|discriminate].
           destruct (sel_parse st) as [sel|e|] eqn:Es; try discriminate.
           apply rmap_ok in H as (s' & Hs & ->). cbn [stmt_to]. rewrite (parse_print _ _ Es).
           rewrite (IH c); [reflexivity| |exact Hs].
           pose proof (size_in c [Str op; Str st; c] (or_intror (or_intror (or_introl eq_refl)))). lia.
    + discriminate.
Qed.

Theorem stmt_from_roundtrip n s : stmt_from n = Ok s -> stmt_to s = n.
Proof. apply (stmt_from_roundtrip_n (node_size n)); lia. Qed.

(* a policy read from IPLD and written back is the same node *)
Theorem pol_ipld_roundtrip n p : pol_from_ipld n = Ok p -> pol_to_ipld p = n.
Proof.
  unfold pol_from_ipld, pol_to_ipld. destruct (negb (ints_in53 n)); [discriminate|].
  destruct n as [| | | | | |l| |]; try discriminate. intros H. f_equal.
  apply (go_roundtrip l); [|exact H]. intros x _ s Hs. apply stmt_from_roundtrip. exact Hs.
Qed.

(* ---- the other direction: what the constructors build survives the round trip unchanged ---- *)
Section TInd.
  Variable P : tstmt -> Prop.
  Hypothesis HCmp : forall op sel v, P (TCmp op sel v).
  Hypothesis HNot : forall s, P s -> P (TNot s).
  Hypothesis HConn : forall op ss, Forall P ss -> P (TConn op ss).
  Hypothesis HLike : forall sel pat, P (TLike sel pat).
  Hypothesis HQuant : forall op sel s, P s -> P (TQuant op sel s).
  Fixpoint tstmt_ind' (s : tstmt) : P s :=
    match s with
    | TCmp op sel v => HCmp op sel v
    | TNot s => HNot s (tstmt_ind' s)
    | TConn op ss => HConn op ss ((fix go (l : list tstmt) : Forall P l :=
                                    match l with [] => Forall_nil _ | x :: r => Forall_cons _ (tstmt_ind' x) (go r) end) ss)
    | TLike sel pat => HLike sel pat
    | TQuant op sel s => HQuant op sel s (tstmt_ind' s)
    end.
End TInd.

Lemma conn_not_not op : is_conn_op op = true -> str_eqb op (lit "not") = false.
Proof. unfold is_conn_op. rewrite orb_true_iff, !str_eqb_eq. intros [->| ->]; reflexivity. Qed.
Lemma quant_not_cmp op : is_quant_op op = true -> is_cmp_op op = false /\ str_eqb op (lit "like") = false.
Proof. unfold is_quant_op. rewrite orb_true_iff, !str_eqb_eq. intros [->| ->]; split; reflexivity. Qed.

Theorem stmt_to_from s : wf_stmt s -> stmt_from (stmt_to s) = Ok s.
Proof.
  induction s as [op sel v|s IH|op ss IH|sel pat|op sel s IH] using tstmt_ind'; cbn [wf_stmt stmt_to]; intros W.
  - destruct W as (Hop & st & Hst). cbn [stmt_from]. rewrite Hop, (print_reparse _ _ Hst). reflexivity.
  - cbn [stmt_from]. rewrite str_eqb_refl, (IH W). reflexivity.
  - destruct W as (Hop & W). cbn [stmt_from]. rewrite (conn_not_not _ Hop), Hop, inner_go_eq.
    assert (E : stmts_from_list (map stmt_to ss) = Ok ss).
    { induction IH as [|x l Hx _ IHl]; [reflexivity|]. destruct W as [W1 W2]. cbn [map stmts_from_list].
      rewrite (Hx W1), (IHl W2). reflexivity. }
    rewrite E. reflexivity.
  - destruct W as ((st & Hst) & Hp). cbn [stmt_from]. change (is_cmp_op (lit "like")) with false. cbn iota.
    rewrite str_eqb_refl, (print_reparse _ _ Hst), Hp. reflexivity.
  - destruct W as (Hop & (st & Hst) & W). cbn [stmt_from]. destruct (quant_not_cmp _ Hop) as [H1 H2].
    rewrite H1, H2, Hop, (print_reparse _ _ Hst), (IH W). reflexivity.
Qed.

Theorem pol_to_from p : Forall wf_stmt p -> ints_in53 (pol_to_ipld p) = true ->
  pol_from_ipld (pol_to_ipld p) = Ok p.
Proof.
  intros W Hb. unfold pol_from_ipld. rewrite Hb. cbn [negb pol_to_ipld].
  induction W as [|s l Hs _ IH]; [reflexivity|]. cbn [map stmts_from_list].
  rewrite (stmt_to_from s Hs).
  assert (Hb' : ints_in53 (pol_to_ipld l) = true).
  { cbn [pol_to_ipld ints_in53 map forallb] in Hb. apply andb_true_iff in Hb as [_ Hb]. exact Hb. }
  rewrite (IH Hb'). reflexivity.
Qed.

Theorem pol_from_never_panics n : pol_from_ipld n <> Panic.
Proof.
  assert (Hs : forall k n, (node_size n <= k)%nat -> stmt_from n <> Panic).
  { induction k as [|k IH]; intros m Hk; [destruct m; cbn in Hk; lia|].
    destruct m as [| | | | | |l| |]; try discriminate.
    destruct l as [|x0 l]; [discriminate|]. destruct x0 as [| | | |op| | | |]; try discriminate.
    destruct l as [|a l]; [discriminate|]. destruct l as [|c l].
    - cbn [stmt_from]. destruct (str_eqb op (lit "not")).
      + assert (Ha : stmt_from a <> Panic).
        { apply IH. pose proof (size_in a [Str op; a] (or_intror (or_introl eq_refl))). lia. }
        destruct (stmt_from a); cbn; congruence.
      + destruct (is_conn_op op); [|discriminate]. destruct a as [| | | | | |l2| |]; try discriminate.
        rewrite inner_go_eq.
        assert (Hl : stmts_from_list l2 <> Panic).
        { assert (Hx : forall x, In x l2 -> stmt_from x <> Panic).
          { intros x Hx. apply IH. pose proof (size_in x l2 Hx).
            pose proof (size_in (List l2) [Str op; List l2] (or_intror (or_introl eq_refl))). lia. }
          clear -Hx. induction l2 as [|x r IHr]; [discriminate|]. cbn [stmts_from_list].
          pose proof (Hx x (or_introl eq_refl)). destruct (stmt_from x); [|discriminate|congruence].
          specialize (IHr (fun y Hy => Hx y (or_intror Hy))). destruct (stmts_from_list r); [discriminate|discriminate|congruence]. }
        destruct (stmts_from_list l2); cbn; congruence.
    - destruct l as [|d l].
      + destruct a as [| | | |st| | | |]; try discriminate.
        cbn [stmt_from]. pose proof (sel_parse_never_panics st) as Hp.
        destruct (is_cmp_op op); [destruct (sel_parse st); cbn; congruence|].
        destruct (str_eqb op (lit "like")).
        * destruct (sel_parse st); [|discriminate|congruence]. destruct c; try discriminate. destruct (parse_glob_ok _); discriminate.
        * destruct (is_quant_op op); [|discriminate]. destruct (sel_parse st); [|discriminate|congruence].
          assert (Hc : stmt_from c <> Panic).
          { apply IH. pose proof (size_in c [Str op; Str st; c] (or_intror (or_intror (or_introl eq_refl)))). lia. }
          destruct (stmt_from c); cbn; congruence.
      + discriminate. }
  unfold pol_from_ipld. destruct (negb (ints_in53 n)); [discriminate|].
  destruct n as [| | | | | |l| |]; try discriminate.
  induction l as [|x r IH]; [discriminate|]. cbn [stmts_from_list].
  pose proof (Hs (node_size x) x (le_n _)). destruct (stmt_from x); [|discriminate|congruence].
  destruct (stmts_from_list r); [discriminate|discriminate|congruence].
Qed.
