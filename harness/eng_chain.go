package main

import (
	"github.com/mr-tron/base58"
	"bytes"
	"fmt"
	"math/big"
	"os"
	"strings"
	"time"

	"github.com/ipfs/go-cid"
	"github.com/ipld/go-ipld-prime/datamodel"
	"github.com/libp2p/go-libp2p/core/crypto"
	mh "github.com/multiformats/go-multihash"

	"github.com/ucan-wg/go-ucan/did"
	"github.com/ucan-wg/go-ucan/pkg/args"
	"github.com/ucan-wg/go-ucan/pkg/command"
	"github.com/ucan-wg/go-ucan/token/delegation"
	"github.com/ucan-wg/go-ucan/token/invocation"
)

func init() { register(&Engine{Name: "chain", Gen: genChain}) }

// deterministic principals: Ed25519 keys from a fixed byte stream
type detReader struct{ r *Rng }

func (d detReader) Read(p []byte) (int, error) {
	for i := range p {
		p[i] = byte(d.r.U64())
	}
	return len(p), nil
}

func detPrincipals(n int) ([]crypto.PrivKey, []did.DID) {
	rd := detReader{NewRng(424242)}
	var ks []crypto.PrivKey
	var ds []did.DID
	for i := 0; i < n; i++ {
		priv, _, err := crypto.GenerateEd25519Key(rd)
		if err != nil {
			panic(err)
		}
		d, err := did.FromPrivKey(priv)
		if err != nil {
			panic(err)
		}
		ks = append(ks, priv)
		ds = append(ds, d)
	}
	return ks, ds
}

func fakeCid(i int) cid.Cid {
	h, _ := mh.Sum([]byte(fmt.Sprintf("verif-dlg-%d", i)), mh.SHA2_256, -1)
	return cid.NewCidV1(cid.DagCBOR, h)
}

// link describes one delegation of a generated chain
type link struct {
	iss, aud, sub int // principal indexes, sub = -1: undefined (powerline)
	cmd           string
	pol           []pstmt
	nbfOff        *int64 // seconds relative to the run's reference instant
	expOff        *int64
	expAbs        *int64 // absolute expiration in Unix seconds (for instants a Duration cannot reach)
	missing       bool   // not in the store
	undefCid      bool   // referenced by the undefined CID (nothing can be loaded under it)
	altOf         int    // k+1: referenced by a CID with the digest of proof k and another codec (unknown to the loader); 0: no
}

type mapLoader map[cid.Cid]*delegation.Token

func (m mapLoader) GetDelegation(c cid.Cid) (*delegation.Token, error) {
	if t, ok := m[c]; ok {
		return t, nil
	}
	return nil, delegation.ErrDelegationNotFound
}

type chainCase struct {
	invIss, invSub, invAud int // aud = -1: unset
	cmd                    string
	args                   [][2]any // ordered key/values
	expOff                 *int64
	links                  []link
	hook                   int // 0 none, 1 failing, 2 replaces args with hookArgs
	hookArgs               [][2]any
	sealed                 bool   // every delegation goes through ToSealed / FromSealed before it is loaded
	warm                   bool   // a first ExecutionAllowed with every delegation loadable precedes the observed call
	cold                   int    // k+1: a first ExecutionAllowed whose loader lacks proof k (and so fails) precedes the observed call
	invExpAbs              *int64 // absolute expiration of the invocation in Unix seconds
	argsSplit              bool   // the first argument is given by WithArgument, then all of them (the first with a decoy value) by WithArguments
	invSealed              bool   // the invocation goes through ToSealed / FromSealed before the check
	realClock              string // "": bounds far from now; otherwise the case was timed against the wall clock (tag suffix)
}

type chainEnv struct {
	c    *Ctx
	keys []crypto.PrivKey
	dids []did.DID
	t0   time.Time
	memo map[string]*delegation.Token
}

func optW(p *int64) W {
	if p == nil {
		return WNull
	}
	return bigNsW(*p)
}

// bigNsW: seconds -> nanoseconds as a wire integer of any size
func bigNsW(sec int64) W {
	v := new(big.Int).Mul(big.NewInt(sec), big.NewInt(1000000000))
	if v.Sign() < 0 {
		return W("i-" + new(big.Int).Neg(v).Text(16) + ";")
	}
	return W("i" + v.Text(16) + ";")
}

func (e *chainEnv) invExpW(cc chainCase) W {
	if cc.invExpAbs != nil {
		return bigNsW(*cc.invExpAbs - e.t0.Unix())
	}
	return optW(cc.expOff)
}

// expW: the expiration of a link relative to the run's reference instant, in nanoseconds
func (e *chainEnv) expW(l link) W {
	if l.expAbs != nil {
		return bigNsW(*l.expAbs - e.t0.Unix())
	}
	return optW(l.expOff)
}

// the text a principal was parsed from, where that is what the model must see (an implementation that normalises an
// identifier while parsing would otherwise describe its own mistake to the model)
var didTextOverride = map[int]string{}

func didW(dids []did.DID, i int) W {
	if i < 0 {
		return WStr("")
	}
	if t, ok := didTextOverride[i]; ok {
		return WStr(t)
	}
	return WStr(dids[i].String())
}

func buildArgs(kv [][2]any) *args.Args {
	a := args.New()
	for _, e := range kv {
		if err := a.Add(e[0].(string), e[1]); err != nil {
			panic(err)
		}
	}
	return a
}

func (e *chainEnv) mkDlg(l link, sealed bool) (*delegation.Token, error) {
	key := fmt.Sprintf("%d|%d|%d|%s|%v|%v|%s|%v", l.iss, l.aud, l.sub, l.cmd, l.nbfOff != nil, l.expOff != nil, string(polWire(l.pol)), sealed)
	if l.expAbs != nil {
		key += fmt.Sprint("a", *l.expAbs)
	}
	if l.nbfOff != nil {
		key += fmt.Sprint("n", *l.nbfOff)
	}
	if l.expOff != nil {
		key += fmt.Sprint("e", *l.expOff)
	}
	if t, ok := e.memo[key]; ok {
		return t, nil
	}
	pol, err := polBuild(l.pol)
	if err != nil {
		return nil, err
	}
	var opts []delegation.Option
	if l.sub >= 0 {
		opts = append(opts, delegation.WithSubject(e.dids[l.sub]))
	}
	if l.nbfOff != nil {
		opts = append(opts, delegation.WithNotBeforeIn(time.Duration(*l.nbfOff)*time.Second))
	}
	if l.expOff != nil {
		opts = append(opts, delegation.WithExpirationIn(time.Duration(*l.expOff)*time.Second))
	}
	if l.expAbs != nil && *l.expAbs > e.t0.Unix() {
		opts = append(opts, delegation.WithExpiration(time.Unix(*l.expAbs, 0)))
	} else if l.expAbs != nil {
		// an instant in the past: the constructor only takes it as a distance from now
		opts = append(opts, delegation.WithExpirationIn(-time.Since(time.Unix(*l.expAbs, 0))))
	}
	t, err := delegation.New(e.dids[l.iss], e.dids[l.aud], command.Command(l.cmd), pol, opts...)
	if err == nil && sealed {
		var b []byte
		if b, _, err = t.ToSealed(e.keys[l.iss]); err == nil {
			t, _, err = delegation.FromSealed(b)
		}
	}
	if err == nil {
		e.memo[key] = t
	}
	return t, err
}

func (e *chainEnv) run(tag string, cc chainCase) {
	ld, full := mapLoader{}, mapLoader{}
	var prf []cid.Cid
	var storeW []W
	for k, l := range cc.links {
		ci := fakeCid(k)
		if l.undefCid {
			prf = append(prf, cid.Undef)
			continue
		}
		if l.altOf > 0 {
			prf = append(prf, cid.NewCidV1(cid.Raw, fakeCid(l.altOf-1).Hash()))
			continue
		}
		prf = append(prf, ci)
		if l.missing && !cc.warm {
			continue
		}
		t, err := e.mkDlg(l, cc.sealed)
		if err != nil {
			fmt.Fprintln(os.Stderr, "mkDlg:", err)
			return
		}
		full[ci] = t
		if l.missing {
			continue
		}
		ld[ci] = t
		storeW = append(storeW, WList(WBytes(ci.Bytes()), WMap(
			KV{"iss", didW(e.dids, l.iss)}, KV{"aud", didW(e.dids, l.aud)}, KV{"sub", didW(e.dids, l.sub)},
			KV{"cmd", WStr(l.cmd)}, KV{"pol", polWire(l.pol)}, KV{"nbf", optW(l.nbfOff)}, KV{"exp", e.expW(l)})))
	}
	opts := []invocation.Option{invocation.WithArguments(buildArgs(cc.args))}
	if cc.argsSplit && len(cc.args) > 0 {
		decoy := append([][2]any{{cc.args[0][0], "decoy-value-that-must-be-dropped"}}, cc.args[1:]...)
		opts = []invocation.Option{invocation.WithArgument(cc.args[0][0].(string), cc.args[0][1]), invocation.WithArguments(buildArgs(decoy))}
	}
	if cc.invExpAbs != nil {
		opts = append(opts, invocation.WithExpiration(time.Unix(*cc.invExpAbs, 0)))
	}
	if cc.invAud >= 0 {
		opts = append(opts, invocation.WithAudience(e.dids[cc.invAud]))
	}
	if cc.expOff != nil {
		opts = append(opts, invocation.WithExpiration(e.t0.Add(time.Duration(*cc.expOff)*time.Second)))
	}
	// fields that must be irrelevant
	if e.c.R.Chance(30) {
		opts = append(opts, invocation.WithMeta("note", "x"), invocation.WithNonce(bytes.Repeat([]byte{7}, 12+e.c.R.Intn(5))))
	}
	switch e.c.R.Intn(8) {
	case 0:
		opts = append(opts, invocation.WithoutInvokedAt())
	case 1:
		opts = append(opts, invocation.WithInvokedAtIn(90*time.Second)) // clock skew: issued "in the future"
	case 2:
		opts = append(opts, invocation.WithInvokedAtIn(87600*time.Hour))
	case 3:
		opts = append(opts, invocation.WithInvokedAtIn(-87600*time.Hour))
	}
	if e.c.R.Chance(20) {
		cc0 := fakeCid(9999)
		opts = append(opts, invocation.WithCause(&cc0))
	}
	inv, err := invocation.New(e.dids[cc.invIss], e.dids[cc.invSub], command.Command(cc.cmd), prf, opts...)
	if err != nil {
		fmt.Fprintln(os.Stderr, "inv.New:", err)
		return
	}
	// the arguments the caller asked for (the model's input), and whether the token holds exactly those
	argsNode, err := buildArgs(cc.args).ToIPLD()
	if err != nil {
		return
	}
	argsHeld := false
	func() {
		defer func() { recover() }()
		if got, err := inv.Arguments().ToIPLD(); err == nil && datamodel.DeepEqual(got, argsNode) {
			argsHeld = true
		}
	}()
	var prfW []W
	for _, p := range prf {
		prfW = append(prfW, WBytes(p.Bytes()))
	}
	audEff := -1
	if cc.invAud >= 0 && cc.invAud != cc.invSub {
		audEff = cc.invAud
	}
	invW := WMap(KV{"iss", didW(e.dids, cc.invIss)}, KV{"sub", didW(e.dids, cc.invSub)}, KV{"aud", didW(e.dids, audEff)},
		KV{"cmd", WStr(cc.cmd)}, KV{"args", WNode(argsNode)}, KV{"prf", WList(prfW...)}, KV{"exp", e.invExpW(cc)})
	if cc.invSealed {
		b, _, err := inv.ToSealed(e.keys[cc.invIss])
		if err != nil {
			return
		}
		if inv, _, err = invocation.FromSealed(b); err != nil {
			return
		}
	}
	var allowed bool
	hookW := WNull
	panicked := false
	defer func() {
		if r := recover(); r != nil {
			panicked = true
			e.c.Emit(tag, WList(WStr("exec"), invW, WList(storeW...), WInt(0), hookW), WPanic())
		}
	}()
	_ = panicked
	if cc.warm {
		_ = inv.ExecutionAllowed(full)
	}
	if cc.cold > 0 {
		partial := mapLoader{}
		for ci, t := range ld {
			if !ci.Equals(fakeCid(cc.cold - 1)) {
				partial[ci] = t
			}
		}
		_ = inv.ExecutionAllowed(partial)
		_ = inv.ExecutionAllowedWithArgsHook(partial, func(a args.ReadOnly) (*args.Args, error) { return a.WriteableClone(), nil })
	}
	switch cc.hook {
	case 0:
		allowed = inv.ExecutionAllowed(ld) == nil
	case 1:
		hookW = WList()
		allowed = inv.ExecutionAllowedWithArgsHook(ld, func(a args.ReadOnly) (*args.Args, error) { return nil, fmt.Errorf("hook refuses") }) == nil
	case 2:
		na := buildArgs(cc.hookArgs)
		nn, _ := na.Clone().ToIPLD()
		hookW = WList(WNode(nn))
		allowed = inv.ExecutionAllowedWithArgsHook(ld, func(a args.ReadOnly) (*args.Args, error) { return na, nil }) == nil
	}
	if !argsHeld {
		e.c.Emit(tag, WList(WStr("exec"), invW, WList(storeW...), WInt(0), hookW), WStr("the invocation does not hold the arguments it was given"))
		return
	}
	e.c.Emit(tag, WList(WStr("exec"), invW, WList(storeW...), WInt(0), hookW), WBool(allowed))
}

func i64(v int64) *int64 { return &v }

// curated statements over the standard argument map {"a":5,"b":"abc","c":[5,6,7],"d":{"e":1}}
var stdArgs = [][2]any{{"a", 5}, {"b", "abc"}, {"c", []any{5, 6, 7}}, {"d", map[string]any{"e": 1}}, {"f", []any{}}, {"g", map[string]any{}}}

func passStmts() []pstmt {
	return []pstmt{
		{kind: "==", sel: ".a", val: J("5")}, {kind: ">=", sel: ".a", val: J("5")}, {kind: "<", sel: ".a", val: J("6")},
		{kind: "like", sel: ".b", pat: "a*"}, {kind: "any", sel: ".c", subs: []pstmt{{kind: "==", sel: ".", val: J("6")}}},
		{kind: "all", sel: ".c", subs: []pstmt{{kind: ">", sel: ".", val: J("4")}}}, {kind: "==", sel: ".zz?", val: J("1")},
		{kind: "==", sel: ".d.e", val: J("1")}, {kind: "not", subs: []pstmt{{kind: "==", sel: ".a", val: J("6")}}},
		{kind: "or", subs: []pstmt{{kind: "==", sel: ".a", val: J("1")}, {kind: "==", sel: ".b", val: J(`"abc"`)}}},
		{kind: "==", sel: ".c", val: J("[5,6,7]")}, {kind: "==", sel: ".d", val: J(`{"e":1}`)},
		// quantifiers over a map visit its values; nothing to visit satisfies all; optional data missing under not
		{kind: "all", sel: ".d", subs: []pstmt{{kind: "==", sel: ".", val: J("1")}}}, {kind: "any", sel: ".d", subs: []pstmt{{kind: "==", sel: ".", val: J("1")}}},
		{kind: "all", sel: ".f", subs: []pstmt{{kind: "==", sel: ".", val: J("1")}}}, {kind: "all", sel: ".g", subs: []pstmt{{kind: "==", sel: ".", val: J("1")}}},
		{kind: "not", subs: []pstmt{{kind: "==", sel: ".zz?", val: J("1")}}}, {kind: "all", sel: ".c[3:]", subs: []pstmt{{kind: "==", sel: ".", val: J("1")}}},
	}
}
func failStmts() []pstmt {
	return []pstmt{
		{kind: "==", sel: ".a", val: J("6")}, {kind: ">", sel: ".a", val: J("5")}, {kind: "==", sel: ".zz", val: J("1")},
		{kind: "like", sel: ".b", pat: "b*"}, {kind: "all", sel: ".c", subs: []pstmt{{kind: ">", sel: ".", val: J("5")}}},
		{kind: "==", sel: ".a", val: J("5.0")}, {kind: "and", subs: []pstmt{{kind: "==", sel: ".a", val: J("5")}, {kind: "==", sel: ".b", val: J(`"x"`)}}},
		{kind: "any", sel: ".c", subs: []pstmt{{kind: "==", sel: ".", val: J("9")}}}, {kind: "not", subs: []pstmt{{kind: "==", sel: ".a", val: J("5")}}},
		// equality on lists and maps is equality of the whole value: a prefix, the empty value, a sub-map do not do
		{kind: "==", sel: ".c", val: J("[5,6]")}, {kind: "==", sel: ".c", val: J("[]")}, {kind: "==", sel: ".d", val: J("{}")},
		{kind: "==", sel: ".c", val: J("[5,6,7,8]")}, {kind: "==", sel: ".", val: J(`{"a":5}`)}, {kind: "==", sel: ".d", val: J(`{"e":1,"f":2}`)},
		// quantifiers bind when there is nothing, or nothing of the right kind, to visit: all / any over a scalar, a
		// string, a missing value; any over an empty list, an empty map, an empty slice; required data missing under not
		{kind: "all", sel: ".a", subs: []pstmt{{kind: ">", sel: ".", val: J("0")}}}, {kind: "all", sel: ".b", subs: []pstmt{{kind: "like", sel: ".", pat: "*"}}},
		{kind: "any", sel: ".a", subs: []pstmt{{kind: ">", sel: ".", val: J("0")}}}, {kind: "all", sel: ".zz", subs: []pstmt{{kind: ">", sel: ".", val: J("0")}}},
		{kind: "any", sel: ".f", subs: []pstmt{{kind: "==", sel: ".", val: J("1")}}}, {kind: "any", sel: ".g", subs: []pstmt{{kind: "==", sel: ".", val: J("1")}}},
		{kind: "any", sel: ".c[3:]", subs: []pstmt{{kind: ">", sel: ".", val: J("0")}}}, {kind: "all", sel: ".d", subs: []pstmt{{kind: "==", sel: ".", val: J("2")}}},
		{kind: "not", subs: []pstmt{{kind: "==", sel: ".zz", val: J("1")}}}, {kind: "like", sel: ".a", pat: "*"}, {kind: "like", sel: ".c", pat: "*"},
		{kind: "all", sel: ".a", subs: []pstmt{{kind: "not", subs: []pstmt{{kind: "==", sel: ".", val: J("0")}}}}},
	}
}

func genChain(c *Ctx) {
	keys, dids := detPrincipals(5)
	// principals 5, 6, 7: DIDs whose text differs from that of principals 0, 1, 2 only in the case of one letter
	for i := 0; i < 3; i++ {
		txt := []byte(dids[i].String())
		for pos := len(txt) - 1; pos > 12; pos-- {
			ch := txt[pos]
			var fl byte
			switch {
			case ch >= 'a' && ch <= 'z':
				fl = ch - 32
			case ch >= 'A' && ch <= 'Z':
				fl = ch + 32
			default:
				continue
			}
			if strings.IndexByte("OIl", fl) >= 0 {
				continue
			}
			t2 := append([]byte{}, txt...)
			t2[pos] = fl
			if d2, err := did.Parse(string(t2)); err == nil && d2 != dids[i] {
				dids = append(dids, d2)
				break
			}
		}
	}
	// principals 8, 9, 10: the identifier of principals 0, 1, 2 with one more byte after the key (another identifier: its
	// text differs), present only if all three look-alikes above were found so that the indexes line up
	if len(dids) == 8 {
		for i := 0; i < 3; i++ {
			txt := dids[i].String()
			raw, err := base58.Decode(txt[9:])
			if err != nil {
				break
			}
			ext := "did:key:z" + base58.Encode(append(append([]byte{}, raw...), 0x01))
			d2, err := did.Parse(ext)
			if err != nil {
				break
			}
			didTextOverride[len(dids)] = ext
			dids = append(dids, d2)
		}
	}
	e := &chainEnv{c: c, keys: keys, dids: dids, t0: time.Now(), memo: map[string]*delegation.Token{}}
	cmds := []string{"/", "/a", "/a/b", "/ab", "/b"}

	// ---- 1. exhaustive over principals: chains of length 1 and 2, every (iss, aud, sub) per link over 4
	//         principals (sub also undefined), commands from a 3-element lattice; subject = principal 0, invoker = 1 or 2
	subs := []int{0, 3, -1}
	cm3 := []string{"/", "/a", "/a/b"}
	var linkSpace []link
	for iss := 0; iss < 4; iss++ {
		for aud := 0; aud < 4; aud++ {
			for _, sub := range subs {
				for _, cm := range cm3 {
					linkSpace = append(linkSpace, link{iss: iss, aud: aud, sub: sub, cmd: cm})
				}
			}
		}
	}
	for _, invIss := range []int{1, 2} {
		for _, icmd := range cm3 {
			for _, l1 := range linkSpace {
				e.run("chain/exh1", chainCase{invIss: invIss, invSub: 0, invAud: -1, cmd: icmd, args: stdArgs, links: []link{l1}})
			}
		}
	}
	n2 := 0
	for _, l1 := range linkSpace {
		if l1.aud != 1 && !c.Thorough() && (l1.iss+l1.aud)%2 == 0 {
			continue // quick tier: keep all first links addressed to the invoker, half of the others
		}
		for _, l2 := range linkSpace {
			n2++
			e.run("chain/exh2", chainCase{invIss: 1, invSub: 0, invAud: -1, cmd: "/a/b", args: stdArgs, links: []link{l1, l2}})
		}
	}
	// no proofs at all
	e.run("chain/empty", chainCase{invIss: 1, invSub: 0, invAud: -1, cmd: "/a", args: stdArgs})
	for _, ia := range [][3]int{{0, 0, -1}, {0, 0, 1}, {0, 0, 0}, {1, 0, 0}, {1, 0, 1}, {2, 2, -1}} {
		e.run("chain/empty", chainCase{invIss: ia[0], invSub: ia[1], invAud: ia[2], cmd: "/", args: stdArgs})
		e.run("chain/empty", chainCase{invIss: ia[0], invSub: ia[1], invAud: ia[2], cmd: "/a", args: nil})
	}

	// ---- 2. structured random: a conforming chain, then 0-3 deviations
	nrand := 15000
	if c.Thorough() {
		nrand = 1500000
	}
	ps, fs := passStmts(), failStmts()
	for it := 0; it < nrand; it++ {
		L := 1 + c.R.Intn(6)
		if c.R.Chance(5) {
			L = 7 + c.R.Intn(6)
		}
		// principals: subject S, chain S -> p1 -> ... -> invoker ; links ordered invoker-side first
		S := c.R.Intn(5)
		pr := make([]int, L+1) // pr[0] = invoker, pr[L] = S (root issuer)
		for k := 0; k < L; k++ {
			pr[k] = c.R.Intn(5) // repeats and self-delegation allowed
		}
		pr[L] = S
		// attenuating commands from the root down
		depthRoot := c.R.Intn(2)
		segs := []string{"a", "b"}
		cmdAt := make([]string, L+1) // cmdAt[k] command of link k (k = L-1 is root), cmdAt[L] unused
		cur := "/"
		if depthRoot == 1 {
			cur = "/a"
		}
		for k := L - 1; k >= 0; k-- {
			cmdAt[k] = cur
			if c.R.Chance(35) && len(cur) < 9 {
				if cur == "/" {
					cur = "/" + c.R.Pick(segs)
				} else {
					cur = cur + "/" + c.R.Pick(segs)
				}
			}
		}
		icmd := cur
		links := make([]link, L)
		for k := 0; k < L; k++ {
			links[k] = link{iss: pr[k+1], aud: pr[k], sub: S, cmd: cmdAt[k]}
			np := c.R.Intn(3)
			for j := 0; j < np; j++ {
				links[k].pol = append(links[k].pol, ps[c.R.Intn(len(ps))])
			}
			if c.R.Chance(40) {
				links[k].expOff = i64(int64(3600 * (1 + c.R.Intn(1000))))
			}
			if c.R.Chance(40) {
				links[k].nbfOff = i64(-int64(3600 * (1 + c.R.Intn(1000))))
			}
		}
		cc := chainCase{invIss: pr[0], invSub: S, invAud: -1, cmd: icmd, args: stdArgs, links: links}
		if c.R.Chance(30) {
			cc.expOff = i64(int64(3600 * (1 + c.R.Intn(100))))
		}
		// irrelevant audience
		switch c.R.Intn(5) {
		case 0:
			cc.invAud = S
		case 1:
			cc.invAud = pr[0]
		case 2:
			cc.invAud = c.R.Intn(5)
		}
		tag := "chain/conform"
		ndev := 0
		if c.R.Chance(70) {
			ndev = 1 + c.R.Intn(3)
			tag = "chain/deviate"
		}
		for d := 0; d < ndev; d++ {
			k := c.R.Intn(L)
			switch c.R.Intn(16) {
			case 0:
				cc.links[k].aud = c.R.Intn(5)
			case 1:
				cc.links[k].iss = c.R.Intn(5)
			case 2:
				cc.links[k].sub = c.R.Intn(5)
			case 3:
				cc.links[k].sub = -1
			case 4:
				cc.links[k].cmd = c.R.Pick(cmds) // possibly widening / sibling / shared textual prefix
			case 5:
				cc.links[k].cmd = cc.links[k].cmd + "x" // /a -> /ax : textual prefix only
				if cc.links[k].cmd == "/x" {
					cc.links[k].cmd = "/ab"
				}
			case 6:
				cc.links[k].expOff = i64(-int64(3600 * (1 + c.R.Intn(100))))
			case 7:
				cc.links[k].nbfOff = i64(int64(3600 * (1 + c.R.Intn(100))))
			case 8:
				cc.links[k].pol = append(cc.links[k].pol, fs[c.R.Intn(len(fs))])
			case 9:
				cc.links[k].missing = true
			case 10:
				c.R.Intn(1)
				if L > 1 { // permute two links
					j := c.R.Intn(L)
					cc.links[k], cc.links[j] = cc.links[j], cc.links[k]
				}
			case 11: // duplicate a link
				cc.links = append(cc.links[:k+1], cc.links[k:]...)
				L++
			case 12: // truncate: drop the root
				if L > 1 {
					cc.links = cc.links[:L-1]
					L--
				}
			case 13: // foreign root: last link issued by and about another principal
				o := (S + 1 + c.R.Intn(4)) % 5
				cc.links[L-1].iss, cc.links[L-1].sub = o, o
			case 14:
				cc.expOff = i64(-int64(3600 * (1 + c.R.Intn(100))))
			case 15:
				cc.cmd = c.R.Pick(cmds)
			}
		}
		// argument hooks
		switch c.R.Intn(8) {
		case 0:
			cc.hook = 1
			tag = "chain/hook-fails"
		case 1:
			cc.hook = 2
			cc.hookArgs = stdArgs
		case 2:
			cc.hook = 2
			cc.hookArgs = [][2]any{{"a", 6}, {"b", "abc"}, {"c", []any{5, 6, 7}}, {"d", map[string]any{"e": 1}}}
			tag = "chain/hook-breaks"
		case 3:
			// the invocation's own arguments fail, the hook repairs them
			cc.args = [][2]any{{"a", 6}, {"b", "zzz"}}
			cc.hook = 2
			cc.hookArgs = stdArgs
		case 4:
			// the hook drops every argument: statements over required data must now fail
			cc.hook = 2
			cc.hookArgs = nil
			tag = "chain/hook-empties"
		case 5:
			// the hook keeps a subset
			cc.hook = 2
			cc.hookArgs = stdArgs[:1+c.R.Intn(3)]
			tag = "chain/hook-subset"
		}
		e.run(tag, cc)
	}

	// ---- 3. policy placement: one failing statement on each link in turn, chains of length 1..4
	for L := 1; L <= 4; L++ {
		for pos := 0; pos < L; pos++ {
			for _, f := range fs {
				links := make([]link, L)
				for k := 0; k < L; k++ {
					links[k] = link{iss: k + 1, aud: k, sub: L, cmd: "/"}
					if k == L-1 {
						links[k].iss = L
					}
					links[k].pol = []pstmt{ps[(k+pos)%len(ps)]}
				}
				// principals 0..L must exist: L <= 4
				links[pos].pol = append(links[pos].pol, f)
				e.run("chain/policy-place", chainCase{invIss: 0, invSub: L, invAud: -1, cmd: "/a", args: stdArgs, links: links})
			}
		}
	}

	// ---- 3b. command lattice: every ordered pair of commands at every link of chains of length 1..3
	lattice := []string{"/", "/a", "/a/b", "/ab", "/ab/b", "/a/bb", "/b", "/a/b/c", "/abc/b"}
	for L := 1; L <= 3; L++ {
		for pos := 0; pos < L; pos++ {
			for _, upper := range lattice {
				for _, lower := range lattice {
					// link pos carries `upper`, everything below it (towards the invocation) carries `lower`,
					// everything above it carries "/"
					links := make([]link, L)
					for k := 0; k < L; k++ {
						links[k] = link{iss: k + 1, aud: k, sub: L, cmd: "/"}
						if k == L-1 {
							links[k].iss = L
						}
						switch {
						case k == pos:
							links[k].cmd = upper
						case k < pos:
							links[k].cmd = lower
						}
					}
					e.run("chain/cmd-lattice", chainCase{invIss: 0, invSub: L, invAud: -1, cmd: lower, args: stdArgs, links: links})
				}
			}
		}
	}

	// ---- 3c. commands outside ASCII: siblings that only differ by case folding, parents and children
	ulat := []string{"/αρχείο/λόγος", "/αρχείο/λόγοσ", "/αρχείο", "/é", "/é/b", "/éb", "/xσ", "/xς", "/xς/y", "/"}
	for L := 1; L <= 2; L++ {
		for pos := 0; pos < L; pos++ {
			for _, upper := range ulat {
				for _, lower := range ulat {
					links := make([]link, L)
					for k := 0; k < L; k++ {
						links[k] = link{iss: k + 1, aud: k, sub: L, cmd: "/"}
						if k == L-1 {
							links[k].iss = L
						}
						switch {
						case k == pos:
							links[k].cmd = upper
						case k < pos:
							links[k].cmd = lower
						}
					}
					e.run("chain/cmd-unicode", chainCase{invIss: 0, invSub: L, invAud: -1, cmd: lower, args: stdArgs, links: links, sealed: pos == 0})
				}
			}
		}
	}

	// ---- 3d. statements over text: slices of strings by character (negative and open bounds, text outside
	// ASCII, long text), like patterns whose literal parts overlap in the data; each at every link of a
	// 3-link chain, through sealed delegations; the same (memoised) delegations then meet arguments of other lengths
	textArgs := func(v int) [][2]any {
		switch v {
		case 0:
			return [][2]any{{"name", "機密-budget.xlsx"}, {"file", "café.png"}, {"bio", strings.Repeat("привет мир ", 6)}, {"path", "/backup/latest.tar"},
				{"user", "admin-admin"}, {"host", "api.eu.eu.example.com"}, {"to", []any{"a@example.com", "b@example.com"}},
				{"req", J(`{"mode":null,"owner":null,"path":"/public/x"}`)}}
		case 1:
			return [][2]any{{"name", "né-budget"}, {"file", "a.png"}, {"bio", "abc"}, {"path", "/backup/x/backup/latest.tar"},
				{"user", "admin-x-admin"}, {"host", "aaab"}, {"to", []any{"a@example.com", "b@example.com", "c@evil.org"}},
				{"req", J(`{"mode":"readonly","owner":"alice"}`)}}
		default:
			return [][2]any{{"name", "機密"}, {"file", "né.jpeg"}, {"bio", strings.Repeat("ö", 50)}, {"path", "/backup/"},
				{"user", "admin-"}, {"host", ".eu.example.com"}, {"to", []any{"x@example.com"}}}
		}
	}
	textStmts := []pstmt{
		{kind: "==", sel: ".file[:-4]", val: J(`"café"`)}, {kind: "==", sel: ".name[0:2]", val: J(`"機密"`)},
		{kind: "not", subs: []pstmt{{kind: "==", sel: ".name[0:2]", val: J(`"機密"`)}}},
		{kind: "==", sel: ".bio[10:12]", val: J(`" п"`)}, {kind: "==", sel: ".bio[-3:]", val: J(`"ир "`)}, {kind: "like", sel: ".bio[40:]", pat: "*"},
		{kind: "like", sel: ".path", pat: "/backup/*/backup/latest.tar"}, {kind: "like", sel: ".user", pat: "admin-*-admin"},
		{kind: "like", sel: ".host", pat: "*.eu.example.com"}, {kind: "like", sel: ".host", pat: "api*.eu.example.com"}, {kind: "like", sel: ".host", pat: "*aab"},
		{kind: "all", sel: ".to[1:]", subs: []pstmt{{kind: "like", sel: ".", pat: "*@example.com"}}},
		{kind: "any", sel: ".to[:-1]", subs: []pstmt{{kind: "like", sel: ".", pat: "b@*"}}},
		{kind: "==", sel: ".file[1:][1:]", val: J(`"fé.png"`)}, {kind: "==", sel: ".file[2:][:2]", val: J(`"fé"`)},
		{kind: "==", sel: ".file[1:][:2]", val: J(`"ca"`)}, {kind: "not", subs: []pstmt{{kind: "==", sel: ".file[2:][:2]", val: J(`"fé"`)}}},
		{kind: "==", sel: ".file[:4][2:]", val: J(`"fé.png"`)}, {kind: "like", sel: ".file[1:][0:3]", pat: "caf"},
		{kind: "==", sel: ".req.mode?", val: J(`"readonly"`)}, {kind: "like", sel: ".req.path?", pat: "/public/*"},
		{kind: "not", subs: []pstmt{{kind: "==", sel: ".req.owner?", val: J(`null`)}}}, {kind: "like", sel: ".req.mode?", pat: "*"},
		{kind: "==", sel: ".req?.mode?", val: J(`null`)},
	}
	for round := 0; round < 2; round++ {
		for v := 0; v < 3; v++ {
			for si, st := range textStmts {
				for pos := 0; pos < 3; pos++ {
					links := make([]link, 3)
					for k := 0; k < 3; k++ {
						links[k] = link{iss: k + 1, aud: k, sub: 3, cmd: "/"}
						if k == 2 {
							links[k].iss = 3
						}
					}
					links[pos].pol = []pstmt{st}
					if (si+pos)%2 == 0 {
						links[(pos+1)%3].pol = []pstmt{{kind: "like", sel: ".file", pat: "*"}}
					}
					e.run("chain/text-policy", chainCase{invIss: 0, invSub: 3, invAud: -1, cmd: "/a", args: textArgs(v), links: links, sealed: true})
				}
			}
		}
	}

	// ---- 3e. the decision is a function of the loader of that call: a second call on the same invocation
	// with a loader that lacks one of the delegations (the first call could load them all)
	for L := 1; L <= 3; L++ {
		for miss := 0; miss < L; miss++ {
			links := make([]link, L)
			for k := 0; k < L; k++ {
				links[k] = link{iss: k + 1, aud: k, sub: L, cmd: "/"}
				if k == L-1 {
					links[k].iss = L
				}
			}
			e.run("chain/second-call", chainCase{invIss: 0, invSub: L, invAud: -1, cmd: "/a", args: stdArgs, links: links, warm: true})
			links2 := append([]link{}, links...)
			links2[miss].missing = true
			e.run("chain/second-call-missing", chainCase{invIss: 0, invSub: L, invAud: -1, cmd: "/a", args: stdArgs, links: links2, warm: true})
		}
	}

	// ---- 3e1b. the other way round: the first call fails because a delegation is not there yet, the observed call can load
	// them all - its decision is that of the whole chain (policies of the delegations that arrived late included)
	{
		ps, fs := passStmts(), failStmts()
		for L := 2; L <= 3; L++ {
			for late := 0; late < L; late++ {
				for bad := -1; bad < L; bad++ {
					links := make([]link, L)
					for k := 0; k < L; k++ {
						links[k] = link{iss: k + 1, aud: k, sub: L, cmd: "/", pol: []pstmt{ps[k%len(ps)]}}
						if k == L-1 {
							links[k].iss = L
						}
						if k == bad {
							links[k].pol = []pstmt{ps[0], fs[(k+late)%len(fs)]}
						}
					}
					e.run("chain/retry-after-missing", chainCase{invIss: 0, invSub: L, invAud: -1, cmd: "/a", args: stdArgs, links: links, cold: late + 1})
				}
			}
		}
	}

	// ---- 3e2. a proof list that references the undefined CID; principals that look alike (text equal up to letter
	// case) in each role; commands with empty segments through sealed delegations; arguments given through two options
	for L := 1; L <= 3; L++ {
		for pos := 0; pos < L; pos++ {
			mk := func() []link {
				links := make([]link, L)
				for k := 0; k < L; k++ {
					links[k] = link{iss: k + 1, aud: k, sub: L, cmd: "/"}
					if k == L-1 {
						links[k].iss = L
					}
				}
				return links
			}
			// a valid chain with one more entry, the undefined CID, at position pos (and one replacing the entry)
			ls := mk()
			ins := append(append(append([]link{}, ls[:pos]...), link{undefCid: true}), ls[pos:]...)
			e.run("chain/undef-cid", chainCase{invIss: 0, invSub: L, invAud: -1, cmd: "/a", args: stdArgs, links: ins})
			ls = mk()
			ls[pos].undefCid = true
			e.run("chain/undef-cid", chainCase{invIss: 0, invSub: L, invAud: -1, cmd: "/a", args: stdArgs, links: ls})
			if len(e.dids) >= 8 && L <= 2 {
				// look-alikes: only principals 0..2 have them (index + 5: letter case; index + 8: a byte more)
				for _, off := range []int{5, 8} {
					if off+2 >= len(e.dids) {
						continue
					}
					for _, role := range []string{"aud", "iss", "sub"} {
						ls = mk()
						switch role {
						case "aud":
							if ls[pos].aud <= 2 {
								ls[pos].aud += off
							}
						case "iss":
							if ls[pos].iss <= 2 {
								ls[pos].iss += off
							}
						case "sub":
							if ls[pos].sub <= 2 {
								ls[pos].sub += off
							}
						}
						e.run("chain/lookalike-"+role, chainCase{invIss: 0, invSub: L, invAud: -1, cmd: "/a", args: stdArgs, links: ls})
					}
					ls = mk()
					e.run("chain/lookalike-invoker", chainCase{invIss: off, invSub: L, invAud: -1, cmd: "/a", args: stdArgs, links: ls})
				}
			}
			// the same digest under another codec: a CID the loader does not know, after the real one and instead of it
			ls = mk()
			dup := ls[pos]
			dup.altOf = pos + 1
			ins2 := append(append(append([]link{}, ls[:pos+1]...), dup), ls[pos+1:]...)
			e.run("chain/alt-cid", chainCase{invIss: 0, invSub: L, invAud: -1, cmd: "/a", args: stdArgs, links: ins2})
			ls = mk()
			ls[pos].altOf = pos + 1
			e.run("chain/alt-cid", chainCase{invIss: 0, invSub: L, invAud: -1, cmd: "/a", args: stdArgs, links: ls})
			// a subject delegating to itself, referenced twice: by its CID, then by the unknown CID with the same digest
			self := []link{{iss: L, aud: L, sub: L, cmd: "/"}, {iss: L, aud: L, sub: L, cmd: "/", altOf: 1}}
			e.run("chain/alt-cid", chainCase{invIss: L, invSub: L, invAud: -1, cmd: "/a", args: stdArgs, links: self})
			// a cycle subject -> B -> subject -> B with the second pair under unknown CIDs of the first pair's digests
			cyc := []link{{iss: L, aud: 0, sub: L, cmd: "/"}, {iss: 0, aud: L, sub: L, cmd: "/"}, {iss: L, aud: 0, sub: L, cmd: "/", altOf: 1}, {iss: L, aud: L, sub: L, cmd: "/"}}
			e.run("chain/alt-cid", chainCase{invIss: 0, invSub: L, invAud: -1, cmd: "/a", args: stdArgs, links: cyc})
			ls = mk()
			e.run("chain/args-two-options", chainCase{invIss: 0, invSub: L, invAud: -1, cmd: "/a", args: stdArgs, links: ls, argsSplit: true})
			ls = mk()
			ls[pos].pol = []pstmt{{kind: "==", sel: ".a", val: J("5")}}
			e.run("chain/args-two-options", chainCase{invIss: 0, invSub: L, invAud: -1, cmd: "/a", args: stdArgs, links: ls, argsSplit: true, sealed: true})
		}
	}
	elat := []string{"/a//b", "/a/b", "/a", "/a//b/c", "//a", "/", "/a//", "/store//admin", "/store/admin"}
	for L := 1; L <= 2; L++ {
		for pos := 0; pos < L; pos++ {
			for _, upper := range elat {
				for _, lower := range elat {
					links := make([]link, L)
					for k := 0; k < L; k++ {
						links[k] = link{iss: k + 1, aud: k, sub: L, cmd: "/"}
						if k == L-1 {
							links[k].iss = L
						}
						switch {
						case k == pos:
							links[k].cmd = upper
						case k < pos:
							links[k].cmd = lower
						}
					}
					e.run("chain/cmd-empty-segments", chainCase{invIss: 0, invSub: L, invAud: -1, cmd: lower, args: stdArgs, links: links, sealed: true})
				}
			}
		}
	}
	// an invocation whose own expiration is Go's zero time (year 1), the epoch, or far away
	for _, ab := range []int64{-62135596800, -62135596799, 0, 253402300799} {
		for _, sealedD := range []bool{false, true} {
			links := []link{{iss: 1, aud: 0, sub: 1, cmd: "/"}}
			e.run("chain/extreme-exp/invocation", chainCase{invIss: 0, invSub: 1, invAud: -1, cmd: "/a", args: stdArgs, links: links, sealed: sealedD, invExpAbs: i64(ab)})
		}
	}

	// ---- 3e3. equality on map values whose entries come in different orders: a Go map given as an argument is laid out
	// in bytewise key order, a decoded map in DAG-CBOR order (shorter keys first); every combination of built /
	// decoded delegation and built / decoded invocation must decide the same
	for _, kv := range []struct {
		pol  string
		args [][2]any
	}{
		{`{"id":7,"n":2}`, [][2]any{{"quota", map[string]any{"id": 7, "n": 2}}}},
		{`{"id":7,"n":2}`, [][2]any{{"quota", map[string]any{"id": 7, "n": 3}}}},
		{`{"aa":{"zz":1,"y":[1,{"bb":1,"a":2}]},"b":1}`, [][2]any{{"quota", map[string]any{"b": 1, "aa": map[string]any{"y": []any{1, map[string]any{"a": 2, "bb": 1}}, "zz": 1}}}}},
		{`{"id":7,"n":2}`, [][2]any{{"quota", map[string]any{"id": 7, "n": 2, "x": 0}}}},
	} {
		for _, sd := range []bool{false, true} {
			for _, si := range []bool{false, true} {
				for pos := 0; pos < 2; pos++ {
					links := []link{{iss: 1, aud: 0, sub: 2, cmd: "/"}, {iss: 2, aud: 1, sub: 2, cmd: "/"}}
					links[pos].pol = []pstmt{{kind: "==", sel: ".quota", val: J(kv.pol)}}
					e.run("chain/map-order", chainCase{invIss: 0, invSub: 2, invAud: -1, cmd: "/a", args: kv.args, links: links, sealed: sd, invSealed: si})
				}
			}
		}
	}

	// ---- 3f. bounds at the ends of the representable range, through sealed delegations: expiration at the
	// epoch (0), one second after it, "never" as 9999-12-31, and the largest timestamp the wire allows
	for _, ab := range []struct {
		name string
		off  *int64
		abs  *int64
	}{{"epoch", nil, i64(0)}, {"epoch+1", nil, i64(1)}, {"epoch-1", nil, i64(-1)}, {"year9999", nil, i64(253402300799)}, {"year2500", nil, i64(16725225600)},
		{"max53", nil, i64(9007199254740991)}, {"in-1h", i64(3600), nil}} {
		for L := 1; L <= 2; L++ {
			for pos := 0; pos < L; pos++ {
				for _, sealed := range []bool{false, true} {
					links := make([]link, L)
					for k := 0; k < L; k++ {
						links[k] = link{iss: k + 1, aud: k, sub: L, cmd: "/"}
						if k == L-1 {
							links[k].iss = L
						}
					}
					links[pos].expOff, links[pos].expAbs = ab.off, ab.abs
					e.run("chain/extreme-exp/"+ab.name, chainCase{invIss: 0, invSub: L, invAud: -1, cmd: "/a", args: stdArgs, links: links, sealed: sealed})
				}
			}
		}
	}

	// ---- 3g. the wall-clock path of ExecutionAllowed at sub-second distances from a bound: a not-before set "now"
	// (checked a moment later, within the same second) and an expiration at a whole second E, checked before E and
	// a quarter of a second after it (this group sleeps for up to 2.3 s)
	{
		var stillAhead func() bool // when set: the case only counts if it holds after the call (a stalled process proves nothing)
		clockCase := func(tag string, dopts []delegation.Option, iopts []invocation.Option, nbfNs, expNs, iexpNs W) {
			dopts = append(dopts, delegation.WithSubject(dids[1]))
			d, err := delegation.New(dids[1], dids[0], command.Command("/"), nil, dopts...)
			if err != nil {
				return
			}
			ci := fakeCid(0)
			inv, err := invocation.New(dids[0], dids[1], command.Command("/a"), []cid.Cid{ci}, iopts...)
			if err != nil {
				return
			}
			allowed := inv.ExecutionAllowed(mapLoader{ci: d}) == nil
			if stillAhead != nil && !stillAhead() {
				return
			}
			storeW := WList(WList(WBytes(ci.Bytes()), WMap(KV{"iss", didW(dids, 1)}, KV{"aud", didW(dids, 0)}, KV{"sub", didW(dids, 1)},
				KV{"cmd", WStr("/")}, KV{"pol", WList()}, KV{"nbf", nbfNs}, KV{"exp", expNs})))
			invW := WMap(KV{"iss", didW(dids, 0)}, KV{"sub", didW(dids, 1)}, KV{"aud", WStr("")}, KV{"cmd", WStr("/a")},
				KV{"args", WMap()}, KV{"prf", WList(WBytes(ci.Bytes()))}, KV{"exp", iexpNs})
			c.Emit(tag, WList(WStr("execclock"), invW, storeW, WInt(0), WNull), WBool(allowed))
		}
		// make sure the instant of construction is not on a whole second
		for time.Now().Nanosecond() < 50e6 || time.Now().Nanosecond() > 700e6 {
			time.Sleep(20 * time.Millisecond)
		}
		clockCase("chain/clock/nbf-now", []delegation.Option{delegation.WithNotBeforeIn(0)}, nil, WInt(-1000), WNull, WNull)
		clockCase("chain/clock/nbf-now", []delegation.Option{delegation.WithNotBeforeIn(-time.Millisecond)}, nil, WInt(-1000000), WNull, WNull)
		// a not-before at the next whole second, a fraction of a second ahead: not valid yet
		N := time.Now().Truncate(time.Second).Add(time.Second)
		stillAhead = func() bool { return time.Until(N) > 100*time.Millisecond }
		clockCase("chain/clock/nbf-ahead", []delegation.Option{delegation.WithNotBefore(N)}, nil, WInt(int64(100*time.Millisecond)), WNull, WNull)
		stillAhead = nil
		E := time.Now().Truncate(time.Second).Add(2 * time.Second)
		stillAhead = func() bool { return time.Until(E) > 200*time.Millisecond }
		clockCase("chain/clock/exp-ahead", []delegation.Option{delegation.WithExpiration(E)}, nil, WNull, WInt(int64(time.Second)), WNull)
		clockCase("chain/clock/exp-ahead", nil, []invocation.Option{invocation.WithExpiration(E)}, WNull, WNull, WInt(int64(time.Second)))
		stillAhead = nil
		dE, errD := delegation.New(dids[1], dids[0], command.Command("/"), nil, delegation.WithSubject(dids[1]), delegation.WithExpiration(E))
		ci := fakeCid(0)
		invE, errI := invocation.New(dids[0], dids[1], command.Command("/a"), []cid.Cid{ci}, invocation.WithExpiration(E))
		invP, errP := invocation.New(dids[0], dids[1], command.Command("/a"), []cid.Cid{ci})
		dP, errQ := delegation.New(dids[1], dids[0], command.Command("/"), nil, delegation.WithSubject(dids[1]))
		if errD == nil && errI == nil && errP == nil && errQ == nil {
			time.Sleep(time.Until(E.Add(250 * time.Millisecond)))
			past := WInt(-int64(250 * time.Millisecond))
			mk := func(nbf, exp, iexp W, allowed bool) {
				storeW := WList(WList(WBytes(ci.Bytes()), WMap(KV{"iss", didW(dids, 1)}, KV{"aud", didW(dids, 0)}, KV{"sub", didW(dids, 1)},
					KV{"cmd", WStr("/")}, KV{"pol", WList()}, KV{"nbf", nbf}, KV{"exp", exp})))
				invW := WMap(KV{"iss", didW(dids, 0)}, KV{"sub", didW(dids, 1)}, KV{"aud", WStr("")}, KV{"cmd", WStr("/a")},
					KV{"args", WMap()}, KV{"prf", WList(WBytes(ci.Bytes()))}, KV{"exp", iexp})
				c.Emit("chain/clock/exp-just-passed", WList(WStr("execclock"), invW, storeW, WInt(0), WNull), WBool(allowed))
			}
			mk(WNull, past, WNull, invP.ExecutionAllowed(mapLoader{ci: dE}) == nil)
			mk(WNull, WNull, past, invE.ExecutionAllowed(mapLoader{ci: dP}) == nil)
		}
	}

	// ---- 4. time: IsValidAt on single tokens around each bound, and the time stage at exact instants
	dists := []time.Duration{time.Nanosecond, 100 * time.Millisecond, 300 * time.Millisecond, 700 * time.Millisecond, time.Second, time.Hour, 1000000000 * time.Second}
	// bounds on a whole second, and (tokens held in memory keep the instant they were given) 0.4 s and 0.999999999 s into one
	for _, base := range []time.Time{time.Unix(2000000000, 0), time.Unix(2000000000, 400_000_000), time.Unix(2000000000, 999_999_999)} {
	for _, hasN := range []bool{false, true} {
		for _, hasE := range []bool{false, true} {
			var opts []delegation.Option
			nbfW, expW := WNull, WNull
			nbf := base.Add(-5 * time.Hour)
			exp := base.Add(5 * time.Hour)
			if hasN {
				opts = append(opts, delegation.WithNotBefore(nbf))
				nbfW = WInt(nbf.UnixNano())
			}
			if hasE {
				opts = append(opts, delegation.WithExpiration(exp))
				expW = WInt(exp.UnixNano())
			}
			d, err := delegation.New(dids[0], dids[1], command.Command("/"), nil, opts...)
			if err != nil {
				panic(err)
			}
			// the bounds the token holds (an option may keep the instant or a neighbouring whole second)
			if d.NotBefore() != nil {
				nbfW = WInt(d.NotBefore().UnixNano())
			}
			if d.Expiration() != nil {
				expW = WInt(d.Expiration().UnixNano())
			}
			var iopts []invocation.Option
			if hasE {
				iopts = append(iopts, invocation.WithExpiration(exp))
			}
			inv, err := invocation.New(dids[1], dids[0], command.Command("/"), nil, iopts...)
			if err != nil {
				panic(err)
			}
			for _, ref := range []time.Time{nbf, exp} {
				for _, ds := range dists {
					for _, sg := range []time.Duration{-1, 0, 1} {
						t := ref.Add(sg * ds)
						c.Emit("time/dlg", WList(WStr("valid"), nbfW, expW, WInt(t.UnixNano())), WBool(d.IsValidAt(t)))
						if !hasN {
							iexpW := WNull
							if inv.Expiration() != nil {
								iexpW = WInt(inv.Expiration().UnixNano()) // invocation.WithExpiration keeps the nearest second
							}
							c.Emit("time/inv", WList(WStr("valid"), WNull, iexpW, WInt(t.UnixNano())), WBool(inv.IsValidAt(t)))
						}
					}
				}
			}
		}
	}
	// the time stage of ExecutionAllowed at exact instants (verif hook), expired / inactive link at each position
	for L := 1; L <= 3; L++ {
		for pos := -1; pos < L; pos++ { // -1: the invocation itself carries the bound
			for _, kind := range []string{"exp", "nbf"} {
				if pos == -1 && kind == "nbf" {
					continue
				}
				ld := mapLoader{}
				var prf []cid.Cid
				var storeW []W
				bound := base
				for k := 0; k < L; k++ {
					var opts []delegation.Option
					nbfW, expW := WNull, WNull
					if k == pos && kind == "exp" {
						opts = append(opts, delegation.WithExpiration(bound))
						expW = WInt(bound.UnixNano())
					}
					if k == pos && kind == "nbf" {
						opts = append(opts, delegation.WithNotBefore(bound))
						nbfW = WInt(bound.UnixNano())
					}
					opts = append(opts, delegation.WithSubject(dids[L]))
					iss := k + 1
					t, err := delegation.New(dids[iss], dids[k], command.Command("/"), nil, opts...)
					if err != nil {
						panic(err)
					}
					if t.NotBefore() != nil {
						nbfW = WInt(t.NotBefore().UnixNano())
					}
					if t.Expiration() != nil {
						expW = WInt(t.Expiration().UnixNano())
					}
					ci := fakeCid(k)
					prf = append(prf, ci)
					ld[ci] = t
					storeW = append(storeW, WList(WBytes(ci.Bytes()), WMap(
						KV{"iss", didW(dids, iss)}, KV{"aud", didW(dids, k)}, KV{"sub", didW(dids, L)},
						KV{"cmd", WStr("/")}, KV{"pol", WList()}, KV{"nbf", nbfW}, KV{"exp", expW})))
				}
				var iopts []invocation.Option
				iexpW := WNull
				if pos == -1 {
					iopts = append(iopts, invocation.WithExpiration(bound))
				}
				inv, err := invocation.New(dids[0], dids[L], command.Command("/"), prf, iopts...)
				if err != nil {
					panic(err)
				}
				if inv.Expiration() != nil {
					iexpW = WInt(inv.Expiration().UnixNano())
				}
				var prfW []W
				for _, p := range prf {
					prfW = append(prfW, WBytes(p.Bytes()))
				}
				invW := WMap(KV{"iss", didW(dids, 0)}, KV{"sub", didW(dids, L)}, KV{"aud", WStr("")},
					KV{"cmd", WStr("/")}, KV{"args", WMap()}, KV{"prf", WList(prfW...)}, KV{"exp", iexpW})
				for _, ds := range dists {
					for _, sg := range []time.Duration{-1, 0, 1} {
						at := bound.Add(sg * ds)
						ok := inv.VerifTimeBoundAt(at, ld) == nil
						c.Emit("time/stage", WList(WStr("timeat"), invW, WList(storeW...), WInt(at.UnixNano()), WNull), WBool(ok))
					}
				}
			}
		}
	}
	}
	_ = datamodel.Null
}
