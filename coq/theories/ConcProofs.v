Require Import Base Conc.
Local Open Scope N_scope.

Theorem readonly_no_writes o s : fst (fst (run_op o s)) = s /\ existsb is_write (snd (fst (run_op o s))) = false.
Proof. destruct o; split; reflexivity. Qed.

Lemma thread_events_no_writes s ops e : In e (thread_events s ops) -> is_write e = false.
Proof.
  unfold thread_events. intros H. apply in_flat_map in H as (o & _ & He).
  destruct (readonly_no_writes o s) as [_ Hw]. destruct (is_write e) eqn:E; [|reflexivity].
  assert (existsb is_write (snd (fst (run_op o s))) = true) by (apply existsb_exists; eauto). congruence.
Qed.

(* no interleaving of read-only operations has a data race *)
Theorem readonly_race_free s threads : ~ racy s threads.
Proof.
  intros (i & j & t1 & t2 & e1 & e2 & _ & _ & _ & H1 & H2 & Hc).
  apply thread_events_no_writes in H1, H2. unfold conflict in Hc. rewrite H1, H2, andb_false_r in Hc. discriminate.
Qed.

(* and every operation returns, in any interleaving, what it returns when run alone on the token *)
Theorem results_independent_of_schedule s steps :
  exec s steps = map (fun st => snd (run_op (snd st) s)) steps.
Proof.
  induction steps as [|[t o] r IH]; [reflexivity|]. cbn [exec map snd].
  destruct (readonly_no_writes o s) as [Hs _]. destruct (run_op o s) as [[s' ev] res] eqn:E. cbn in Hs. subst s'.
  rewrite IH. reflexivity.
Qed.

(* had an operation sorted the shared key slice in place, two threads would race *)
Example a_write_would_race :
  conflict (Wr LArgsKeys) (Rd LArgsKeys) = true /\ conflict (Rd LArgsKeys) (Rd LArgsKeys) = false.
Proof. split; reflexivity. Qed.
