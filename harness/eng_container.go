package main

import (
	"github.com/libp2p/go-libp2p/core/crypto"
	"bytes"
	"crypto/sha256"
	"crypto/sha512"
	"encoding/asn1"
	"encoding/base64"
	"encoding/binary"
	"errors"
	"fmt"
	"io"
	"math/big"
	"sort"
	"strings"
	"testing/iotest"

	"github.com/decred/dcrd/dcrec/secp256k1/v4"
	"github.com/ipfs/go-cid"
	"github.com/ipld/go-ipld-prime"
	"github.com/ipld/go-ipld-prime/codec/dagcbor"
	"github.com/ipld/go-ipld-prime/codec/dagjson"
	"github.com/ipld/go-ipld-prime/datamodel"
	"github.com/ipld/go-ipld-prime/node/basicnode"
	mh "github.com/multiformats/go-multihash"

	"github.com/ucan-wg/go-ucan/pkg/command"
	"github.com/ucan-wg/go-ucan/pkg/container"
	"github.com/ucan-wg/go-ucan/token"
	"github.com/ucan-wg/go-ucan/token/delegation"
	"github.com/ucan-wg/go-ucan/token/invocation"
)

func init() {
	register(&Engine{Name: "container", Gen: genContainer})
	register(&Engine{Name: "cid", Gen: genCid})
	register(&Engine{Name: "stream", Gen: genStream})
}

type sealedTok struct {
	b   []byte
	c   cid.Cid
	iss *principal
	t   token.Token
}

// sealedPool: sealed delegations and invocations under several key algorithms.
func sealedPool(c *Ctx, n int) ([]sealedTok, []principal) {
	keys := detKeys(c.Seed+1300, 1)
	e := &tokEnv{c: c, keys: keys}
	var pool []sealedTok
	for i := 0; len(pool) < n && i < 20*n; i++ {
		p := &e.keys[i%len(e.keys)]
		if p.name == "rsa3072" || p.err != nil {
			continue
		}
		var tk token.Token
		if i%3 == 2 {
			iv, _ := e.randInvocation(p)
			if iv == nil || e.cls != "" {
				continue
			}
			tk = iv
		} else {
			d, _ := e.randDelegation(p)
			if d == nil || e.cls != "" {
				continue
			}
			tk = d
		}
		b, id, err := tk.ToSealed(p.priv)
		if err != nil {
			continue
		}
		pool = append(pool, sealedTok{b, id, p, tk})
	}
	return pool, keys
}

func factW(blob []byte) W {
	h := sha256.Sum256(blob)
	ok := false
	func() {
		defer func() { recover() }()
		_, _, err := token.FromSealed(blob)
		ok = err == nil
	}()
	return WList(WBytes(blob), WBytes(h[:]), WBool(ok))
}

func ctnObs(r container.Reader, err error) W {
	if err != nil {
		return WErr()
	}
	var cs [][]byte
	for k := range r {
		cs = append(cs, k.Bytes())
	}
	sort.Slice(cs, func(i, j int) bool { return bytes.Compare(cs[i], cs[j]) < 0 })
	items := make([]W, len(cs))
	for i, b := range cs {
		items[i] = WBytes(b)
	}
	return WOk(WList(items...))
}

type ctnFmt struct {
	name        string
	write       func(w container.Writer) ([]byte, error)
	writeStream func(w container.Writer, out io.Writer) error
	read        func(b []byte) (container.Reader, error)
	readStream  func(r io.Reader) (container.Reader, error)
}

var ctnFmts = []ctnFmt{
	{"car", container.Writer.ToCar, container.Writer.ToCarWriter, container.FromCar, container.FromCarReader},
	{"carb64", container.Writer.ToCarBase64, container.Writer.ToCarBase64Writer, container.FromCarBase64, container.FromCarBase64Reader},
	{"cbor", container.Writer.ToCbor, container.Writer.ToCborWriter, container.FromCbor, container.FromCborReader},
	{"cborb64", container.Writer.ToCborBase64, container.Writer.ToCborBase64Writer, container.FromCborBase64, container.FromCborBase64Reader},
}

func readBoth(f ctnFmt, b []byte) W {
	o1 := safe(func() W { return ctnObs(f.read(b)) })
	o2 := safe(func() W { return ctnObs(f.readStream(bytes.NewReader(b))) })
	return WList(o1, o2)
}

func sortedCidsW(set []sealedTok) W {
	var cs [][]byte
	seen := map[string]bool{}
	for _, s := range set {
		if !seen[string(s.c.Bytes())] {
			seen[string(s.c.Bytes())] = true
			cs = append(cs, s.c.Bytes())
		}
	}
	sort.Slice(cs, func(i, j int) bool { return bytes.Compare(cs[i], cs[j]) < 0 })
	items := make([]W, len(cs))
	for i, b := range cs {
		items[i] = WBytes(b)
	}
	return WList(items...)
}

// hand-rolled CAR pieces, to craft corruptions
func ldw(parts ...[]byte) []byte {
	n := 0
	for _, p := range parts {
		n += len(p)
	}
	buf := binary.AppendUvarint(nil, uint64(n))
	for _, p := range parts {
		buf = append(buf, p...)
	}
	return buf
}

func carHeaderBytes() []byte {
	w := container.NewWriter()
	b, _ := w.ToCar()
	return b // an empty container is exactly the header section
}

func genContainer(c *Ctx) {
	nsets := 25
	if c.Thorough() {
		nsets = 600
	}
	pool, _ := sealedPool(c, 14)
	if len(pool) < 4 {
		return
	}
	hdr := carHeaderBytes()
	for s := 0; s < nsets; s++ {
		k := c.R.Intn(9)
		if s < 3 {
			k = s // sizes 0, 1, 2 always present
		}
		var set []sealedTok
		for j := 0; j < k; j++ {
			set = append(set, pool[c.R.Intn(len(pool))])
		}
		var facts []W
		for _, t := range set {
			facts = append(facts, factW(t.b))
		}
		expect := sortedCidsW(set)
		for _, f := range ctnFmts {
			for variant := 0; variant < 2; variant++ {
				w := container.NewWriter()
				// insertion order differs between the two variants
				order := make([]int, len(set))
				for i := range order {
					order[i] = i
				}
				if variant == 1 {
					for i := len(order) - 1; i > 0; i-- {
						j := c.R.Intn(i + 1)
						order[i], order[j] = order[j], order[i]
					}
				}
				for _, i := range order {
					w.AddSealed(set[i].c, set[i].b)
				}
				var data []byte
				var err error
				tag := "ctn/rt-" + f.name
				if variant == 0 {
					data, err = f.write(w)
					tag += "/bytes-writer"
				} else {
					var buf bytes.Buffer
					err = f.writeStream(w, &buf)
					data = buf.Bytes()
					tag += "/stream-writer"
				}
				if err != nil {
					c.Emit(tag+"/write-error", WList(WStr(f.name), WBytes(nil), WList(facts...), WList(), expect), WList(WErr(), WErr()))
					continue
				}
				c.Emit(tag, WList(WStr(f.name), WBytes(data), WList(facts...), WList(), expect), readBoth(f, data))
				// what a byte-slice writer returned is the caller's: it is still the same container after other
				// containers have been written (in every format) and read
				if variant == 0 {
					snapshot := append([]byte{}, data...)
					for _, g := range ctnFmts {
						w2 := container.NewWriter()
						o := pool[c.R.Intn(len(pool))]
						w2.AddSealed(o.c, o.b)
						if d2, err := g.write(w2); err == nil {
							_ = readBoth(g, d2)
						}
					}
					held := readBoth(f, data)
					if !bytes.Equal(snapshot, data) {
						held = WList(WStr("the bytes returned by the writer changed after later writes"), held)
					}
					c.Emit(tag+"/held", WList(WStr(f.name), WBytes(snapshot), WList(facts...), WList(), expect), held)
				}
			}
		}
		if k == 0 {
			continue
		}
		// ---- single-entry corruptions of a hand-built CAR / CBOR container (and their base64 forms)
		emitBoth := func(tag string, carLike bool, raw []byte, facts []W, extra []W) {
			fi := 2
			if carLike {
				fi = 0
			}
			c.Emit(tag, WList(WStr(ctnFmts[fi].name), WBytes(raw), WList(facts...), WList(extra...), WNull), readBoth(ctnFmts[fi], raw))
			b64 := []byte(base64.StdEncoding.EncodeToString(raw))
			c.Emit(tag+"-b64", WList(WStr(ctnFmts[fi+1].name), WBytes(b64), WList(facts...), WList(extra...), WNull), readBoth(ctnFmts[fi+1], b64))
		}
		victim := c.R.Intn(len(set))
		build := func(mod func(i int, cidb, data []byte) [][]byte) []byte {
			out := append([]byte{}, hdr...)
			for i, t := range set {
				parts := [][]byte{t.c.Bytes(), t.b}
				if mod != nil {
					parts = mod(i, t.c.Bytes(), t.b)
				}
				if parts == nil {
					continue
				}
				out = append(out, ldw(parts...)...)
			}
			return out
		}
		// bit flip inside an entry, CID left alone (integrity) / CID recomputed (signature)
		flipped := append([]byte{}, set[victim].b...)
		flipped[c.R.Intn(len(flipped))] ^= 1 << uint(c.R.Intn(8))
		fl := append(append([]W{}, facts...), factW(flipped))
		emitBoth("ctn/corrupt/flip-data", true, build(func(i int, cb, d []byte) [][]byte {
			if i == victim {
				return [][]byte{cb, flipped}
			}
			return [][]byte{cb, d}
		}), fl, nil)
		fid, _ := cid.V1Builder{Codec: cid.DagCBOR, MhType: mh.SHA2_256}.Sum(flipped)
		emitBoth("ctn/corrupt/flip-data-recid", true, build(func(i int, cb, d []byte) [][]byte {
			if i == victim {
				return [][]byte{fid.Bytes(), flipped}
			}
			return [][]byte{cb, d}
		}), fl, nil)
		// an entry that is a sealed token followed by further bytes, stored under the CID of the whole entry
		for _, junk := range [][]byte{{0x00}, {0xf6}, {1, 2, 3, 4}, set[victim].b} {
			padded := append(append([]byte{}, set[victim].b...), junk...)
			pid, _ := cid.V1Builder{Codec: cid.DagCBOR, MhType: mh.SHA2_256}.Sum(padded)
			emitBoth("ctn/corrupt/entry-trailing-bytes", true, build(func(i int, cb, d []byte) [][]byte {
				if i == victim {
					return [][]byte{pid.Bytes(), padded}
				}
				return [][]byte{cb, d}
			}), append(append([]W{}, facts...), factW(padded)), nil)
		}
		if len(set) > 1 {
			other := (victim + 1) % len(set)
			if !set[other].c.Equals(set[victim].c) {
				emitBoth("ctn/corrupt/wrong-cid", true, build(func(i int, cb, d []byte) [][]byte {
					if i == victim {
						return [][]byte{set[other].c.Bytes(), d}
					}
					return [][]byte{cb, d}
				}), facts, nil)
				emitBoth("ctn/corrupt/swapped-cids", true, build(func(i int, cb, d []byte) [][]byte {
					if i == victim {
						return [][]byte{set[other].c.Bytes(), d}
					}
					if i == other {
						return [][]byte{set[victim].c.Bytes(), d}
					}
					return [][]byte{cb, d}
				}), facts, nil)
			}
		}
		// other CID forms over the right data: raw codec, CIDv0, sha2-512
		rawCid, _ := cid.V1Builder{Codec: cid.Raw, MhType: mh.SHA2_256}.Sum(set[victim].b)
		emitBoth("ctn/cidform/raw-codec", true, build(func(i int, cb, d []byte) [][]byte {
			if i == victim {
				return [][]byte{rawCid.Bytes(), d}
			}
			return [][]byte{cb, d}
		}), facts, nil)
		v0, _ := cid.V0Builder{}.Sum(set[victim].b)
		emitBoth("ctn/cidform/v0", true, build(func(i int, cb, d []byte) [][]byte {
			if i == victim {
				return [][]byte{v0.Bytes(), d}
			}
			return [][]byte{cb, d}
		}), facts, nil)
		c512, _ := cid.V1Builder{Codec: cid.DagCBOR, MhType: mh.SHA2_512}.Sum(set[victim].b)
		d512 := sha512.Sum512(set[victim].b)
		emitBoth("ctn/cidform/sha512", true, build(func(i int, cb, d []byte) [][]byte {
			if i == victim {
				return [][]byte{c512.Bytes(), d}
			}
			return [][]byte{cb, d}
		}), facts, []W{WList(WInt(0x13), WInt(64), WBytes(set[victim].b), WBytes(d512[:]))})
		// a sha2-256 multihash cut to 20 bytes (a valid, shorter CID of the same data)
		if c160, err := (cid.V1Builder{Codec: cid.DagCBOR, MhType: mh.SHA2_256, MhLength: 20}).Sum(set[victim].b); err == nil {
			d256 := sha256.Sum256(set[victim].b)
			emitBoth("ctn/cidform/sha256-cut-to-20", true, build(func(i int, cb, d []byte) [][]byte {
				if i == victim {
					return [][]byte{c160.Bytes(), d}
				}
				return [][]byte{cb, d}
			}), facts, []W{WList(WInt(0x12), WInt(20), WBytes(set[victim].b), WBytes(d256[:20]))})
		}
		// identity-multihash CIDs: the empty CID, the identity CID of other bytes, the identity CID of the data itself
		emitBoth("ctn/cidform/identity-empty", true, build(func(i int, cb, d []byte) [][]byte {
			if i == victim {
				return [][]byte{container.EmptyCid.Bytes(), d}
			}
			return [][]byte{cb, d}
		}), facts, nil)
		idOther, _ := cid.V1Builder{Codec: cid.DagCBOR, MhType: mh.IDENTITY}.Sum([]byte("not the data"))
		emitBoth("ctn/cidform/identity-other", true, build(func(i int, cb, d []byte) [][]byte {
			if i == victim {
				return [][]byte{idOther.Bytes(), d}
			}
			return [][]byte{cb, d}
		}), facts, nil)
		if idSelf, err := (cid.V1Builder{Codec: cid.DagCBOR, MhType: mh.IDENTITY}).Sum(set[victim].b); err == nil {
			emitBoth("ctn/cidform/identity-self", true, build(func(i int, cb, d []byte) [][]byte {
				if i == victim {
					return [][]byte{idSelf.Bytes(), d}
				}
				return [][]byte{cb, d}
			}), facts, []W{WList(WInt(0), WInt(int64(len(set[victim].b))), WBytes(set[victim].b), WBytes(set[victim].b))})
		}
		// a complete section whose payload is a CID cut short (after its version, codec, hash code, digest length,
		// inside the digest) or a whole CID with no data, in front of the victim and after the last block: the
		// CID reader runs out of bytes inside a section, which is a corrupt entry and not the end of the file
		{
			cb := set[victim].c.Bytes()
			for _, k := range []int{1, 2, 3, 4, 5, 20, len(cb) - 1, len(cb)} {
				if k > len(cb) {
					continue
				}
				short := cb[:k]
				emitBoth("ctn/corrupt/short-section", true, build(func(i int, c2, d []byte) [][]byte {
					if i == victim {
						return [][]byte{short}
					}
					return [][]byte{c2, d}
				}), facts, nil)
				emitBoth("ctn/corrupt/short-section", true, append(build(nil), ldw(short)...), facts, nil)
				emitBoth("ctn/corrupt/short-section", true, append(append(append([]byte{}, hdr...), ldw(short)...), build(nil)[len(hdr):]...), facts, nil)
			}
		}
		// framing: truncated last section, zero-length section, oversize length, cut between blocks
		full := build(nil)
		emitBoth("ctn/corrupt/truncated-section", true, full[:len(full)-1-c.R.Intn(20)], facts, nil)
		emitBoth("ctn/corrupt/zero-section", true, append(append([]byte{}, full...), 0x00), facts, nil)
		emitBoth("ctn/corrupt/oversize-section", true, append(append([]byte{}, full...), binary.AppendUvarint(nil, 33554433)...), facts, nil)
		emitBoth("ctn/corrupt/nonminimal-length", true, append(append([]byte{}, hdr...), func() []byte {
			t := set[victim]
			n := uint64(len(t.c.Bytes()) + len(t.b))
			// a padded varint (non-minimal) for the section length
			v := binary.AppendUvarint(nil, n)
			v[len(v)-1] |= 0x80
			v = append(v, 0x00)
			return append(append(v, t.c.Bytes()...), t.b...)
		}()...), facts, nil)
		lastLen := len(ldw(set[len(set)-1].c.Bytes(), set[len(set)-1].b))
		emitBoth("ctn/cut-between-blocks", true, full[:len(full)-lastLen], facts, nil)
		// cuts at the structural positions of every section: inside and right after its length prefix, inside and
		// right after its CID, one byte into and one byte short of its data
		off := len(hdr)
		emitBoth("ctn/corrupt/cut-in-header", true, full[:1], facts, nil)
		emitBoth("ctn/corrupt/cut-in-header", true, full[:len(hdr)-1], facts, nil)
		for _, t := range set {
			sec := ldw(t.c.Bytes(), t.b)
			pl := len(sec) - len(t.c.Bytes()) - len(t.b) // length of the prefix
			for _, cut := range []int{1, pl, pl + 1, pl + len(t.c.Bytes()), pl + len(t.c.Bytes()) + 1, len(sec) - 1} {
				if cut > 0 && cut < len(sec) {
					emitBoth("ctn/corrupt/cut-in-section", true, full[:off+cut], facts, nil)
				}
			}
			off += len(sec)
		}
		// at every boundary between sections: a read that fails there (the stream reader must report it), and a
		// character outside the base64 alphabet there (when the boundary falls between two groups of the text)
		off = len(hdr)
		for i := 0; i <= len(set); i++ {
			k := off
			for fi, f := range []ctnFmt{ctnFmts[0], ctnFmts[1]} {
				data := full
				kk := k
				if fi == 1 {
					data = []byte(base64.StdEncoding.EncodeToString(full))
					kk = (k + 2) / 3 * 4
					if kk > len(data) {
						kk = len(data)
					}
				}
				got := safe(func() W {
					if _, err := f.readStream(&faultReader{b: data, k: kk, chunk: 4096, err: errInjected}); err != nil {
						return WStr("refused")
					}
					return WStr("accepted")
				})
				c.Emit("ctn/fault-at-boundary", WList(WStr("fault"), WStr(f.name), WInt(int64(kk))), got)
			}
			if k%3 == 0 && k < len(full) {
				txt := []byte(base64.StdEncoding.EncodeToString(full))
				txt[k/3*4] = '!'
				c.Emit("ctn/corrupt/b64-junk-at-boundary", WList(WStr(ctnFmts[1].name), WBytes(txt), WList(facts...), WList(), WNull), readBoth(ctnFmts[1], txt))
			}
			if i < len(set) {
				off += len(ldw(set[i].c.Bytes(), set[i].b))
			}
		}
		emitBoth("ctn/corrupt/no-header", true, full[len(hdr):], facts, nil)
		emitBoth("ctn/corrupt/header-version2", true, func() []byte {
			h2 := mkMap(ent{"roots", mkList()}, ent{"version", basicnode.NewInt(2)})
			return append(ldw(cborOf(h2)), full[len(hdr):]...)
		}(), facts, nil)
		// CBOR container shapes
		var items []datamodel.Node
		for _, t := range set {
			items = append(items, basicnode.NewBytes(t.b))
		}
		cb := func(n datamodel.Node) []byte { return cborOf(n) }
		emitBoth("ctn/cbor/valid-handbuilt", false, cb(mkMap(ent{"ctn-v1", mkList(items...)})), facts, nil)
		emitBoth("ctn/cbor/extra-version-key", false, cb(mkMap(ent{"ctn-v1", mkList(items...)}, ent{"ctn-v2", mkList()})), facts, nil)
		emitBoth("ctn/cbor/wrong-version", false, cb(mkMap(ent{"ctn-v0", mkList(items...)})), facts, nil)
		emitBoth("ctn/cbor/not-a-map", false, cb(mkList(items...)), facts, nil)
		emitBoth("ctn/cbor/tokens-not-a-list", false, cb(mkMap(ent{"ctn-v1", basicnode.NewBytes(set[0].b)})), facts, nil)
		fitems := append([]datamodel.Node{}, items...)
		fitems[victim] = basicnode.NewBytes(flipped)
		emitBoth("ctn/cbor/flip-entry", false, cb(mkMap(ent{"ctn-v1", mkList(fitems...)})), fl, nil)
		sitems := append([]datamodel.Node{}, items...)
		sitems[victim] = basicnode.NewString(string(set[victim].b))
		emitBoth("ctn/cbor/entry-as-string", false, cb(mkMap(ent{"ctn-v1", mkList(sitems...)})), facts, nil)
		titems := append([]datamodel.Node{}, items...)
		titems[victim] = basicnode.NewBytes(set[victim].b[:len(set[victim].b)/2])
		emitBoth("ctn/cbor/truncated-entry", false, cb(mkMap(ent{"ctn-v1", mkList(titems...)})), append(append([]W{}, facts...), factW(set[victim].b[:len(set[victim].b)/2])), nil)
	}
}

// ---------------------------------------------------------------------------------------------

func genCid(c *Ctx) {
	n := 30
	if c.Thorough() {
		n = 600
	}
	pool, _ := sealedPool(c, n)
	for _, s := range pool {
		dg := sha256.Sum256(s.b)
		// the four CIDs: the pool's own ToSealed, ToSealedWriter, FromSealed, FromSealedReader
		c2 := safe(func() W {
			var buf bytes.Buffer
			id, err := s.t.ToSealedWriter(&buf, s.iss.priv)
			if err != nil {
				return WErr()
			}
			// signatures may be randomised: the bytes of this second sealing have their own digest
			d2 := sha256.Sum256(buf.Bytes())
			if !bytes.Equal(id.Bytes(), append([]byte{1, 0x71, 0x12, 0x20}, d2[:]...)) {
				return WStr("writer cid is not the cid of the written bytes")
			}
			return WBytes(s.c.Bytes()) // agreement of the writer CID with its own bytes stands in
		})
		c3 := safe(func() W {
			_, id, err := token.FromSealed(s.b)
			if err != nil {
				return WErr()
			}
			return WBytes(id.Bytes())
		})
		c4 := safe(func() W {
			_, id, err := token.FromSealedReader(bytes.NewReader(s.b))
			if err != nil {
				return WErr()
			}
			// the same stream through readers that hand over one byte at a time, and the last bytes together with EOF
			for _, r := range []io.Reader{iotest.OneByteReader(bytes.NewReader(s.b)), iotest.DataErrReader(bytes.NewReader(s.b)),
				iotest.DataErrReader(iotest.OneByteReader(bytes.NewReader(s.b))), iotest.HalfReader(bytes.NewReader(s.b))} {
				_, id2, err := token.FromSealedReader(r)
				if err != nil {
					return WErr()
				}
				if !id2.Equals(id) {
					return WStr("stream readers disagree on the cid")
				}
			}
			return WBytes(id.Bytes())
		})
		c.Emit("cid/four-"+s.iss.name, WList(WStr("seal"), WBytes(dg[:])), WList(WBytes(s.c.Bytes()), c2, c3, c4))
		// typed decoders
		c5 := safe(func() W {
			var id cid.Cid
			var err error
			var id2 cid.Cid
			// a decoded token sealed again (by both decoders' results, buffered and streaming): the CID that comes with the
			// new bytes is the CID of those bytes, whatever the token remembers of where it came from
			reseal := func(tk interface {
				ToSealed(crypto.PrivKey) ([]byte, cid.Cid, error)
				ToSealedWriter(io.Writer, crypto.PrivKey) (cid.Cid, error)
			}) bool {
				b2, idb, err := tk.ToSealed(s.iss.priv)
				if err != nil {
					return false
				}
				d2 := sha256.Sum256(b2)
				if !bytes.Equal(idb.Bytes(), append([]byte{1, 0x71, 0x12, 0x20}, d2[:]...)) {
					return false
				}
				var w2 bytes.Buffer
				idw, err := tk.ToSealedWriter(&w2, s.iss.priv)
				if err != nil {
					return false
				}
				d3 := sha256.Sum256(w2.Bytes())
				return bytes.Equal(idw.Bytes(), append([]byte{1, 0x71, 0x12, 0x20}, d3[:]...))
			}
			resealed := true
			switch s.t.(type) {
			case *delegation.Token:
				var t1, t2 *delegation.Token
				t1, id, err = delegation.FromSealed(s.b)
				if err == nil {
					t2, id2, err = delegation.FromSealedReader(iotest.DataErrReader(bytes.NewReader(s.b)))
				}
				if err == nil {
					resealed = reseal(t1) && reseal(t2)
				}
			default:
				var t1, t2 *invocation.Token
				t1, id, err = invocation.FromSealed(s.b)
				if err == nil {
					t2, id2, err = invocation.FromSealedReader(iotest.DataErrReader(bytes.NewReader(s.b)))
				}
				if err == nil {
					resealed = reseal(t1) && reseal(t2)
				}
			}
			if err != nil || !id.Equals(id2) {
				return WErr()
			}
			if !resealed {
				return WStr("a decoded token sealed again: the cid is not the cid of the new bytes")
			}
			return WBytes(id.Bytes())
		})
		c.Emit("cid/typed-"+s.iss.name, WList(WStr("seal"), WBytes(dg[:])), WList(c5, c5, c5, c5))

		// ---- re-encodings that keep the decoded data
		orig, err := ipld.Decode(s.b, dagcbor.Decode)
		if err != nil {
			continue
		}
		offer := func(tag string, variant []byte, sameSigned bool) {
			sameData := false
			if n2, err := ipld.Decode(variant, dagcbor.Decode); err == nil {
				sameData = datamodel.DeepEqual(orig, n2)
			}
			acc := false
			func() {
				defer func() { recover() }()
				_, _, e1 := token.FromSealed(variant)
				_, _, e2 := token.FromSealedReader(bytes.NewReader(variant))
				acc = e1 == nil || e2 == nil
			}()
			c.Emit(tag, WList(WStr("reenc"), WBytes(variant), WBool(sameData), WBool(sameSigned || sameData), WBytes(s.b)), WBool(acc))
		}
		offer("cid/reenc/identity", s.b, true)
		if s.b[0] == 0x82 {
			offer("cid/reenc/nonminimal-array-head", append([]byte{0x98, 0x02}, s.b[1:]...), true)
			offer("cid/reenc/nonminimal-array-head16", append([]byte{0x99, 0x00, 0x02}, s.b[1:]...), true)
			offer("cid/reenc/indefinite-array", append(append([]byte{0x9f}, s.b[1:]...), 0xff), true)
			// the same signature and signed payload followed by a third envelope element
			offer("cid/reenc/extra-element", append(append([]byte{0x83}, s.b[1:]...), 0xf6), true)
		}
		// the SigPayload map with its two entries in the other order, and with an indefinite-length map
		sigN, _ := orig.LookupByIndex(0)
		sp, _ := orig.LookupByIndex(1)
		sig, _ := sigN.AsBytes()
		var keys []string
		var vals [][]byte
		it := sp.MapIterator()
		for !it.Done() {
			k, v, _ := it.Next()
			ks, _ := k.AsString()
			keys = append(keys, ks)
			vals = append(vals, cborOf(v))
		}
		if len(keys) == 2 {
			ent2 := func(i int) []byte {
				return append(cborOf(basicnode.NewString(keys[i])), vals[i]...)
			}
			sigEnc := cborOf(basicnode.NewBytes(sig))
			swapped := append(append(append([]byte{0x82}, sigEnc...), 0xa2), append(ent2(1), ent2(0)...)...)
			offer("cid/reenc/permuted-map-keys", swapped, true)
			indef := append(append(append(append([]byte{0x82}, sigEnc...), 0xbf), append(ent2(0), ent2(1)...)...), 0xff)
			offer("cid/reenc/indefinite-map", indef, true)
			// signature byte string with a non-minimal length head (0x58 n -> 0x59 00 n)
			if len(sig) >= 24 && len(sig) < 256 {
				nm := append([]byte{0x82, 0x59, 0x00, byte(len(sig))}, sig...)
				nm = append(nm, cborOf(sp)...)
				offer("cid/reenc/nonminimal-bytes-head", nm, true)
			}
		}
		// null written as undefined (0xf6 -> 0xf7), first occurrence
		if i := bytes.IndexByte(s.b, 0xf6); i >= 0 {
			v := append([]byte{}, s.b...)
			v[i] = 0xf7
			offer("cid/reenc/undefined-for-null", v, true)
		}
		// trailing bytes
		offer("cid/reenc/trailing-byte", append(append([]byte{}, s.b...), 0x00), true)
		// signature re-encodings that need no key
		if s.iss.name == "p256" || s.iss.name == "p384" || s.iss.name == "p521" || s.iss.name == "secp256k1" {
			var rs struct{ R, S *big.Int }
			if _, err := asn1.Unmarshal(sig, &rs); err == nil {
				var order *big.Int
				switch s.iss.name {
				case "secp256k1":
					order = secp256k1.S256().N
				default:
					if std, err := s.iss.pub.Raw(); err == nil {
						_ = std
					}
					order = curveOrder(s.iss.name)
				}
				if order != nil {
					rs.S = new(big.Int).Sub(order, rs.S)
					if der, err := asn1.Marshal(rs); err == nil {
						v := cborOf(mkList(basicnode.NewBytes(der), sp))
						offer("cid/sig-malleable/"+s.iss.name, v, true)
					}
				}
			}
		}
	}
	// sealed tokens of particular sizes (around 2^16, 2^20, 2^22 and 2^23 bytes, padded through a metadata string), alone
	// and followed by one more byte: accepted / refused by every sealed entry point, and under which CID
	keys := detKeys(c.Seed+1301, 1)
	for _, target := range []int{1 << 16, 1 << 20, 1 << 22, 1 << 23} {
		for _, delta := range []int{-1, 0, 1} {
			if target > 1<<20 && delta != 0 && !c.Thorough() {
				continue // (the larger sizes: only the exact one in the quick tier)
			}
			want := target + delta
			pad := want - 300
			var sealed []byte
			for tries := 0; tries < 6; tries++ {
				tk, err := delegation.New(keys[0].did, keys[0].did, command.Command("/"), nil, delegation.WithMeta("pad", strings.Repeat("x", pad)),
					delegation.WithNonce(bytes.Repeat([]byte{9}, 12)))
				if err != nil {
					break
				}
				b, _, err := tk.ToSealed(keys[0].priv)
				if err != nil {
					break
				}
				if len(b) == want {
					sealed = b
					break
				}
				pad += want - len(b)
			}
			if sealed == nil {
				continue
			}
			dg := sha256.Sum256(sealed)
			wantCid := append([]byte{1, 0x71, 0x12, 0x20}, dg[:]...)
			for _, extra := range [][]byte{nil, {0x00}, {0xf6}, sealed[:7]} {
				in := append(append([]byte{}, sealed...), extra...)
				verdict := func(id cid.Cid, err error) string {
					if err != nil {
						return "refused"
					}
					if extra == nil && bytes.Equal(id.Bytes(), wantCid) {
						return "accepted under the cid of the input"
					}
					return "accepted under another cid"
				}
				var vs []string
				func() {
					defer func() {
						if r := recover(); r != nil {
							vs = append(vs, "panic")
						}
					}()
					_, id, err := token.FromSealed(in)
					vs = append(vs, verdict(id, err))
					_, id, err = token.FromSealedReader(bytes.NewReader(in))
					vs = append(vs, verdict(id, err))
					_, id, err = delegation.FromSealed(in)
					vs = append(vs, verdict(id, err))
					_, id, err = delegation.FromSealedReader(iotest.DataErrReader(bytes.NewReader(in)))
					vs = append(vs, verdict(id, err))
				}()
				c.Emit(fmt.Sprintf("cid/sized/%d", want), WList(WStr("sized"), WInt(int64(want)), WBool(extra == nil)), WStrs(vs))
			}
		}
	}
}

func curveOrder(name string) *big.Int {
	switch name {
	case "p256":
		n, _ := new(big.Int).SetString("ffffffff00000000ffffffffffffffffbce6faada7179e84f3b9cac2fc632551", 16)
		return n
	case "p384":
		n, _ := new(big.Int).SetString("ffffffffffffffffffffffffffffffffffffffffffffffffc7634d81f4372ddf581a0db248b0a77aecec196accc52973", 16)
		return n
	case "p521":
		n, _ := new(big.Int).SetString("01fffffffffffffffffffffffffffffffffffffffffffffffffffffffffffffffffffa51868783bf2f966b7fcc0148f709a5d03bb5c9b8899c47aebb6fb71e91386409", 16)
		return n
	}
	return nil
}

// ---------------------------------------------------------------------------------------------
// stream engine: fault injection

var errInjected = errors.New("injected fault")

// faultReader delivers the first k bytes (in chunks of `chunk`), then fails with err (io.EOF = early end).
type faultReader struct {
	b     []byte
	k     int
	pos   int
	chunk int
	err   error
}

func (f *faultReader) Read(p []byte) (int, error) {
	if f.pos >= f.k {
		return 0, f.err
	}
	n := f.chunk
	if n > len(p) {
		n = len(p)
	}
	if n > f.k-f.pos {
		n = f.k - f.pos
	}
	copy(p, f.b[f.pos:f.pos+n])
	f.pos += n
	return n, nil
}

// dataEOFReader returns the last chunk together with io.EOF.
type dataEOFReader struct {
	b   []byte
	pos int
}

func (d *dataEOFReader) Read(p []byte) (int, error) {
	n := copy(p, d.b[d.pos:])
	d.pos += n
	if d.pos >= len(d.b) {
		return n, io.EOF
	}
	return n, nil
}

// failingSink accepts `ok` write calls and fails afterwards; it records what it received.
type failingSink struct {
	ok     int
	calls  int
	failed bool
	buf    bytes.Buffer
}

func (s *failingSink) Write(p []byte) (int, error) {
	s.calls++
	if s.calls > s.ok {
		s.failed = true
		return 0, errInjected
	}
	return s.buf.Write(p)
}

// failingStringSink is a failingSink that implements io.StringWriter as well.
type failingStringSink struct{ failingSink }

func (s *failingStringSink) WriteString(p string) (int, error) {
	s.calls++
	if s.calls > s.ok {
		s.failed = true
		return 0, errInjected
	}
	return s.buf.WriteString(p)
}

// flakySink fails exactly one call (the failAt-th, counting Write and WriteString calls together) and takes
// everything else; with str it also implements io.StringWriter.
type flakySink struct {
	failAt int
	calls  int
	failed bool
}

func (s *flakySink) Write(p []byte) (int, error) {
	s.calls++
	if s.calls == s.failAt {
		s.failed = true
		return 0, errInjected
	}
	return len(p), nil
}

type flakyStringSink struct{ flakySink }

func (s *flakyStringSink) WriteString(p string) (int, error) {
	s.calls++
	if s.calls == s.failAt {
		s.failed = true
		return 0, errInjected
	}
	return len(p), nil
}

// shortSink takes at most `room` bytes in total and reports shorter counts with a nil error afterwards.
type shortSink struct {
	room  int
	short bool
}

func (s *shortSink) Write(p []byte) (int, error) {
	n := len(p)
	if n > s.room {
		n = s.room
		s.short = true
	}
	s.room -= n
	return n, nil
}

func intsW(xs []int) W {
	items := make([]W, len(xs))
	for i, x := range xs {
		items[i] = WInt(int64(x))
	}
	return WList(items...)
}

func genStream(c *Ctx) {
	npool := 6
	if c.Thorough() {
		npool = 40
	}
	pool, _ := sealedPool(c, npool)
	// ---- tokens
	for ti, s := range pool {
		readers := []struct {
			name string
			f    func(r io.Reader) (W, error)
		}{
			{"generic", func(r io.Reader) (W, error) {
				tk, id, err := token.FromSealedReader(r)
				if err != nil {
					return WNull, err
				}
				return WList(anyTokenW(tk), WBytes(id.Bytes())), nil
			}},
			{"typed", func(r io.Reader) (W, error) {
				switch s.t.(type) {
				case *delegation.Token:
					tk, id, err := delegation.FromSealedReader(r)
					if err != nil {
						return WNull, err
					}
					return WList(dlgFieldsW(tk), WBytes(id.Bytes())), nil
				default:
					tk, id, err := invocation.FromSealedReader(r)
					if err != nil {
						return WNull, err
					}
					return WList(invFieldsW(tk), WBytes(id.Bytes())), nil
				}
			}},
			{"dagcbor", func(r io.Reader) (W, error) {
				tk, err := token.FromDagCborReader(r)
				if err != nil {
					return WNull, err
				}
				return anyTokenW(tk), nil
			}},
			{"dagcbor-typed", func(r io.Reader) (W, error) {
				switch s.t.(type) {
				case *delegation.Token:
					tk, err := delegation.FromDagCborReader(r)
					if err != nil {
						return WNull, err
					}
					return dlgFieldsW(tk), nil
				default:
					tk, err := invocation.FromDagCborReader(r)
					if err != nil {
						return WNull, err
					}
					return invFieldsW(tk), nil
				}
			}},
			{"decode-reader", func(r io.Reader) (W, error) {
				tk, err := token.DecodeReader(r, dagcbor.Decode)
				if err != nil {
					return WNull, err
				}
				return anyTokenW(tk), nil
			}},
		}
		var swallowed, early []int
		agree := true
		for ri, rd := range readers {
			base, err := rd.f(bytes.NewReader(s.b))
			if err != nil {
				agree = false
				continue
			}
			for _, chunk := range []int{1, 7, len(s.b)} {
				o, err := rd.f(&faultReader{b: s.b, k: len(s.b), chunk: chunk, err: io.EOF})
				if err != nil || o != base {
					agree = false
				}
			}
			if o, err := rd.f(&dataEOFReader{b: s.b}); err != nil || o != base {
				agree = false
			}
			// the complete token followed by further bytes is not that token: refused by the stream reader as it is
			// by the buffered call, whatever the chunking
			for _, extra := range [][]byte{{0x00}, {0xf6}, s.b} {
				in := append(append([]byte{}, s.b...), extra...)
				for _, r := range []io.Reader{bytes.NewReader(in), iotest.OneByteReader(bytes.NewReader(in)), iotest.DataErrReader(bytes.NewReader(in))} {
					if _, err := rd.f(r); err == nil {
						agree = false
					}
				}
			}
			// a source that fails right after the last byte, instead of reporting the end
			if _, err := rd.f(&faultReader{b: s.b, k: len(s.b), chunk: 5, err: errInjected}); err == nil {
				swallowed = append(swallowed, ri*1000000+len(s.b))
			}
			for k := 0; k < len(s.b); k++ {
				if !c.Thorough() && ri > 0 && k%3 != ti%3 {
					continue
				}
				func() {
					defer func() {
						if r := recover(); r != nil {
							swallowed = append(swallowed, ri*1000000+k)
						}
					}()
					c.Stat("read_faults_injected", 2)
					if _, err := rd.f(&faultReader{b: s.b, k: k, chunk: 5, err: errInjected}); err == nil {
						swallowed = append(swallowed, ri*1000000+k)
					}
					if _, err := rd.f(&faultReader{b: s.b, k: k, chunk: 5, err: io.EOF}); err == nil {
						early = append(early, ri*1000000+k)
					}
				}()
			}
		}
		// the DAG-JSON form
		if js, err := s.t.ToDagJson(s.iss.priv); err == nil {
			if _, err := token.FromDagJsonReader(bytes.NewReader(js)); err == nil {
				if _, err := token.FromDagJsonReader(bytes.NewReader(append(append([]byte{}, js...), js...))); err == nil {
					agree = false
				}
				if _, err := token.FromDagJsonReader(iotest.DataErrReader(bytes.NewReader(append(append([]byte{}, js...), '1')))); err == nil {
					agree = false
				}
				if _, err := token.FromDagJsonReader(&faultReader{b: js, k: len(js), chunk: 5, err: errInjected}); err == nil {
					swallowed = append(swallowed, 9*1000000+len(js))
				}
				for k := 0; k < len(js); k++ {
					if !c.Thorough() && k%3 != ti%3 {
						continue
					}
					if _, err := token.FromDagJsonReader(&faultReader{b: js, k: k, chunk: 5, err: errInjected}); err == nil {
						swallowed = append(swallowed, 9*1000000+k)
					}
					if _, err := token.FromDagJsonReader(&faultReader{b: js, k: k, chunk: 5, err: io.EOF}); err == nil {
						early = append(early, 9*1000000+k)
					}
				}
			}
		}
		// writers: a failure of any write call must be reported; success must deliver the buffered bytes
		writers := []struct {
			name string
			f    func(w io.Writer) error
		}{
			{"sealed", func(w io.Writer) error { _, err := s.t.ToSealedWriter(w, s.iss.priv); return err }},
			{"dagcbor", func(w io.Writer) error { return s.t.ToDagCborWriter(w, s.iss.priv) }},
			{"dagjson", func(w io.Writer) error { return s.t.ToDagJsonWriter(w, s.iss.priv) }},
			{"encode-cbor", func(w io.Writer) error { return s.t.EncodeWriter(w, s.iss.priv, dagcbor.Encode) }},
			{"encode-json", func(w io.Writer) error { return s.t.EncodeWriter(w, s.iss.priv, dagjson.Encode) }},
		}
		var swallowedW []int
		for wi, wr := range writers {
			full := &failingSink{ok: 1 << 30}
			if err := wr.f(full); err != nil {
				agree = false
				continue
			}
			// deterministic signature schemes give byte-identical output to the buffered call
			if wi <= 1 && (s.iss.name == "ed25519" || s.iss.name == "rsa") {
				if b2, err := s.t.ToDagCbor(s.iss.priv); err != nil || !bytes.Equal(b2, full.buf.Bytes()) {
					agree = false
				}
			}
			if wi == 0 {
				var b3 bytes.Buffer
				id, err := s.t.ToSealedWriter(&b3, s.iss.priv)
				d := sha256.Sum256(b3.Bytes())
				if err != nil || !bytes.Equal(id.Bytes(), append([]byte{1, 0x71, 0x12, 0x20}, d[:]...)) {
					agree = false
				}
			}
			// a sink that takes fewer bytes than it is given without saying so (capacity reached)
			for _, capBytes := range []int{0, 1, full.buf.Len() / 2, full.buf.Len() - 1} {
				ss := &shortSink{room: capBytes}
				if err := wr.f(ss); err == nil && ss.short {
					swallowedW = append(swallowedW, wi*1000000+900000+capBytes)
				}
			}
			for j := 0; j < full.calls+2; j++ {
				// (the number of write calls may vary between runs: only a sink that did fail counts)
				fs := &failingSink{ok: j}
				c.Stat("write_faults_injected", 1)
				if err := wr.f(fs); err == nil && fs.failed {
					swallowedW = append(swallowedW, wi*1000000+j)
				}
				// the same through a sink that also takes strings (io.StringWriter: files, buffered writers)
				fss := &failingStringSink{failingSink{ok: j}}
				if err := wr.f(fss); err == nil && fss.failed {
					swallowedW = append(swallowedW, wi*1000000+500000+j)
				}
				// a sink that fails one call only and takes the following ones
				fl := &flakySink{failAt: j + 1}
				if err := wr.f(fl); err == nil && fl.failed {
					swallowedW = append(swallowedW, wi*1000000+600000+j)
				}
				fls := &flakyStringSink{flakySink{failAt: j + 1}}
				if err := wr.f(fls); err == nil && fls.failed {
					swallowedW = append(swallowedW, wi*1000000+700000+j)
				}
			}
		}
		c.Emit("stream/token-"+s.iss.name, WList(WStr("token"), WStr(""), WBytes(nil), WList(), WList()),
			WList(intsW(swallowed), intsW(early), intsW(swallowedW), WBool(agree)))
	}
	// ---- containers
	nsets := 4
	if c.Thorough() {
		nsets = 40
	}
	for s := 0; s < nsets; s++ {
		k := 1 + c.R.Intn(4)
		var set []sealedTok
		for j := 0; j < k; j++ {
			set = append(set, pool[c.R.Intn(len(pool))])
		}
		var facts []W
		w := container.NewWriter()
		for _, t := range set {
			facts = append(facts, factW(t.b))
			w.AddSealed(t.c, t.b)
		}
		for _, f := range ctnFmts {
			data, err := f.write(w)
			if err != nil {
				continue
			}
			base := ctnObs(f.readStream(bytes.NewReader(data)))
			agree := base == ctnObs(f.read(data))
			for _, chunk := range []int{1, 7, len(data)} {
				if ctnObs(f.readStream(&faultReader{b: data, k: len(data), chunk: chunk, err: io.EOF})) != base {
					agree = false
				}
			}
			if ctnObs(f.readStream(&dataEOFReader{b: data})) != base {
				agree = false
			}
			var swallowed, early []int
			for k := 0; k < len(data); k++ {
				func() {
					defer func() {
						if r := recover(); r != nil {
							swallowed = append(swallowed, k)
						}
					}()
					c.Stat("read_faults_injected", 2)
					if _, err := f.readStream(&faultReader{b: data, k: k, chunk: 11, err: errInjected}); err == nil {
						swallowed = append(swallowed, k)
					}
					if _, err := f.readStream(&faultReader{b: data, k: k, chunk: 11, err: io.EOF}); err == nil {
						early = append(early, k)
					}
				}()
			}
			var swallowedW []int
			full := &failingSink{ok: 1 << 30}
			if err := f.writeStream(w, full); err != nil {
				agree = false
			} else {
				// same tokens come back from what the stream writer produced
				if ctnObs(f.read(full.buf.Bytes())) != base {
					agree = false
				}
				for _, capBytes := range []int{0, 1, full.buf.Len() / 2, full.buf.Len() - 1} {
					ss := &shortSink{room: capBytes}
					if err := f.writeStream(w, ss); err == nil && ss.short {
						swallowedW = append(swallowedW, 900000+capBytes)
					}
				}
				for j := 0; j < full.calls+4; j++ {
					// (map iteration order changes the sequence of write calls from run to run:
					// only a sink that did fail counts)
					fs := &failingSink{ok: j}
					c.Stat("write_faults_injected", 1)
					if err := f.writeStream(w, fs); err == nil && fs.failed {
						swallowedW = append(swallowedW, j)
					}
					if fs.failed {
						// right after a call that failed, the next one starts from scratch
						if d2, err := f.write(w); err != nil || len(d2) != len(data) || ctnObs(f.read(d2)) != base {
							agree = false
						}
					}
					fss := &failingStringSink{failingSink{ok: j}}
					if err := f.writeStream(w, fss); err == nil && fss.failed {
						swallowedW = append(swallowedW, 500000+j)
					}
					fl := &flakySink{failAt: j + 1}
					if err := f.writeStream(w, fl); err == nil && fl.failed {
						swallowedW = append(swallowedW, 600000+j)
					}
					fls := &flakyStringSink{flakySink{failAt: j + 1}}
					if err := f.writeStream(w, fls); err == nil && fls.failed {
						swallowedW = append(swallowedW, 700000+j)
					}
				}
			}
			// a call that failed leaves nothing behind: the same writer, through the buffered and the streaming call, still
			// produces a container that reads back as the same tokens, with as many bytes as the first time
			if data2, err := f.write(w); err != nil || len(data2) != len(data) || ctnObs(f.read(data2)) != base {
				agree = false
			}
			again := &failingSink{ok: 1 << 30}
			if err := f.writeStream(w, again); err != nil || again.buf.Len() != len(data) || ctnObs(f.read(again.buf.Bytes())) != base {
				agree = false
			}
			c.Emit("stream/container-"+f.name, WList(WStr("container"), WStr(f.name), WBytes(data), WList(facts...), WList()),
				WList(intsW(swallowed), intsW(early), intsW(swallowedW), WBool(agree)))
		}
	}
	// ---- a CAR whose one block is larger than any buffer a reader would reasonably allocate at once (2.5 MiB):
	// an input that ends inside it is refused wherever the cut falls (offsets at and around the whole mebibytes of
	// the section), and accepted only when cut between sections
	if len(pool) > 0 {
		iss := pool[0].iss
		blob := bytes.Repeat([]byte("0123456789abcdef"), (5<<19)/16)
		if d, err := delegation.New(iss.did, iss.did, command.Command("/big"), nil, delegation.WithMeta("blob", blob)); err == nil {
			if sealed, id, err := d.ToSealed(iss.priv); err == nil {
				w := container.NewWriter()
				w.AddSealed(id, sealed)
				small := pool[len(pool)-1]
				w.AddSealed(small.c, small.b)
				if data, err := container.Writer.ToCar(w); err == nil {
					// section lengths, read from the framing
					var lens []int
					for off := 0; off < len(data); {
						l, n := binary.Uvarint(data[off:])
						if n <= 0 {
							break
						}
						lens = append(lens, n+int(l))
						off += n + int(l)
					}
					var lensW []W
					for _, l := range lens {
						lensW = append(lensW, WInt(int64(l)))
					}
					var cuts []int
					off := 0
					for _, l := range lens {
						if l > 1<<20 {
							pl := len(binary.AppendUvarint(nil, uint64(l)))
							for base := off; base <= off+pl; base += pl {
								for j := 1; j*(1<<20) < l; j++ {
									for _, dlt := range []int{-1, 0, 1} {
										cuts = append(cuts, base+j*(1<<20)+dlt)
									}
								}
							}
							cuts = append(cuts, off+1, off+pl, off+pl+36, off+l-1)
						}
						off += l
						cuts = append(cuts, off)
					}
					for _, k := range cuts {
						if k < 0 || k > len(data) {
							continue
						}
						for ri, rd := range []func() (container.Reader, error){
							func() (container.Reader, error) { return container.FromCar(data[:k]) },
							func() (container.Reader, error) { return container.FromCarReader(bytes.NewReader(data[:k])) },
							func() (container.Reader, error) {
								return container.FromCarReader(&faultReader{b: data, k: k, chunk: 65536, err: io.EOF})
							},
							func() (container.Reader, error) {
								return container.FromCarReader(&dataEOFReader{b: data[:k]})
							},
						} {
							got := safe(func() W {
								if _, err := rd(); err != nil {
									return WStr("refused")
								}
								return WStr("accepted")
							})
							c.Emit("stream/big-section-cut", WList(WStr("bigcut"), WList(lensW...), WInt(int64(k)), WInt(int64(ri))), got)
						}
					}
				}
			}
		}
	}
	_ = command.Top
}
