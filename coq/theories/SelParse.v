(* Model of pkg/policy/selector/parsing.go: tokenize, Parse, Selector.String. *)
Require Import Base Node Selector Generated.
Local Open Scope N_scope.

Definition c_dot : N := 46.
Definition c_lbr : N := 91.
Definition c_rbr : N := 93.
Definition c_quote : N := 34.
Definition c_bslash : N := 92.
Definition c_qm : N := 63.
Definition c_colon : N := 58.
Definition c_minus : N := 45.

(* a parsed segment keeps its source token (segment.str) *)
Record pseg := { ps_seg : seg; ps_str : str }.

Definition flush (cur : str) : list str := match cur with [] => [] | _ => [rev cur] end.

(* tokenize, parsing.go:144-179; [cur] is the current token, reversed; [prev] the previous byte *)
Fixpoint tokenize_aux (s : str) (prev : N) (inq : bool) (cur : str) : list str :=
  match s with
  | [] => flush cur
  | c :: r =>
      if (c =? c_quote) && negb (prev =? c_bslash) then tokenize_aux r c (negb inq) (c :: cur)
      else if inq then tokenize_aux r c inq (c :: cur)
      else if (c =? c_dot) || (c =? c_lbr) then flush cur ++ tokenize_aux r c inq [c]
      else tokenize_aux r c inq (c :: cur)
  end.
Definition tokenize (s : str) : list str := tokenize_aux s 0 false [].

(* strings.TrimRight(tok, "?") *)
Fixpoint drop_qm (r : str) : str := match r with c :: r' => if c =? c_qm then drop_qm r' else r | [] => [] end.
Definition trim_qm (tok : str) : str := rev (drop_qm (rev tok)).
Definition ends_qm (tok : str) : bool := match rev tok with c :: _ => c =? c_qm | [] => false end.

Definition nonempty {A} (l : list A) : bool := match l with [] => false | _ => true end.
(* ^-?\d+$  and  -?\d* *)
Definition int_form (l : str) : bool :=
  match l with c :: r => if c =? c_minus then nonempty r && forallb is_digit r else forallb is_digit l | [] => false end.
Definition optint_form (l : str) : bool :=
  match l with c :: r => if c =? c_minus then forallb is_digit r else forallb is_digit l | [] => true end.

Definition digits_val (l : str) : Z := fold_left (fun a c => (a * 10 + Z.of_N (c - 48))%Z) l 0%Z.
Definition int_val (l : str) : Z :=
  match l with c :: r => if c =? c_minus then (- digits_val r)%Z else digits_val l | [] => 0%Z end.
Definition max53 : Z := src_max_int53.   (* limits.MaxInt53, read from the source on every run *)
Definition in53 (z : Z) : bool := ((- max53 <=? z) && (z <=? max53))%Z.

(* ^\.[a-zA-Z_\p{L}][a-zA-Z0-9$_\p{L}\-]*$ restricted to ASCII *)
Definition field_start (c : N) : bool := is_ascii_letter c || (c =? 95).
Definition field_char (c : N) : bool := is_ascii_letter c || is_digit c || (c =? 36) || (c =? 95) || (c =? c_minus).
Definition field_form (seg : str) : bool :=
  match seg with d :: c :: r => (d =? c_dot) && field_start c && forallb field_char r | _ => false end.

(* strings.Split(lookup, ":") for a lookup with exactly one colon *)
Fixpoint split_colon (l : str) : option (str * str) :=
  match l with
  | [] => None
  | c :: r => if c =? c_colon then Some ([], r)
              else match split_colon r with Some (a, b) => Some (c :: a, b) | None => None end
  end.

Definition bound_of (part : str) : res (option Z) :=
  match part with
  | [] => Ok None
  | _ => if int_form part then (if in53 (int_val part) then Ok (Some (int_val part)) else Err 3) else Err 3
  end.

Definition mk (k : segk) (opt : bool) (tok : str) : pseg := {| ps_seg := {| sk := k; sopt := opt |}; ps_str := tok |}.

(* the body of the loop of Parse for one token, given whether the previous segment is an identity *)
Definition parse_tok (prev_ident : bool) (tok : str) : res pseg :=
  let opt := ends_qm tok in
  let sg := if opt then trim_qm tok else tok in
  if str_eqb sg [c_dot] then (if prev_ident then Err 2 else Ok (mk KIdent opt tok))
  else if str_eqb sg [c_lbr; c_rbr] then Ok (mk KIter opt tok)
  else match sg, rev sg with
       | b :: inner, e :: _ =>
           if (b =? c_lbr) && (e =? c_rbr) then
             let lookup := removelast inner in
             if int_form lookup then
               (if in53 (int_val lookup) then Ok (mk (KIndex (int_val lookup)) opt tok) else Err 3)
             else match lookup, rev lookup with
                  | q1 :: l1, q2 :: _ =>
                      if (2 <=? length lookup)%nat && (q1 =? c_quote) && (q2 =? c_quote) then
                        let name := removelast l1 in
                        match name with
                        | [] => Err 4
                        | _ => if existsb (N.eqb c_colon) name then Err 4 else Ok (mk (KField name) opt tok)
                        end
                      else
                        match split_colon lookup with
                        | Some (a, b) =>
                            if optint_form a && optint_form b && (int_form a || int_form b) && negb (existsb (N.eqb c_colon) b) then
                              match bound_of a, bound_of b with
                              | Ok x, Ok y => Ok (mk (KSlice x y) opt tok)
                              | _, _ => Err 3
                              end
                            else Err 4
                        | None => Err 4
                        end
                  | _, _ => Err 4
                  end
           else if field_form sg then Ok (mk (KField (tl sg)) opt tok) else Err 4
       | _, _ => Err 4
       end.

Definition is_ident (p : pseg) : bool := match sk (ps_seg p) with KIdent => true | _ => false end.

Fixpoint parse_toks (toks : list str) (prev_ident : bool) : res (list pseg) :=
  match toks with
  | [] => Ok []
  | t :: r => match parse_tok prev_ident t with
              | Ok p => match parse_toks r (is_ident p) with Ok ps => Ok (p :: ps) | Err e => Err e | Panic => Panic end
              | Err e => Err e
              | Panic => Panic
              end
  end.

(* selector.Parse *)
Definition sel_parse (s : str) : res (list pseg) :=
  match s with
  | [] => Err 1
  | c :: _ =>
      if negb (c =? c_dot) then Err 1
      else if str_eqb s [c_dot] then Ok [mk KIdent false s]
      else if str_eqb s [c_dot; c_qm] then Ok [mk KIdent true s]
      else parse_toks (tokenize s) false
  end.

(* Selector.String *)
Definition sel_print (p : list pseg) : str := concat (map ps_str p).
Definition sel_segs (p : list pseg) : list seg := map ps_seg p.
