(* C11 - Policy matching follows the policy-language semantics. *)
From Coq Require Import String Permutation.
Require Import Base Node Selector Glob Policy PolicyProofs Cbor CborProofs SealedBytes CanonProofs EqualityProofs.
Local Open Scope Z_scope.

(* whenever every selector resolves, matching is the classical reading of the statements *)
Theorem C11_classical_statement : forall s n, resolves s n -> ev s n = of_bool (eval s n).
Proof. exact classical. Qed.
Print Assumptions C11_classical_statement.

Theorem C11_classical_policy : forall p n, Forall (fun s => resolves s n) p ->
  policy_match p n = forallb (fun s => eval s n) p.
Proof. exact policy_classical. Qed.
Print Assumptions C11_classical_policy.

(* order independence, in every case (resolving or not) *)
Theorem C11_and_order_irrelevant : forall ss ss' n, Permutation ss ss' -> ev (SAnd ss) n = ev (SAnd ss') n.
Proof. exact and_perm. Qed.
Print Assumptions C11_and_order_irrelevant.

Theorem C11_or_order_irrelevant : forall ss ss' n, Permutation ss ss' -> ev (SOr ss) n = ev (SOr ss') n.
Proof. exact or_perm. Qed.
Print Assumptions C11_or_order_irrelevant.

Theorem C11_all_visit_order_irrelevant : forall f l l', Permutation l l' ->
  quant f mmin RT (List l) = quant f mmin RT (List l').
Proof. exact all_perm. Qed.
Print Assumptions C11_all_visit_order_irrelevant.

Theorem C11_any_visit_order_irrelevant : forall f l l', Permutation l l' ->
  quant f mmax RF (List l) = quant f mmax RF (List l').
Proof. exact any_perm. Qed.
Print Assumptions C11_any_visit_order_irrelevant.

(* adding an operand to an and (anywhere) / an element under all never makes a failing match pass *)
Theorem C11_and_antitone : forall s ss1 ss2 n,
  (pass_match (ev (SAnd (ss1 ++ s :: ss2)) n) = true -> pass_match (ev (SAnd (ss1 ++ ss2)) n) = true) /\
  (pass_partial (ev (SAnd (ss1 ++ s :: ss2)) n) = true -> pass_partial (ev (SAnd (ss1 ++ ss2)) n) = true).
Proof. exact and_antitone_anywhere. Qed.
Print Assumptions C11_and_antitone.

Theorem C11_all_antitone : forall f x l,
  (pass_match (quant f mmin RT (List (x :: l))) = true -> pass_match (quant f mmin RT (List l)) = true) /\
  (pass_partial (quant f mmin RT (List (x :: l))) = true -> pass_partial (quant f mmin RT (List l)) = true).
Proof. exact all_antitone. Qed.
Print Assumptions C11_all_antitone.

Theorem C11_match_implies_partial : forall p n, policy_match p n = true -> policy_partial p n = true.
Proof. exact match_imp_partial. Qed.
Print Assumptions C11_match_implies_partial.

Theorem C11_match_concatenation : forall p q n, policy_match (p ++ q) n = policy_match p n && policy_match q n.
Proof. exact match_app. Qed.
Print Assumptions C11_match_concatenation.

Theorem C11_toplevel_missing : forall s n, ev s n = RN -> policy_match [s] n = false /\ policy_partial [s] n = true.
Proof. exact toplevel_missing. Qed.
Print Assumptions C11_toplevel_missing.

Theorem C11_toplevel_optional_missing : forall s n, ev s n = RO -> policy_match [s] n = true.
Proof. exact toplevel_optional_missing. Qed.
Print Assumptions C11_toplevel_optional_missing.

Theorem C11_missing_required_data_is_nodata : forall sel n k e, select sel n = Err e -> on_sel sel n k = RN.
Proof. exact leaf_missing_is_nodata. Qed.
Print Assumptions C11_missing_required_data_is_nodata.

Theorem C11_missing_optional_data_is_optional_nodata : forall sel n k, select sel n = Ok None -> on_sel sel n k = RO.
Proof. exact leaf_optional_missing_is_optnodata. Qed.
Print Assumptions C11_missing_optional_data_is_optional_nodata.

(* non-vacuity, on the F7 witnesses: and [== .x? 1, == .a 2] on {a:1} fails in both operand orders *)
Definition fld (f : string) (o : bool) : list seg := [{| sk := KField (lit f); sopt := o |}].
Example C11_nonvacuous :
  let d := Map [(lit "a", Int 1)] in
  ev (SAnd [SEq (fld "x" true) (Int 1); SEq (fld "a" false) (Int 2)]) d = RF /\
  ev (SAnd [SEq (fld "a" false) (Int 2); SEq (fld "x" true) (Int 1)]) d = RF /\
  ev (SOr [SEq (fld "x" false) (Int 1); SEq (fld "a" false) (Int 1)]) d = RT /\
  resolves (SCmp Ge (fld "a" false) (Int 1)) d /\ eval (SCmp Ge (fld "a" false) (Int 1)) d = true.
Proof. cbv zeta. repeat split; try (vm_compute; reflexivity). vm_compute. discriminate. Qed.

(* the classical reading of == on maps: the same entries, whatever their order (a Go map given as an argument,
   a map literal of a policy and their decoded forms list the same entries in different orders); at any depth,
   on either side: comparing two values is comparing their canonical forms *)
Theorem C11_equality_ignores_map_entry_order : forall a b, keys_distinct b -> deep_equal (canon a) (canon b) = deep_equal a b.
Proof. exact deep_equal_ignores_map_order. Qed.
Print Assumptions C11_equality_ignores_map_entry_order.

Example C11_map_order_example :
  deep_equal (Map [(lit "id", Int 7); (lit "n", Int 2)]) (Map [(lit "n", Int 2); (lit "id", Int 7)]) = true /\
  deep_equal (Map [(lit "id", Int 7); (lit "n", Int 2)]) (Map [(lit "n", Int 2); (lit "id", Int 8)]) = false /\
  deep_equal (Map [(lit "id", Int 7)]) (Map [(lit "n", Int 2); (lit "id", Int 7)]) = false /\
  deep_equal (List [Int 1; Int 2]) (List [Int 2; Int 1]) = false.
Proof. repeat split. Qed.
