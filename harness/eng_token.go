package main

import (
	"sort"
	"bytes"
	"fmt"
	"github.com/ucan-wg/go-ucan/pkg/policy/literal"
	"io"
	"iter"
	"math"
	"strings"
	"sync"
	"sync/atomic"
	"testing/iotest"
	"time"

	"github.com/ipfs/go-cid"
	"github.com/ipld/go-ipld-prime"
	"github.com/ipld/go-ipld-prime/codec/dagcbor"
	"github.com/ipld/go-ipld-prime/codec/dagjson"
	"github.com/ipld/go-ipld-prime/datamodel"
	cidlink "github.com/ipld/go-ipld-prime/linking/cid"
	"github.com/ipld/go-ipld-prime/node/basicnode"

	"github.com/ucan-wg/go-ucan/did"
	"github.com/ucan-wg/go-ucan/pkg/args"
	"github.com/ucan-wg/go-ucan/pkg/command"
	"github.com/ucan-wg/go-ucan/pkg/meta"
	"github.com/ucan-wg/go-ucan/token"
	"github.com/ucan-wg/go-ucan/token/delegation"
	"github.com/ucan-wg/go-ucan/token/invocation"
)

func init() { register(&Engine{Name: "token", Gen: genToken}) }

const dlgTag = "ucan/dlg@1.0.0-rc.1"
const invTag = "ucan/inv@1.0.0-rc.1"

type tokEnv struct {
	cls   string // class of the token under construction: "", "-nullval", "-intfloat", "-badutf8" (known codec limits)
	c     *Ctx
	keys  []principal
	byDid map[string]*principal
	hdr   map[string][]byte // varsig header per principal DID, read off a token sealed by go-ucan
}

func errObs() W { return WErr() }

func didUndef() did.DID { return did.Undef }

func safe(f func() W) (obs W) {
	defer func() {
		if r := recover(); r != nil {
			obs = WPanic()
		}
	}()
	return f()
}

func anyTokenW(t token.Token) W {
	switch v := t.(type) {
	case *delegation.Token:
		return WList(WStr("dlg"), dlgFieldsW(v))
	case *invocation.Token:
		return WList(WStr("inv"), invFieldsW(v))
	}
	return errObs()
}

// mkList / mkMap build basicnode values
func mkList(items ...datamodel.Node) datamodel.Node {
	nb := basicnode.Prototype.List.NewBuilder()
	la, _ := nb.BeginList(int64(len(items)))
	for _, it := range items {
		la.AssembleValue().AssignNode(it)
	}
	la.Finish()
	return nb.Build()
}

type ent struct {
	k string
	v datamodel.Node
}

func mkMap(es ...ent) datamodel.Node {
	nb := basicnode.Prototype.Map.NewBuilder()
	ma, _ := nb.BeginMap(int64(len(es)))
	for _, e := range es {
		ma.AssembleKey().AssignString(e.k)
		ma.AssembleValue().AssignNode(e.v)
	}
	ma.Finish()
	return nb.Build()
}

func cborOf(n datamodel.Node) []byte {
	b, err := ipld.Encode(n, dagcbor.Encode)
	if err != nil {
		return nil
	}
	return b
}

// payloadOf extracts the payload node of a sealed token (through go-ipld-prime only).
func payloadOf(sealed []byte) (datamodel.Node, string) {
	n, err := ipld.Decode(sealed, dagcbor.Decode)
	if err != nil {
		return nil, ""
	}
	sp, err := n.LookupByIndex(1)
	if err != nil {
		return nil, ""
	}
	it := sp.MapIterator()
	for it != nil && !it.Done() {
		k, v, _ := it.Next()
		ks, _ := k.AsString()
		if strings.HasPrefix(ks, "ucan/") {
			return v, ks
		}
	}
	return nil, ""
}

// ---- random constructible tokens ----

func (e *tokEnv) randMetaOpts(isDlg bool) ([]delegation.Option, []invocation.Option) {
	var d []delegation.Option
	var i []invocation.Option
	add := func(k string, v any) {
		d = append(d, delegation.WithMeta(k, v))
		i = append(i, invocation.WithMeta(k, v))
	}
	r := e.c.R
	n := r.Intn(4)
	for j := 0; j < n; j++ {
		k := fmt.Sprintf("m%d%s", j, r.Str("xyz", 2))
		switch r.Intn(11) {
		case 10:
			// a Go string need not be UTF-8: DAG-CBOR carries the bytes, DAG-JSON writes U+FFFD for them
			add(k, "bin"+r.Pick([]string{"\xff", "a\xc3", "\xed\xa0\x80", "\xc0\xaf"})+r.Str("xyz", 2))
			e.cls = "-badutf8"
		case 0:
			add(k, "text "+r.Pick([]string{"abc", "é", "日本", "a b", ""})+r.Str("xyz", 3))
		case 1:
			add(k, int64(r.Intn(1000))-500)
		case 2:
			add(k, r.Bool())
		case 3:
			add(k, r.Bytes(r.Intn(6)))
		case 4:
			add(k, 1.5+float64(r.Intn(10)))
		case 8:
			add(k, float64(r.Intn(10))) // integral float: DAG-JSON writes it as an integer
			e.cls = "-intfloat"
		case 9:
			add(k, datamodel.Null)
			e.cls = "-nullval"
		case 5:
			add(k, map[string]any{"b": 1, "aa": []any{"x", 2}, "c": map[string]any{"z": true}})
		case 6:
			add(k, []any{1, "two", []byte{3}})
		case 7:
			add(k, int64(math.MaxInt32)*int64(r.Intn(4000)))
		}
	}
	return d, i
}

func (e *tokEnv) randArgs(r *Rng) *args.Args {
	a := args.New()
	n := r.Intn(5)
	for j := 0; j < n; j++ {
		k := fmt.Sprintf("k%d%s", j, r.Str("ab", 2))
		switch r.Intn(10) {
		case 9:
			a.Add(k, "v"+r.Pick([]string{"\xff", "b\xc3", "\xf8\x88"})+r.Str("abc", 2))
			e.cls = "-badutf8"
		case 0:
			a.Add(k, "v"+r.Str("abc", 4))
		case 1:
			a.Add(k, r.Intn(100)-50)
		case 2:
			a.Add(k, []any{1, 2, "x"})
		case 3:
			a.Add(k, map[string]any{"bb": 1, "a": "y", "ccc": []any{}})
		case 4:
			fv := 2.25 * float64(1+r.Intn(7))
			if fv == math.Trunc(fv) {
				e.cls = "-intfloat"
			}
			a.Add(k, fv)
		case 5:
			a.Add(k, r.Bytes(r.Intn(5)))
		case 6:
			a.Add(k, int64(9007199254740991)-int64(r.Intn(3)))
		case 7:
			a.Add(k, nil2())
			e.cls = "-nullval"
		case 8:
			a.Add(k, float64(3+r.Intn(5)))
			e.cls = "-intfloat"
		}
	}
	return a
}

func nil2() datamodel.Node { return datamodel.Null }

var polPool = [][]pstmt{
	nil,
	{{kind: "==", sel: ".a", val: nil}},
	{{kind: ">", sel: ".a[0]", val: nil}, {kind: "like", sel: ".b", pat: `a*\*`}},
	{{kind: "and", subs: []pstmt{{kind: "==", sel: ".x?", val: nil}, {kind: "not", subs: []pstmt{{kind: "<=", sel: `.["k"]`, val: nil}}}}}},
	{{kind: "all", sel: ".l[]", subs: []pstmt{{kind: "any", sel: ".", subs: []pstmt{{kind: ">=", sel: ".[-1]", val: nil}}}}}},
	{{kind: "or"}},
}

func fillVals(r *Rng, p []pstmt) []pstmt {
	out := make([]pstmt, len(p))
	for i, s := range p {
		out[i] = s
		if s.val == nil && (s.kind == "==" || s.kind == ">" || s.kind == ">=" || s.kind == "<" || s.kind == "<=") {
			out[i].val = []datamodel.Node{J("5"), J(`"x"`), J("2.5"), J(`[1,{"b":2,"aa":1}]`), J(`{"k":"v"}`), J("9007199254740991"), J("null"), J("true")}[r.Intn(8)]
		}
		out[i].subs = fillVals(r, s.subs)
	}
	return out
}

func (e *tokEnv) randDelegation(iss *principal) (*delegation.Token, string) {
	r := e.c.R
	e.cls = ""
	aud := e.keys[r.Intn(len(e.keys))]
	cmd := r.Pick([]string{"/", "/a", "/a/b", "/crud/create", "/x-y/z_1"})
	pol, err := polBuild(fillVals(r, polPool[r.Intn(len(polPool))]))
	if err != nil {
		return nil, ""
	}
	dm, _ := e.randMetaOpts(true)
	opts := dm
	tagx := "plain"
	if r.Chance(50) {
		opts = append(opts, delegation.WithSubject(e.keys[r.Intn(len(e.keys))].did))
	}
	switch r.Intn(6) {
	case 0:
		opts = append(opts, delegation.WithExpirationIn(time.Duration(r.Intn(1e6))*time.Second))
	case 1:
		opts = append(opts, delegation.WithExpiration(time.Unix(9007199254740991, 0)))
		tagx = "exp-max53"
	case 2:
		opts = append(opts, delegation.WithNotBeforeIn(-time.Duration(r.Intn(1e6))*time.Second), delegation.WithExpirationIn(time.Hour))
	case 3:
		opts = append(opts, delegation.WithNotBefore(time.Unix(4000000000, 999999999)))
		tagx = "nbf-subsecond"
	case 4:
		if r.Chance(25) {
			opts = append(opts, delegation.WithExpiration(time.Unix(9007199254740992, 0)))
			tagx = "exp-beyond53"
		}
	case 5:
		if r.Chance(25) {
			if p2, err := polBuild([]pstmt{{kind: "==", sel: ".a", val: basicnode.NewInt(1 << 60)}}); err == nil {
				pol = p2
				tagx = "pol-beyond53"
			}
		}
	}
	if r.Chance(8) {
		// a policy nested 17..60 levels deep (not / any / all / and / or alternating)
		depth := 17 + r.Intn(44)
		st := pstmt{kind: "==", sel: ".a", val: basicnode.NewInt(1)}
		for k := 0; k < depth; k++ {
			switch k % 5 {
			case 0:
				st = pstmt{kind: "not", subs: []pstmt{st}}
			case 1:
				st = pstmt{kind: "any", sel: ".l", subs: []pstmt{st}}
			case 2:
				st = pstmt{kind: "and", subs: []pstmt{st}}
			case 3:
				st = pstmt{kind: "all", sel: ".", subs: []pstmt{st}}
			case 4:
				st = pstmt{kind: "or", subs: []pstmt{st, {kind: "like", sel: ".b", pat: "*"}}}
			}
		}
		if p2, err := polBuild([]pstmt{st}); err == nil && tagx == "plain" {
			pol = p2
			tagx = "pol-deep"
		}
	}
	if r.Chance(30) {
		opts = append(opts, delegation.WithNonce(r.Bytes(12+r.Intn(20))))
	}
	t, err := delegation.New(iss.did, aud.did, command.Command(cmd), pol, opts...)
	if err != nil {
		return nil, ""
	}
	return t, tagx + e.cls
}

func (e *tokEnv) randInvocation(iss *principal) (*invocation.Token, string) {
	r := e.c.R
	e.cls = ""
	sub := e.keys[r.Intn(len(e.keys))]
	cmd := r.Pick([]string{"/", "/a", "/a/b", "/crud/create"})
	var prf []cid.Cid
	for j := 0; j < r.Intn(4); j++ {
		prf = append(prf, fakeCid(r.Intn(50)))
	}
	_, im := e.randMetaOpts(false)
	opts := im
	tagx := "plain"
	ra := e.randArgs(r)
	if r.Chance(15) {
		// the documented "first one wins": an argument given by WithArgument, then the same key inside WithArguments
		for k := range ra.Iter() {
			opts = append(opts, invocation.WithArgument(k, "first-wins"))
			tagx = "args-two-options"
			break
		}
	}
	opts = append(opts, invocation.WithArguments(ra))
	if r.Chance(40) {
		opts = append(opts, invocation.WithAudience(e.keys[r.Intn(len(e.keys))].did))
	}
	switch r.Intn(6) {
	case 0:
		opts = append(opts, invocation.WithExpirationIn(time.Duration(r.Intn(1e6))*time.Second))
	case 1:
		opts = append(opts, invocation.WithExpiration(time.Unix(-9007199254740991, 0)))
		tagx = "exp-min53"
	case 2:
		opts = append(opts, invocation.WithoutInvokedAt())
	case 3:
		opts = append(opts, invocation.WithInvokedAt(time.Unix(1700000000, 500000000)))
	case 4:
		if r.Chance(25) {
			opts = append(opts, invocation.WithInvokedAt(time.Unix(-9007199254740992, 0)))
			tagx = "iat-beyond53"
		}
	case 5:
		// Go's zero time (year 1) and the epoch are instants like any other
		switch r.Intn(4) {
		case 0:
			opts = append(opts, invocation.WithExpiration(time.Time{}))
		case 1:
			opts = append(opts, invocation.WithInvokedAt(time.Time{}))
		case 2:
			opts = append(opts, invocation.WithExpiration(time.Unix(0, 0)), invocation.WithInvokedAt(time.Unix(0, 0)))
		case 3:
			opts = append(opts, invocation.WithExpiration(time.Time{}), invocation.WithInvokedAt(time.Time{}))
		}
		if tagx == "plain" {
			tagx = "zero-times"
		}
	}
	if r.Chance(30) {
		cc := fakeCid(777)
		opts = append(opts, invocation.WithCause(&cc))
	}
	if r.Chance(30) {
		opts = append(opts, invocation.WithNonce(r.Bytes(12+r.Intn(8))))
	}
	t, err := invocation.New(iss.did, sub.did, command.Command(cmd), prf, opts...)
	if err != nil {
		return nil, ""
	}
	return t, tagx + e.cls
}

// ---- seal -> unseal ----

func (e *tokEnv) roundTrip(iss *principal, t token.Token, f0 W, ty, tagx string) []byte {
	sealed, _, err := t.ToSealed(iss.priv)
	if err != nil {
		e.c.Emit("tok/rt-"+iss.name+"/seal-error", WList(WStr("rt"), WStr(ty), WNull, f0), WList(errObs(), errObs(), errObs(), errObs()))
		return nil
	}
	js, jerr := t.ToDagJson(iss.priv)
	gen := func(tk token.Token, err error) W {
		if err != nil {
			return errObs()
		}
		switch v := tk.(type) {
		case *delegation.Token:
			return dlgFieldsW(v)
		case *invocation.Token:
			return invFieldsW(v)
		}
		return errObs()
	}
	typed := func(b []byte, json bool) W {
		return safe(func() W {
			if ty == "dlg" {
				var tk *delegation.Token
				var err error
				if json {
					tk, err = delegation.FromDagJson(b)
				} else {
					tk, _, err = delegation.FromSealed(b)
				}
				if err != nil {
					return errObs()
				}
				return dlgFieldsW(tk)
			}
			var tk *invocation.Token
			var err error
			if json {
				tk, err = invocation.FromDagJson(b)
			} else {
				tk, _, err = invocation.FromSealed(b)
			}
			if err != nil {
				return errObs()
			}
			return invFieldsW(tk)
		})
	}
	o1 := safe(func() W { tk, _, err := token.FromSealed(sealed); return gen(tk, err) })
	o2 := typed(sealed, false)
	o3, o4 := errObs(), errObs()
	if jerr == nil {
		o3 = safe(func() W { tk, err := token.FromDagJson(js); return gen(tk, err) })
		o4 = typed(js, true)
	}
	pl, _ := payloadOf(sealed)
	plW := WNull
	if pl != nil {
		plW = WNode(pl)
	}
	// "time bounds compared at whole-second resolution": an instant between two seconds may come back as either of them
	f0r := f0
	switch v := t.(type) {
	case *delegation.Token:
		f0r = dlgFieldsW(v, true)
	case *invocation.Token:
		f0r = invFieldsW(v, true)
	}
	if string(f0r) != string(f0) {
		e.c.Emit("tok/rt-"+iss.name+"/"+ty+"-"+tagx, WList(WStr("rt"), WStr(ty), plW, f0, f0r), WList(o1, o2, o3, o4))
		return sealed
	}
	e.c.Emit("tok/rt-"+iss.name+"/"+ty+"-"+tagx, WList(WStr("rt"), WStr(ty), plW, f0), WList(o1, o2, o3, o4))
	return sealed
}

// ---- envelopes offered to the decoders ----

func (e *tokEnv) facts(n datamodel.Node, raw []byte) W {
	// the sealed entry points only accept the canonical encoding of what they decoded (DecodeSealed)
	canonical := n != nil && bytes.Equal(cborOf(n), raw)
	hdr := WNull
	verify := false
	var spb []byte
	if n != nil && n.Kind() == datamodel.Kind_List && n.Length() >= 2 {
		sigN, _ := n.LookupByIndex(0)
		sp, _ := n.LookupByIndex(1)
		if sp != nil && sp.Kind() == datamodel.Kind_Map {
			spb = cborOf(sp)
			it := sp.MapIterator()
			for !it.Done() {
				k, v, _ := it.Next()
				ks, _ := k.AsString()
				if strings.HasPrefix(ks, "ucan/") && v.Kind() == datamodel.Kind_Map {
					if issN, err := v.LookupByString("iss"); err == nil && issN.Kind() == datamodel.Kind_String {
						iss, _ := issN.AsString()
						if p, ok := e.byDid[iss]; ok {
							hdr = WBytes(e.hdr[iss])
							if sigN != nil && sigN.Kind() == datamodel.Kind_Bytes {
								sig, _ := sigN.AsBytes()
								ok, err := p.pub.Verify(spb, sig)
								verify = ok && err == nil
							}
						}
					}
				}
			}
		}
	}
	return WMap(KV{"hdr", hdr}, KV{"verify", WBool(verify)}, KV{"spbytes", WBytes(spb)}, KV{"canonical", WBool(canonical)})
}

// par evaluates independent observations concurrently (the decoders under test share no state)
func par(fs ...func() W) []W {
	out := make([]W, len(fs))
	var wg sync.WaitGroup
	for i, f := range fs {
		wg.Add(1)
		go func(i int, f func() W) {
			defer wg.Done()
			out[i] = safe(f)
		}(i, f)
	}
	wg.Wait()
	return out
}

// consensus: the observation shared by a family of equivalent entry points, or a record of their disagreement
func consensus(names []string, obs []W) W {
	for _, o := range obs[1:] {
		if o != obs[0] {
			var parts []W
			parts = append(parts, WStr("disagree"))
			for i, x := range obs {
				parts = append(parts, WList(WStr(names[i]), x))
			}
			return WList(parts...)
		}
	}
	return obs[0]
}

func (e *tokEnv) offer(tag string, b []byte) {
	n, derr := ipld.Decode(b, dagcbor.Decode)
	gen := func(tk token.Token, err error) W {
		if err != nil {
			return errObs()
		}
		return anyTokenW(tk)
	}
	dl := func(tk *delegation.Token, err error) W {
		if err != nil {
			return errObs()
		}
		return dlgFieldsW(tk)
	}
	iv := func(tk *invocation.Token, err error) W {
		if err != nil {
			return errObs()
		}
		return invFieldsW(tk)
	}
	rd := func() io.Reader { return bytes.NewReader(b) }
	eofrd := func() io.Reader { return iotest.DataErrReader(bytes.NewReader(b)) }
	// family 1: the sealed entry points (canonical bytes required), buffered and streaming
	sn := []string{"FromSealed", "FromSealedReader", "FromSealedReader(data+EOF)"}
	fam := [][]func() W{
		{func() W { tk, _, err := token.FromSealed(b); return gen(tk, err) },
			func() W { tk, _, err := token.FromSealedReader(rd()); return gen(tk, err) },
			func() W { tk, _, err := token.FromSealedReader(eofrd()); return gen(tk, err) }},
		{func() W { tk, _, err := delegation.FromSealed(b); return dl(tk, err) },
			func() W { tk, _, err := delegation.FromSealedReader(rd()); return dl(tk, err) },
			func() W { tk, _, err := delegation.FromSealedReader(eofrd()); return dl(tk, err) }},
		{func() W { tk, _, err := invocation.FromSealed(b); return iv(tk, err) },
			func() W { tk, _, err := invocation.FromSealedReader(rd()); return iv(tk, err) },
			func() W { tk, _, err := invocation.FromSealedReader(eofrd()); return iv(tk, err) }},
	}
	names := [][]string{sn, sn, sn}
	// family 2: the plain DAG-CBOR entry points, the node-level ones, and the DAG-JSON ones on the DAG-JSON
	// rendering of the same node (when that rendering reads back as the same node)
	if derr == nil {
		var js []byte
		if j, err := ipld.Encode(n, dagjson.Encode); err == nil {
			if n2, err := ipld.Decode(j, dagjson.Decode); err == nil && datamodel.DeepEqual(n, n2) {
				js = j
			}
		}
		gn := []string{"FromDagCbor", "FromDagCborReader", "Decode(cbor)", "DecodeReader(cbor)"}
		tn := append(append([]string{}, gn...), "FromIPLD")
		fg := []func() W{
			func() W { return gen(token.FromDagCbor(b)) },
			func() W { return gen(token.FromDagCborReader(rd())) },
			func() W { return gen(token.Decode(b, dagcbor.Decode)) },
			func() W { return gen(token.DecodeReader(eofrd(), dagcbor.Decode)) }}
		fd := []func() W{
			func() W { return dl(delegation.FromDagCbor(b)) },
			func() W { return dl(delegation.FromDagCborReader(rd())) },
			func() W { return dl(delegation.Decode(b, dagcbor.Decode)) },
			func() W { return dl(delegation.DecodeReader(eofrd(), dagcbor.Decode)) },
			func() W { return dl(delegation.FromIPLD(n)) }}
		fi := []func() W{
			func() W { return iv(invocation.FromDagCbor(b)) },
			func() W { return iv(invocation.FromDagCborReader(rd())) },
			func() W { return iv(invocation.Decode(b, dagcbor.Decode)) },
			func() W { return iv(invocation.DecodeReader(eofrd(), dagcbor.Decode)) },
			func() W { return iv(invocation.FromIPLD(n)) }}
		gnames, dnames, inames := gn, tn, append([]string{}, tn...)
		if js != nil {
			jr := func() io.Reader { return bytes.NewReader(js) }
			jn := []string{"FromDagJson", "FromDagJsonReader", "Decode(json)"}
			gnames, dnames, inames = append(append([]string{}, gnames...), jn...), append(append([]string{}, dnames...), jn...), append(inames, jn...)
			fg = append(fg, func() W { return gen(token.FromDagJson(js)) }, func() W { return gen(token.FromDagJsonReader(jr())) },
				func() W { return gen(token.Decode(js, dagjson.Decode)) })
			fd = append(fd, func() W { return dl(delegation.FromDagJson(js)) }, func() W { return dl(delegation.FromDagJsonReader(jr())) },
				func() W { return dl(delegation.Decode(js, dagjson.Decode)) })
			fi = append(fi, func() W { return iv(invocation.FromDagJson(js)) }, func() W { return iv(invocation.FromDagJsonReader(jr())) },
				func() W { return iv(invocation.Decode(js, dagjson.Decode)) })
		}
		fam = append(fam, fg, fd, fi)
		names = append(names, gnames, dnames, inames)
	}
	// all observations of the case at once, then one consensus per family
	var all []func() W
	for _, f := range fam {
		all = append(all, f...)
	}
	res := par(all...)
	cons := make([]W, len(fam))
	k := 0
	for i, f := range fam {
		cons[i] = consensus(names[i], res[k:k+len(f)])
		k += len(f)
	}
	if derr != nil {
		// not DAG-CBOR at all: nothing for the model to look at beyond "must be rejected"
		e.c.Emit(tag+"/undecodable", WList(WStr("env"), WNull, e.facts(nil, b)), WList(cons[0], cons[1], cons[2], WBool(true)))
		return
	}
	e.c.Emit(tag, WList(WStr("env"), WNode(n), e.facts(n, b)), WList(cons[0], cons[1], cons[2], WBool(true), cons[3], cons[4], cons[5]))
}

// signEnvelope seals an arbitrary payload node the way go-ucan does, with go-ipld-prime and libp2p only.
func (e *tokEnv) signEnvelope(p *principal, hdr []byte, tag string, payload datamodel.Node, extra ...ent) []byte {
	es := []ent{{"h", basicnode.NewBytes(hdr)}, {tag, payload}}
	es = append(es, extra...)
	sp := mkMap(es...)
	sig, err := p.priv.Sign(cborOf(sp))
	if err != nil {
		return nil
	}
	return cborOf(mkList(basicnode.NewBytes(sig), sp))
}

func genToken(c *Ctx) {
	per := 1
	if c.Thorough() {
		per = 3
	}
	e := &tokEnv{c: c, keys: detKeys(c.Seed+900, per), byDid: map[string]*principal{}, hdr: map[string][]byte{}}
	// header table: read the "h" entry of a token sealed by go-ucan for each principal
	usable := e.keys[:0]
	for i := range e.keys {
		p := &e.keys[i]
		if p.err != nil {
			continue
		}
		t, err := delegation.New(p.did, p.did, command.Command("/"), nil)
		if err != nil {
			continue
		}
		sealed, _, err := t.ToSealed(p.priv)
		if err != nil {
			// an algorithm whose tokens cannot be sealed at all is reported through the rt cases below
			usable = append(usable, *p)
			continue
		}
		n, _ := ipld.Decode(sealed, dagcbor.Decode)
		sp, _ := n.LookupByIndex(1)
		h, _ := sp.LookupByString("h")
		hb, _ := h.AsBytes()
		e.hdr[p.did.String()] = hb
		usable = append(usable, *p)
	}
	e.keys = usable
	for i := range e.keys {
		e.byDid[e.keys[i].did.String()] = &e.keys[i]
	}

	// ---- 1. seal -> unseal for random constructible tokens, every algorithm, both codecs, both decoders
	nrt := 12
	if c.Thorough() {
		nrt = 400
	}
	var sealedSamples [][]byte
	var sampleIss []*principal
	for i := range e.keys {
		p := &e.keys[i]
		for k := 0; k < nrt; k++ {
			if d, tagx := e.randDelegation(p); d != nil {
				if s := e.roundTrip(p, d, dlgFieldsW(d), "dlg", tagx); s != nil && k < 2 {
					sealedSamples = append(sealedSamples, s)
					sampleIss = append(sampleIss, p)
				}
			}
			if iv, tagx := e.randInvocation(p); iv != nil {
				if s := e.roundTrip(p, iv, invFieldsW(iv), "inv", tagx); s != nil && k < 1 {
					sealedSamples = append(sealedSamples, s)
					sampleIss = append(sampleIss, p)
				}
			}
		}
	}

	// ---- 2. corruptions of sealed tokens
	for si, sealed := range sealedSamples {
		p := sampleIss[si]
		sweep := c.Thorough() || p.name != "rsa3072"
		e.offer("tok/tamper/identity", sealed)
		bits := []uint{uint(si) % 8}
		if c.Thorough() {
			bits = []uint{0, 1, 2, 3, 4, 5, 6, 7}
		}
		for off := range sealed {
			if !sweep {
				break
			}
			if !c.Thorough() && p.name == "rsa" && off%3 != si%3 {
				continue // quick tier: every third offset of the (long) RSA tokens
			}
			for _, bit := range bits {
				b := append([]byte{}, sealed...)
				b[off] ^= 1 << bit
				e.offer("tok/tamper/bitflip", b)
			}
			if c.Thorough() || off%7 == si%7 {
				e.offer("tok/tamper/delete", append(append([]byte{}, sealed[:off]...), sealed[off+1:]...))
				e.offer("tok/tamper/insert", append(append(append([]byte{}, sealed[:off]...), byte(c.R.U64())), sealed[off:]...))
				b := append([]byte{}, sealed...)
				b[off] = byte(c.R.U64())
				e.offer("tok/tamper/substitute", b)
				e.offer("tok/tamper/truncate", sealed[:off])
			}
		}
		// field-level rewrites under the old signature, foreign signatures, header games
		n, derr := ipld.Decode(sealed, dagcbor.Decode)
		if derr != nil {
			continue // what ToSealed wrote is not DAG-CBOR: reported by the round-trip case of this token
		}
		sigN, _ := n.LookupByIndex(0)
		sig, _ := sigN.AsBytes()
		sp, _ := n.LookupByIndex(1)
		pl, tag := payloadOf(sealed)
		hdrN, _ := sp.LookupByString("h")
		hdr, _ := hdrN.AsBytes()
		rebuild := func(sig []byte, es ...ent) []byte {
			return cborOf(mkList(basicnode.NewBytes(sig), mkMap(es...)))
		}
		setField := func(pl datamodel.Node, key string, v datamodel.Node, drop bool) datamodel.Node {
			var es []ent
			found := false
			it := pl.MapIterator()
			for !it.Done() {
				k, val, _ := it.Next()
				ks, _ := k.AsString()
				if ks == key {
					found = true
					if drop {
						continue
					}
					val = v
				}
				es = append(es, ent{ks, val})
			}
			if !found && !drop {
				es = append(es, ent{key, v})
			}
			return mkMap(es...)
		}
		other := &e.keys[(si+1)%len(e.keys)]
		rewrites := []struct {
			name string
			pl   datamodel.Node
		}{
			{"cmd", setField(pl, "cmd", basicnode.NewString("/"), false)},
			{"aud", setField(pl, "aud", basicnode.NewString(other.did.String()), false)},
			{"sub", setField(pl, "sub", basicnode.NewString(other.did.String()), false)},
			{"iss", setField(pl, "iss", basicnode.NewString(other.did.String()), false)},
			{"nonce", setField(pl, "nonce", basicnode.NewBytes(bytes.Repeat([]byte{9}, 12)), false)},
			{"exp", setField(pl, "exp", basicnode.NewInt(4102444800), false)},
			{"exp-null", setField(pl, "exp", datamodel.Null, false)},
			{"nbf-drop", setField(pl, "nbf", nil, true)},
			{"pol-empty", setField(pl, "pol", mkList(), false)},
			{"args-empty", setField(pl, "args", mkMap(), false)},
			{"prf-empty", setField(pl, "prf", mkList(), false)},
			{"meta", setField(pl, "meta", mkMap(ent{"injected", basicnode.NewBool(true)}), false)},
		}
		for _, rw := range rewrites {
			e.offer("tok/tamper/rewrite-"+rw.name, rebuild(sig, ent{"h", basicnode.NewBytes(hdr)}, ent{tag, rw.pl}))
		}
		// signature by another key over the same content; over content that names the other key (a legitimate token)
		if s2, err := other.priv.Sign(cborOf(sp)); err == nil {
			e.offer("tok/tamper/foreign-signature", rebuild(s2, ent{"h", basicnode.NewBytes(hdr)}, ent{tag, pl}))
		}
		if oh, ok := e.hdr[other.did.String()]; ok {
			e.offer("tok/tamper/resigned-by-other-issuer", e.signEnvelope(other, oh, tag, setField(pl, "iss", basicnode.NewString(other.did.String()), false)))
			e.offer("tok/tamper/foreign-header", rebuild(sig, ent{"h", basicnode.NewBytes(oh)}, ent{tag, pl}))
			e.offer("tok/tamper/foreign-header-signed", e.signEnvelope(p, oh, tag, pl))
		}
		e.offer("tok/tamper/empty-header", e.signEnvelope(p, nil, tag, pl))
		// headers that keep the prefix and key codec of the issuer's own header but differ afterwards
		if len(hdr) >= 3 {
			hv := [][]byte{hdr[:len(hdr)-1], append(append([]byte{}, hdr...), 0x00), append(append([]byte{}, hdr...), 0x71)}
			last := append([]byte{}, hdr...)
			last[len(last)-1] ^= 0x58 // dag-cbor 0x71 -> dag-json 0x0129's low byte, or any other encoding code
			hv = append(hv, last)
			mid := append([]byte{}, hdr...)
			mid[len(mid)-2] ^= 0x01
			hv = append(hv, mid, hdr[:3], hdr[:2])
			for _, h2 := range hv {
				e.offer("tok/tamper/header-variant-signed", e.signEnvelope(p, h2, tag, pl))
				e.offer("tok/tamper/header-variant", rebuild(sig, ent{"h", basicnode.NewBytes(h2)}, ent{tag, pl}))
			}
		}
		e.offer("tok/tamper/header-string", rebuild(sig, ent{"h", basicnode.NewString(string(hdr))}, ent{tag, pl}))
		e.offer("tok/tamper/empty-signature", rebuild(nil, ent{"h", basicnode.NewBytes(hdr)}, ent{tag, pl}))
		e.offer("tok/tamper/short-signature", rebuild(sig[:len(sig)/2], ent{"h", basicnode.NewBytes(hdr)}, ent{tag, pl}))
		e.offer("tok/tamper/signature-string", cborOf(mkList(basicnode.NewString(string(sig)), sp)))
		e.offer("tok/tamper/swapped-order", cborOf(mkList(sp, basicnode.NewBytes(sig))))
		e.offer("tok/tamper/extra-sigpayload-entry", e.signEnvelope(p, hdr, tag, pl, ent{"zzz", basicnode.NewInt(1)}))
		e.offer("tok/tamper/two-payloads", e.signEnvelope(p, hdr, tag, pl, ent{"ucan/other@1", pl}))
		// a third entry at every position of the canonical key order: before "h", between "h" and the tag, after the tag
		for _, k := range []string{"", "a-third-entry-of-the-signed-part-longer-than-the-tag", tag + "+second-payload", strings.Repeat("z", len(tag)), strings.Repeat("!", len(tag)), "i"} {
			e.offer("tok/tamper/extra-sigpayload-entry", e.signEnvelope(p, hdr, tag, pl, ent{k, basicnode.NewInt(1)}))
			e.offer("tok/tamper/two-payloads", e.signEnvelope(p, hdr, tag, pl, ent{k, pl}))
		}
		e.offer("tok/tamper/no-header", func() []byte {
			sp2 := mkMap(ent{tag, pl})
			s, _ := p.priv.Sign(cborOf(sp2))
			return cborOf(mkList(basicnode.NewBytes(s), sp2))
		}())
		e.offer("tok/tamper/extra-envelope-element", cborOf(mkList(basicnode.NewBytes(sig), sp, basicnode.NewInt(7))))
		e.offer("tok/tamper/envelope-one-element", cborOf(mkList(basicnode.NewBytes(sig))))
		e.offer("tok/tamper/envelope-map", cborOf(mkMap(ent{"0", basicnode.NewBytes(sig)}, ent{"1", sp})))
		for _, ft := range []string{"ucan/foo@1.0.0", "ucan/", "ucan/dlg@1.0.0-rc.2", "dlg", invTag, dlgTag} {
			e.offer("tok/tag/"+strings.ReplaceAll(ft, "/", "_"), e.signEnvelope(p, hdr, ft, pl))
		}
	}

	// ---- 3. well-signed envelopes around payloads of every shape (C10)
	for i := range e.keys {
		p := &e.keys[i]
		hdr, ok := e.hdr[p.did.String()]
		if !ok {
			continue
		}
		if !c.Thorough() && i%3 != int(c.Seed%3) {
			continue
		}
		aud := e.keys[(i+1)%len(e.keys)].did.String()
		lk := func(k int) datamodel.Node { return basicnode.NewLink(cidlink.Link{Cid: fakeCid(k)}) }
		validDlg := []ent{{"iss", basicnode.NewString(p.did.String())}, {"aud", basicnode.NewString(aud)}, {"sub", basicnode.NewString(p.did.String())},
			{"cmd", basicnode.NewString("/a/b")}, {"pol", J(`[["==",".a",1]]`)}, {"nonce", basicnode.NewBytes(bytes.Repeat([]byte{1}, 12))},
			{"meta", J(`{"m":1}`)}, {"nbf", basicnode.NewInt(1000)}, {"exp", basicnode.NewInt(4102444800)}}
		validInv := []ent{{"iss", basicnode.NewString(p.did.String())}, {"sub", basicnode.NewString(aud)}, {"aud", basicnode.NewString(aud)},
			{"cmd", basicnode.NewString("/a/b")}, {"args", J(`{"a":1,"l":[1,2]}`)}, {"prf", mkList(lk(1), lk(2))},
			{"meta", J(`{"m":"x"}`)}, {"nonce", basicnode.NewBytes(bytes.Repeat([]byte{2}, 12))}, {"exp", datamodel.Null},
			{"iat", basicnode.NewInt(1700000000)}, {"cause", lk(3)}}
		retypes := []datamodel.Node{basicnode.NewInt(5), basicnode.NewString("str"), basicnode.NewBytes([]byte{1, 2}), datamodel.Null,
			basicnode.NewBool(true), mkList(), mkMap(), basicnode.NewFloat(1.5), lk(9), mkList(basicnode.NewInt(1)), mkMap(ent{"k", basicnode.NewInt(1)})}
		// an integer beyond 2^53 under d levels of lists and maps
		deep := func(d int, leaf datamodel.Node) datamodel.Node {
			n := leaf
			for k := 0; k < d; k++ {
				if k%2 == 0 {
					n = mkList(n)
				} else {
					n = mkMap(ent{"k", n})
				}
			}
			return n
		}
		big53 := basicnode.NewInt(9007199254740992)
		self := p.did.String()
		special := map[string][]datamodel.Node{
			"nbf":   {basicnode.NewInt(9007199254740991), basicnode.NewInt(9007199254740992), basicnode.NewInt(-9007199254740992), basicnode.NewInt(math.MinInt64), basicnode.NewUint(math.MaxUint64), basicnode.NewInt(0), basicnode.NewInt(-1)},
			"exp":   {basicnode.NewInt(9007199254740991), basicnode.NewInt(9007199254740992), basicnode.NewInt(-9007199254740991), basicnode.NewUint(1 << 63), basicnode.NewInt(0), basicnode.NewInt(-62135596800), basicnode.NewInt(-1)},
			"iat":   {basicnode.NewInt(9007199254740992), basicnode.NewUint(math.MaxUint64), basicnode.NewInt(-9007199254740992), basicnode.NewInt(0), basicnode.NewInt(-62135596800)},
			"nonce": {basicnode.NewBytes(nil), basicnode.NewBytes(bytes.Repeat([]byte{1}, 11)), basicnode.NewBytes(bytes.Repeat([]byte{1}, 13)), basicnode.NewBytes(bytes.Repeat([]byte{1}, 1))},
			"cmd": {basicnode.NewString("a"), basicnode.NewString("/A"), basicnode.NewString("/a/"), basicnode.NewString(""), basicnode.NewString("/"), basicnode.NewString("//"),
				basicnode.NewString("/é"), basicnode.NewString("/É"), basicnode.NewString("/crud/Écrire"), basicnode.NewString("/Ω"), basicnode.NewString("/ǅ"), basicnode.NewString("/Ⅳ"), basicnode.NewString("/ほげ")},
			"iss": {basicnode.NewString("did:key:z"), basicnode.NewString("did:web:example.com"), basicnode.NewString(""), basicnode.NewString(aud),
				basicnode.NewString(self + "#" + self[8:]), basicnode.NewString(self + "#"), basicnode.NewString(" " + self), basicnode.NewString(self + "\n"), basicnode.NewString("DID:KEY:" + self[8:])},
			"aud": {basicnode.NewString("did:key:zabc"), basicnode.NewString(""), basicnode.NewString("did:key:z"), basicnode.NewString("did:key:"), basicnode.NewString(aud + "#" + aud[8:]), basicnode.NewString(self), basicnode.NewString(aud + "?x")},
			"sub": {basicnode.NewString("not-a-did"), basicnode.NewString(""), basicnode.NewString("did:key:z"), basicnode.NewString("did:key:"), basicnode.NewString(aud + "#" + aud[8:]), basicnode.NewString(self)},
			"pol": {J(`[["==",".a",9007199254740992]]`), J(`[["bogus",".a",1]]`), J(`[["==","a",1]]`), J(`[["like",".a","x\\"]]`), J(`[]`), mkList(mkList(basicnode.NewString("=="), basicnode.NewString(".a"), deep(30, big53))), mkList(mkList(basicnode.NewString("=="), basicnode.NewString(".a"), deep(33, big53))), mkList(mkList(basicnode.NewString("=="), basicnode.NewString(".a"), deep(64, big53))), mkList(mkList(basicnode.NewString("=="), basicnode.NewString(".a"), basicnode.NewUint(math.MaxUint64)))},
			"args": {J(`{"a":9007199254740992}`), J(`{"a":[{"b":-9007199254740992}]}`), mkMap(ent{"u", basicnode.NewUint(math.MaxUint64)}), J(`{}`), J(`{"a":9007199254740991}`),
				mkMap(ent{"a", deep(31, big53)}), mkMap(ent{"a", deep(32, big53)}), mkMap(ent{"a", deep(33, big53)}), mkMap(ent{"a", deep(40, big53)}), mkMap(ent{"a", deep(64, big53)}),
				mkMap(ent{"a", deep(64, basicnode.NewInt(9007199254740991))})},
			"meta":  {J(`{"big":9007199254740993}`), J(`{}`)},
			"prf":   {mkList(basicnode.NewString("x")), mkList(), mkList(lk(1), basicnode.NewInt(2))},
			"cause": {basicnode.NewString("x")},
		}
		for _, ty := range []struct {
			name, tag string
			valid     []ent
		}{{"dlg", dlgTag, validDlg}, {"inv", invTag, validInv}} {
			build := func(es []ent) datamodel.Node { return mkMap(es...) }
			e.offer("tok/wf-"+ty.name+"/valid", e.signEnvelope(p, hdr, ty.tag, build(ty.valid)))
			// reversed key order
			rev := make([]ent, len(ty.valid))
			for k := range ty.valid {
				rev[len(rev)-1-k] = ty.valid[k]
			}
			e.offer("tok/wf-"+ty.name+"/reordered", e.signEnvelope(p, hdr, ty.tag, build(rev)))
			for k := range ty.valid {
				name := ty.valid[k].k
				drop := append(append([]ent{}, ty.valid[:k]...), ty.valid[k+1:]...)
				e.offer("tok/wf-"+ty.name+"/drop-"+name, e.signEnvelope(p, hdr, ty.tag, build(drop)))
				for _, rt := range retypes {
					mod := append([]ent{}, ty.valid...)
					mod[k] = ent{name, rt}
					e.offer("tok/wf-"+ty.name+"/retype-"+name, e.signEnvelope(p, hdr, ty.tag, build(mod)))
				}
				for _, sv := range special[name] {
					mod := append([]ent{}, ty.valid...)
					mod[k] = ent{name, sv}
					e.offer("tok/wf-"+ty.name+"/special-"+name, e.signEnvelope(p, hdr, ty.tag, build(mod)))
				}
			}
			for _, extra := range []ent{{"extra", basicnode.NewInt(1)}, {"Iss", basicnode.NewString("x")}, {"", datamodel.Null}, {"args", J(`{}`)}, {"pol", J(`[]`)}, {"nbf", basicnode.NewInt(1)}, {"cause", lk(1)}} {
				dup := false
				for _, v := range ty.valid {
					if v.k == extra.k {
						dup = true
					}
				}
				if dup {
					continue
				}
				e.offer("tok/wf-"+ty.name+"/add-"+extra.k, e.signEnvelope(p, hdr, ty.tag, build(append(append([]ent{}, ty.valid...), extra))))
			}
			// payload of the other type / not a map, under this tag
			e.offer("tok/wf-"+ty.name+"/payload-not-map", e.signEnvelope(p, hdr, ty.tag, mkList()))
			e.offer("tok/wf-"+ty.name+"/payload-null", e.signEnvelope(p, hdr, ty.tag, datamodel.Null))
		}
		e.offer("tok/wf-cross/dlg-payload-inv-tag", e.signEnvelope(p, hdr, invTag, mkMap(validDlg...)))
		e.offer("tok/wf-cross/inv-payload-dlg-tag", e.signEnvelope(p, hdr, dlgTag, mkMap(validInv...)))
	}

	// ---- 3b. constructors: which inputs are accepted
	{
		p := &e.keys[0]
		q := &e.keys[1%len(e.keys)]
		type spec struct {
			issDef, otherDef bool
			cmd              string
			nonce            int // -1: none given
			t1, t2           *int64
			polmax           int64
			ns               int64 // nanoseconds added to t1 / t2 when given to the option (the model sees the second the caller's value rounds to)
		}
		pt := func(v int64) *int64 { return &v }
		base := spec{true, true, "/a/b", -1, nil, nil, 1, 0}
		var specs []spec
		add := func(f func(s *spec)) { s := base; f(&s); specs = append(specs, s) }
		add(func(s *spec) {})
		add(func(s *spec) { s.issDef = false })
		add(func(s *spec) { s.otherDef = false })
		for _, cm := range []string{"/", "/a", "a", "", "/A", "/a/", "//", "/a//b", "/é", "/É", "/crud/Écrire", "/Ω", "/ǅ", "/Ⅳ", "/ほげ", "/\xff"} {
			cm := cm
			if cm == "/é" {
				continue // non-ASCII case mapping is outside the model
			}
			add(func(s *spec) { s.cmd = cm })
		}
		for _, n := range []int{0, 1, 11, 12, 13, 64} {
			n := n
			add(func(s *spec) { s.nonce = n })
		}
		for _, tv := range []int64{9007199254740991, 9007199254740992, 4102444800, 1 << 60} {
			tv := tv
			add(func(s *spec) { s.t2 = pt(tv) })
			add(func(s *spec) { s.t1 = pt(tv) })
		}
		for _, pm := range []int64{9007199254740991, 9007199254740992, -9007199254740992, 1 << 62} {
			pm := pm
			add(func(s *spec) { s.polmax = pm })
		}
		// instants between two seconds around the largest representable one: the bound applies to what is stored
		for _, tv := range []int64{9007199254740991, 9007199254740990, -9007199254740991, -9007199254740992, 4102444800} {
			for _, ns := range []int64{400_000_000, 500_000_000, 600_000_000, 999_999_999} {
				tv, ns := tv, ns
				add(func(s *spec) { s.t2 = pt(tv); s.ns = ns })
				add(func(s *spec) { s.t1 = pt(tv); s.ns = ns })
			}
		}
		for _, s := range specs {
			for _, ty := range []string{"dlg", "inv"} {
				if ty == "inv" && s.polmax != 1 {
					continue
				}
				if ty == "dlg" && ((s.t2 != nil && *s.t2 < 0) || (s.t1 != nil && *s.t1 < 0)) {
					continue // delegation.WithExpiration / WithNotBefore refuse an instant in the past, whatever its size
				}
				s := s
				obs := safe(func() W {
					iss, other := p.did, q.did
					if !s.issDef {
						iss = didUndef()
					}
					if !s.otherDef {
						other = didUndef()
					}
					if ty == "dlg" {
						pol, err := polBuild([]pstmt{{kind: "==", sel: ".", val: basicnode.NewInt(s.polmax)}})
						if err != nil {
							return errObs()
						}
						var opts []delegation.Option
						if s.nonce >= 0 {
							opts = append(opts, delegation.WithNonce(bytes.Repeat([]byte{1}, s.nonce)))
						}
						if s.t1 != nil {
							opts = append(opts, delegation.WithNotBefore(time.Unix(*s.t1, s.ns)))
						}
						if s.t2 != nil {
							opts = append(opts, delegation.WithExpiration(time.Unix(*s.t2, s.ns)))
						}
						t, err := delegation.New(iss, other, command.Command(s.cmd), pol, opts...)
						if err != nil {
							return errObs()
						}
						// what a constructor accepts must come back from its own sealed form
						back := false
						if sealed, _, err := t.ToSealed(p.priv); err == nil {
							_, _, err = delegation.FromSealed(sealed)
							back = err == nil
						}
						return WList(WStr("ok"), WInt(int64(len(t.Nonce()))), WBool(back))
					}
					var opts []invocation.Option
					if s.nonce >= 0 {
						opts = append(opts, invocation.WithNonce(bytes.Repeat([]byte{1}, s.nonce)))
					}
					if s.t1 != nil {
						opts = append(opts, invocation.WithInvokedAt(time.Unix(*s.t1, s.ns)))
					} else {
						opts = append(opts, invocation.WithoutInvokedAt())
					}
					if s.t2 != nil {
						opts = append(opts, invocation.WithExpiration(time.Unix(*s.t2, s.ns)))
					}
					t, err := invocation.New(iss, other, command.Command(s.cmd), nil, opts...)
					if err != nil {
						return errObs()
					}
					back := false
					if sealed, _, err := t.ToSealed(p.priv); err == nil {
						_, _, err = invocation.FromSealed(sealed)
						back = err == nil
					}
					return WList(WStr("ok"), WInt(int64(len(t.Nonce()))), WBool(back))
				})
				// the second that goes on the wire: invocation.WithExpiration rounds to the nearest second, the
				// other options keep the instant and the encoder writes its Unix() second
				tw := func(p *int64) W {
					if p == nil {
						return WNull
					}
					if ty == "inv" && p == s.t2 {
						return WInt(time.Unix(*p, s.ns).Round(time.Second).Unix())
					}
					return WInt(time.Unix(*p, s.ns).Unix())
				}
				kvs := []KV{{"iss", WBool(s.issDef)}, {"other", WBool(s.otherDef)},
					{"cmd", WStr(s.cmd)}, {"nonce", WInt(int64(s.nonce))}, {"t1", tw(s.t1)}, {"t2", tw(s.t2)}, {"polmax", WInt(s.polmax)}}
				// the other neighbouring second of an instant between two seconds ("whole-second resolution" does not say which)
				alt := func(p *int64) (W, bool) {
					if p == nil || s.ns == 0 {
						return WNull, false
					}
					fl, rd := time.Unix(*p, s.ns).Unix(), time.Unix(*p, s.ns).Round(time.Second).Unix()
					if WInt(fl) == tw(p) {
						return WInt(rd), rd != fl
					}
					return WInt(fl), rd != fl
				}
				if a, ok := alt(s.t1); ok {
					kvs = append(kvs, KV{"t1r", a})
				}
				if a, ok := alt(s.t2); ok {
					kvs = append(kvs, KV{"t2r", a})
				}
				c.Emit("tok/new-"+ty, WList(WStr("new"), WStr(ty), WMap(kvs...)), obs)
			}
		}
	}

	// ---- 3b. one *args.Args / *meta values handed to two constructor calls, each followed by an argument of its own:
	// every token holds what it was given, the caller's value is untouched, also when it is modified afterwards
	for _, first := range []bool{true, false} {
		iss, sub := e.keys[0].did, e.keys[1%len(e.keys)].did
		common := args.New()
		_ = common.Add("path", "/x")
		_ = common.Add("limit", 10)
		keysOf := func(it interface {
			Iter() iter.Seq2[string, datamodel.Node]
		}) W {
			var ks []string
			for k := range it.Iter() {
				ks = append(ks, k)
			}
			sort.Strings(ks) // which keys a token holds is the observation; their order is nobody's property
			return WStrs(ks)
		}
		obs := safe(func() W {
			mk := func(k string) (*invocation.Token, error) {
				if first {
					return invocation.New(iss, sub, command.Command("/a"), nil, invocation.WithArguments(common), invocation.WithArgument(k, 1))
				}
				return invocation.New(iss, sub, command.Command("/a"), nil, invocation.WithArgument(k, 1), invocation.WithArguments(common))
			}
			ta, err := mk("ka")
			if err != nil {
				return errObs()
			}
			tb, err := mk("kb")
			if err != nil {
				return errObs()
			}
			_ = common.Add("later", true)
			return WList(keysOf(ta.Arguments()), keysOf(tb.Arguments()), keysOf(common))
		})
		var want W
		if first {
			want = WList(WStrs([]string{"ka", "limit", "path"}), WStrs([]string{"kb", "limit", "path"}), WStrs([]string{"later", "limit", "path"}))
		} else {
			want = WList(WStrs([]string{"ka", "limit", "path"}), WStrs([]string{"kb", "limit", "path"}), WStrs([]string{"later", "limit", "path"}))
		}
		c.Emit("tok/args-shared", WList(WStr("seq"), WList(want)), obs)
	}

	// ---- 3b2. a forged token (a same-length rewrite of a field behind a 2 MiB argument, under the old signature)
	// decoded again and again while other goroutines decode the genuine one: refused every time, and the genuine
	// one accepted every time
	for ki := range e.keys {
		p := &e.keys[ki]
		if p.name != "ed25519" && p.name != "p256" {
			continue
		}
		blob := bytes.Repeat([]byte("0123456789abcdef"), (2<<20)/16)
		inv, err := invocation.New(p.did, p.did, command.Command("/pay"), nil, invocation.WithArgument("blob", blob), invocation.WithArgument("recipient", "alice@x"))
		if err != nil {
			continue
		}
		sealed, _, err := inv.ToSealed(p.priv)
		if err != nil || bytes.Count(sealed, []byte("alice@x")) != 1 {
			continue
		}
		forged := bytes.Replace(sealed, []byte("alice@x"), []byte("mallory"), 1)
		sigOK := func(b []byte) bool {
			n, err := ipld.Decode(b, dagcbor.Decode)
			if err != nil {
				return false
			}
			sg, _ := n.LookupByIndex(0)
			sp, _ := n.LookupByIndex(1)
			sgb, _ := sg.AsBytes()
			ok, _ := p.pub.Verify(cborOf(sp), sgb)
			return ok
		}
		var stop atomic.Bool
		var genuineRefused, forgedAccepted atomic.Int64
		var wg sync.WaitGroup
		for g := 0; g < 4; g++ {
			wg.Add(1)
			go func(g int) {
				defer wg.Done()
				for !stop.Load() {
					var err error
					if g%2 == 0 {
						_, _, err = token.FromSealed(sealed)
					} else {
						_, _, err = invocation.FromSealed(sealed)
					}
					if err != nil {
						genuineRefused.Add(1)
					}
				}
			}(g)
		}
		deadline := time.Now().Add(1500 * time.Millisecond)
		if c.Thorough() {
			deadline = time.Now().Add(20 * time.Second)
		}
		for time.Now().Before(deadline) {
			if _, _, err := invocation.FromSealed(forged); err == nil {
				forgedAccepted.Add(1)
			}
			if _, _, err := token.FromSealed(forged); err == nil {
				forgedAccepted.Add(1)
			}
			if _, err := token.FromDagCbor(forged); err == nil {
				forgedAccepted.Add(1)
			}
		}
		stop.Store(true)
		wg.Wait()
		verdict := func(accepted bool) W {
			if accepted {
				return WStr("accepted")
			}
			return WStr("refused")
		}
		c.Emit("tok/concurrent/forged-"+p.name, WList(WStr("concurrent"), WStr("forged"), WBool(sigOK(forged))), verdict(forgedAccepted.Load() > 0))
		c.Emit("tok/concurrent/genuine-"+p.name, WList(WStr("concurrent"), WStr("genuine"), WBool(sigOK(sealed))), verdict(genuineRefused.Load() == 0))
	}

	// ---- 3c. Go values with byte strings below the top level (maps, slices, named types): stored as exactly
	// that IPLD value, or refused
	{
		type blob []byte
		bs := func(b ...byte) datamodel.Node { return basicnode.NewBytes(b) }
		vals := []struct {
			v    any
			want datamodel.Node
		}{
			{map[string]any{"blob": []byte{1, 2}}, mkMap(ent{"blob", bs(1, 2)})},
			{[][]byte{{1, 2}, {3}}, mkList(bs(1, 2), bs(3))},
			{[]any{[]byte{9}, "x"}, mkList(bs(9), basicnode.NewString("x"))},
			{blob{7, 8}, bs(7, 8)},
			{map[string][]byte{"k": {1}}, mkMap(ent{"k", bs(1)})},
			{[]any{map[string]any{"in": []byte{}}}, mkList(mkMap(ent{"in", bs()}))},
			{[2]byte{1, 2}, bs(1, 2)},
			{[]uint8{5}, bs(5)},
			{[]int8{5}, mkList(basicnode.NewInt(5))},
		}
		for i, tv := range vals {
			for _, where := range []string{"args", "meta", "literal"} {
				obs := safe(func() W {
					var n datamodel.Node
					var err error
					switch where {
					case "args":
						a := args.New()
						if err = a.Add("k", tv.v); err == nil {
							n, err = a.GetNode("k")
						}
					case "meta":
						m := meta.NewMeta()
						if err = m.Add("k", tv.v); err == nil {
							n, err = m.GetNode("k")
						}
					default:
						n, err = literal.Any(tv.v)
					}
					if err != nil || datamodel.DeepEqual(n, tv.want) {
						return WStr("exact-or-refused")
					}
					return WList(WStr("altered"), WNode(n))
				})
				c.Emit(fmt.Sprintf("tok/lit-bytes/%s-%d", where, i), WList(WStr("seq"), WList(WStr("exact-or-refused"))), obs)
			}
		}
	}

	// ---- 4. Go numbers offered as argument / metadata values
	lit := func(tag string, v any, exact string) {
		// exact: the mathematical value in hex (wire integer form)
		obs := safe(func() W {
			a := args.New()
			if err := a.Add("k", v); err != nil {
				return errObs()
			}
			n, _ := a.GetNode("k")
			return WOk(WNode(n))
		})
		c.Emit("tok/lit-args/"+tag, WList(WStr("lit"), W("i"+exact+";")), obs)
		obs2 := safe(func() W {
			m := meta.NewMeta()
			if err := m.Add("k", v); err != nil {
				return errObs()
			}
			n, _ := m.GetNode("k")
			return WOk(WNode(n))
		})
		c.Emit("tok/lit-meta/"+tag, WList(WStr("litmeta"), W("i"+exact+";")), obs2)
		obs3 := safe(func() W {
			a := args.New()
			if err := a.Add("k", []any{v}); err != nil {
				return errObs()
			}
			n, _ := a.GetNode("k")
			el, err := n.LookupByIndex(0)
			if err != nil {
				return errObs()
			}
			return WOk(WNode(el))
		})
		c.Emit("tok/lit-nested/"+tag, WList(WStr("lit"), W("i"+exact+";")), obs3)
	}
	hx := func(v int64) string {
		if v < 0 {
			return "-" + fmt.Sprintf("%x", uint64(-v))
		}
		return fmt.Sprintf("%x", v)
	}
	for _, v := range []int64{0, 1, -1, 127, -128, 32767, -32768, math.MaxInt32, math.MinInt32, 9007199254740991, -9007199254740991, 9007199254740992, -9007199254740992, math.MaxInt64, math.MinInt64 + 1} {
		lit("int64", v, hx(v))
		lit("int", int(v), hx(v))
		if v >= math.MinInt32 && v <= math.MaxInt32 {
			lit("int32", int32(v), hx(v))
		}
		if v >= -128 && v <= 127 {
			lit("int8", int8(v), hx(v))
		}
		if v >= -32768 && v <= 32767 {
			lit("int16", int16(v), hx(v))
		}
	}
	for _, v := range []uint64{0, 1, 255, 65535, math.MaxUint32, 9007199254740991, 9007199254740992, 1 << 62, 1 << 63, 1<<63 + 1, math.MaxUint64 - 4, math.MaxUint64} {
		x := fmt.Sprintf("%x", v)
		lit("uint64", v, x)
		lit("uint", uint(v), x)
		if v <= math.MaxUint32 {
			lit("uint32", uint32(v), x)
		}
		if v <= 65535 {
			lit("uint16", uint16(v), x)
		}
		if v <= 255 {
			lit("uint8", uint8(v), x)
		}
	}
}
