From Coq Require Import String.
Require Import Base Node Cbor Varint Did Generated Envelope EnvelopeProofs Varsig.
Local Open Scope N_scope.

(* every algorithm FromPubKey produces a DID for has a header *)
Lemma headers_cover_emitted : forallb (fun c => existsb (fun e => fst e =? c) varsig_headers) emit_codes = true.
Proof. vm_compute. reflexivity. Qed.

(* every header is a sequence of minimal varints that starts with the varsig prefix 0x34 and ends with the
   payload encoding dag-cbor (0x71): signatures are always over the DAG-CBOR form *)
Definition header_shape_ok (h : str) : bool :=
  match varints h with
  | Some (52 :: r) => match rev r with 113 :: _ => true | _ => false end
  | _ => false
  end.
Lemma headers_shape : forallb (fun e => header_shape_ok (snd e)) varsig_headers = true.
Proof. vm_compute. reflexivity. Qed.

(* a header determines the key type: two algorithms share a header only if libp2p gives them the same type *)
Lemma header_determines_key_type_b :
  forallb (fun e1 => forallb (fun e2 => negb (str_eqb (snd e1) (snd e2)) || (key_type (fst e1) =? key_type (fst e2)))
                             varsig_headers) varsig_headers = true.
Proof. vm_compute. reflexivity. Qed.

Theorem header_determines_key_type c1 c2 h : In (c1, h) varsig_headers -> In (c2, h) varsig_headers -> key_type c1 = key_type c2.
Proof.
  intros H1 H2. pose proof header_determines_key_type_b as Hb. rewrite forallb_forall in Hb.
  specialize (Hb _ H1). rewrite forallb_forall in Hb. specialize (Hb _ H2). cbn [fst snd] in Hb.
  rewrite str_eqb_refl in Hb. cbn [negb orb] in Hb. apply N.eqb_eq. exact Hb.
Qed.

Lemma header_table_in d h : header_table d = Ok h -> exists c, c = fst d /\ In (c, h) varsig_headers.
Proof.
  unfold header_table. destruct (find _ varsig_headers) as [[c h']|] eqn:E; [|discriminate].
  intros [= <-]. apply find_some in E as [Hin Hc]. cbn [fst snd] in *. apply N.eqb_eq in Hc. subst c.
  exists (fst d). auto.
Qed.

(* an accepted envelope carries the header of its issuer's key type, whatever algorithm's table entry the
   header was copied from: a signature made for one key type is never accepted under another *)
Theorem accepted_header_names_issuer_key_type verify (A : Type) (bind : node -> res A) tag n a :
  env_decode verify header_table A bind tag n = Ok a ->
  exists sg hdr m iss d pm pl,
    n = List [Bytes sg; Map m] /\
    (m = [(hdr_key, Bytes hdr); (tag, pl)] \/ m = [(tag, pl); (hdr_key, Bytes hdr)]) /\
    pl = Map pm /\ map_get (lit "iss") pm = Some (Str iss) /\ did_parse iss = Ok d /\
    forall c, In (c, hdr) varsig_headers -> key_type c = key_type (fst d).
Proof.
  intros H. apply accept_verified in H as (sg & hdr & pl & pm & iss & d & m & Hn & Hm & Hpl & Hi & Hd & Hh & _ & _).
  exists sg, hdr, m, iss, d, pm, pl. repeat (split; [assumption|]).
  intros c Hc. apply header_table_in in Hh as (c' & -> & Hin). exact (header_determines_key_type _ _ _ Hc Hin).
Qed.
