package main

import (
	"bytes"
	"crypto/ecdsa"
	"crypto/elliptic"
	"crypto/rsa"
	"crypto/x509"
	"fmt"
	"math/big"
	"strings"

	"github.com/decred/dcrd/dcrec/secp256k1/v4"
	"github.com/libp2p/go-libp2p/core/crypto"
	"github.com/mr-tron/base58"
	varint "github.com/multiformats/go-varint"

	"github.com/ucan-wg/go-ucan/did"
)

func init() { register(&Engine{Name: "did", Gen: genDid}) }

// libFacts: what the third-party key libraries say about (code, material), computed without go-ucan:
// does the material denote a key, and what is the canonical material of that key.
func libFacts(code uint64, m []byte) W {
	ok := false
	var canon []byte
	func() {
		defer func() { recover() }()
		switch code {
		case 0xed:
			if _, err := crypto.UnmarshalEd25519PublicKey(m); err == nil {
				ok, canon = true, m
			}
		case 0xe7:
			if pk, err := secp256k1.ParsePubKey(m); err == nil {
				ok, canon = true, pk.SerializeCompressed()
			}
		case 0x1200, 0x1201, 0x1202:
			cv := map[uint64]elliptic.Curve{0x1200: elliptic.P256(), 0x1201: elliptic.P384(), 0x1202: elliptic.P521()}[code]
			if x, y := elliptic.UnmarshalCompressed(cv, m); x != nil {
				ok, canon = true, elliptic.MarshalCompressed(cv, x, y)
			}
		case 0x1205:
			if pk, err := x509.ParsePKCS1PublicKey(m); err == nil {
				if pkix, err := x509.MarshalPKIXPublicKey(pk); err == nil {
					if _, err := crypto.UnmarshalRsaPublicKey(pkix); err == nil {
						ok, canon = true, x509.MarshalPKCS1PublicKey(pk)
					}
				}
			}
		}
	}()
	return WMap(KV{"ok", WBool(ok)}, KV{"canon", WBytes(canon)})
}

func didParseCase(c *Ctx, tag, text string) {
	// independent decode for the library facts
	facts := WNull
	if strings.HasPrefix(text, "did:key:z") {
		if raw, err := base58.Decode(text[9:]); err == nil {
			if code, n, err := varint.FromUvarint(raw); err == nil {
				facts = libFacts(code, raw[n:])
			}
		}
	}
	var obs W
	func() {
		d, err := did.Parse(text)
		if err != nil {
			obs = WErr()
			return
		}
		pkClass, canon := "err", false
		func() {
			defer func() {
				if r := recover(); r != nil {
					pkClass = "panic"
				}
			}()
			pk, err := d.PubKey()
			if err == nil {
				pkClass = "ok"
				if d2, err := did.FromPubKey(pk); err == nil && d2 == d {
					canon = true
				}
			}
			// key extraction is a function of the DID: a second and a third call say the same
			for i := 0; i < 2; i++ {
				pk2, err2 := d.PubKey()
				if (err2 == nil) != (err == nil) || (err == nil && !pk.Equals(pk2)) {
					pkClass = "unstable"
				}
			}
		}()
		obs = WList(WStr("ok"), WStr(d.String()), WStr(pkClass), WBool(canon))
	}()
	c.Emit(tag, WList(WStr("parse"), WStr(text), facts), obs)
	// did.ToPubKey is Parse followed by PubKey: same acceptance, same key
	want, got := false, false
	func() {
		defer func() { recover() }()
		var k1 crypto.PubKey
		if d, err := did.Parse(text); err == nil {
			if k, err := d.PubKey(); err == nil {
				want, k1 = true, k
			}
		}
		k2, err := did.ToPubKey(text)
		got = err == nil && k2 != nil
		if want && got && !k1.Equals(k2) {
			got = false
		}
	}()
	c.Emit(strings.Replace(tag, "did/", "did/topubkey-", 1), WList(WStr("eq"), WBool(want)), WBool(got))
}

type keyGen struct {
	name string
	gen  func(r detReader) (crypto.PubKey, error)
}

func genDid(c *Ctx) {
	rd := detReader{NewRng(c.Seed + 77)}
	gens := []keyGen{
		{"ed25519", func(r detReader) (crypto.PubKey, error) { _, p, e := crypto.GenerateEd25519Key(r); return p, e }},
		{"secp256k1", func(r detReader) (crypto.PubKey, error) { _, p, e := crypto.GenerateSecp256k1Key(r); return p, e }},
		{"p256", func(r detReader) (crypto.PubKey, error) {
			_, p, e := crypto.GenerateECDSAKeyPairWithCurve(elliptic.P256(), r)
			return p, e
		}},
		{"p384", func(r detReader) (crypto.PubKey, error) {
			_, p, e := crypto.GenerateECDSAKeyPairWithCurve(elliptic.P384(), r)
			return p, e
		}},
		{"p521", func(r detReader) (crypto.PubKey, error) {
			_, p, e := crypto.GenerateECDSAKeyPairWithCurve(elliptic.P521(), r)
			return p, e
		}},
		{"rsa", func(r detReader) (crypto.PubKey, error) { _, p, e := crypto.GenerateRSAKeyPair(2048, r); return p, e }},
	}
	nkeys := 6
	if c.Thorough() {
		nkeys = 60
	}
	var texts []string
	type kd struct {
		k crypto.PubKey
		d did.DID
	}
	var pool []kd
	for _, g := range gens {
		n := nkeys
		if g.name == "rsa" {
			n = 1 + nkeys/30
		}
		for i := 0; i < n; i++ {
			pub, err := g.gen(rd)
			if err != nil {
				continue
			}
			// key -> DID -> text -> DID -> key
			fromOK, parseSame, keySame := false, false, false
			func() {
				defer func() { recover() }()
				d, err := did.FromPubKey(pub)
				if err != nil {
					return
				}
				fromOK = true
				pool = append(pool, kd{pub, d})
				texts = append(texts, d.String())
				if d2, err := did.Parse(d.String()); err == nil && d2 == d {
					parseSame = true
					if pk, err := d2.PubKey(); err == nil && pk.Equals(pub) {
						keySame = true
					}
				}
			}()
			c.Emit("did/key-"+g.name, WList(WStr("key"), WStr(g.name)), WList(WBool(fromOK), WBool(parseSame), WBool(keySame)))
		}
	}
	// RSA keys of every size class libp2p accepts, with synthetic odd moduli (no prime search): key -> DID -> text -> DID -> key
	for _, bits := range []int{2048, 3072, 4096, 7680, 8192} {
		nb := new(big.Int).SetBytes(rd.r.Bytes(bits / 8))
		nb.SetBit(nb, bits-1, 1)
		nb.SetBit(nb, 0, 1)
		std := &rsa.PublicKey{N: nb, E: 65537}
		der, err := x509.MarshalPKIXPublicKey(std)
		if err != nil {
			continue
		}
		pub, err := crypto.UnmarshalRsaPublicKey(der)
		if err != nil {
			continue
		}
		fromOK, parseSame, keySame := false, false, false
		func() {
			defer func() { recover() }()
			d, err := did.FromPubKey(pub)
			if err != nil {
				return
			}
			fromOK = true
			if d2, err := did.Parse(d.String()); err == nil && d2 == d {
				parseSame = true
				if pk, err := d2.PubKey(); err == nil && pk.Equals(pub) {
					keySame = true
				}
			}
		}()
		c.Emit(fmt.Sprintf("did/key-rsa-sized/%d", bits), WList(WStr("key"), WStr("rsa")), WList(WBool(fromOK), WBool(parseSame), WBool(keySame)))
	}
	// ECDSA keys over the secp256k1 curve (FromPubKey coerces them to the secp256k1 key type): random ones, and
	// ones whose X or Y coordinate has a leading zero byte (one key in 128)
	{
		want := map[string]int{"plain": nkeys, "x-leading-zero": 2, "y-leading-zero": 2}
		for tries := 0; tries < 6000 && (want["plain"] > 0 || want["x-leading-zero"] > 0 || want["y-leading-zero"] > 0); tries++ {
			priv, err := ecdsa.GenerateKey(secp256k1.S256(), rd)
			if err != nil {
				continue
			}
			class := "plain"
			if len(priv.X.Bytes()) < 32 {
				class = "x-leading-zero"
			} else if len(priv.Y.Bytes()) < 32 {
				class = "y-leading-zero"
			}
			if want[class] <= 0 {
				continue
			}
			want[class]--
			_, pub, err := crypto.ECDSAKeyPairFromKey(priv)
			if err != nil {
				continue
			}
			fromOK, parseSame, keySame := false, false, false
			func() {
				defer func() { recover() }()
				d, err := did.FromPubKey(pub)
				if err != nil {
					return
				}
				fromOK = true
				if d2, err := did.Parse(d.String()); err == nil && d2 == d {
					parseSame = true
					if pk, err := d2.PubKey(); err == nil {
						if sp, ok := pk.(*crypto.Secp256k1PublicKey); ok {
							k := (*secp256k1.PublicKey)(sp)
							keySame = k.X().Cmp(priv.X) == 0 && k.Y().Cmp(priv.Y) == 0
						}
					}
				}
			}()
			c.Emit("did/key-ecdsa-secp256k1/"+class, WList(WStr("key"), WStr("ecdsa-secp256k1")), WList(WBool(fromOK), WBool(parseSame), WBool(keySame)))
		}
	}
	// DIDs equal exactly when keys are
	for i := range pool {
		for j := range pool {
			if (i+j)%3 != 0 && !c.Thorough() {
				continue
			}
			c.Emit("did/eq", WList(WStr("eq"), WBool(pool[i].k.Equals(pool[j].k))), WBool(pool[i].d == pool[j].d))
		}
	}
	// valid texts and their library-level variants
	mk := func(code uint64, material []byte) string {
		return "did:key:z" + base58.Encode(append(varint.ToUvarint(code), material...))
	}
	for _, t := range texts {
		didParseCase(c, "did/valid", t)
	}
	// alternative encodings of the key material
	for _, e := range pool {
		std, err := crypto.PubKeyToStdKey(e.k)
		if err != nil {
			continue
		}
		switch k := std.(type) {
		case *crypto.Secp256k1PublicKey:
			pk := (*secp256k1.PublicKey)(k)
			un := pk.SerializeUncompressed()
			didParseCase(c, "did/alt-secp-uncompressed", mk(0xe7, un))
			hy := append([]byte{}, un...)
			hy[0] = 0x06 | (un[64] & 1)
			didParseCase(c, "did/alt-secp-hybrid", mk(0xe7, hy))
			cp := pk.SerializeCompressed()
			fl := append([]byte{}, cp...)
			fl[0] ^= 1
			didParseCase(c, "did/alt-secp-flipped-parity", mk(0xe7, fl))
			didParseCase(c, "did/alt-secp-truncated", mk(0xe7, cp[:32]))
			didParseCase(c, "did/alt-secp-as-p256", mk(0x1200, cp))
		case *ecdsa.PublicKey:
			code := map[string]uint64{"P-256": 0x1200, "P-384": 0x1201, "P-521": 0x1202}[k.Curve.Params().Name]
			un := elliptic.Marshal(k.Curve, k.X, k.Y)
			didParseCase(c, "did/alt-ecdsa-uncompressed", mk(code, un))
			cp := elliptic.MarshalCompressed(k.Curve, k.X, k.Y)
			bad := append([]byte{}, cp...)
			bad[0] = 0x05
			didParseCase(c, "did/alt-ecdsa-badprefix", mk(code, bad))
			didParseCase(c, "did/alt-ecdsa-padded", mk(code, append([]byte{0}, cp...)))
			didParseCase(c, "did/alt-ecdsa-truncated", mk(code, cp[:len(cp)-1]))
			didParseCase(c, "did/alt-ecdsa-ff", mk(code, append([]byte{cp[0]}, bytes.Repeat([]byte{0xff}, len(cp)-1)...)))
			// x not on the curve: search a nearby x without a square root
			x := new(big.Int).Set(k.X)
			for tries := 0; tries < 50; tries++ {
				x.Add(x, big.NewInt(1))
				b := append([]byte{cp[0]}, x.FillBytes(make([]byte, len(cp)-1))...)
				if px, _ := elliptic.UnmarshalCompressed(k.Curve, b); px == nil {
					didParseCase(c, "did/alt-ecdsa-offcurve", mk(code, b))
					break
				}
			}
			other := map[uint64]uint64{0x1200: 0x1201, 0x1201: 0x1202, 0x1202: 0x1200}[code]
			didParseCase(c, "did/alt-ecdsa-wrongcurve", mk(other, cp))
		case *rsa.PublicKey:
			der := x509.MarshalPKCS1PublicKey(k)
			didParseCase(c, "did/alt-rsa-trailing", mk(0x1205, append(append([]byte{}, der...), 0)))
			didParseCase(c, "did/alt-rsa-truncated", mk(0x1205, der[:len(der)-3]))
			didParseCase(c, "did/alt-rsa-as-pkix", mk(0x1205, func() []byte { b, _ := x509.MarshalPKIXPublicKey(k); return b }()))
			// a third element inside the RSAPublicKey sequence (encoding/asn1 tolerates trailing elements)
			if len(der) > 4 && der[1] == 0x82 {
				inner := append(append([]byte{}, der[4:]...), 0x02, 0x01, 0x00)
				ext := append([]byte{der[0], 0x82, byte(len(inner) >> 8), byte(len(inner))}, inner...)
				didParseCase(c, "did/alt-rsa-extra-element", mk(0x1205, ext))
			}
			// non-minimal DER length of the outer sequence (long form with a leading zero byte)
			if len(der) > 4 && der[1] == 0x82 {
				nm := append([]byte{der[0], 0x83, 0x00, der[2], der[3]}, der[4:]...)
				didParseCase(c, "did/alt-rsa-nonminimal-der", mk(0x1205, nm))
			}
		default:
			// ed25519
			raw, _ := e.k.Raw()
			didParseCase(c, "did/alt-ed-short", mk(0xed, raw[:31]))
			didParseCase(c, "did/alt-ed-long", mk(0xed, append(append([]byte{}, raw...), 0)))
			didParseCase(c, "did/alt-ed-as-x25519", mk(0xec, raw))
			didParseCase(c, "did/alt-ed-as-secp", mk(0xe7, raw))
			// 34-byte payloads whose text shares the "z6Mk" prefix of Ed25519 identifiers
			didParseCase(c, "did/alt-ed-prefix-ecff", "did:key:z"+base58.Encode(append([]byte{0xec, 0xff}, raw...)))
			didParseCase(c, "did/alt-ed-prefix-ed00", "did:key:z"+base58.Encode(append([]byte{0xed, 0x00}, raw...)))
			didParseCase(c, "did/alt-ed-prefix-ed02", "did:key:z"+base58.Encode(append([]byte{0xed, 0x02}, raw...)))
			// non-minimal varint for the code (0xed 0x01 -> 0xed 0x81 0x00)
			didParseCase(c, "did/alt-nonminimal-varint", "did:key:z"+base58.Encode(append([]byte{0xed, 0x81, 0x00}, raw...)))
		}
	}
	// a small RSA key (libp2p refuses keys below 2048 bits)
	if small, err := rsa.GenerateKey(rd, 1024); err == nil {
		didParseCase(c, "did/alt-rsa-small", mk(0x1205, x509.MarshalPKCS1PublicKey(&small.PublicKey)))
	}
	// text-level variants
	if len(texts) > 0 {
		t0 := texts[0]
		raw, _ := base58.Decode(t0[9:])
		hexs := "0123456789abcdef"
		var hx strings.Builder
		for _, b := range raw {
			hx.WriteByte(hexs[b>>4])
			hx.WriteByte(hexs[b&15])
		}
		for _, t := range []string{"", "did:key:", "did:key:z", "did:key", "did:web:" + t0[8:], "DID:KEY:" + t0[8:], t0[:8] + "f" + hx.String(), t0[:8] + "Z" + t0[9:],
			t0 + "#" + t0[8:], t0 + "#", t0 + "#key-1", t0 + "#" + t0[8:] + "#" + t0[8:], t0 + ":x", t0 + ":", t0 + "::", t0 + ":not base58 at all!", t0 + ":" + t0[8:], "did:key:zA:" + t0[8:], t0[:7] + "::" + t0[8:], t0 + "?x=1", t0 + "/path", t0 + ";v=1", t0 + "\n", t0 + " ", " " + t0, t0 + "0", t0 + "O", t0 + "I", t0 + "l", t0[:8] + "z1" + t0[9:], t0[:8] + "z11" + t0[9:], t0[:8] + "m" + t0[9:], t0[:8] + "\x00" + t0[9:], "did:key:z1", "did:key:z11111",
			mk(0, nil), mk(0xed, nil), mk(0x55, []byte{1, 2, 3}), mk(1<<63-1, []byte{1}), "did:key:z" + base58.Encode([]byte{0x80}), "did:key:z" + base58.Encode(bytes.Repeat([]byte{0xff}, 10))} {
			didParseCase(c, "did/text", t)
		}
	}
	n := 4000
	if c.Thorough() {
		n = 400000
	}
	alpha := "123456789ABCDEFGHJKLMNPQRSTUVWXYZabcdefghijkmnopqrstuvwxyz0OIl:z "
	for i := 0; i < n && len(texts) > 0; i++ {
		b := []byte(texts[c.R.Intn(len(texts))])
		for k := 0; k < 1+c.R.Intn(2); k++ {
			pos := c.R.Intn(len(b))
			switch c.R.Intn(4) {
			case 0:
				b[pos] = alpha[c.R.Intn(len(alpha))]
			case 1:
				b = append(b[:pos], b[pos+1:]...)
			case 2:
				b = append(b[:pos], append([]byte{alpha[c.R.Intn(len(alpha))]}, b[pos:]...)...)
			case 3:
				if pos > 9 {
					b = b[:pos]
				}
			}
		}
		didParseCase(c, "did/mutated", string(b))
	}
	for i := 0; i < n/4; i++ {
		code := []uint64{0xed, 0xe7, 0x1200, 0x1201, 0x1202, 0x1205, 0xec, 0x12, 0}[c.R.Intn(9)]
		ln := []int{0, 1, 31, 32, 33, 34, 49, 65, 67, 97, 133, 270}[c.R.Intn(12)]
		m := c.R.Bytes(ln)
		if ln > 0 && c.R.Chance(60) {
			m[0] = []byte{2, 3, 4, 6, 7, 0x30}[c.R.Intn(6)]
		}
		didParseCase(c, "did/random-material", mk(code, m))
	}
}
