module verifharness

go 1.23

require (
	github.com/decred/dcrd/dcrec/secp256k1/v4 v4.3.0
	github.com/ipfs/go-cid v0.4.1
	github.com/ipld/go-ipld-prime v0.21.0
	github.com/libp2p/go-libp2p v0.36.3
	github.com/mr-tron/base58 v1.2.0
	github.com/multiformats/go-multibase v0.2.0
	github.com/multiformats/go-multihash v0.2.3
	github.com/multiformats/go-varint v0.0.7
	github.com/ucan-wg/go-ucan v0.0.0
	golang.org/x/crypto v0.25.0
)

require (
	github.com/klauspost/cpuid/v2 v2.2.8 // indirect
	github.com/multiformats/go-base32 v0.1.0 // indirect
	github.com/multiformats/go-base36 v0.2.0 // indirect
	github.com/multiformats/go-multicodec v0.9.0 // indirect
	github.com/polydawn/refmt v0.89.0 // indirect
	github.com/spaolacci/murmur3 v1.1.0 // indirect
	golang.org/x/sys v0.22.0 // indirect
	google.golang.org/protobuf v1.34.2 // indirect
	lukechampine.com/blake3 v1.3.0 // indirect
)

replace github.com/ucan-wg/go-ucan => /repo
