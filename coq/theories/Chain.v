(* Model of token/invocation/proof.go + invocation.go:105-137,234-243 + the IsValidAt methods:
   ExecutionAllowed = loadProofs ; verifyProofs ; verifyTimeBound ; verifyArgs.
   Principals are DIDs in printed form ([] = did.Undef), CIDs are opaque byte strings, commands
   and policies are the models of Command.v and Policy.v, time is nanoseconds since the epoch. *)
Require Import Base Node Command Selector Policy.
Local Open Scope Z_scope.

Record dlg := { d_iss : str; d_aud : str; d_sub : str; d_cmd : str; d_pol : list stmt;
                d_nbf : option Z; d_exp : option Z }.
Record inv := { i_iss : str; i_sub : str; i_aud : str; i_cmd : str; i_args : node;
                i_prf : list str; i_exp : option Z }.
Definition loader := str -> option dlg.

(* loadProofs *)
Fixpoint load (ld : loader) (prf : list str) : option (list dlg) :=
  match prf with
  | [] => Some []
  | c :: r => match ld c with
              | None => None
              | Some d => match load ld r with None => None | Some ds => Some (d :: ds) end
              end
  end.

(* verifyProofs: the loop with the running issuer and command, then the root check *)
Fixpoint walk (sub iss cmd : str) (ds : list dlg) : bool :=
  match ds with
  | [] => true
  | d :: r => str_eqb (d_sub d) sub && str_eqb (d_aud d) iss && covers (d_cmd d) cmd
              && walk sub (d_iss d) (d_cmd d) r
  end.
Definition root_ok (ds : list dlg) : bool :=
  match rev ds with [] => false | l :: _ => str_eqb (d_iss l) (d_sub l) end.
Definition verify_proofs (i : inv) (ds : list dlg) : bool :=
  match ds with [] => false | _ => walk (i_sub i) (i_iss i) (i_cmd i) ds && root_ok ds end.

(* IsValidAt: After / Before are strict *)
Definition valid_at (nbf exp : option Z) (t : Z) : bool :=
  match exp with Some e => negb (e <? t) | None => true end &&
  match nbf with Some n => negb (t <? n) | None => true end.
Definition dlg_valid_at (t : Z) (d : dlg) : bool := valid_at (d_nbf d) (d_exp d) t.
Definition inv_valid_at (t : Z) (i : inv) : bool := valid_at None (i_exp i) t.
Definition verify_time (now : Z) (i : inv) (ds : list dlg) : bool :=
  inv_valid_at now i && forallb (dlg_valid_at now) ds.

(* verifyArgs: all policies concatenated in proof order, matched against the arguments *)
Definition verify_args (ds : list dlg) (a : node) : bool :=
  policy_match (concat (map d_pol ds)) a.

Definition allowed_with (now : Z) (ld : loader) (i : inv) (a : node) : bool :=
  match load ld (i_prf i) with
  | None => false
  | Some ds => verify_proofs i ds && verify_time now i ds && verify_args ds a
  end.

(* ExecutionAllowed / ExecutionAllowedWithArgsHook *)
Definition allowed (now : Z) (ld : loader) (i : inv) : bool := allowed_with now ld i (i_args i).
Definition allowed_hook (now : Z) (ld : loader) (h : node -> option node) (i : inv) : bool :=
  match h (i_args i) with None => false | Some a => allowed_with now ld i a end.

(* ---------- Spec ---------- *)
(* principals and commands, link by link from the invoker up *)
Inductive aligned (sub : str) : str -> str -> list dlg -> Prop :=
| al_nil iss c : aligned sub iss c []
| al_cons iss c d r : d_sub d = sub -> d_aud d = iss -> covers (d_cmd d) c = true ->
                      aligned sub (d_iss d) (d_cmd d) r -> aligned sub iss c (d :: r).

Record spec_allowed (now : Z) (ld : loader) (i : inv) (a : node) (ds : list dlg) : Prop := {
  sp_nonempty : i_prf i <> [];
  sp_loaded : map ld (i_prf i) = map Some ds;
  sp_aligned : aligned (i_sub i) (i_iss i) (i_cmd i) ds;
  sp_root : exists l, last ds l = l /\ d_iss l = d_sub l;
  sp_time_inv : inv_valid_at now i = true;
  sp_time : Forall (fun d => dlg_valid_at now d = true) ds;
  sp_pol : Forall (fun d => Forall (fun s => pass_match (ev s a) = true) (d_pol d)) ds
}.

Definition set_irrelevant (aud : str) (i : inv) : inv :=
  {| i_iss := i_iss i; i_sub := i_sub i; i_aud := aud; i_cmd := i_cmd i; i_args := i_args i;
     i_prf := i_prf i; i_exp := i_exp i |}.
