(* DAG-JSON as go-ipld-prime's dagjson codec writes it for go-ucan (Token.ToDagJson, policy.ToDagJson): compact
   JSON, map keys in bytewise order, bytes as {"/":{"bytes":<base64, no padding>}}, links as {"/":<CID text>},
   strings escaped the way refmt's encoder does it (control characters, quote, backslash, U+2028/9; a byte that
   is not UTF-8 is written as U+FFFD - which is where the codec stops being lossless), integers in decimal.
   Floats are NOT modelled (strconv's shortest decimal; see F16): [jenc] writes a placeholder for them and every
   theorem excludes them.  [jdec] is a reference decoder for exactly the encoder's output (no white space), with
   the reserved {"/": ...} forms turned back into links and bytes. *)
From Coq Require Import String.
Require Import Base Node Radix Utf8 Base64.
Local Open Scope N_scope.

(* ---------- integers ---------- *)
Definition dec_of_N (n : N) : str := if n =? 0 then [48] else map (fun d => 48 + d) (digits 10 n).
Definition jint (z : Z) : str := match z with Zneg p => 45 :: dec_of_N (Npos p) | _ => dec_of_N (Z.to_N z) end.

Fixpoint span_digits (s : str) : str * str :=
  match s with
  | c :: r => if is_digit c then let '(d, t) := span_digits r in (c :: d, t) else ([], s)
  | [] => ([], [])
  end.
Definition N_of_dec (ds : str) : N := val 10 (map (fun c => c - 48) ds).

(* ---------- strings ---------- *)
Definition hexd (d : N) : N := if d <? 10 then 48 + d else 87 + d.
Definition hexv (c : N) : option N :=
  if (48 <=? c) && (c <=? 57) then Some (c - 48)
  else if (97 <=? c) && (c <=? 102) then Some (c - 87)
  else if (65 <=? c) && (c <=? 70) then Some (c - 55)
  else None.

Definition esc_ascii (b : N) : str :=
  if (b =? 34) || (b =? 92) then [92; b]
  else if b =? 10 then [92; 110]
  else if b =? 13 then [92; 114]
  else if b =? 9 then [92; 116]
  else if b <? 32 then [92; 117; 48; 48; hexd (b / 16); hexd (b mod 16)]
  else [b].

Definition u_fffd : str := [92; 117; 102; 102; 102; 100].

(* refmt emitString *)
Fixpoint jesc_f (fuel : nat) (s : str) : str :=
  match fuel with
  | O => []
  | S f =>
      match s with
      | [] => []
      | b :: r =>
          if b <? 128 then esc_ascii b ++ jesc_f f r
          else match decode1 s with
               | Some (cp, rest) =>
                   if (cp =? 8232) || (cp =? 8233) then [92; 117; 50; 48; 50; hexd (cp mod 16)] ++ jesc_f f rest
                   else firstn (length s - length rest) s ++ jesc_f f rest
               | None => u_fffd ++ jesc_f f r
               end
      end
  end.
Definition jesc (s : str) : str := jesc_f (S (length s)) s.
Definition jstr (s : str) : str := 34 :: jesc s ++ [34].

(* the standard UTF-8 encoding of a code point (for \uXXXX escapes) *)
Definition u8enc (r : N) : str :=
  if r <? 128 then [r]
  else if r <? 2048 then [192 + r / 64; 128 + r mod 64]
  else if r <? 65536 then [224 + r / 4096; 128 + (r / 64) mod 64; 128 + r mod 64]
  else [240 + r / 262144; 128 + (r / 4096) mod 64; 128 + (r / 64) mod 64; 128 + r mod 64].

(* the characters after the opening quote up to the closing one, unescaped *)
Fixpoint junq (s : str) : option (str * str) :=
  match s with
  | [] => None
  | c :: r =>
      if c =? 34 then Some ([], r)
      else if c =? 92 then
        match r with
        | e :: r1 =>
            if (e =? 34) || (e =? 92) || (e =? 47) then option_map (fun '(t, x) => (e :: t, x)) (junq r1)
            else if e =? 110 then option_map (fun '(t, x) => (10 :: t, x)) (junq r1)
            else if e =? 114 then option_map (fun '(t, x) => (13 :: t, x)) (junq r1)
            else if e =? 116 then option_map (fun '(t, x) => (9 :: t, x)) (junq r1)
            else if e =? 117 then
              match r1 with
              | h3 :: h2 :: h1 :: h0 :: r2 =>
                  match hexv h3, hexv h2, hexv h1, hexv h0 with
                  | Some a, Some b, Some c0, Some d =>
                      option_map (fun '(t, x) => (u8enc (((a * 16 + b) * 16 + c0) * 16 + d) ++ t, x)) (junq r2)
                  | _, _, _, _ => None
                  end
              | _ => None
              end
            else None
        | [] => None
        end
      else if c <? 32 then None
      else option_map (fun '(t, x) => (c :: t, x)) (junq r)
  end.

(* ---------- base64 without padding (base64.RawStdEncoding) ---------- *)
Definition not_pad (c : N) : bool := negb (c =? c_pad).
Definition b64raw_encode (b : str) : str := filter not_pad (b64_encode b).
Definition b64raw_decode (s : str) : res str :=
  if forallb not_pad s then b64_decode (s ++ repeat c_pad ((4 - length s mod 4) mod 4)%nat) else Err 1.

(* ---------- base32 (RFC 4648, lower case, no padding) and the text of a CIDv1 ---------- *)
Fixpoint bits_of (k : nat) (n : N) : list bool :=
  match k with O => [] | S k' => bits_of k' (n / 2) ++ [N.odd n] end.
Definition val_bits (l : list bool) : N := fold_left (fun a (b : bool) => 2 * a + (if b then 1 else 0)) l 0.
Fixpoint group5 (l : list bool) : list N :=
  match l with
  | a :: b :: c :: d :: e :: r => val_bits [a; b; c; d; e] :: group5 r
  | [] => []
  | _ => [val_bits (firstn 5 (l ++ [false; false; false; false]))]
  end.
Fixpoint group8 (l : list bool) : list N :=
  match l with
  | a :: b :: c :: d :: e :: f :: g :: h :: r => val_bits [a; b; c; d; e; f; g; h] :: group8 r
  | _ => []
  end.
Definition b32_alphabet : str := lit "abcdefghijklmnopqrstuvwxyz234567".
Definition b32_char (d : N) : N := nth (N.to_nat d) b32_alphabet 0.
Fixpoint b32_idx_aux (c : N) (l : str) (i : N) : option N :=
  match l with [] => None | x :: r => if x =? c then Some i else b32_idx_aux c r (i + 1) end.
Definition b32_idx (c : N) : option N := b32_idx_aux c b32_alphabet 0.
Fixpoint b32_idx_all (t : str) : option (list N) :=
  match t with
  | [] => Some []
  | c :: r => match b32_idx c, b32_idx_all r with Some d, Some ds => Some (d :: ds) | _, _ => None end
  end.
Definition b32_encode (b : str) : str := map b32_char (group5 (flat_map (bits_of 8) b)).
Definition b32_decode (t : str) : option str :=
  match b32_idx_all t with Some ds => Some (group8 (flat_map (bits_of 5) ds)) | None => None end.

(* Cid.String() of a CIDv1: multibase prefix b + base32 *)
Definition cid_text (c : str) : str := 98 :: b32_encode c.
Definition cid_parse (t : str) : option str := match t with 98 :: r => b32_decode r | _ => None end.

(* ---------- encoder ---------- *)
Section JSort.
  Context {V : Type}.
  Fixpoint jinsert (e : str * V) (l : list (str * V)) : list (str * V) :=
    match l with
    | [] => [e]
    | e' :: l' => if str_ltb (fst e) (fst e') then e :: l else e' :: jinsert e l'
    end.
  Fixpoint jsort (l : list (str * V)) : list (str * V) :=
    match l with [] => [] | e :: l' => jinsert e (jsort l') end.
End JSort.

(* items separated by commas *)
Definition jsep (l : list str) : str :=
  match l with [] => [] | x :: r => x ++ concat (map (fun y => 44 :: y) r) end.

Definition jentry (e : str * str) : str := jstr (fst e) ++ 58 :: snd e.
Definition slash : str := [47].
Definition k_bytes : str := lit "bytes".

Fixpoint jenc (n : node) : str :=
  match n with
  | Null => lit "null"
  | Bool true => lit "true"
  | Bool false => lit "false"
  | Int z => jint z
  | Float _ => lit "<float>"
  | Str s => jstr s
  | Bytes b => 123 :: jstr slash ++ 58 :: 123 :: jstr k_bytes ++ 58 :: jstr (b64raw_encode b) ++ [125; 125]
  | Link c => 123 :: jstr slash ++ 58 :: jstr (cid_text c) ++ [125]
  | List l => 91 :: jsep (map jenc l) ++ [93]
  | Map m => 123 :: jsep (map jentry (jsort (map (fun e => (fst e, jenc (snd e))) m))) ++ [125]
  end.

Fixpoint canonj (n : node) : node :=
  match n with
  | List l => List (map canonj l)
  | Map m => Map (jsort (map (fun e => (fst e, canonj (snd e))) m))
  | _ => n
  end.

(* ---------- reference decoder ---------- *)
Section Tails.
  Variable dec1 : str -> option (node * str).
  (* after the first item of a list: (, item)* ] *)
  Fixpoint jlist_tail (k : nat) (r : str) : option (list node * str) :=
    match k with
    | O => None
    | S k' =>
        match r with
        | [] => None
        | c :: r' =>
            if c =? 93 then Some ([], r')
            else if c =? 44 then
              match dec1 r' with
              | Some (x, r1) => match jlist_tail k' r1 with Some (xs, r2) => Some (x :: xs, r2) | None => None end
              | None => None
              end
            else None
        end
    end.
  (* "key":value *)
  Definition jentry_dec (r : str) : option ((str * node) * str) :=
    match r with
    | [] => None
    | q :: r0 =>
        if q =? 34 then
          match junq r0 with
          | Some (k, c :: r1) => if c =? 58 then match dec1 r1 with Some (v, r2) => Some ((k, v), r2) | None => None end else None
          | _ => None
          end
        else None
    end.
  Fixpoint jmap_tail (k : nat) (r : str) : option (list (str * node) * str) :=
    match k with
    | O => None
    | S k' =>
        match r with
        | [] => None
        | c :: r' =>
            if c =? 125 then Some ([], r')
            else if c =? 44 then
              match jentry_dec r' with
              | Some (e, r1) => match jmap_tail k' r1 with Some (es, r2) => Some (e :: es, r2) | None => None end
              | None => None
              end
            else None
        end
    end.
End Tails.

(* the reserved forms *)
Definition special (m : list (str * node)) : option node :=
  match m with
  | [(k, Str t)] => if str_eqb k slash then match cid_parse t with Some c => Some (Link c) | None => None end else Some (Map m)
  | [(k, Map [(k2, Str t)])] =>
      if str_eqb k slash && str_eqb k2 k_bytes then match b64raw_decode t with Ok b => Some (Bytes b) | _ => None end
      else Some (Map m)
  | _ => Some (Map m)
  end.

Definition word (w : str) (v : node) (s : str) : option (node * str) :=
  if has_prefix w s then Some (v, skipn (length w) s) else None.

Fixpoint jdec (fuel : nat) (s : str) : option (node * str) :=
  match fuel with
  | O => None
  | S f =>
      match s with
      | [] => None
      | c :: r =>
          if c =? 110 then word (lit "null") Null s
          else if c =? 116 then word (lit "true") (Bool true) s
          else if c =? 102 then word (lit "false") (Bool false) s
          else if c =? 34 then match junq r with Some (t, r') => Some (Str t, r') | None => None end
          else if c =? 91 then
            match r with
            | [] => None
            | c1 :: r' =>
                if c1 =? 93 then Some (List [], r')
                else match jdec f r with
                     | Some (x, r1) => match jlist_tail (jdec f) (S (length r1)) r1 with
                                       | Some (xs, r2) => Some (List (x :: xs), r2)
                                       | None => None
                                       end
                     | None => None
                     end
            end
          else if c =? 123 then
            match r with
            | [] => None
            | c1 :: r' =>
                if c1 =? 125 then Some (Map [], r')
                else match jentry_dec (jdec f) r with
                     | Some (e, r1) => match jmap_tail (jdec f) (S (length r1)) r1 with
                                       | Some (es, r2) => match special (e :: es) with Some n => Some (n, r2) | None => None end
                                       | None => None
                                       end
                     | None => None
                     end
            end
          else if c =? 45 then
            match span_digits r with
            | ([], _) => None
            | (ds, r') => Some (Int (- Z.of_N (N_of_dec ds)), r')
            end
          else if is_digit c then let '(ds, r') := span_digits s in Some (Int (Z.of_N (N_of_dec ds)), r')
          else None
      end
  end.

Definition jdecode (s : str) : option node :=
  match jdec (S (length s)) s with Some (n, []) => Some n | _ => None end.
