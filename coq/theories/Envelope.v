(* Model of token/internal/envelope/ipld.go: Inspect, FindTag, FromIPLD (the signature check) and ToIPLD. *)
From Coq Require Import String.
Require Import Base Node Cbor Did Generated.
Local Open Scope N_scope.

Definition hdr_key : str := lit "h".
Definition ucan_prefix : str := src_ucan_tag_prefix.

Record info := { in_tag : str; in_sig : str; in_hdr : str; in_sigpayload : node; in_payload : node }.

(* the loop of Inspect over the (at most two) entries of the SigPayload map *)
Fixpoint scan (m : list (str * node)) (i : nat) (hdr : option str) (pl : option (str * node))
  : res (nat * option str * option (str * node)) :=
  match m with
  | [] => Ok (i, hdr, pl)
  | (k, v) :: r =>
      if (2 <=? i)%nat then Err 3
      else if str_eqb k hdr_key then
        match v with Bytes h => scan r (S i) (Some h) pl | _ => Err 4 end
      else if has_prefix ucan_prefix k then scan r (S i) hdr (Some (k, v))
      else Err 5
  end.

(* envelope.Inspect (with the envelope required to be exactly [signature, SigPayload]) *)
Definition inspect (n : node) : res info :=
  match n with
  | List [Bytes sg; Map m] =>
      match scan m 0 None None with
      | Ok (i, Some h, Some (tag, pl)) =>
          if (i =? 2)%nat then Ok {| in_tag := tag; in_sig := sg; in_hdr := h; in_sigpayload := Map m; in_payload := pl |}
          else Err 6
      | Ok _ => Err 6
      | Err e => Err e
      | Panic => Panic
      end
  | _ => Err 1
  end.

(* envelope.FindTag *)
Definition find_tag (n : node) : res str :=
  match n with
  | List (_ :: Map m :: _) =>
      (fix go (m : list (str * node)) (i : nat) : res str :=
         match m with
         | [] => Err 7
         | (k, _) :: r => if (2 <=? i)%nat then Err 3
                          else if has_prefix ucan_prefix k then Ok k else go r (S i)
         end) m 0%nat
  | _ => Err 1
  end.

Section Env.
  (* third-party facts: the signature check under the issuer's key, and the varsig header that go-ucan
     derives from the type of the key extracted from the issuer DID (Err when no key can be extracted) *)
  Variable verify : did -> str -> str -> bool.
  Variable header_of : did -> res str.
  Variable A : Type.
  (* the schema-bound decoding of the payload node (bindnode + tokenFromModel), see Token.v *)
  Variable bind : node -> res A.

  (* envelope.FromIPLD[T] followed by tokenFromModel *)
  Definition env_decode (tag : str) (n : node) : res A :=
    match inspect n with
    | Ok i =>
        if negb (str_eqb (in_tag i) tag) then Err 10
        else match in_payload i with
             | Map pm =>
                 match map_get (lit "iss") pm with
                 | Some (Str iss) =>
                     match did_parse iss with
                     | Ok d =>
                         match header_of d with
                         | Ok h =>
                             if negb (str_eqb (in_hdr i) h) then Err 14
                             else if negb (verify d (encode (in_sigpayload i)) (in_sig i)) then Err 15
                             else bind (in_payload i)
                         | Err e => Err 13
                         | Panic => Panic
                         end
                     | Err e => Err 12
                     | Panic => Panic
                     end
                 | _ => Err 11
                 end
             | _ => Err 11
             end
    | Err e => Err e
    | Panic => Panic
    end.

  (* envelope.ToIPLD: the node that gets encoded when sealing *)
  Variable sign : str -> str.     (* privKey.Sign *)
  Definition env_seal (hdr tag : str) (payload : node) : node :=
    let sp := Map [(hdr_key, Bytes hdr); (tag, payload)] in
    List [Bytes (sign (encode sp)); sp].
End Env.
