(* Model of pkg/args (Args) and pkg/meta (Meta) as containers: an insertion-ordered list of distinct keys with
   their values (Keys + Values in the Go code). Add refuses a key that is already there and, for arguments, a
   value holding an integer beyond +-(2^53-1); Include keeps what is there ("first one wins"); Clone is a copy;
   ToIPLD presents the entries sorted by key; Equals compares values key by key. *)
Require Import Base Node Policy PolicyIpld Token.
Local Open Scope N_scope.

Definition cont := list (str * node).

Definition has_key (k : str) (a : cont) : bool := match map_get k a with Some _ => true | None => false end.

(* Args.Add (check_ints = true) / Meta.Add (false) on a value already turned into a node *)
Definition c_add (check_ints : bool) (a : cont) (k : str) (v : node) : res cont :=
  if has_key k a then Err 1
  else if check_ints && negb (ints_in53 v) then Err 2
  else Ok (a ++ [(k, v)]).

(* Include: entries of [other] in its own order, skipping keys already present *)
Definition c_include (a other : cont) : cont :=
  fold_left (fun acc kv => if has_key (fst kv) acc then acc else acc ++ [kv]) other a.

(* sort.Strings on the keys (bytewise order), entries follow their keys *)
Fixpoint ins_key (e : str * node) (l : cont) : cont :=
  match l with
  | [] => [e]
  | x :: r => if str_ltb (fst e) (fst x) then e :: l else x :: ins_key e r
  end.
Definition c_sorted (a : cont) : cont := fold_right ins_key [] a.
Definition c_to_ipld (a : cont) : node := Map (c_sorted a).

(* Equals: same number of keys, and every key of the first has a deep-equal value in the second *)
Definition c_equals (a b : cont) : bool :=
  (length a =? length b)%nat &&
  forallb (fun kv => match map_get (fst kv) b with Some v => deep_equal_ordered (snd kv) v | None => false end) a.

(* the invocation options that build the arguments, applied in order on an empty container:
   WithArgument = Add (an error aborts New), WithArguments = Include *)
Inductive aopt := OArg (k : str) (v : node) | OArgs (other : cont).
Definition apply_aopt (a : cont) (o : aopt) : res cont :=
  match o with OArg k v => c_add true a k v | OArgs other => Ok (c_include a other) end.
Fixpoint apply_aopts (a : cont) (os : list aopt) : res cont :=
  match os with
  | [] => Ok a
  | o :: r => match apply_aopt a o with Ok a' => apply_aopts a' r | Err e => Err e | Panic => Panic end
  end.
