package main

import (
	"crypto/elliptic"

	"github.com/libp2p/go-libp2p/core/crypto"

	"github.com/ucan-wg/go-ucan/did"
)

type principal struct {
	name string
	priv crypto.PrivKey
	pub  crypto.PubKey
	did  did.DID
	err  error // FromPubKey error, if any
}

// detKeys: one deterministic key pair per generatable algorithm (RSA 2048 to keep runs short).
func detKeys(seed uint64, perAlgo int) []principal {
	rd := detReader{NewRng(seed)}
	type g struct {
		name string
		f    func() (crypto.PrivKey, crypto.PubKey, error)
	}
	gens := []g{
		{"ed25519", func() (crypto.PrivKey, crypto.PubKey, error) { return crypto.GenerateEd25519Key(rd) }},
		{"secp256k1", func() (crypto.PrivKey, crypto.PubKey, error) { return crypto.GenerateSecp256k1Key(rd) }},
		{"p256", func() (crypto.PrivKey, crypto.PubKey, error) {
			return crypto.GenerateECDSAKeyPairWithCurve(elliptic.P256(), rd)
		}},
		{"p384", func() (crypto.PrivKey, crypto.PubKey, error) {
			return crypto.GenerateECDSAKeyPairWithCurve(elliptic.P384(), rd)
		}},
		{"p521", func() (crypto.PrivKey, crypto.PubKey, error) {
			return crypto.GenerateECDSAKeyPairWithCurve(elliptic.P521(), rd)
		}},
		{"rsa", func() (crypto.PrivKey, crypto.PubKey, error) { return crypto.GenerateRSAKeyPair(2048, rd) }},
		// the size did.GenerateRSA uses (its signatures are 384 bytes, not the 256 of a 2048-bit key)
		{"rsa3072", func() (crypto.PrivKey, crypto.PubKey, error) { return crypto.GenerateRSAKeyPair(3072, rd) }},
	}
	var out []principal
	for _, gn := range gens {
		n := perAlgo
		if gn.name == "rsa" || gn.name == "rsa3072" {
			n = 1
		}
		for i := 0; i < n; i++ {
			priv, pub, err := gn.f()
			if err != nil {
				continue
			}
			d, derr := did.FromPubKey(pub)
			out = append(out, principal{gn.name, priv, pub, d, derr})
		}
	}
	return out
}
