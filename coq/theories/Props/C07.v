(* C07 - Seal then unseal is lossless for every token, key algorithm and codec. *)
From Coq Require Import String.
Require Import Base Node Cbor CborProofs Did DidProofs Generated Policy PolicyIpld Envelope Token TokenProofs SealProofs SealedBytes CanonProofs SealBytesProofs Args ArgsProofs DagJson DagJsonProofs JsonSealProofs.
Local Open Scope N_scope.

(* go-ucan's own mapping: token -> payload node -> token is the identity on everything a constructor
   returns ([dlg_constructed] / [inv_constructed] = what validate and the option setters guarantee) *)
Theorem C07_delegation_payload_roundtrip : forall t, dlg_constructed t -> dlg_from_payload (dlg_to_payload t) = Ok t.
Proof. exact dlg_payload_roundtrip. Qed.
Print Assumptions C07_delegation_payload_roundtrip.

Theorem C07_invocation_payload_roundtrip : forall t, inv_constructed t -> inv_from_payload (inv_to_payload t) = Ok t.
Proof. exact inv_payload_roundtrip. Qed.
Print Assumptions C07_invocation_payload_roundtrip.

(* what a constructor returns meets that premise, for DIDs that came out of the DID package and policy
   statements that came out of the policy constructors or decoder *)
Theorem C07_constructor_output_is_sealable : forall iss aud sub cmd pol ng r12 meta nbf exp t,
  dlg_new iss aud sub cmd pol ng r12 meta nbf exp = Ok t ->
  did_ok iss -> did_ok aud -> match sub with Some d => did_ok d | None => True end ->
  Forall wf_stmt pol -> no_null_values meta = true -> dlg_constructed t.
Proof. exact dlg_new_constructed. Qed.
Print Assumptions C07_constructor_output_is_sealable.

Theorem C07_invocation_constructor_output_is_sealable : forall iss sub aud cmd args prf ng r12 meta exp iat cause t,
  inv_new iss sub aud cmd args prf ng r12 meta exp iat cause = Ok t ->
  did_ok iss -> did_ok sub -> match aud with Some d => did_ok d | None => True end ->
  forallb (fun kv => ints_in53 (snd kv)) args = true -> keys_nodup args = true ->
  no_null_values meta = true -> no_null_values args = true -> inv_constructed t.
Proof. exact inv_new_constructed. Qed.
Print Assumptions C07_invocation_constructor_output_is_sealable.
(* ... and the arguments that the options WithArgument / WithArguments leave behind meet its premises *)
Theorem C07_arguments_built_by_options_are_sealable : forall os a a', NoDup (map fst a) -> vals_ok a = true ->
  forallb aopt_ok os = true -> apply_aopts a os = Ok a' -> keys_nodup a' = true /\ vals_ok a' = true.
Proof. exact options_leave_valid_arguments. Qed.
Print Assumptions C07_arguments_built_by_options_are_sealable.
(* through the envelope, for any signature scheme whose signatures verify under the issuer's key *)
Theorem C07_delegation_seal_unseal : forall verify header_of sign t hdr,
  dlg_constructed t -> header_of (dk_iss t) = Ok hdr -> (forall m, verify (dk_iss t) m (sign m) = true) ->
  env_decode verify header_of dtok dlg_from_payload dlg_tag (env_seal sign hdr dlg_tag (dlg_to_payload t)) = Ok t.
Proof. exact dlg_seal_unseal. Qed.
Print Assumptions C07_delegation_seal_unseal.

Theorem C07_invocation_seal_unseal : forall verify header_of sign t hdr,
  inv_constructed t -> header_of (ik_iss t) = Ok hdr -> (forall m, verify (ik_iss t) m (sign m) = true) ->
  env_decode verify header_of itok inv_from_payload inv_tag (env_seal sign hdr inv_tag (inv_to_payload t)) = Ok t.
Proof. exact inv_seal_unseal. Qed.
Print Assumptions C07_invocation_seal_unseal.

(* down to the bytes: what ToSealed writes (the DAG-CBOR encoding of the signed envelope), FromSealed
   (decode, canonical-form check, envelope, payload) reads back as the same token, its maps (meta,
   arguments, map literals in policies) in canonical key order - the order Go's own maps do not have.
   Premises: lengths fit 64 bits (wf), no map repeats a key (keys_distinct), the decoder's depth budget. *)
Theorem C07_delegation_seal_bytes_unseal : forall verify header_of sign t hdr f,
  dlg_constructed t -> header_of (dk_iss t) = Ok hdr -> (forall m, verify (dk_iss t) m (sign m) = true) ->
  wf (env_seal sign hdr dlg_tag (dlg_to_payload t)) -> keys_distinct (env_seal sign hdr dlg_tag (dlg_to_payload t)) ->
  (depth (env_seal sign hdr dlg_tag (dlg_to_payload t)) <= f)%nat ->
  from_sealed verify header_of dtok dlg_from_payload dlg_tag f (to_sealed sign hdr dlg_tag (dlg_to_payload t)) = Ok (canon_dtok t).
Proof. exact dlg_seal_bytes_unseal. Qed.
Print Assumptions C07_delegation_seal_bytes_unseal.
Theorem C07_invocation_seal_bytes_unseal : forall verify header_of sign t hdr f,
  inv_constructed t -> header_of (ik_iss t) = Ok hdr -> (forall m, verify (ik_iss t) m (sign m) = true) ->
  wf (env_seal sign hdr inv_tag (inv_to_payload t)) -> keys_distinct (env_seal sign hdr inv_tag (inv_to_payload t)) ->
  (depth (env_seal sign hdr inv_tag (inv_to_payload t)) <= f)%nat ->
  from_sealed verify header_of itok inv_from_payload inv_tag f (to_sealed sign hdr inv_tag (inv_to_payload t)) = Ok (canon_itok t).
Proof. exact inv_seal_bytes_unseal. Qed.
Print Assumptions C07_invocation_seal_bytes_unseal.
(* the DAG-CBOR layer on its own: decoding the encoding gives the node back, maps in canonical order *)
Theorem C07_codec_roundtrip : forall x, wf x -> forall f r, (depth x <= f)%nat -> dec f (encode x ++ r) = Some (canon x, r).
Proof. exact dec_encode. Qed.
Print Assumptions C07_codec_roundtrip.
(* the payload decoders do not see the order of map entries *)
Theorem C07_delegation_decoder_ignores_map_order : forall m, NoDup (map fst m) ->
  dlg_from_payload (canon (Map m)) = rmap canon_dtok (dlg_from_payload (Map m)).
Proof. exact dlg_from_payload_canon. Qed.
Print Assumptions C07_delegation_decoder_ignores_map_order.
Theorem C07_invocation_decoder_ignores_map_order : forall m, NoDup (map fst m) ->
  inv_from_payload (canon (Map m)) = rmap canon_itok (inv_from_payload (Map m)).
Proof. exact inv_from_payload_canon. Qed.
Print Assumptions C07_invocation_decoder_ignores_map_order.
(* every key algorithm the DID package generates is accepted by the DID parser and has an unmarshaller *)
Theorem C07_every_generatable_algorithm_is_decodable :
  forallb (fun c => mem c parse_codes && mem c unmarshal_codes && (c <? 2 ^ 63)) emit_codes = true.
Proof. exact emitted_codes_are_parsed_and_unmarshalled. Qed.
Print Assumptions C07_every_generatable_algorithm_is_decodable.

Theorem C07_generic_and_typed_agree_dlg : forall verify header_of n t,
  env_decode verify header_of dtok dlg_from_payload dlg_tag n = Ok t -> generic_decode verify header_of n = Ok (ADlg t).
Proof. exact generic_typed_agree_dlg. Qed.
Print Assumptions C07_generic_and_typed_agree_dlg.

Theorem C07_generic_and_typed_agree_inv : forall verify header_of n t,
  env_decode verify header_of itok inv_from_payload inv_tag n = Ok t -> generic_decode verify header_of n = Ok (AInv t).
Proof. exact generic_typed_agree_inv. Qed.
Print Assumptions C07_generic_and_typed_agree_inv.

(* ---- DAG-JSON (the codec of go-ipld-prime as go-ucan uses it, DagJson.v; compared byte for byte with the
   library in the cbor engine). The codec is lossless exactly on [jsafe] values: no floats (not modelled; F16),
   strings and keys that are valid UTF-8, no map key "/", bytes below 256. What is written reads back as the same
   value with its maps in key order - for every such value, any nesting, any size. ---- *)
Theorem C07_dagjson_codec_roundtrip : forall x f, jsafe x -> (jdepth x <= f)%nat -> jdec f (jenc x) = Some (canonj x, []).
Proof. exact dagjson_roundtrip. Qed.
Print Assumptions C07_dagjson_codec_roundtrip.

Theorem C07_dagjson_text_determines_value : forall x y r1 r2, jsafe x -> jsafe y -> no_digit_head r1 -> no_digit_head r2 ->
  jenc x ++ r1 = jenc y ++ r2 -> canonj x = canonj y /\ r1 = r2.
Proof. exact jenc_injective. Qed.
Print Assumptions C07_dagjson_text_determines_value.

(* outside that domain the full statement is false of the faithful model: these witnesses, replayed on the
   implementation, are finding F28 (and the reserved key of the DAG-JSON specification) *)
Theorem C07_dagjson_roundtrip_refuted_on_invalid_utf8 : exists x y, jdec 1 (jenc x) = Some (y, []) /\ y <> canonj x.
Proof. exact json_not_lossless_on_invalid_utf8. Qed.
Print Assumptions C07_dagjson_roundtrip_refuted_on_invalid_utf8.

Theorem C07_dagjson_roundtrip_refuted_on_reserved_key : exists x y, jdec 2 (jenc x) = Some (y, []) /\ y <> canonj x.
Proof. exact json_reserves_the_slash_key. Qed.
Print Assumptions C07_dagjson_roundtrip_refuted_on_reserved_key.

(* ---- seal -> DAG-JSON text -> unseal, down to the characters: the envelope a token is sealed into, written by
   the JSON encoder and read back by the reference decoder, passes the envelope checks (the signature is verified
   over the DAG-CBOR re-encoding of what was read, which does not see that JSON lists keys in another order) and
   yields a token that agrees with the sealed one on every field, maps compared up to the order of their entries.
   Premises: the sealed value is inside the codec's lossless domain ([jsafe]: no floats, UTF-8 text, no key "/"),
   no map repeats a key, decoder depth budget, and the signature scheme verifies what it signed. ---- *)
Theorem C07_delegation_seal_json_unseal : forall verify header_of sign t hdr f,
  dlg_constructed t -> header_of (dk_iss t) = Ok hdr -> (forall m, verify (dk_iss t) m (sign m) = true) ->
  jsafe (env_seal sign hdr dlg_tag (dlg_to_payload t)) -> keys_distinct (env_seal sign hdr dlg_tag (dlg_to_payload t)) ->
  (jdepth (env_seal sign hdr dlg_tag (dlg_to_payload t)) <= f)%nat ->
  exists t', from_json verify header_of dtok dlg_from_payload dlg_tag f (to_json sign hdr dlg_tag (dlg_to_payload t)) = Ok t'
             /\ canon_dtok t' = canon_dtok t.
Proof. exact dlg_seal_json_unseal. Qed.
Print Assumptions C07_delegation_seal_json_unseal.

Theorem C07_invocation_seal_json_unseal : forall verify header_of sign t hdr f,
  inv_constructed t -> header_of (ik_iss t) = Ok hdr -> (forall m, verify (ik_iss t) m (sign m) = true) ->
  jsafe (env_seal sign hdr inv_tag (inv_to_payload t)) -> keys_distinct (env_seal sign hdr inv_tag (inv_to_payload t)) ->
  (jdepth (env_seal sign hdr inv_tag (inv_to_payload t)) <= f)%nat ->
  exists t', from_json verify header_of itok inv_from_payload inv_tag f (to_json sign hdr inv_tag (inv_to_payload t)) = Ok t'
             /\ canon_itok t' = canon_itok t.
Proof. exact inv_seal_json_unseal. Qed.
Print Assumptions C07_invocation_seal_json_unseal.

(* the DAG-CBOR bytes of a value do not depend on the order JSON gave its maps *)
Theorem C07_cbor_bytes_ignore_json_order : forall x, keys_distinct x -> encode (canonj x) = encode x.
Proof. exact encode_canonj. Qed.
Print Assumptions C07_cbor_bytes_ignore_json_order.
