(* Generic positional radix conversion with leading-zero preservation (base58btc = conv 256 58). *)
Require Import Base.
From Coq Require Import ZifyBool ZifyNat ZifyN.
Local Open Scope N_scope.
Ltac Zify.zify_post_hook ::= Z.div_mod_to_equations.

Definition val (r : N) (l : list N) : N := fold_left (fun a d => a * r + d) l 0.

Fixpoint digits_fuel (fuel : nat) (r n : N) (acc : list N) : list N :=
  match fuel with
  | O => acc
  | S f => if n =? 0 then acc else let '(q, m) := N.div_eucl n r in digits_fuel f r q (m :: acc)   (* one division for quotient and remainder *)
  end.
Definition digits (r n : N) : list N := digits_fuel (N.to_nat (N.size n)) r n [].

Lemma digits_fuel_S f r n acc :
  digits_fuel (S f) r n acc = if n =? 0 then acc else digits_fuel f r (n / r) (n mod r :: acc).
Proof. cbn [digits_fuel]. unfold N.div, N.modulo. destruct (N.div_eucl n r). reflexivity. Qed.
Lemma digits_fuel_O r n acc : digits_fuel O r n acc = acc.
Proof. reflexivity. Qed.

Fixpoint lz (l : list N) : nat := match l with 0 :: l' => S (lz l') | _ => 0%nat end.
Definition strip (l : list N) : list N := skipn (lz l) l.
Definition conv (rin rout : N) (l : list N) : list N :=
  repeat 0 (lz l) ++ digits rout (val rin (strip l)).

Definition b58_encode_digits := conv 256 58.   (* bytes -> base58 digit values *)
Definition b58_decode_digits := conv 58 256.

(* ---- val ---- *)
Lemma fold_val_acc r l : forall a, fold_left (fun x d => x * r + d) l a = a * r ^ N.of_nat (length l) + val r l.
Proof.
  unfold val. induction l as [|d l IH]; intros a; cbn [fold_left length].
  - cbn. lia.
  - rewrite IH, (IH (0 * r + d)), Nat2N.inj_succ, N.pow_succ_r'. lia.
Qed.
Lemma val_cons r d l : val r (d :: l) = d * r ^ N.of_nat (length l) + val r l.
Proof. unfold val at 1. cbn [fold_left]. rewrite fold_val_acc. lia. Qed.
Lemma val_snoc r a d : val r (a ++ [d]) = val r a * r + d.
Proof. unfold val. rewrite fold_left_app. reflexivity. Qed.

Definition nlz (l : list N) : Prop := match l with 0 :: _ => False | _ => True end.

Lemma val_pos r l : 1 <= r -> nlz l -> l <> [] -> 0 < val r l.
Proof.
  intros Hr Hn Hl. destruct l as [|d l]; [congruence|]. rewrite val_cons.
  assert (0 < r ^ N.of_nat (length l)) by (apply N.neq_0_lt_0, N.pow_nonzero; lia).
  destruct d; [contradiction|]. nia.
Qed.

(* ---- digits: value ---- *)
Lemma div_lt_pow2 r n f : 2 <= r -> n < 2 ^ N.of_nat (S f) -> n / r < 2 ^ N.of_nat f.
Proof.
  intros Hr Hn. rewrite Nat2N.inj_succ, N.pow_succ_r' in Hn.
  apply N.div_lt_upper_bound; [lia|]. nia.
Qed.

Lemma digits_fuel_val r : 2 <= r -> forall fuel n acc, n < 2 ^ N.of_nat fuel ->
  val r (digits_fuel fuel r n acc) = n * r ^ N.of_nat (length acc) + val r acc.
Proof.
  intros Hr. induction fuel as [|f IH]; intros n acc Hn; rewrite ?digits_fuel_S, ?digits_fuel_O.
  - cbn in Hn. assert (n = 0) by lia. subst. lia.
  - destruct (N.eqb_spec n 0) as [->|Hn0]; [lia|].
    rewrite IH by (apply div_lt_pow2; assumption).
    rewrite val_cons. cbn [length]. rewrite Nat2N.inj_succ, N.pow_succ_r'.
    pose proof (N.div_mod n r ltac:(lia)) as E. set (q := n / r) in *. set (m := n mod r) in *.
    set (P := r ^ N.of_nat (length acc)). rewrite E. ring.
Qed.

Lemma val_digits r n : 2 <= r -> val r (digits r n) = n.
Proof.
  intros Hr. unfold digits. rewrite digits_fuel_val; [cbn; lia | exact Hr |].
  rewrite N2Nat.id. apply N.size_gt.
Qed.

(* ---- digits: shape ---- *)
Lemma digits_fuel_shape r : 2 <= r -> forall fuel n acc, n < 2 ^ N.of_nat fuel ->
  exists pre, digits_fuel fuel r n acc = pre ++ acc /\ Forall (fun d => d < r) pre /\
              (n = 0 -> pre = []) /\ (n <> 0 -> pre <> [] /\ nlz pre).
Proof.
  intros Hr. induction fuel as [|f IH]; intros n acc Hn; rewrite ?digits_fuel_S, ?digits_fuel_O.
  - cbn in Hn. exists []. repeat split; auto; lia.
  - destruct (N.eqb_spec n 0) as [->|Hn0].
    + exists []. repeat split; auto; congruence.
    + destruct (IH (n / r) (n mod r :: acc) (div_lt_pow2 r n f Hr Hn)) as (pre & E & Hall & Hz & Hnz).
      exists (pre ++ [n mod r]). rewrite E, <- app_assoc. split; [reflexivity|]. split.
      { apply Forall_app; split; [exact Hall|]. constructor; [|constructor]. apply N.mod_lt. lia. }
      split; [congruence|]. intros _. split; [destruct pre; discriminate|].
      destruct (N.eq_dec (n / r) 0) as [Hq|Hq].
      * rewrite (Hz Hq). cbn. assert (n mod r = n) by (pose proof (N.div_mod n r ltac:(lia)); nia).
        destruct (n mod r) eqn:Em; [lia|exact I].
      * destruct (Hnz Hq) as [Hne Hl]. destruct pre as [|d pre]; [congruence|]. exact Hl.
Qed.

Lemma digits_shape r n : 2 <= r -> Forall (fun d => d < r) (digits r n) /\ nlz (digits r n).
Proof.
  intros Hr. unfold digits.
  destruct (digits_fuel_shape r Hr (N.to_nat (N.size n)) n []) as (pre & E & Hall & Hz & Hnz).
  { rewrite N2Nat.id. apply N.size_gt. }
  rewrite E, app_nil_r. split; [exact Hall|].
  destruct (N.eq_dec n 0) as [H0|H0]; [rewrite (Hz H0); exact I | apply Hnz; exact H0].
Qed.

(* ---- digits: uniqueness ---- *)
Lemma digits_fuel_val_inv r : 2 <= r -> forall l, Forall (fun d => d < r) l -> nlz l ->
  forall fuel acc, val r l < 2 ^ N.of_nat fuel -> digits_fuel fuel r (val r l) acc = l ++ acc.
Proof.
  intros Hr. induction l as [|d l IH] using rev_ind; intros Hall Hn fuel acc Hf.
  - cbn. destruct fuel; reflexivity.
  - apply Forall_app in Hall as [Hall Hd]. inversion Hd as [|? ? Hdr _]; subst.
    rewrite val_snoc in *.
    assert (Hnl : nlz l) by (destruct l as [|x l]; [exact I| exact Hn]).
    assert (Hpos : 0 < val r l * r + d).
    { destruct l as [|x l]; [cbn in *; destruct d; [contradiction|lia]|].
      pose proof (val_pos r (x :: l) ltac:(lia) Hnl ltac:(discriminate)). nia. }
    destruct fuel as [|f]; [cbn in Hf; lia|]. rewrite digits_fuel_S.
    destruct (N.eqb_spec (val r l * r + d) 0); [lia|].
    replace ((val r l * r + d) / r) with (val r l) by (apply N.div_unique with d; lia).
    replace ((val r l * r + d) mod r) with d by (apply N.mod_unique with (val r l); lia).
    rewrite IH, <- app_assoc; [reflexivity | exact Hall | exact Hnl |].
    rewrite Nat2N.inj_succ, N.pow_succ_r' in Hf. nia.
Qed.

Lemma digits_val r l : 2 <= r -> Forall (fun d => d < r) l -> nlz l -> digits r (val r l) = l.
Proof.
  intros Hr Hall Hn. unfold digits. rewrite digits_fuel_val_inv, app_nil_r; auto.
  rewrite N2Nat.id. apply N.size_gt.
Qed.

(* ---- leading zeros ---- *)
Lemma lz_split l : l = repeat 0 (lz l) ++ strip l /\ nlz (strip l).
Proof.
  unfold strip. induction l as [|d l [IH1 IH2]]; cbn [lz]; [cbn; auto|].
  destruct d; cbn [skipn repeat app]; [|cbn; auto]. split; [f_equal; exact IH1 | exact IH2].
Qed.
Lemma lz_zeros_nlz z m : nlz m -> lz (repeat 0 z ++ m) = z /\ strip (repeat 0 z ++ m) = m.
Proof.
  intros Hm. unfold strip. induction z as [|z [IH1 IH2]]; cbn [repeat app lz].
  - destruct m as [|d m]; [cbn; auto|]. destruct d; [contradiction|cbn; auto].
  - cbn [skipn]. split; [f_equal; exact IH1 | exact IH2].
Qed.
Lemma Forall_strip (P : N -> Prop) l : Forall P l -> Forall P (strip l).
Proof.
  unfold strip. revert l. induction l as [|d l IH]; intros H; cbn [lz]; [cbn; auto|].
  destruct d; [|cbn; exact H]. cbn [skipn]. apply IH. inversion H; assumption.
Qed.

Theorem conv_roundtrip r1 r2 l : 2 <= r1 -> 2 <= r2 -> Forall (fun d => d < r1) l ->
  conv r2 r1 (conv r1 r2 l) = l.
Proof.
  intros H1 H2 Hall. unfold conv at 2.
  destruct (lz_split l) as [El Hm]. set (z := lz l) in *. set (m := strip l) in *.
  destruct (digits_shape r2 (val r1 m) H2) as [_ Hn'].
  destruct (lz_zeros_nlz z (digits r2 (val r1 m)) Hn') as [Ez Es].
  unfold conv. rewrite Ez, Es, val_digits by exact H2.
  rewrite digits_val; [symmetry; exact El | exact H1 | apply Forall_strip; exact Hall | exact Hm].
Qed.

Corollary b58_roundtrip bs : Forall (fun b => b < 256) bs -> b58_decode_digits (b58_encode_digits bs) = bs.
Proof. apply conv_roundtrip; lia. Qed.
Corollary b58_roundtrip' ds : Forall (fun d => d < 58) ds -> b58_encode_digits (b58_decode_digits ds) = ds.
Proof. apply conv_roundtrip; lia. Qed.

Lemma Forall_repeat {A} (P : A -> Prop) x n : P x -> Forall P (repeat x n).
Proof. intros H. induction n; cbn; constructor; auto. Qed.

Lemma conv_digits_lt r1 r2 l : 2 <= r2 -> Forall (fun d => d < r2) (conv r1 r2 l).
Proof.
  intros H. unfold conv. apply Forall_app. split.
  - apply Forall_repeat. lia.
  - apply digits_shape. exact H.
Qed.
