(* DAG-CBOR: the encoder of go-ipld-prime's dagcbor codec (definite lengths, shortest heads, maps sorted
   by key length then bytewise, 64-bit floats, tag 42 links) and a reference decoder for exactly the
   canonical encodings, used to prove that the encoder is injective and prefix-free. *)
Require Import Base Node.
Local Open Scope N_scope.

Definition nlen {A} (l : list A) : N := N.of_nat (length l).

(* big endian *)
Fixpoint be_bytes (k:nat) (n:N) : str :=
  match k with O => [] | S k' => be_bytes k' (n / 256) ++ [n mod 256] end.
Definition be_val (l:str) : N := fold_left (fun acc b => acc*256 + b) l 0.

Definition head (mj n : N) : str :=
  if n <? 24 then [mj*32 + n]
  else if n <? 256 then [mj*32+24; n]
  else if n <? 65536 then (mj*32+25) :: be_bytes 2 n
  else if n <? 4294967296 then (mj*32+26) :: be_bytes 4 n
  else (mj*32+27) :: be_bytes 8 n.

(* RFC 7049 canonical key order: shorter first, then bytewise *)
Fixpoint lex_ltb (a b : str) : bool :=
  match a, b with
  | [], [] => false | [], _ => true | _, [] => false
  | x::a', y::b' => if x <? y then true else if y <? x then false else lex_ltb a' b'
  end.
Definition key_ltb (a b : str) : bool :=
  if (length a <? length b)%nat then true else if (length b <? length a)%nat then false else lex_ltb a b.

Section Sort.
  Context {V : Type}.
  Fixpoint insert (e : str * V) (l : list (str * V)) : list (str * V) :=
    match l with
    | [] => [e]
    | e' :: l' => if key_ltb (fst e) (fst e') then e :: l else e' :: insert e l'
    end.
  Fixpoint sortk (l : list (str * V)) : list (str * V) :=
    match l with [] => [] | e :: l' => insert e (sortk l') end.
End Sort.

Definition enc_entry (e : str * str) : str := head 3 (nlen (fst e)) ++ fst e ++ snd e.

Fixpoint encode (x:node) : str :=
  match x with
  | Null => [246]
  | Bool true => [245]
  | Bool false => [244]
  | Int z => if (0 <=? z)%Z then head 0 (Z.to_N z) else head 1 (Z.to_N (-1 - z))
  | Float bits => 251 :: be_bytes 8 bits
  | Str s => head 3 (nlen s) ++ s
  | Bytes b => head 2 (nlen b) ++ b
  | List l => head 4 (nlen l) ++ concat (map encode l)
  | Map m => head 5 (nlen m) ++ concat (map enc_entry (sortk (map (fun e => (fst e, encode (snd e))) m)))
  | Link c => [216; 42] ++ head 2 (1 + nlen c) ++ 0 :: c
  end.

Fixpoint canon (x:node) : node :=
  match x with
  | List l => List (map canon l)
  | Map m => Map (sortk (map (fun e => (fst e, canon (snd e))) m))
  | _ => x
  end.

(* ---------- decoder ---------- *)
Definition take (n : N) (l : str) : option (str * str) :=
  if n <=? nlen l then Some (firstn (N.to_nat n) l, skipn (N.to_nat n) l) else None.

Definition dec_head (bs : str) : option (N * N * str) :=
  match bs with
  | [] => None
  | b :: r =>
    let mj := b / 32 in let ai := b mod 32 in
    if ai <? 24 then Some (mj, ai, r)
    else if ai =? 24 then match take 1 r with Some (v, r') => Some (mj, be_val v, r') | None => None end
    else if ai =? 25 then match take 2 r with Some (v, r') => Some (mj, be_val v, r') | None => None end
    else if ai =? 26 then match take 4 r with Some (v, r') => Some (mj, be_val v, r') | None => None end
    else if ai =? 27 then match take 8 r with Some (v, r') => Some (mj, be_val v, r') | None => None end
    else None
  end.

Section Items.
  Variable dec1 : str -> option (node * str).
  Fixpoint dec_items (k : nat) (r : str) : option (list node * str) :=
    match k with
    | O => Some ([], r)
    | S k' => match dec1 r with
              | Some (x, r') => match dec_items k' r' with Some (xs, r'') => Some (x :: xs, r'') | None => None end
              | None => None end
    end.
  Fixpoint dec_entries (k : nat) (r : str) : option (list (str * node) * str) :=
    match k with
    | O => Some ([], r)
    | S k' =>
      match dec_head r with
      | Some (mj, n, r1) =>
        if mj =? 3 then
        match take n r1 with
        | Some (key, r2) =>
          match dec1 r2 with
          | Some (v, r3) => match dec_entries k' r3 with Some (es, r4) => Some ((key, v) :: es, r4) | None => None end
          | None => None end
        | None => None end
        else None
      | None => None end
    end.
End Items.

Fixpoint dec (fuel : nat) (bs : str) : option (node * str) :=
  match fuel with
  | O => None
  | S f =>
    match bs with
    | [] => None
    | b :: r0 =>
      if b =? 246 then Some (Null, r0)
      else if b =? 245 then Some (Bool true, r0)
      else if b =? 244 then Some (Bool false, r0)
      else if b =? 251 then match take 8 r0 with Some (v, r') => Some (Float (be_val v), r') | None => None end
      else if b =? 216 then
        match r0 with
        | t :: r =>
          if t =? 42 then
            match dec_head r with
            | Some (mj, n, r1) =>
              if mj =? 2 then
                match take n r1 with
                | Some (z :: c, r2) => if z =? 0 then Some (Link c, r2) else None
                | _ => None end
              else None
            | None => None end
          else None
        | [] => None end
      else
      match dec_head bs with
      | Some (mj, n, r) =>
        if mj =? 0 then Some (Int (Z.of_N n), r)
        else if mj =? 1 then Some (Int (-1 - Z.of_N n), r)
        else if mj =? 2 then match take n r with Some (b, r') => Some (Bytes b, r') | None => None end
        else if mj =? 3 then match take n r with Some (s, r') => Some (Str s, r') | None => None end
        else if mj =? 4 then
          if n <=? nlen r then
            match dec_items (dec f) (N.to_nat n) r with Some (l, r') => Some (List l, r') | None => None end
          else None
        else if mj =? 5 then
          if n <=? nlen r then
            match dec_entries (dec f) (N.to_nat n) r with Some (m, r') => Some (Map m, r') | None => None end
          else None
        else None
      | None => None
      end
    end
  end.
