package main

import (
	"bytes"
	"strings"

	"github.com/ipld/go-ipld-prime"
	"github.com/ipld/go-ipld-prime/codec/dagjson"
	"github.com/ipld/go-ipld-prime/datamodel"
	"github.com/ipld/go-ipld-prime/node/basicnode"

	"github.com/ucan-wg/go-ucan/pkg/policy"
	"github.com/ucan-wg/go-ucan/pkg/policy/selector"
)

func init() {
	register(&Engine{Name: "selparse", Gen: genSelParse})
	register(&Engine{Name: "policyipld", Gen: genPolicyIpld})
}

func selParseObs(text string) (obs W) {
	defer func() {
		if r := recover(); r != nil {
			obs = WPanic()
		}
	}()
	sel, err := selector.Parse(text)
	if err != nil {
		return WErr()
	}
	printed := sel.String()
	same := false
	if again, err2 := selector.Parse(printed); err2 == nil {
		same = segsW(again) == segsW(sel)
	}
	return WList(WStr("ok"), segsW(sel), WStr(printed), WBool(same))
}

func genSelParse(c *Ctx) {
	maxLen := 5
	if c.Thorough() {
		maxLen = 7
	}
	allStrings(".[]\"?\\:-0a", maxLen, func(s string) {
		t := "." + s
		c.Emit("selparse/exh", WStr(t), selParseObs(t))
	})
	for _, t := range []string{"", "a", "[0]", ".", ".?", "..", ".foo", `.foo["`, `."`, `.?.foo`, `.[""]`, `.["]`, `.["a:b"]`, `.foo??`, `.[1:2:3]`,
		`.[9007199254740991]`, `.[9007199254740992]`, `.[-9007199254740992:]`, `.[99999999999999999999]`, `.[:99999999999999999999]`, `.[1:-]`, `.[-:1]`, `.[-]`, `.[:]`,
		`.a-b`, `.a$b`, `._x`, `.9a`, `.$a`, `.["a\"b"]`, `.["a\\"]`, `.a["b"].c[0][1:][]?`, `.a .b`, `.a[ 0 ]`, `.[+1]`, `.[007]`, `.[-0]`, `.[0x1]`} {
		c.Emit("selparse/corpus", WStr(t), selParseObs(t))
	}
	// characters that mean something outside quotes, inside a quoted name (and repeated, and next to the same character outside)
	for _, in := range []string{"?", "??", "???", "a??", "??b", "a??b", ".", "..", "a.b", "[", "]", "[0]", "[]", ":", "1:2", "a]?", "?]", `"`, `""`, `a"`, `"a`, "??:", " ", "a  b"} {
		for _, t := range []string{`.["` + in + `"]`, `.["` + in + `"]?`, `.["` + in + `"]??`, `.a["` + in + `"].b`, `.["` + in + `"]["` + in + `"]`, `.["x"]?["` + in + `"]`} {
			c.Emit("selparse/quoted", WStr(t), selParseObs(t))
		}
	}
	// spellings of numbers in indexes and slice bounds: leading zeros, signs, base prefixes, digit separators
	for _, f := range []string{"010", "08", "09", "007", "-011", "-08", "0x10", "0X1f", "0b11", "0o7", "0_7", "1_0", "+5", "+0", "00", "-0", "-00", "1e2", " 1", "1 ", "٣", "１", "0.0", "1.", "--1", "+-1"} {
		for _, t := range []string{".[" + f + "]", ".[" + f + ":]", ".[:" + f + "]", ".[" + f + ":" + f + "]", ".[1:" + f + "]?", ".a[" + f + ":2]", ".[" + f + "]?"} {
			c.Emit("selparse/numerals", WStr(t), selParseObs(t))
		}
	}
	n := 20000
	if c.Thorough() {
		n = 1500000
	}
	segs := []string{".a", ".foo", ".a?", `["b c"]`, `["x"]?`, "[0]", "[-12]", "[3]?", "[]", "[]?", "[1:]", "[:-1]", "[0:2]?", "[-2:9]", ".", ".?", `["q\"r"]`, ".a-b_c$", "[9007199254740991]", "[12345678901234567890]"}
	for i := 0; i < n; i++ {
		k := 1 + c.R.Intn(5)
		var sb strings.Builder
		for j := 0; j < k; j++ {
			sb.WriteString(segs[c.R.Intn(len(segs))])
		}
		t := sb.String()
		if !strings.HasPrefix(t, ".") {
			t = "." + t
		}
		// mutate: delete / insert / replace a character
		if c.R.Chance(60) && len(t) > 0 {
			b := []byte(t)
			pos := c.R.Intn(len(b))
			alpha := ".[]\"?\\:-0a9 "
			switch c.R.Intn(3) {
			case 0:
				b = append(b[:pos], b[pos+1:]...)
			case 1:
				b = append(b[:pos], append([]byte{alpha[c.R.Intn(len(alpha))]}, b[pos:]...)...)
			case 2:
				b[pos] = alpha[c.R.Intn(len(alpha))]
			}
			t = string(b)
		}
		c.Emit("selparse/rnd", WStr(t), selParseObs(t))
	}
}

func policyIpldObs(n datamodel.Node) (obs W) {
	defer func() {
		if r := recover(); r != nil {
			obs = WPanic()
		}
	}()
	pol, err := policy.FromIPLD(n)
	if err != nil {
		return WErr()
	}
	back, err := pol.ToIPLD()
	if err != nil {
		return WErr()
	}
	agree := true
	var buf bytes.Buffer
	if err := dagjson.Encode(n, &buf); err == nil {
		// only when the text decodes back to the same node (floats with integral values do not, a
		// property of the codec, not of the policy reader)
		if n2, err := ipld.Decode(buf.Bytes(), dagjson.Decode); err == nil && datamodel.DeepEqual(n, n2) {
			p2, err2 := policy.FromDagJson(buf.String())
			if err2 != nil {
				agree = false
			} else {
				b2, _ := p2.ToIPLD()
				agree = datamodel.DeepEqual(back, b2)
			}
		}
	}
	return WList(WStr("ok"), WNode(back), WBool(agree))
}

func genPolicyIpld(c *Ctx) {
	ops := []string{"==", "<", "<=", ">", ">=", "not", "and", "or", "like", "all", "any", "xor", "=", ""}
	sels := []string{".", ".a", ".a?", ".a[0]", `.["b"]`, ".[]", ".[1:]", ".?", ".a.", "a", "..", `.foo["`, ".[0", ""}
	var gen func(depth int) datamodel.Node
	scalar := func() datamodel.Node {
		switch c.R.Intn(8) {
		case 0:
			return basicnode.NewInt(int64(c.R.Intn(20)) - 5)
		case 1:
			return basicnode.NewString(c.R.Pick([]string{"a*", "abc", "", `a\`, `\*`, "like", "a**b", "***", `\**`, `*\**`, "/blog/**/draft"}))
		case 2:
			return basicnode.NewBool(c.R.Bool())
		case 3:
			return datamodel.Null
		case 4:
			return basicnode.NewFloat(float64(c.R.Intn(7)) + 0.5)
		case 5:
			return basicnode.NewBytes(c.R.Bytes(c.R.Intn(4)))
		case 6:
			return basicnode.NewInt([]int64{9007199254740991, 9007199254740992, -9007199254740991, -9007199254740992, 1 << 62}[c.R.Intn(5)])
		default:
			return J(c.R.Pick([]string{`[1,2]`, `{"a":1}`, `[]`, `{}`, `[9007199254740992]`, `{"k":{"z":-9007199254740992}}`}))
		}
	}
	list := func(items ...datamodel.Node) datamodel.Node {
		nb := basicnode.Prototype.List.NewBuilder()
		la, _ := nb.BeginList(int64(len(items)))
		for _, it := range items {
			la.AssembleValue().AssignNode(it)
		}
		la.Finish()
		return nb.Build()
	}
	str := func(s string) datamodel.Node { return basicnode.NewString(s) }
	gen = func(depth int) datamodel.Node {
		op := ops[c.R.Intn(len(ops))]
		if c.R.Chance(75) {
			op = ops[c.R.Intn(11)]
		}
		var stmt datamodel.Node
		sub := func() datamodel.Node {
			if depth <= 0 {
				return list(str("=="), str(".a"), scalar())
			}
			return gen(depth - 1)
		}
		switch op {
		case "not":
			stmt = list(str(op), sub())
		case "and", "or":
			k := c.R.Intn(3)
			items := make([]datamodel.Node, k)
			for i := range items {
				items[i] = sub()
			}
			stmt = list(str(op), list(items...))
		case "all", "any":
			stmt = list(str(op), str(c.R.Pick(sels[:8])), sub())
		case "like":
			stmt = list(str(op), str(c.R.Pick(sels[:8])), str(c.R.Pick([]string{"a*", "*", `a\*`, `a\`, "", "abc", "**", "a**b", "***a", `\**`, `*\**`, `a\\**`, "/blog/**/draft", "é*", "*é"})))
		default:
			stmt = list(str(op), str(c.R.Pick(sels[:8])), scalar())
		}
		// shape violations
		if c.R.Chance(12) {
			switch c.R.Intn(7) {
			case 0:
				stmt = list(str(op))
			case 1:
				stmt = list(str(op), str(".a"), scalar(), scalar())
			case 2:
				stmt = list(basicnode.NewInt(1), str(".a"), scalar())
			case 3:
				stmt = list(str(op), basicnode.NewInt(3), scalar())
			case 4:
				stmt = list(str(op), str(c.R.Pick(sels)), scalar())
			case 5:
				stmt = scalar()
			case 6:
				stmt = list(str(c.R.Pick([]string{"and", "or", "not"})), scalar())
			}
		}
		// arity violations of an otherwise well-formed statement: one element too many / too few
		if c.R.Chance(10) {
			var items []datamodel.Node
			it := stmt.ListIterator()
			for it != nil && !it.Done() {
				_, v, _ := it.Next()
				items = append(items, v)
			}
			if len(items) > 0 {
				if c.R.Bool() {
					items = append(items, sub())
				} else {
					items = items[:len(items)-1]
				}
				stmt = list(items...)
			}
		}
		return stmt
	}
	n := 20000
	if c.Thorough() {
		n = 1000000
	}
	for i := 0; i < n; i++ {
		k := c.R.Intn(4)
		items := make([]datamodel.Node, k)
		for j := range items {
			items[j] = gen(3)
		}
		var pol datamodel.Node = list(items...)
		if c.R.Chance(3) {
			pol = scalar()
		}
		c.Emit("polipld/rnd", WNode(pol), policyIpldObs(pol))
	}
	for _, j := range []string{`[]`, `[["==",".a",1]]`, `[["and",[]]]`, `[["or",[["not",["like",".b","a*"]]]]]`, `[["all",".a",["any",".",["<",".",3]]]]`,
		`[["==",".foo[\"",1]]`, `[["==",".?.foo",1]]`, `[["like",".a","a\\"]]`, `[["==",".a",9007199254740992]]`, `{}`, `"x"`, `[[]]`, `[["not"]]`, `[["==",".[\"\"]",1]]`,
		`[["not",["==",".a",1],["==",".b",2]]]`, `[["and",[["==",".a",1]],[]]]`, `[["==",".a"]]`, `[["like",".a"]]`, `[["like",".path","/blog/**/draft"]]`, `[["any",".l",["like",".","***"]]]`, `[["not",["like",".a","a\\**"]]]`, `[["all",".a"]]`, `[["or",[["not",["==",".a",1],1]]]]`} {
		nd := J(j)
		c.Emit("polipld/corpus", WNode(nd), policyIpldObs(nd))
	}
}
