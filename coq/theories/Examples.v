(* Non-vacuity: concrete, non-trivial values that meet the hypotheses of the main theorems, so that none of
   them is an implication nothing satisfies. Every example is decided by computation. *)
From Coq Require Import String.
Require Import Base Node Varint Radix Cbor CborProofs SealedBytes Did DidProofs Command SelParse Policy PolicyIpld Generated Envelope
  Token TokenProofs SealProofs CanonProofs SealBytesProofs.
Local Open Scope N_scope.

(* an Ed25519 did:key (multicodec 0xed, 32 key bytes) *)
Definition ex_did (seed : N) : did := (237, to_uvarint 237 ++ map (fun i => (seed + 7 * i) mod 256) (map N.of_nat (seq 0 32))).
Example ex_did_ok : did_ok (ex_did 3) /\ did_ok (ex_did 90) /\ ex_did 3 <> ex_did 90.
Proof. split; [vm_compute; reflexivity|]. split; [vm_compute; reflexivity|]. vm_compute. discriminate. Qed.

Definition ex_sel : list pseg := match sel_parse (lit ".a.b") with Ok s => s | _ => [] end.
Definition ex_dtok : dtok :=
  {| dk_iss := ex_did 3; dk_aud := ex_did 90; dk_sub := Some (ex_did 3); dk_cmd := lit "/crud/read";
     dk_pol := [TCmp (lit "==") ex_sel (Map [(lit "zz", Int 1); (lit "a", List [Int (-5); Str (lit "x")])]);
                TConn (lit "or") [TLike ex_sel (lit "a*b"); TNot (TCmp (lit "<") ex_sel (Int 9007199254740991))]];
     dk_nonce := map N.of_nat (seq 1 12);
     dk_meta := [(lit "note", Str (lit "hi")); (lit "b", Map [(lit "k2", Bool true); (lit "k1", Bytes [1; 2])])];
     dk_nbf := Some 1700000000%Z; dk_exp := None |}.

Example ex_dtok_constructed : dlg_constructed ex_dtok.
Proof.
  assert (Hs : exists st, sel_parse st = Ok ex_sel) by (exists (lit ".a.b"); vm_compute; reflexivity).
  constructor.
  - vm_compute; reflexivity.
  - vm_compute; reflexivity.
  - vm_compute; reflexivity.
  - vm_compute; reflexivity.
  - split; [|vm_compute; reflexivity].
    constructor; [split; [reflexivity|exact Hs]|]. constructor; [|constructor].
    split; [reflexivity|]. split; [split; [exact Hs|reflexivity]|]. split; [|exact I]. split; [reflexivity|exact Hs].
  - vm_compute. lia.
  - vm_compute; reflexivity.
  - vm_compute; reflexivity.
  - exact I.
Qed.

(* the byte-level seal -> unseal theorem applies to it, and canonicalisation really reorders something *)
Example ex_dtok_seal_bytes_premises :
  let N := env_seal (fun m => [7; 7]) [1; 2] dlg_tag (dlg_to_payload ex_dtok) in
  wf N /\ keys_distinct N /\ (depth N <= 9)%nat /\ canon_dtok ex_dtok <> ex_dtok.
Proof.
  cbv zeta. split; [|split; [|split]].
  - vm_compute. repeat split; try reflexivity; try discriminate.
  - vm_compute.
    repeat match goal with
           | |- _ /\ _ => split
           | |- True => exact I
           | |- NoDup _ => constructor
           | |- ~ _ => intros Hin; cbn in Hin; intuition discriminate
           end.
  - vm_compute. lia.
  - vm_compute. discriminate.
Qed.
