(* C15 - Command coverage is the segment-prefix partial order.
   Statements only; every proof is [exact] of a lemma from CommandProofs. *)
From Coq Require Import String.
Require Import Base Utf8 Utf8Proofs Command CommandProofs.
Local Open Scope N_scope.

Theorem C15_covers_iff_segment_prefix : forall c o, leading c -> leading o ->
  (covers c o = true <-> seg_prefix (segments c) (segments o)).
Proof. exact covers_iff_seg_prefix. Qed.
Print Assumptions C15_covers_iff_segment_prefix.

Theorem C15_reflexive : forall c, leading c -> covers c c = true.
Proof. exact covers_refl. Qed.
Print Assumptions C15_reflexive.

Theorem C15_antisymmetric : forall a b, covers a b = true -> covers b a = true -> a = b.
Proof. exact covers_antisym. Qed.
Print Assumptions C15_antisymmetric.

Theorem C15_transitive : forall a b c, leading a -> leading b -> leading c ->
  covers a b = true -> covers b c = true -> covers a c = true.
Proof. exact covers_trans. Qed.
Print Assumptions C15_transitive.

Theorem C15_top_covers_all : forall o, leading o -> covers top o = true.
Proof. exact top_covers_all. Qed.
Print Assumptions C15_top_covers_all.

Theorem C15_textual_prefix_not_covered : forall c x r,
  c <> top -> covers c (c ++ x :: r) = true -> x = sep.
Proof. exact textual_prefix_not_covered. Qed.
Print Assumptions C15_textual_prefix_not_covered.

Theorem C15_parse_exact : forall s s', parse s = Ok s' <-> valid s /\ s' = s.
Proof. exact parse_exact. Qed.
Print Assumptions C15_parse_exact.

Theorem C15_join_appends_segments : forall c segs,
  leading c -> Forall good_seg segs ->
  segments (join_cmd c segs) = segments c ++ segs.
Proof. exact join_segments. Qed.
Print Assumptions C15_join_appends_segments.

(* non-vacuity: a valid two-segment command, and /foo does not cover /foobar *)
Example C15_nonvacuous :
  valid (lit "/foo/bar") /\ segments (lit "/foo/bar") = [lit "foo"; lit "bar"]
  /\ covers (lit "/foo") (lit "/foo/bar") = true /\ covers (lit "/foo") (lit "/foobar") = false.
Proof.
  split; [|repeat split; reflexivity].
  split; [eexists; reflexivity|]. split; [right; cbn; discriminate|].
  apply lower_fixed_iff. vm_compute. reflexivity.
Qed.

(* "upper-case letter": a code point that Go's unicode.ToLower changes (table read off the toolchain); on
   ASCII text that is a byte in 'A'..'Z'; text that is not valid UTF-8 is refused *)
Theorem C15_no_upper_on_ascii : forall s, Forall (fun c => c < 128) s ->
  (no_upper s <-> Forall (fun c => ~ (65 <= c <= 90)) s).
Proof. exact no_upper_ascii. Qed.
Print Assumptions C15_no_upper_on_ascii.

Example C15_unicode_case :
  (* /é accepted; /É, /ǅ (title case), /Ⅳ, an invalid byte, a truncated sequence: refused *)
  is_ok (parse [47; 195; 169]) = true /\ is_ok (parse [47; 195; 137]) = false /\ is_ok (parse [47; 199; 133]) = false /\
  is_ok (parse [47; 226; 133; 163]) = false /\ is_ok (parse [47; 255]) = false /\ is_ok (parse [47; 195]) = false.
Proof. vm_compute. repeat split. Qed.

(* the code points Parse looks at are the standard ones: the decoder of Utf8.v reads back the UTF-8 encoding of
   every sequence of Unicode scalar values, and accepts nothing else (no overlong form, no surrogate, nothing
   above U+10FFFF) *)
Theorem C15_utf8_decoder_reads_the_standard_encoding : forall rs, Forall scalar rs -> runes (concat (map utf8_encode rs)) = Some rs.
Proof. exact runes_encode. Qed.
Print Assumptions C15_utf8_decoder_reads_the_standard_encoding.

Theorem C15_utf8_decoder_accepts_only_the_standard_encoding : forall s r rest,
  Forall (fun b => b < 256) s -> decode1 s = Some (r, rest) -> scalar r /\ s = utf8_encode r ++ rest.
Proof. exact decode1_canonical. Qed.
Print Assumptions C15_utf8_decoder_accepts_only_the_standard_encoding.
