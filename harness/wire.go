package main

// Wire format shared with the Coq oracle (coq/theories/Node.v):
//   n | t | f | i[-]HEX; | dHEX; | sHEX; | bHEX; | cHEX; | [ items ] | { sHEX; value ... }

import (
	"encoding/hex"
	"math"
	"math/big"
	"strconv"
	"strings"

	"github.com/ipld/go-ipld-prime/datamodel"
	cidlink "github.com/ipld/go-ipld-prime/linking/cid"
)

type W string

const WNull W = "n"

func WBool(b bool) W {
	if b {
		return "t"
	}
	return "f"
}
func WInt(i int64) W {
	if i < 0 {
		// avoid overflow on MinInt64
		return W("i-" + new(big.Int).Neg(big.NewInt(i)).Text(16) + ";")
	}
	return W("i" + strconv.FormatInt(i, 16) + ";")
}
func WUint(u uint64) W   { return W("i" + strconv.FormatUint(u, 16) + ";") }
func WBig(b *big.Int) W  { return W("i" + b.Text(16) + ";") }
func WFloat(f float64) W { return W("d" + strconv.FormatUint(math.Float64bits(f), 16) + ";") }
func WStr(s string) W    { return W("s" + hex.EncodeToString([]byte(s)) + ";") }
func WBytes(b []byte) W  { return W("b" + hex.EncodeToString(b) + ";") }
func WLink(b []byte) W   { return W("c" + hex.EncodeToString(b) + ";") }
func WList(items ...W) W {
	var sb strings.Builder
	sb.WriteByte('[')
	for _, it := range items {
		sb.WriteString(string(it))
	}
	sb.WriteByte(']')
	return W(sb.String())
}
func WStrs(ss []string) W {
	items := make([]W, len(ss))
	for i, s := range ss {
		items[i] = WStr(s)
	}
	return WList(items...)
}

type KV struct {
	K string
	V W
}

func WMap(kvs ...KV) W {
	var sb strings.Builder
	sb.WriteByte('{')
	for _, kv := range kvs {
		sb.WriteString(string(WStr(kv.K)))
		sb.WriteString(string(kv.V))
	}
	sb.WriteByte('}')
	return W(sb.String())
}

func WOk(v W) W     { return WList(WStr("ok"), v) }
func WErr() W       { return WList(WStr("err")) }
func WErrC(c int) W { return WList(WStr("err"), WInt(int64(c))) }
func WPanic() W     { return WList(WStr("panic")) }

// WNode renders an IPLD node (any implementation) in wire form.
func WNode(n datamodel.Node) W {
	if n == nil {
		return "n"
	}
	switch n.Kind() {
	case datamodel.Kind_Null:
		return "n"
	case datamodel.Kind_Bool:
		b, _ := n.AsBool()
		return WBool(b)
	case datamodel.Kind_Int:
		if u, ok := n.(datamodel.UintNode); ok {
			v, err := u.AsUint()
			if err == nil {
				return WUint(v)
			}
		}
		v, _ := n.AsInt()
		return WInt(v)
	case datamodel.Kind_Float:
		f, _ := n.AsFloat()
		return WFloat(f)
	case datamodel.Kind_String:
		s, _ := n.AsString()
		return WStr(s)
	case datamodel.Kind_Bytes:
		b, _ := n.AsBytes()
		return WBytes(b)
	case datamodel.Kind_Link:
		l, _ := n.AsLink()
		if cl, ok := l.(cidlink.Link); ok {
			return WLink(cl.Cid.Bytes())
		}
		return WLink([]byte(l.Binary()))
	case datamodel.Kind_List:
		var items []W
		it := n.ListIterator()
		for !it.Done() {
			_, v, err := it.Next()
			if err != nil {
				break
			}
			items = append(items, WNode(v))
		}
		return WList(items...)
	case datamodel.Kind_Map:
		var kvs []KV
		it := n.MapIterator()
		for !it.Done() {
			k, v, err := it.Next()
			if err != nil {
				break
			}
			ks, _ := k.AsString()
			kvs = append(kvs, KV{ks, WNode(v)})
		}
		return WMap(kvs...)
	}
	return "n"
}
