(* Model of pkg/policy/ipld.go (FromIPLD / ToIPLD) and of limits.ValidateIntegerBoundsIPLD. *)
From Coq Require Import String.
Require Import Base Node Selector SelParse Glob Policy.
Local Open Scope N_scope.

(* statements as decoded: selectors keep their tokens, kinds keep their operator text *)
Inductive tstmt :=
| TCmp (op : str) (sel : list pseg) (v : node)       (* == < <= > >= *)
| TNot (s : tstmt)
| TConn (op : str) (ss : list tstmt)                 (* and / or *)
| TLike (sel : list pseg) (pat : str)
| TQuant (op : str) (sel : list pseg) (s : tstmt).   (* all / any *)

(* limits.ValidateIntegerBoundsIPLD: every integer, at any depth of lists and maps, within +-(2^53-1) *)
Fixpoint ints_in53 (n : node) : bool :=
  match n with
  | Int z => in53 z
  | List l => forallb ints_in53 l
  | Map m => forallb (fun kv => ints_in53 (snd kv)) m
  | _ => true
  end.

Definition is_cmp_op (op : str) : bool :=
  str_eqb op (lit "==") || str_eqb op (lit "<") || str_eqb op (lit "<=") || str_eqb op (lit ">") || str_eqb op (lit ">=").
Definition is_conn_op (op : str) : bool := str_eqb op (lit "and") || str_eqb op (lit "or").
Definition is_quant_op (op : str) : bool := str_eqb op (lit "all") || str_eqb op (lit "any").

Definition rmap {A B} (f : A -> B) (r : res A) : res B :=
  match r with Ok a => Ok (f a) | Err e => Err e | Panic => Panic end.

(* statementFromIPLD / statementsFromIPLD *)
Fixpoint stmt_from (n : node) : res tstmt :=
  match n with
  | List (Str op :: rest) =>
      match rest with
      | [a] =>
          if str_eqb op (lit "not") then rmap TNot (stmt_from a)
          else if is_conn_op op then
            match a with
            | List l => rmap (TConn op)
                          ((fix go (l : list node) : res (list tstmt) :=
                              match l with
                              | [] => Ok []
                              | x :: r => match stmt_from x with
                                          | Ok s => match go r with Ok ss => Ok (s :: ss) | Err e => Err e | Panic => Panic end
                                          | Err e => Err e
                                          | Panic => Panic
                                          end
                              end) l)
            | _ => Err 1
            end
          else Err 2
      | [a; c] =>
          match a with
          | Str st =>
              if is_cmp_op op then rmap (fun sel => TCmp op sel c) (sel_parse st)
              else if str_eqb op (lit "like") then
                match sel_parse st with
                | Ok sel => match c with Str pat => if parse_glob_ok pat then Ok (TLike sel pat) else Err 4 | _ => Err 3 end
                | Err e => Err e
                | Panic => Panic
                end
              else if is_quant_op op then
                match sel_parse st with
                | Ok sel => rmap (TQuant op sel) (stmt_from c)
                | Err e => Err e
                | Panic => Panic
                end
              else Err 2
          | _ => Err 3
          end
      | _ => Err 1
      end
  | _ => Err 1
  end.

Fixpoint stmts_from_list (l : list node) : res (list tstmt) :=
  match l with
  | [] => Ok []
  | x :: r => match stmt_from x with
              | Ok s => match stmts_from_list r with Ok ss => Ok (s :: ss) | Err e => Err e | Panic => Panic end
              | Err e => Err e
              | Panic => Panic
              end
  end.

(* policy.FromIPLD *)
Definition pol_from_ipld (n : node) : res (list tstmt) :=
  if negb (ints_in53 n) then Err 9
  else match n with List l => stmts_from_list l | _ => Err 1 end.

(* statementToIPLD / Policy.ToIPLD *)
Fixpoint stmt_to (s : tstmt) : node :=
  match s with
  | TCmp op sel v => List [Str op; Str (sel_print sel); v]
  | TNot s => List [Str (lit "not"); stmt_to s]
  | TConn op ss => List [Str op; List (map stmt_to ss)]
  | TLike sel pat => List [Str (lit "like"); Str (sel_print sel); Str pat]
  | TQuant op sel s => List [Str op; Str (sel_print sel); stmt_to s]
  end.
Definition pol_to_ipld (p : list tstmt) : node := List (map stmt_to p).

(* meaning: forget the tokens *)
Definition cmp_of (op : str) : option cmpop :=
  if str_eqb op (lit ">") then Some Gt else if str_eqb op (lit ">=") then Some Ge
  else if str_eqb op (lit "<") then Some Lt else if str_eqb op (lit "<=") then Some Le else None.
Fixpoint sem (s : tstmt) : stmt :=
  match s with
  | TCmp op sel v => match cmp_of op with Some c => SCmp c (sel_segs sel) v | None => SEq (sel_segs sel) v end
  | TNot s => SNot (sem s)
  | TConn op ss => if str_eqb op (lit "and") then SAnd (map sem ss) else SOr (map sem ss)
  | TLike sel pat => SLike (sel_segs sel) pat
  | TQuant op sel s => if str_eqb op (lit "all") then SAll (sel_segs sel) (sem s) else SAny (sel_segs sel) (sem s)
  end.

(* what the constructors produce: operators from the fixed set, selectors that are parse results,
   accepted patterns *)
Fixpoint wf_stmt (s : tstmt) : Prop :=
  match s with
  | TCmp op sel v => is_cmp_op op = true /\ (exists st, sel_parse st = Ok sel)
  | TNot s => wf_stmt s
  | TConn op ss => is_conn_op op = true /\ (fix all (l : list tstmt) : Prop := match l with [] => True | x :: r => wf_stmt x /\ all r end) ss
  | TLike sel pat => (exists st, sel_parse st = Ok sel) /\ parse_glob_ok pat = true
  | TQuant op sel s => is_quant_op op = true /\ (exists st, sel_parse st = Ok sel) /\ wf_stmt s
  end.
