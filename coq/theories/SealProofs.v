(* seal -> unseal at the node level, for delegations and invocations *)
From Coq Require Import String.
Require Import Base Node Cbor CborProofs Did Command SelParse Policy PolicyIpld Generated Envelope EnvelopeProofs Token TokenProofs.
Local Open Scope N_scope.

Section Seal.
  Variable verify : did -> str -> str -> bool.
  Variable header_of : did -> res str.
  Variable sign : str -> str.

  Lemma inspect_seal hdr tag P : has_prefix ucan_prefix tag = true -> str_eqb tag hdr_key = false ->
    inspect (env_seal sign hdr tag P) =
      Ok {| in_tag := tag; in_sig := sign (encode (Map [(hdr_key, Bytes hdr); (tag, P)])); in_hdr := hdr;
            in_sigpayload := Map [(hdr_key, Bytes hdr); (tag, P)]; in_payload := P |}.
  Proof.
    intros Hp Hk. unfold env_seal, inspect. cbn [scan]. rewrite str_eqb_refl. cbn [Nat.leb].
    rewrite Hk, Hp. reflexivity.
  Qed.

  (* the envelope layer is transparent for a payload whose issuer owns the signing key *)
  Theorem env_seal_decode (A : Type) (bind : node -> res A) hdr tag pm iss d :
    has_prefix ucan_prefix tag = true -> str_eqb tag hdr_key = false ->
    map_get (lit "iss") pm = Some (Str iss) -> did_parse iss = Ok d -> header_of d = Ok hdr ->
    (forall m, verify d m (sign m) = true) ->
    env_decode verify header_of A bind tag (env_seal sign hdr tag (Map pm)) = bind (Map pm).
  Proof.
    intros Hp Hk Hi Hd Hh Hv. unfold env_decode. rewrite (inspect_seal hdr tag (Map pm) Hp Hk).
    cbn [in_tag in_payload in_hdr in_sig in_sigpayload]. rewrite str_eqb_refl. cbn [negb].
    rewrite Hi, Hd, Hh, str_eqb_refl, Hv. reflexivity.
  Qed.

  Lemma dlg_iss_field t : exists pm, dlg_to_payload t = Map pm /\ map_get (lit "iss") pm = Some (Str (did_print (dk_iss t))).
  Proof. unfold dlg_to_payload. eexists. split; [reflexivity|]. reflexivity. Qed.
  Lemma inv_iss_field t : exists pm, inv_to_payload t = Map pm /\ map_get (lit "iss") pm = Some (Str (did_print (ik_iss t))).
  Proof. unfold inv_to_payload. eexists. split; [reflexivity|]. reflexivity. Qed.

  Theorem dlg_seal_unseal t hdr : dlg_constructed t -> header_of (dk_iss t) = Ok hdr ->
    (forall m, verify (dk_iss t) m (sign m) = true) ->
    env_decode verify header_of dtok dlg_from_payload dlg_tag (env_seal sign hdr dlg_tag (dlg_to_payload t)) = Ok t.
  Proof.
    intros Hc Hh Hv. destruct (dlg_iss_field t) as (pm & E & Hi). rewrite E.
    rewrite (env_seal_decode dtok dlg_from_payload hdr dlg_tag pm (did_print (dk_iss t)) (dk_iss t)); try reflexivity; try assumption.
    - rewrite <- E. apply dlg_payload_roundtrip. exact Hc.
    - apply (dc_iss t Hc).
  Qed.

  Theorem inv_seal_unseal t hdr : inv_constructed t -> header_of (ik_iss t) = Ok hdr ->
    (forall m, verify (ik_iss t) m (sign m) = true) ->
    env_decode verify header_of itok inv_from_payload inv_tag (env_seal sign hdr inv_tag (inv_to_payload t)) = Ok t.
  Proof.
    intros Hc Hh Hv. destruct (inv_iss_field t) as (pm & E & Hi). rewrite E.
    rewrite (env_seal_decode itok inv_from_payload hdr inv_tag pm (did_print (ik_iss t)) (ik_iss t)); try reflexivity; try assumption.
    - rewrite <- E. apply inv_payload_roundtrip. exact Hc.
    - apply (ic_iss t Hc).
  Qed.

  (* a delegation is never returned as an invocation, nor vice versa *)
  Theorem no_cross_type_dlg_as_inv hdr P :
    exists e, env_decode verify header_of itok inv_from_payload inv_tag (env_seal sign hdr dlg_tag P) = Err e.
  Proof.
    apply (wrong_tag_rejected verify header_of itok inv_from_payload inv_tag _ _ (inspect_seal hdr dlg_tag P eq_refl eq_refl)).
    cbn. discriminate.
  Qed.
  Theorem no_cross_type_inv_as_dlg hdr P :
    exists e, env_decode verify header_of dtok dlg_from_payload dlg_tag (env_seal sign hdr inv_tag P) = Err e.
  Proof.
    apply (wrong_tag_rejected verify header_of dtok dlg_from_payload dlg_tag _ _ (inspect_seal hdr inv_tag P eq_refl eq_refl)).
    cbn. discriminate.
  Qed.
End Seal.

(* the generic decoder dispatches on the tag and then does exactly what the typed decoder does *)
Section Generic.
  Variable verify : did -> str -> str -> bool.
  Variable header_of : did -> res str.
  Inductive anytok := ADlg (t : dtok) | AInv (t : itok).
  (* token.fromIPLD, token/read.go:111-125 *)
  Definition generic_decode (n : node) : res anytok :=
    match find_tag n with
    | Ok tag =>
        if str_eqb tag dlg_tag then rmap ADlg (env_decode verify header_of dtok dlg_from_payload dlg_tag n)
        else if str_eqb tag inv_tag then rmap AInv (env_decode verify header_of itok inv_from_payload inv_tag n)
        else Err 40
    | Err e => Err e
    | Panic => Panic
    end.

  Lemma find_tag_of_inspected n i : inspect n = Ok i -> find_tag n = Ok (in_tag i).
  Proof.
    intros H. apply inspect_shape in H as (m & -> & _ & Hp & [->| ->]); cbn -[has_prefix ucan_prefix hdr_key].
    - change (has_prefix ucan_prefix hdr_key) with false. cbn iota. rewrite Hp. reflexivity.
    - rewrite Hp. reflexivity.
  Qed.

  Theorem generic_typed_agree_dlg n t :
    env_decode verify header_of dtok dlg_from_payload dlg_tag n = Ok t -> generic_decode n = Ok (ADlg t).
  Proof.
    intros H. unfold generic_decode. pose proof H as H'. unfold env_decode in H'.
    destruct (inspect n) as [i|e|] eqn:Ei; try discriminate.
    destruct (str_eqb (in_tag i) dlg_tag) eqn:Et; cbn [negb] in H'; [|discriminate].
    rewrite (find_tag_of_inspected n i Ei), Et, H. reflexivity.
  Qed.
  Theorem generic_typed_agree_inv n t :
    env_decode verify header_of itok inv_from_payload inv_tag n = Ok t -> generic_decode n = Ok (AInv t).
  Proof.
    intros H. unfold generic_decode. pose proof H as H'. unfold env_decode in H'.
    destruct (inspect n) as [i|e|] eqn:Ei; try discriminate.
    destruct (str_eqb (in_tag i) inv_tag) eqn:Et; cbn [negb] in H'; [|discriminate].
    rewrite (find_tag_of_inspected n i Ei). apply str_eqb_eq in Et. rewrite Et.
    change (str_eqb inv_tag dlg_tag) with false. cbn iota. rewrite str_eqb_refl, H. reflexivity.
  Qed.
  Theorem generic_only_typed n a : generic_decode n = Ok a ->
    match a with
    | ADlg t => env_decode verify header_of dtok dlg_from_payload dlg_tag n = Ok t
    | AInv t => env_decode verify header_of itok inv_from_payload inv_tag n = Ok t
    end.
  Proof.
    unfold generic_decode. destruct (find_tag n) as [tag|e|]; try discriminate.
    destruct (str_eqb tag dlg_tag).
    - destruct (env_decode _ _ dtok _ _ n); cbn; try discriminate. intros [= <-]. reflexivity.
    - destruct (str_eqb tag inv_tag); [|discriminate].
      destruct (env_decode _ _ itok _ _ n); cbn; try discriminate. intros [= <-]. reflexivity.
  Qed.
End Generic.

(* the end-to-end reading of C06 under an explicit unforgeability premise: if the only messages that verify
   under a principal's key are encodings of signed parts that principal produced ([signed d]), then the signed
   part of every accepted envelope is, up to the order of map entries, one of those: header, tag and payload
   are what the issuer signed *)
Section Unforgeable.
  Variable verify : did -> str -> str -> bool.
  Variable header_of : did -> res str.
  Variable signed : did -> list node.
  Hypothesis unforgeable : forall d m s, verify d m s = true -> exists sp, In sp (signed d) /\ wf sp /\ m = encode sp.

  Theorem accepted_content_was_signed (A : Type) (bind : node -> res A) tag n a :
    wf n -> env_decode verify header_of A bind tag n = Ok a ->
    exists sg hdr m d sp iss pm pl,
      n = List [Bytes sg; Map m] /\
      (m = [(hdr_key, Bytes hdr); (tag, pl)] \/ m = [(tag, pl); (hdr_key, Bytes hdr)]) /\ pl = Map pm /\
      map_get (lit "iss") pm = Some (Str iss) /\ did_parse iss = Ok d /\
      In sp (signed d) /\ canon sp = canon (Map m) /\ bind pl = Ok a.
  Proof.
    intros Hw H. apply accept_verified in H as (sg & hdr & pl & pm & iss & d & m & Hn & Hm & Hpl & Hi & Hd & Hh & Hv & Hb).
    destruct (unforgeable d _ _ Hv) as (sp & Hin & Hwsp & He).
    assert (Hwm : wf (Map m)).
    { subst n. apply wf_list in Hw as [_ Hw]. inversion Hw as [|? ? _ Hw2]; subst. inversion Hw2; subst. assumption. }
    exists sg, hdr, m, d, sp, iss, pm, pl. repeat (split; [assumption|]). split; [|exact Hb].
    assert (E : encode sp ++ [] = encode (Map m) ++ []) by (rewrite !app_nil_r; symmetry; exact He).
    apply (encode_injective sp (Map m) [] [] Hwsp Hwm) in E as [E _]. exact E.
  Qed.
End Unforgeable.
