(* C02 - Commands can only be narrowed along a proof chain. *)
Require Import Base Node Command CommandProofs Selector Policy Chain ChainProofs.
Local Open Scope Z_scope.

Theorem C02_allowed_only_if_commands_narrow : forall now ld i,
  allowed now ld i = true ->
  exists ds, map ld (i_prf i) = map Some ds /\
    (forall d0 r, ds = d0 :: r -> covers (d_cmd d0) (i_cmd i) = true) /\
    (forall k d d', nth_error ds k = Some d -> nth_error ds (S k) = Some d' -> covers (d_cmd d') (d_cmd d) = true).
Proof. exact allowed_commands. Qed.
Print Assumptions C02_allowed_only_if_commands_narrow.

(* with C15: every delegation's segments are a prefix of the invoked command's segments *)
Theorem C02_no_link_widens : forall now ld i,
  allowed now ld i = true -> leading (i_cmd i) ->
  exists ds, map ld (i_prf i) = map Some ds /\
    (Forall (fun d => leading (d_cmd d)) ds ->
     Forall (fun d => seg_prefix (segments (d_cmd d)) (segments (i_cmd i))) ds).
Proof. exact allowed_no_widening. Qed.
Print Assumptions C02_no_link_widens.
