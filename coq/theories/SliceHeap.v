(* Go slices over a heap of backing arrays, as far as pkg/args.Args.Clone / Add and pkg/meta.Meta.Clone / Add use them
   (C20, C10): a clone is a fresh array of exactly the visible length, an append writes in place when the slice has
   spare capacity and moves to a fresh array otherwise.  Goroutines that each clone a token's key slice and append
   to their own clone never touch the token's array nor one another's - for every interleaving - whereas the variant
   seeded several times ("the clone keeps the array when there is room") lets one goroutine overwrite another's key. *)
Require Import Base.
Local Open Scope nat_scope.

Record slice := { s_arr : nat; s_len : nat; s_cap : nat }.
Definition heap := list (list str).      (* array id = position; an array's length is its capacity *)

Definition cells (h : heap) (a : nat) : list str := nth a h [].
Definition view (h : heap) (s : slice) : list str := firstn (s_len s) (cells h (s_arr s)).

Fixpoint set_nth {A} (i : nat) (x : A) (l : list A) : list A :=
  match l, i with
  | [], _ => []
  | _ :: r, O => x :: r
  | y :: r, S i' => y :: set_nth i' x r
  end.

(* append(s, x) *)
Definition go_append (h : heap) (s : slice) (x : str) : heap * slice :=
  if s_len s <? s_cap s then
    (set_nth (s_arr s) (set_nth (s_len s) x (cells h (s_arr s))) h,
     {| s_arr := s_arr s; s_len := S (s_len s); s_cap := s_cap s |})
  else
    let newcap := S (2 * s_cap s) in
    (h ++ [view h s ++ [x] ++ repeat [] (newcap - S (s_len s))],
     {| s_arr := length h; s_len := S (s_len s); s_cap := newcap |}).

(* Clone: make([]string, len(keys)) + copy *)
Definition go_clone (h : heap) (s : slice) : heap * slice :=
  (h ++ [view h s], {| s_arr := length h; s_len := s_len s; s_cap := s_len s |}).

(* the seeded variant: reuse the array when it has room (slices.Grow / append(nil-less) / keys[:len] idioms) *)
Definition bad_clone (h : heap) (s : slice) : heap * slice :=
  if s_len s <? s_cap s then (h, s) else go_clone h s.

Definition wf_slice (h : heap) (s : slice) : Prop :=
  s_arr s < length h /\ s_len s <= s_cap s /\ length (cells h (s_arr s)) = s_cap s.

(* ---------- goroutines ---------- *)
Inductive act := AClone | AAppend (x : str).

Record state := { st_heap : heap; st_local : nat -> option slice }.

Definition upd {A} (f : nat -> A) (i : nat) (v : A) : nat -> A := fun j => if Nat.eqb j i then v else f j.

Section Run.
  Variable clone : heap -> slice -> heap * slice.
  Variable tok : slice.                       (* the token's key slice, shared by everybody *)

  Definition step (st : state) (a : nat * act) : state :=
    let '(tid, ac) := a in
    match ac with
    | AClone => let '(h', c) := clone (st_heap st) tok in {| st_heap := h'; st_local := upd (st_local st) tid (Some c) |}
    | AAppend x =>
        match st_local st tid with
        | Some c => let '(h', c') := go_append (st_heap st) c x in {| st_heap := h'; st_local := upd (st_local st) tid (Some c') |}
        | None => st                          (* nothing to append to yet *)
        end
    end.
  Definition run (st : state) (steps : list (nat * act)) : state := fold_left step steps st.
End Run.

(* ghost: what goroutine [tid] has appended to its current clone (None before its first clone) *)
Definition gstep (g : nat -> option (list str)) (a : nat * act) : nat -> option (list str) :=
  let '(tid, ac) := a in
  match ac with
  | AClone => upd g tid (Some [])
  | AAppend x => match g tid with Some l => upd g tid (Some (l ++ [x])) | None => g end
  end.
Definition ghost (steps : list (nat * act)) : nat -> option (list str) := fold_left gstep steps (fun _ => None).
