package main

// verifharness: runs the real go-ucan implementation on generated inputs and prints, one case per
// line,   tag TAB wire(List[input, impl_observation])   for the Coq oracle to judge.
//
//   harness <engine> [--tier quick|thorough] [--seed N] [--replay wire-input]

import (
	"bufio"
	"encoding/json"
	"fmt"
	"os"
	"runtime/pprof"
	"strconv"
)

type Ctx struct {
	Tier     string
	Seed     uint64
	R        *Rng
	out      *bufio.Writer
	Count    int
	TagCount map[string]int
	Stats    map[string]int // measured quantities beyond the number of cases (faults injected, bytes, ...)
}

func (c *Ctx) Stat(key string, n int) { c.Stats[key] += n }

func (c *Ctx) Thorough() bool { return c.Tier == "thorough" }

// Emit one case.
func (c *Ctx) Emit(tag string, input W, obs W) {
	c.Count++
	c.TagCount[tag]++
	c.out.WriteString(tag)
	c.out.WriteByte('\t')
	c.out.WriteString(string(WList(input, obs)))
	c.out.WriteByte('\n')
}

type Engine struct {
	Name string
	Gen  func(c *Ctx)               // generate + run + emit
	One  func(c *Ctx, input string) // replay a single wire input (optional)
}

var engines = map[string]*Engine{}

func register(e *Engine) { engines[e.Name] = e }

func main() {
	if len(os.Args) < 2 {
		fmt.Fprintln(os.Stderr, "usage: harness <engine> [--tier quick|thorough] [--seed N]")
		os.Exit(2)
	}
	name := os.Args[1]
	ctx := &Ctx{Tier: "quick", Seed: 1, TagCount: map[string]int{}, Stats: map[string]int{}}
	if s := os.Getenv("VERIF_SEED"); s != "" {
		if v, err := strconv.ParseUint(s, 10, 64); err == nil {
			ctx.Seed = v
		}
	}
	if t := os.Getenv("VERIF_TIER"); t != "" {
		ctx.Tier = t
	}
	var replay string
	for i := 2; i < len(os.Args); i++ {
		switch os.Args[i] {
		case "--tier":
			i++
			ctx.Tier = os.Args[i]
		case "--seed":
			i++
			v, _ := strconv.ParseUint(os.Args[i], 10, 64)
			ctx.Seed = v
		case "--replay":
			i++
			replay = os.Args[i]
		}
	}
	if pf := os.Getenv("VERIF_CPUPROFILE"); pf != "" {
		if f, err := os.Create(pf); err == nil {
			pprof.StartCPUProfile(f)
			defer pprof.StopCPUProfile()
		}
	}
	ctx.R = NewRng(ctx.Seed)
	ctx.out = bufio.NewWriterSize(os.Stdout, 1<<20)
	defer ctx.out.Flush()
	e, ok := engines[name]
	if !ok {
		fmt.Fprintln(os.Stderr, "unknown engine", name)
		os.Exit(2)
	}
	if replay != "" {
		if e.One == nil {
			fmt.Fprintln(os.Stderr, "engine has no replay entry")
			os.Exit(2)
		}
		e.One(ctx, replay)
		return
	}
	e.Gen(ctx)
	if len(ctx.Stats) > 0 {
		js, _ := json.Marshal(ctx.Stats)
		fmt.Fprintln(os.Stderr, "STATS", string(js))
	}
}
