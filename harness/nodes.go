package main

import (
	"github.com/ipld/go-ipld-prime"
	"github.com/ipld/go-ipld-prime/codec/dagjson"
	"github.com/ipld/go-ipld-prime/datamodel"
)

// J builds a basicnode from DAG-JSON text (bytes as {"/":{"bytes":"base64"}}).
func J(s string) datamodel.Node {
	n, err := ipld.Decode([]byte(s), dagjson.Decode)
	if err != nil {
		panic("bad test json: " + s + ": " + err.Error())
	}
	return n
}

// A fixed pool of IPLD values of every kind used by the selector / policy engines.
var valuePool = []string{
	`null`, `true`, `false`, `0`, `1`, `-5`, `7`, `1.5`, `-2.25`,
	`""`, `"abc"`, `"héllo wörld"`, `"a*b"`, `"日本語"`,
	`{"/":{"bytes":""}}`, `{"/":{"bytes":"AQID"}}`, `{"/":{"bytes":"/wD+"}}`,
	`[]`, `[1,2,3]`, `[1,2,3,4,5]`, `["a","b","c"]`, `[[1],[2,3],[]]`, `[null,1,"x"]`,
	`{}`, `{"a":1}`, `{"a":1,"b":[1,2,3]}`, `{"a":{"b":"x"},"b":2}`, `{"a":null}`, `{"b":{"a":[10,20]}}`,
	`{"a":[1,2,3],"c":"zzz"}`, `{"a":"str","b":{"a":{"a":5}}}`, `[{"a":1},{"a":2},{"b":3}]`,
	`{"a":[{"b":1},{"b":2}]}`, `{"a":{"/":{"bytes":"AQIDBA"}}}`, `{"a":"héllo","b":""}`,
	`[[1,2],[3,4]]`, `{"c":{"a":1,"b":2}}`, `{"a":{},"b":[]}`, `[0]`, `{"a":[[]]}`,
}
