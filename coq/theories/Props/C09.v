(* C09 - Decoders fail cleanly on arbitrary untrusted input.
   PARTIAL: what is proved is panic-freedom and termination of go-ucan's own logic (every model function is
   a total Gallina function into Ok | Err | Panic, and the theorems below exclude Panic) and the bound on
   the CAR section buffer. The third-party decoders (go-ipld-prime, refmt, x509, asn1, libp2p) and the Go
   runtime (stack limit, allocator) are exercised by the decoders engine in child processes under a
   memory ceiling and a time limit, not proved.
   Memory clause, the part a theorem can carry: every decoder of the model returns a value whose [weight]
   (one unit per node plus the bytes of every string, byte string, link and map key) is at most the length
   of its input, and selector resolution returns at most the weight of the data it was given
   (C09_*_no_larger_*, SizeProofs.v). That Go allocates in proportion to that weight is not modelled. *)
From Coq Require Import String.
Require Import Base Node Varint Did DidProofs Cbor Selector SelectorProofs SelParse SelParseProofs Policy PolicyProofs PolicyIpld PolicyIpldProofs Base64 Container ContainerProofs SizeProofs.
Local Open Scope N_scope.

Theorem C09_did_parser_never_panics : forall s, did_parse s <> Panic.
Proof. exact did_parse_never_panics. Qed.
Print Assumptions C09_did_parser_never_panics.

Theorem C09_key_extraction_never_panics : forall (key : Type) marshal unmarshal,
  (forall c m, unmarshal c m <> Panic) -> forall d, pubkey key marshal unmarshal d <> (Panic : res key).
Proof. exact pubkey_never_panics. Qed.
Print Assumptions C09_key_extraction_never_panics.

Theorem C09_selector_parser_never_panics : forall s, sel_parse s <> Panic.
Proof. exact sel_parse_never_panics. Qed.
Print Assumptions C09_selector_parser_never_panics.

Theorem C09_selector_resolution_never_panics : forall sel c, resolve sel c <> Panic.
Proof. exact resolve_never_panics. Qed.
Print Assumptions C09_selector_resolution_never_panics.

Theorem C09_policy_decoder_never_panics : forall n, pol_from_ipld n <> Panic.
Proof. exact pol_from_never_panics. Qed.
Print Assumptions C09_policy_decoder_never_panics.

(* policy matching is a total function into the four results: no panic, no divergence, for every
   statement and every node (integers of any size included) *)
Theorem C09_policy_matching_total : forall s n, exists r : mres, ev s n = r.
Proof. exact ev_total. Qed.
Print Assumptions C09_policy_matching_total.

(* the CAR reader never buffers a section beyond the 32 MiB cap *)
Theorem C09_car_section_buffer_bounded : forall s d r, ld_read s = Ok (Some (d, r)) -> N.of_nat (length d) <= max_section.
Proof. exact ld_read_bounded. Qed.
Print Assumptions C09_car_section_buffer_bounded.

(* ---- output sizes: nothing a decoder of the model returns is larger than its input ---- *)
Theorem C09_select_result_no_larger_than_data : forall sel n v, select sel n = Ok (Some v) -> (weight v <= weight n)%nat.
Proof. exact select_result_no_larger_than_data. Qed.
Print Assumptions C09_select_result_no_larger_than_data.

Theorem C09_parsed_selector_no_larger_than_text : forall s p,
  sel_parse s = Ok p -> (length p <= length s)%nat /\ length (sel_print p) = length s.
Proof. exact parsed_selector_no_larger_than_text. Qed.
Print Assumptions C09_parsed_selector_no_larger_than_text.

Theorem C09_parsed_did_no_larger_than_text : forall s d, did_parse s = Ok d -> (length (snd d) <= length s)%nat.
Proof. exact parsed_did_no_larger_than_text. Qed.
Print Assumptions C09_parsed_did_no_larger_than_text.

Theorem C09_decoded_policy_weighs_what_was_read : forall n p, pol_from_ipld n = Ok p -> weight (pol_to_ipld p) = weight n.
Proof. exact decoded_policy_weighs_what_was_read. Qed.
Print Assumptions C09_decoded_policy_weighs_what_was_read.

(* the reference DAG-CBOR decoder: value and unread rest together never exceed the input *)
Theorem C09_decoded_cbor_no_larger_than_bytes : forall f bs x r, dec f bs = Some (x, r) -> (weight x + length r <= length bs)%nat.
Proof. exact decoded_cbor_no_larger_than_bytes. Qed.
Print Assumptions C09_decoded_cbor_no_larger_than_bytes.

Theorem C09_base64_decoding_no_larger_than_text : forall s b, b64_decode s = Ok b -> (length b <= length s)%nat.
Proof. exact base64_decoding_no_larger_than_text. Qed.
Print Assumptions C09_base64_decoding_no_larger_than_text.

(* containers: the token bytes handed to the token decoder (plus one per token) never exceed the input *)
Theorem C09_car_blocks_no_larger_than_input : forall mh_sum s blobs,
  car_blobs mh_sum s = Ok blobs -> (length (concat blobs) + length blobs <= length s)%nat.
Proof. exact car_blocks_no_larger_than_input. Qed.
Print Assumptions C09_car_blocks_no_larger_than_input.

Theorem C09_cbor_container_entries_no_larger_than_input : forall s blobs,
  cbor_blobs s = Ok blobs -> (length (concat blobs) + length blobs <= length s)%nat.
Proof. exact cbor_container_entries_no_larger_than_input. Qed.
Print Assumptions C09_cbor_container_entries_no_larger_than_input.
