package main

// deepDump: a textual rendering of everything reachable from a value, unexported fields, the unused
// capacity of slices and the targets of pointers included (read through reflection only, nothing is
// called), so that two dumps are equal exactly when no reachable memory word that it prints differs.
// time.Time is rendered by its two integer fields (the location pointer is process-global state).

import (
	"fmt"
	"reflect"
	"sort"
	"strings"
)

func deepDump(x any) string {
	var sb strings.Builder
	seen := map[uintptr]bool{}
	dumpValue(&sb, reflect.ValueOf(x), 0, seen)
	return sb.String()
}

func dumpValue(sb *strings.Builder, v reflect.Value, depth int, seen map[uintptr]bool) {
	if depth > 40 {
		sb.WriteString("<deep>")
		return
	}
	if !v.IsValid() {
		sb.WriteString("<nil>")
		return
	}
	switch v.Kind() {
	case reflect.Bool:
		fmt.Fprint(sb, v.Bool())
	case reflect.Int, reflect.Int8, reflect.Int16, reflect.Int32, reflect.Int64:
		fmt.Fprint(sb, v.Int())
	case reflect.Uint, reflect.Uint8, reflect.Uint16, reflect.Uint32, reflect.Uint64, reflect.Uintptr:
		fmt.Fprint(sb, v.Uint())
	case reflect.Float32, reflect.Float64:
		fmt.Fprint(sb, v.Float())
	case reflect.String:
		fmt.Fprintf(sb, "%q", v.String())
	case reflect.Ptr:
		if v.IsNil() {
			sb.WriteString("nil")
			return
		}
		if seen[v.Pointer()] {
			sb.WriteString("<seen>")
			return
		}
		seen[v.Pointer()] = true
		sb.WriteString("&")
		dumpValue(sb, v.Elem(), depth+1, seen)
	case reflect.Interface:
		if v.IsNil() {
			sb.WriteString("nil")
			return
		}
		sb.WriteString(v.Elem().Type().String() + ":")
		dumpValue(sb, v.Elem(), depth+1, seen)
	case reflect.Struct:
		t := v.Type()
		if t.PkgPath() == "time" && t.Name() == "Time" {
			fmt.Fprintf(sb, "time{%d,%d}", v.Field(0).Uint(), v.Field(1).Int())
			return
		}
		if t.PkgPath() == "sync" || t.PkgPath() == "sync/atomic" {
			sb.WriteString("<" + t.String() + ">")
			return
		}
		sb.WriteString(t.Name() + "{")
		for i := 0; i < v.NumField(); i++ {
			sb.WriteString(t.Field(i).Name + ":")
			dumpValue(sb, v.Field(i), depth+1, seen)
			sb.WriteString(",")
		}
		sb.WriteString("}")
	case reflect.Slice:
		if v.IsNil() {
			sb.WriteString("nil[]")
			return
		}
		fmt.Fprintf(sb, "[len=%d cap=%d:", v.Len(), v.Cap())
		full := v.Slice(0, v.Cap())
		if v.Type().Elem().Kind() == reflect.Uint8 {
			fmt.Fprintf(sb, "%x", full.Bytes())
		} else {
			for i := 0; i < full.Len(); i++ {
				if i == v.Len() {
					sb.WriteString("|slack:")
				}
				dumpValue(sb, full.Index(i), depth+1, seen)
				sb.WriteString(",")
			}
		}
		sb.WriteString("]")
	case reflect.Array:
		sb.WriteString("[")
		for i := 0; i < v.Len(); i++ {
			dumpValue(sb, v.Index(i), depth+1, seen)
			sb.WriteString(",")
		}
		sb.WriteString("]")
	case reflect.Map:
		if v.IsNil() {
			sb.WriteString("nilmap")
			return
		}
		var ents []string
		it := v.MapRange()
		for it.Next() {
			var e strings.Builder
			dumpValue(&e, it.Key(), depth+1, seen)
			e.WriteString("=>")
			dumpValue(&e, it.Value(), depth+1, seen)
			ents = append(ents, e.String())
		}
		sort.Strings(ents)
		sb.WriteString("map{" + strings.Join(ents, ";") + "}")
	default:
		sb.WriteString("<" + v.Kind().String() + ">")
	}
}
