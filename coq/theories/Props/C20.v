(* C20 - Tokens are immutable: read-only use is race-free and repeatable.
   PARTIAL: the theorems are about the access-trace model of Conc.v. That the Go code's memory accesses are
   the ones the model lists is what the conc engine checks (state snapshots around every operation,
   sequential vs concurrent results, and the Go race detector on the harness built with -race). *)
Require Import Base Conc ConcProofs.
Local Open Scope N_scope.

Theorem C20_readonly_operations_do_not_write : forall o s,
  fst (fst (run_op o s)) = s /\ existsb is_write (snd (fst (run_op o s))) = false.
Proof. exact readonly_no_writes. Qed.
Print Assumptions C20_readonly_operations_do_not_write.

Theorem C20_every_interleaving_is_race_free : forall s threads, ~ racy s threads.
Proof. exact readonly_race_free. Qed.
Print Assumptions C20_every_interleaving_is_race_free.

Theorem C20_results_independent_of_interleaving : forall s steps,
  exec s steps = map (fun st => snd (run_op (snd st) s)) steps.
Proof. exact results_independent_of_schedule. Qed.
Print Assumptions C20_results_independent_of_interleaving.
