Require Import Base Node Cbor.
From Coq Require Import ZifyBool ZifyNat ZifyN.
Local Open Scope N_scope.
Ltac Zify.zify_post_hook ::= Z.div_mod_to_equations.

(* ---------- big endian ---------- *)
Lemma be_val_app a b : be_val (a ++ [b]) = be_val a * 256 + b.
Proof. unfold be_val. rewrite fold_left_app. reflexivity. Qed.

Lemma be_len k n : length (be_bytes k n) = k.
Proof. revert n; induction k; intros; cbn; [reflexivity|]. rewrite app_length, IHk. cbn. lia. Qed.

Lemma be_roundtrip k : forall n, n < 256 ^ N.of_nat k -> be_val (be_bytes k n) = n.
Proof.
  induction k as [|k IH]; intros n Hn.
  - cbn in *. lia.
  - cbn [be_bytes]. rewrite be_val_app, IH.
    + pose proof (N.div_mod n 256 ltac:(lia)). lia.
    + rewrite Nat2N.inj_succ, N.pow_succ_r' in Hn. apply N.div_lt_upper_bound; lia.
Qed.

(* ---------- take ---------- *)
Lemma take_app (a r : str) : take (nlen a) (a ++ r) = Some (a, r).
Proof.
  unfold take, nlen. rewrite app_length.
  destruct (N.leb_spec (N.of_nat (length a)) (N.of_nat (length a + length r))); [|lia].
  rewrite Nat2N.id, firstn_app, Nat.sub_diag, firstn_all, skipn_app, Nat.sub_diag, skipn_all. cbn.
  rewrite app_nil_r. reflexivity.
Qed.

Lemma take_be k n r : take (N.of_nat k) (be_bytes k n ++ r) = Some (be_bytes k n, r).
Proof. rewrite <- (be_len k n) at 1. apply take_app. Qed.

(* ---------- heads ---------- *)
Definition u64 : N := 18446744073709551616.

Lemma dec_head_head mj n r : mj < 8 -> n < u64 -> dec_head (head mj n ++ r) = Some (mj, n, r).
Proof.
  intros Hm Hn. unfold head.
  destruct (N.ltb_spec n 24).
  { cbn [app dec_head]. replace ((mj * 32 + n) / 32) with mj by lia. replace ((mj * 32 + n) mod 32) with n by lia.
    destruct (N.ltb_spec n 24); [reflexivity|lia]. }
  assert (Hai : forall a, a < 32 -> (mj * 32 + a) / 32 = mj /\ (mj * 32 + a) mod 32 = a) by (intros; split; lia).
  destruct (N.ltb_spec n 256).
  { cbn [app dec_head]. destruct (Hai 24 ltac:(lia)) as [-> ->]. cbn [N.ltb N.eqb N.compare Pos.compare Pos.compare_cont Pos.eqb].
    change (n :: r) with ([n] ++ r). change 1 with (nlen [n]). rewrite take_app.
    unfold be_val. cbn [fold_left]. repeat f_equal; try lia. }
  destruct (N.ltb_spec n 65536).
  { cbn [app dec_head]. destruct (Hai 25 ltac:(lia)) as [-> ->]. cbn [N.ltb N.eqb N.compare Pos.compare Pos.compare_cont Pos.eqb].
    change 2 with (N.of_nat 2). rewrite take_be, be_roundtrip; [reflexivity|]. cbn. lia. }
  destruct (N.ltb_spec n 4294967296).
  { cbn [app dec_head]. destruct (Hai 26 ltac:(lia)) as [-> ->]. cbn [N.ltb N.eqb N.compare Pos.compare Pos.compare_cont Pos.eqb].
    change 4 with (N.of_nat 4). rewrite take_be, be_roundtrip; [reflexivity|]. cbn. lia. }
  { cbn [app dec_head]. destruct (Hai 27 ltac:(lia)) as [-> ->]. cbn [N.ltb N.eqb N.compare Pos.compare Pos.compare_cont Pos.eqb].
    change 8 with (N.of_nat 8). rewrite take_be, be_roundtrip; [reflexivity|]. unfold u64 in Hn. cbn. lia. }
Qed.

Lemma head_first mj n : mj < 6 -> exists b t, head mj n = b :: t /\ b < 216.
Proof.
  intros Hm. unfold head.
  destruct (N.ltb_spec n 24); [eexists _, _; split; [reflexivity|lia]|].
  repeat match goal with |- context [if ?c then _ else _] => destruct c end;
  eexists _, _; (split; [reflexivity|lia]).
Qed.

(* ---------- sorting ---------- *)
Section SortLemmas.
  Context {V W : Type} (g : V -> W).
  Let lift (e : str * V) : str * W := (fst e, g (snd e)).
  Lemma insert_map e l : insert (lift e) (map lift l) = map lift (insert e l).
  Proof. induction l as [|e' l IH]; cbn; [reflexivity|]. destruct (key_ltb (fst e) (fst e')); cbn; [reflexivity|]. rewrite IH. reflexivity. Qed.
  Lemma sortk_map l : sortk (map lift l) = map lift (sortk l).
  Proof. induction l as [|e l IH]; cbn; [reflexivity|]. rewrite IH. apply insert_map. Qed.
End SortLemmas.

Lemma insert_in {V} (e x : str * V) l : In x (insert e l) -> x = e \/ In x l.
Proof.
  induction l as [|e' l IH]; cbn; [intuition|].
  destruct (key_ltb (fst e) (fst e')); cbn; intuition.
Qed.
Lemma sortk_in {V} (x : str * V) l : In x (sortk l) -> In x l.
Proof. induction l as [|e l IH]; cbn; [auto|]. intros H. apply insert_in in H as [->|H]; auto. Qed.
Lemma insert_len {V} (e : str * V) l : length (insert e l) = S (length l).
Proof. induction l as [|e' l IH]; cbn; [reflexivity|]. destruct (key_ltb _ _); cbn; auto. Qed.
Lemma sortk_len {V} (l : list (str * V)) : length (sortk l) = length l.
Proof. induction l as [|e l IH]; cbn; [reflexivity|]. rewrite insert_len, IH. reflexivity. Qed.

(* ---------- well-formedness, depth ---------- *)
Fixpoint depth (x : node) : nat :=
  match x with
  | List l => S (fold_right (fun y a => Nat.max (depth y) a) 0%nat l)
  | Map m => S (fold_right (fun e a => Nat.max (depth (snd e)) a) 0%nat m)
  | _ => 1%nat
  end.

Fixpoint wf (x : node) : Prop :=
  match x with
  | Int z => (- 18446744073709551616 <= z < 18446744073709551616)%Z
  | Float b => b < u64
  | Str s => nlen s < u64
  | Bytes s => nlen s < u64
  | Link c => 1 + nlen c < u64
  | List l => nlen l < u64 /\ (fix all (l : list node) : Prop := match l with [] => True | y :: l' => wf y /\ all l' end) l
  | Map m => nlen m < u64 /\ (fix all (m : list (str * node)) : Prop :=
                                 match m with [] => True | e :: m' => (nlen (fst e) < u64 /\ wf (snd e)) /\ all m' end) m
  | _ => True
  end.

Lemma wf_list l : wf (List l) -> nlen l < u64 /\ Forall wf l.
Proof. cbn. intros [H A]. split; [exact H|]. clear H. induction l as [|y l IH]; constructor; [apply A | apply IH, A]. Qed.
Lemma wf_map m : wf (Map m) -> nlen m < u64 /\ Forall (fun e => nlen (fst e) < u64 /\ wf (snd e)) m.
Proof. cbn. intros [H A]. split; [exact H|]. clear H. induction m as [|e m IH]; constructor; [apply A | apply IH, A]. Qed.

Lemma depth_list_le l y : In y l -> (depth y < depth (List l))%nat.
Proof. cbn. induction l as [|z l IH]; cbn; [tauto|]. intros [->|H]; [lia|]. specialize (IH H). lia. Qed.
Lemma depth_map_le m e : In e m -> (depth (snd e) < depth (Map m))%nat.
Proof. cbn. induction m as [|z m IH]; cbn; [tauto|]. intros [->|H]; [lia|]. specialize (IH H). lia. Qed.

(* ---------- the generic head branch ---------- *)
Definition dec_body (f : nat) (mj n : N) (r : str) : option (node * str) :=
  if mj =? 0 then Some (Int (Z.of_N n), r)
  else if mj =? 1 then Some (Int (-1 - Z.of_N n), r)
  else if mj =? 2 then match take n r with Some (b, r') => Some (Bytes b, r') | None => None end
  else if mj =? 3 then match take n r with Some (s, r') => Some (Str s, r') | None => None end
  else if mj =? 4 then
    if n <=? nlen r then
      match dec_items (dec f) (N.to_nat n) r with Some (l, r') => Some (List l, r') | None => None end
    else None
  else if mj =? 5 then
    if n <=? nlen r then
      match dec_entries (dec f) (N.to_nat n) r with Some (m, r') => Some (Map m, r') | None => None end
    else None
  else None.

Lemma dec_via_head f mj n r : mj < 6 -> n < u64 -> dec (S f) (head mj n ++ r) = dec_body f mj n r.
Proof.
  intros Hm Hn. destruct (head_first mj n Hm) as (b & t & E & Hb).
  cbn [dec]. rewrite E. cbn [app].
  destruct (N.eqb_spec b 246); [lia|]. destruct (N.eqb_spec b 245); [lia|].
  destruct (N.eqb_spec b 244); [lia|]. destruct (N.eqb_spec b 251); [lia|].
  destruct (N.eqb_spec b 216); [lia|].
  change (b :: t ++ r) with ((b :: t) ++ r). rewrite <- E, dec_head_head by lia. reflexivity.
Qed.

Lemma encode_nonempty x : (1 <= length (encode x))%nat.
Proof.
  destruct x; cbn [encode]; try (cbn; lia).
  - destruct b; cbn; lia.
  - destruct (0 <=? z)%Z; match goal with |- context [head ?a ?b] => destruct (head_first a b ltac:(lia)) as (? & ? & -> & _) end; cbn; lia.
  - destruct (head_first 3 (nlen s) ltac:(lia)) as (? & ? & -> & _); cbn; lia.
  - destruct (head_first 2 (nlen b) ltac:(lia)) as (? & ? & -> & _); cbn; lia.
  - destruct (head_first 4 (nlen l) ltac:(lia)) as (? & ? & -> & _); cbn; lia.
  - destruct (head_first 5 (nlen m) ltac:(lia)) as (? & ? & -> & _); cbn; lia.
Qed.

Lemma concat_len_ge (l : list node) : (length l <= length (concat (map encode l)))%nat.
Proof. induction l as [|y l IH]; cbn; [lia|]. rewrite app_length. pose proof (encode_nonempty y). lia. Qed.

Lemma dec_items_ok f l : forall r,
  Forall (fun y => forall r, dec f (encode y ++ r) = Some (canon y, r)) l ->
  dec_items (dec f) (length l) (concat (map encode l) ++ r) = Some (map canon l, r).
Proof.
  induction l as [|y l IH]; intros r H; cbn; [reflexivity|].
  apply Forall_cons_iff in H as [Hy Hl]. rewrite <- app_assoc, Hy, IH by exact Hl. reflexivity.
Qed.

Definition enc_e (e : str * node) : str := enc_entry (fst e, encode (snd e)).

Lemma dec_entries_ok f es : forall r,
  Forall (fun e => nlen (fst e) < u64 /\ forall r, dec f (encode (snd e) ++ r) = Some (canon (snd e), r)) es ->
  dec_entries (dec f) (length es) (concat (map enc_e es) ++ r) = Some (map (fun e => (fst e, canon (snd e))) es, r).
Proof.
  induction es as [|e es IH]; intros r H; cbn [length dec_entries map concat]; [reflexivity|].
  apply Forall_cons_iff in H as [[Hk Hy] Hl].
  unfold enc_e at 1, enc_entry. cbn [fst snd]. rewrite <- !app_assoc, dec_head_head by (assumption || lia).
  cbn [N.eqb Pos.eqb]. rewrite take_app, Hy, IH by exact Hl. reflexivity.
Qed.

Lemma entries_len_ge (es : list (str * node)) : (length es <= length (concat (map enc_e es)))%nat.
Proof.
  induction es as [|e es IH]; cbn; [lia|]. rewrite app_length. unfold enc_e at 1, enc_entry.
  destruct (head_first 3 (nlen (fst (fst e, encode (snd e)))) ltac:(lia)) as (? & ? & -> & _). cbn. lia.
Qed.

Theorem dec_encode : forall x, wf x -> forall f r, (depth x <= f)%nat -> dec f (encode x ++ r) = Some (canon x, r).
Proof.
  induction x as [| b | z | bits | s | s | l H | m H | c] using node_ind'; intros Hwf f r Hf; (destruct f as [|f]; [cbn in Hf; lia|]).
  - reflexivity.
  - destruct b; reflexivity.
  - cbn [encode canon]. cbn in Hwf. destruct (Z.leb_spec 0 z).
    + rewrite dec_via_head by (unfold u64; lia). unfold dec_body. cbn [N.eqb]. rewrite Z2N.id by lia. reflexivity.
    + rewrite dec_via_head by (unfold u64; lia). unfold dec_body. cbn [N.eqb Pos.eqb]. rewrite Z2N.id by lia. repeat f_equal. lia.
  - cbn [encode canon app dec]. cbn [N.eqb Pos.eqb]. change 8 with (N.of_nat 8). rewrite take_be, be_roundtrip; [reflexivity|]. cbn in Hwf. unfold u64 in Hwf. cbn. lia.
  - cbn [encode canon]. cbn in Hwf. rewrite <- app_assoc, dec_via_head by lia. unfold dec_body. cbn [N.eqb Pos.eqb]. rewrite take_app. reflexivity.
  - cbn [encode canon]. cbn in Hwf. rewrite <- app_assoc, dec_via_head by lia. unfold dec_body. cbn [N.eqb Pos.eqb]. rewrite take_app. reflexivity.
  - (* list *)
    apply wf_list in Hwf as [Hn Hall]. cbn [encode canon]. rewrite <- app_assoc, dec_via_head by lia.
    unfold dec_body. cbn [N.eqb Pos.eqb].
    destruct (N.leb_spec (nlen l) (nlen (concat (map encode l) ++ r))) as [_|Hbad].
    2:{ unfold nlen in Hbad. rewrite app_length in Hbad. pose proof (concat_len_ge l). lia. }
    unfold nlen at 1. rewrite Nat2N.id, dec_items_ok; [reflexivity|].
    rewrite Forall_forall in *. intros y Hy r'. apply H; [exact Hy | apply Hall; exact Hy |].
    pose proof (depth_list_le l y Hy). lia.
  - (* map *)
    apply wf_map in Hwf as [Hn Hall]. cbn [encode canon].
    rewrite (sortk_map encode), (sortk_map canon), map_map.
    change (map (fun x => enc_entry (fst x, encode (snd x))) (sortk m)) with (map enc_e (sortk m)).
    rewrite <- app_assoc, dec_via_head by lia.
    unfold dec_body. cbn [N.eqb Pos.eqb].
    destruct (N.leb_spec (nlen m) (nlen (concat (map enc_e (sortk m)) ++ r))) as [_|Hbad].
    2:{ unfold nlen in Hbad. rewrite app_length in Hbad. pose proof (entries_len_ge (sortk m)). rewrite sortk_len in *. lia. }
    unfold nlen at 1. rewrite Nat2N.id, <- (sortk_len m), dec_entries_ok; [reflexivity|].
    rewrite Forall_forall in *. intros e He. apply sortk_in in He. split; [apply Hall; exact He|].
    intros r'. apply H; [exact He | apply Hall; exact He |].
    pose proof (depth_map_le m e He). lia.
  - (* link *)
    cbn [encode canon]. cbn in Hwf. cbn [app]. rewrite <- app_assoc. cbn [app dec]. cbn [N.eqb Pos.eqb].
    rewrite dec_head_head by (assumption || lia). cbn [N.eqb Pos.eqb].
    replace (1 + nlen c) with (nlen (0 :: c)) by (unfold nlen; cbn [length]; lia).
    change (0 :: c ++ r) with ((0 :: c) ++ r). rewrite take_app. reflexivity.
Qed.

Corollary encode_injective x y r1 r2 :
  wf x -> wf y -> encode x ++ r1 = encode y ++ r2 -> canon x = canon y /\ r1 = r2.
Proof.
  intros Hx Hy E.
  pose proof (dec_encode x Hx (max (depth x) (depth y)) r1 ltac:(lia)) as H1.
  pose proof (dec_encode y Hy (max (depth x) (depth y)) r2 ltac:(lia)) as H2.
  rewrite E, H2 in H1. injection H1 as <- <-. auto.
Qed.

Corollary encode_eq_iff x y : canon x = x -> canon y = y -> wf x -> wf y -> (encode x = encode y <-> x = y).
Proof.
  intros Hx Hy Wx Wy. split; [|intros ->; reflexivity]. intros E.
  destruct (encode_injective x y [] [] Wx Wy) as [H _]; [rewrite !app_nil_r; exact E|]. congruence.
Qed.
