(* The acceptance condition of a sealed token's bytes (envelope.DecodeSealed): decode, re-encode, compare.
   Consequences for C08: every accepted byte string is the encoding of what it decodes to, and two accepted
   byte strings with the same content (up to the order of map entries) are the same byte string. *)
Require Import Base Node Cbor CborProofs.
From Coq Require Import ZifyBool ZifyNat ZifyN.
Local Open Scope N_scope.

(* go-ucan's DecodeSealed on a byte string: the decoder's result is kept only if its canonical encoding
   is the input itself *)
Definition sealed_decode_f (fuel : nat) (b : str) : option node :=
  match dec fuel b with
  | Some (n, []) => if str_eqb (encode n) b then Some n else None
  | _ => None
  end.

Definition sealed_decode (b : str) : option node := sealed_decode_f (3 + length b) b.

Theorem sealed_bytes_are_the_encoding f b n : sealed_decode_f f b = Some n -> encode n = b.
Proof.
  unfold sealed_decode_f. destruct (dec _ b) as [[n' r]|]; [|discriminate]. destruct r; [|discriminate].
  destruct (str_eqb (encode n') b) eqn:E; [|discriminate]. intros [= <-]. apply str_eqb_eq. exact E.
Qed.

(* ---- the encoding does not depend on the order of map entries (keys being distinct) ---- *)
Lemma lex_ltb_irrefl a : lex_ltb a a = false.
Proof. induction a as [|x a IH]; cbn [lex_ltb]; [reflexivity|]. rewrite N.ltb_irrefl. exact IH. Qed.

Lemma lex_trichotomy a : forall b, length a = length b -> lex_ltb a b = false -> lex_ltb b a = false -> a = b.
Proof.
  induction a as [|x a IH]; intros [|y b] Hl H1 H2; cbn in *; try discriminate; [reflexivity|].
  destruct (N.ltb_spec x y); [discriminate|]. destruct (N.ltb_spec y x); [discriminate|].
  assert (x = y) by lia. subst. f_equal. apply IH; [lia|assumption|assumption].
Qed.

Lemma key_trichotomy a b : key_ltb a b = false -> key_ltb b a = false -> a = b.
Proof.
  unfold key_ltb. intros Hab Hba.
  destruct (Nat.ltb_spec (length a) (length b)) as [L1|L1]; [discriminate|].
  destruct (Nat.ltb_spec (length b) (length a)) as [L2|L2]; [discriminate|].
  apply lex_trichotomy; [lia|assumption|assumption].
Qed.

Lemma key_ltb_asym a b : key_ltb a b = true -> key_ltb b a = false.
Proof.
  unfold key_ltb. destruct (Nat.ltb_spec (length a) (length b)).
  - intros _. destruct (Nat.ltb_spec (length b) (length a)); [lia|]. destruct (Nat.ltb_spec (length a) (length b)); [reflexivity|lia].
  - destruct (Nat.ltb_spec (length b) (length a)); [discriminate|]. intros H'.
    destruct (Nat.ltb_spec (length b) (length a)); [lia|]. destruct (Nat.ltb_spec (length a) (length b)); [lia|].
    assert (G : forall a b, length a = length b -> lex_ltb a b = true -> lex_ltb b a = false).
    { clear. induction a as [|x a IH]; intros [|y b] Hl Ht; cbn in *; try discriminate.
      destruct (N.ltb_spec x y).
      - destruct (N.ltb_spec y x); [lia|]. destruct (N.ltb_spec x y); [reflexivity|lia].
      - destruct (N.ltb_spec y x); [discriminate|]. destruct (N.ltb_spec y x); [lia|]. destruct (N.ltb_spec x y); [lia|].
        apply IH; [lia|exact Ht]. }
    apply G; [lia|exact H'].
Qed.

Section SortFacts.
  Context {V : Type}.
  (* strictly increasing keys *)
  Fixpoint ssorted (l : list (str * V)) : Prop :=
    match l with
    | [] => True
    | e :: r => match r with [] => True | e' :: _ => key_ltb (fst e) (fst e') = true end /\ ssorted r
    end.

  Lemma insert_head (e : str * V) l : exists h t, insert e l = h :: t /\ (h = e \/ exists t', l = h :: t').
  Proof. destruct l as [|x l]; cbn; [eauto|]. destruct (key_ltb (fst e) (fst x)); eauto 6. Qed.

  Lemma insert_ssorted (e : str * V) l : ssorted l -> ~ In (fst e) (map fst l) -> ssorted (insert e l).
  Proof.
    induction l as [|x l IH]; intros Hs Hn; cbn [insert]; [cbn; auto|].
    destruct (key_ltb (fst e) (fst x)) eqn:E; [cbn [ssorted]; auto|].
    assert (Hxe : key_ltb (fst x) (fst e) = true).
    { destruct (key_ltb (fst x) (fst e)) eqn:E2; [reflexivity|]. exfalso. apply Hn. left. symmetry. apply key_trichotomy; assumption. }
    destruct Hs as [Hx Hl]. cbn [ssorted]. split.
    - destruct (insert_head e l) as (h & t & Eh & [->|(t' & ->)]); rewrite Eh; [exact Hxe|exact Hx].
    - apply IH; [exact Hl|]. intros Hi. apply Hn. right. exact Hi.
  Qed.

  Lemma insert_keys (e : str * V) l x : In x (map fst (insert e l)) <-> x = fst e \/ In x (map fst l).
  Proof.
    induction l as [|y l IH]; cbn [insert map In].
    - split; intros [H|H]; auto.
    - destruct (key_ltb (fst e) (fst y)); cbn [map In].
      + split; intros [H|H]; auto.
      + rewrite IH. split; [intros [H|[H|H]]|intros [H|[H|H]]]; auto.
  Qed.
  Lemma sortk_keys (l : list (str * V)) x : In x (map fst (sortk l)) <-> In x (map fst l).
  Proof.
    induction l as [|e l IH]; cbn [sortk map In]; [tauto|]. rewrite insert_keys, IH.
    split; intros [H|H]; auto.
  Qed.
  Lemma sortk_ssorted (l : list (str * V)) : NoDup (map fst l) -> ssorted (sortk l).
  Proof.
    induction l as [|e l IH]; intros Hn; cbn [sortk]; [exact I|]. inversion Hn as [|? ? Hni Hn']; subst.
    apply insert_ssorted; [apply IH; exact Hn'|]. rewrite sortk_keys. exact Hni.
  Qed.

  Lemma insert_below (e x : str * V) l : key_ltb (fst e) (fst x) = true -> insert e (x :: l) = e :: x :: l.
  Proof. intros H. cbn [insert]. rewrite H. reflexivity. Qed.

  Lemma sortk_of_ssorted (l : list (str * V)) : ssorted l -> sortk l = l.
  Proof.
    induction l as [|e l IH]; intros Hs; [reflexivity|]. destruct Hs as [He Hl]. cbn [sortk]. rewrite (IH Hl).
    destruct l as [|x l']; [reflexivity|]. apply insert_below. exact He.
  Qed.

  Lemma sortk_idem (l : list (str * V)) : NoDup (map fst l) -> sortk (sortk l) = sortk l.
  Proof. intros H. apply sortk_of_ssorted, sortk_ssorted. exact H. Qed.
End SortFacts.

(* maps have distinct keys, at every depth (decoders refuse repeated keys) *)
Fixpoint keys_distinct (x : node) : Prop :=
  match x with
  | List l => (fix all (l : list node) : Prop := match l with [] => True | y :: r => keys_distinct y /\ all r end) l
  | Map m => NoDup (map fst m) /\
             (fix all (m : list (str * node)) : Prop := match m with [] => True | e :: r => keys_distinct (snd e) /\ all r end) m
  | _ => True
  end.

Lemma map_fst_lift {A B} (f : A -> B) (m : list (str * A)) : map fst (map (fun e => (fst e, f (snd e))) m) = map fst m.
Proof. induction m as [|e r IH]; cbn; f_equal; auto. Qed.

Theorem encode_canon x : keys_distinct x -> encode (canon x) = encode x.
Proof.
  induction x as [| b | z | bits | s | s | l IH | m IH | c] using node_ind'; intros Hk; try reflexivity.
  - cbn [canon encode]. unfold nlen. rewrite map_length. f_equal. f_equal.
    induction IH as [|y r Hy _ IHr]; [reflexivity|]. destruct Hk as [Hk1 Hk2]. cbn [map]. rewrite (Hy Hk1), (IHr Hk2). reflexivity.
  - destruct Hk as [Hnd Hk]. cbn [canon encode].
    assert (E : map (fun e => (fst e, encode (snd e))) (sortk (map (fun e => (fst e, canon (snd e))) m))
                = sortk (map (fun e => (fst e, encode (snd e))) m)).
    { rewrite (sortk_map canon), map_map. cbn [fst snd].
      assert (Em : map (fun x => (fst x, encode (canon (snd x)))) (sortk m) = map (fun x => (fst x, encode (snd x))) (sortk m)).
      { apply map_ext_in. intros e He. f_equal. apply sortk_in in He.
        clear Hnd. induction IH as [|y r Hy _ IHr]; [contradiction|]. destruct Hk as [Hk1 Hk2].
        destruct He as [->|He]; [apply Hy; exact Hk1 | apply IHr; assumption]. }
      rewrite Em. rewrite <- (sortk_map encode). reflexivity. }
    rewrite E. unfold nlen. rewrite sortk_len, map_length.
    rewrite sortk_idem by (rewrite map_fst_lift; exact Hnd). reflexivity.
Qed.

(* two accepted byte strings whose contents agree up to map-entry order are equal (hence same CID) *)
Theorem sealed_unique f1 f2 b1 b2 n1 n2 :
  sealed_decode_f f1 b1 = Some n1 -> sealed_decode_f f2 b2 = Some n2 ->
  keys_distinct n1 -> keys_distinct n2 -> canon n1 = canon n2 -> b1 = b2.
Proof.
  intros H1 H2 K1 K2 Hc. apply sealed_bytes_are_the_encoding in H1, H2.
  rewrite <- H1, <- H2, <- (encode_canon n1 K1), <- (encode_canon n2 K2), Hc. reflexivity.
Qed.

(* and what sealing produces is accepted *)
Theorem sealed_accepts_encoding x f : wf x -> keys_distinct x -> (depth x <= f)%nat ->
  sealed_decode_f f (encode x) = Some (canon x).
Proof.
  intros Hw Hk Hf. unfold sealed_decode_f.
  rewrite <- (app_nil_r (encode x)) at 1. rewrite (dec_encode x Hw f [] Hf).
  rewrite (encode_canon x Hk), str_eqb_refl. reflexivity.
Qed.
