(* C17 - A container returns exactly the tokens put in, under their true CIDs. *)
From Coq Require Import String Permutation.
Require Import Base Node Cbor CborProofs Varint Base64 Base64Proofs Container ContainerProofs.
Local Open Scope N_scope.

(* sha256 / mh_sum: the hash functions (mh_sum code len = the digest a multihash header prescribes);
   unseal: token.FromSealed, the verified decoding of one entry. [blobs] is the list of sealed tokens in
   the order the writer's map iteration happened to produce. *)
Theorem C17_car_roundtrip : forall sha256 mh_sum (tok : Type) (unseal : str -> res tok),
  (forall d, length (sha256 d) = 32%nat) -> (forall d, mh_sum 18 32 d = Ok (sha256 d)) ->
  forall blobs, Forall (block_ok sha256) blobs ->
  read_car sha256 mh_sum tok unseal (write_car sha256 blobs) = add_tokens sha256 tok unseal blobs [].
Proof. exact car_roundtrip. Qed.
Print Assumptions C17_car_roundtrip.

Theorem C17_cbor_roundtrip : forall sha256 mh_sum (tok : Type) (unseal : str -> res tok),
  (forall d, length (sha256 d) = 32%nat) -> (forall d, mh_sum 18 32 d = Ok (sha256 d)) ->
  forall blobs, blobs_wf blobs ->
  read_cbor sha256 tok unseal (write_cbor blobs) = add_tokens sha256 tok unseal blobs [].
Proof. exact cbor_roundtrip. Qed.
Print Assumptions C17_cbor_roundtrip.

Theorem C17_car_base64_roundtrip : forall sha256 mh_sum (tok : Type) (unseal : str -> res tok),
  (forall d, length (sha256 d) = 32%nat) -> (forall d, mh_sum 18 32 d = Ok (sha256 d)) ->
  (forall d, Forall (fun x => x < 256) (sha256 d)) ->
  forall blobs, Forall (block_ok sha256) blobs -> bytes_ok blobs ->
  read_car_b64 sha256 mh_sum tok unseal (write_car_b64 sha256 blobs) = add_tokens sha256 tok unseal blobs [].
Proof. exact car_b64_roundtrip. Qed.
Print Assumptions C17_car_base64_roundtrip.

Theorem C17_cbor_base64_roundtrip : forall sha256 mh_sum (tok : Type) (unseal : str -> res tok),
  (forall d, length (sha256 d) = 32%nat) -> (forall d, mh_sum 18 32 d = Ok (sha256 d)) ->
  (forall d, Forall (fun x => x < 256) (sha256 d)) ->
  forall blobs, blobs_wf blobs -> bytes_ok blobs ->
  read_cbor_b64 sha256 tok unseal (write_cbor_b64 blobs) = add_tokens sha256 tok unseal blobs [].
Proof. exact cbor_b64_roundtrip. Qed.
Print Assumptions C17_cbor_base64_roundtrip.

(* the set that comes out: each token under the CID of its sealed bytes, nothing else *)
Theorem C17_each_token_under_its_true_cid : forall sha256 (tok : Type) (unseal : str -> res tok) blobs m m' c,
  add_tokens sha256 tok unseal blobs m = Ok m' ->
  (forall d1 d2, In d1 blobs -> In d2 blobs -> cid_of sha256 d1 = cid_of sha256 d2 -> d1 = d2) ->
  lookup tok c m' = match find (fun d => str_eqb (cid_of sha256 d) c) blobs with
                    | Some d => match unseal d with Ok t => Some t | _ => None end
                    | None => lookup tok c m
                    end.
Proof. exact add_tokens_lookup. Qed.
Print Assumptions C17_each_token_under_its_true_cid.

Theorem C17_independent_of_insertion_order : forall sha256 (tok : Type) (unseal : str -> res tok) blobs blobs' m1 m2 c,
  Permutation blobs blobs' -> NoDup blobs ->
  (forall d1 d2, In d1 blobs -> In d2 blobs -> cid_of sha256 d1 = cid_of sha256 d2 -> d1 = d2) ->
  add_tokens sha256 tok unseal blobs [] = Ok m1 -> add_tokens sha256 tok unseal blobs' [] = Ok m2 ->
  lookup tok c m1 = lookup tok c m2.
Proof. exact add_tokens_order_irrelevant. Qed.
Print Assumptions C17_independent_of_insertion_order.

(* all or nothing *)
Theorem C17_every_entry_was_verified : forall sha256 (tok : Type) (unseal : str -> res tok) blobs m m',
  add_tokens sha256 tok unseal blobs m = Ok m' -> Forall (fun d => exists t, unseal d = Ok t) blobs.
Proof. exact add_tokens_all_verified. Qed.
Print Assumptions C17_every_entry_was_verified.

Theorem C17_one_bad_entry_fails_the_read : forall sha256 (tok : Type) (unseal : str -> res tok) blobs1 d blobs2 m e,
  Forall (fun x => exists t, unseal x = Ok t) blobs1 -> unseal d = Err e ->
  add_tokens sha256 tok unseal (blobs1 ++ d :: blobs2) m = Err e.
Proof. exact add_tokens_one_bad. Qed.
Print Assumptions C17_one_bad_entry_fails_the_read.

Theorem C17_car_block_under_wrong_cid_rejected : forall sha256 mh_sum (tok : Type) (unseal : str -> res tok),
  (forall d, length (sha256 d) = 32%nat) -> (forall d, mh_sum 18 32 d = Ok (sha256 d)) ->
  forall ver codec code len dg data h,
  ver < 128 -> codec < 128 -> code < 128 -> len < 128 -> ver = 1 ->
  length dg = N.to_nat len -> mh_sum code len data = Ok h -> h <> dg ->
  check_block mh_sum (ver :: codec :: code :: len :: dg ++ data) = Err 7.
Proof. exact car_integrity. Qed.
Print Assumptions C17_car_block_under_wrong_cid_rejected.

Theorem C17_section_framing_roundtrip : forall d rest, d <> [] -> N.of_nat (length d) <= max_section ->
  ld_read (ld_write d ++ rest) = Ok (Some (d, rest)).
Proof. exact ld_read_write. Qed.
Print Assumptions C17_section_framing_roundtrip.

Theorem C17_zero_and_oversize_sections_rejected : forall l r s,
  go_read_uvarint s = Ok (l, r) -> (l = 0 \/ max_section < l) -> s <> [] -> exists e, ld_read s = Err e.
Proof. exact ld_read_rejects_zero_and_oversize. Qed.
Print Assumptions C17_zero_and_oversize_sections_rejected.

Theorem C17_base64_roundtrip : forall b, Forall (fun x => x < 256) b -> b64_decode (b64_encode b) = Ok b.
Proof. exact b64_decode_encode. Qed.
Print Assumptions C17_base64_roundtrip.
