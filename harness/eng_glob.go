package main

import (
	"strconv"

	"github.com/ipld/go-ipld-prime/datamodel"
	"github.com/ipld/go-ipld-prime/fluent/qp"
	"github.com/ipld/go-ipld-prime/node/basicnode"

	"github.com/ucan-wg/go-ucan/pkg/policy"
)

func init() { register(&Engine{Name: "glob", Gen: genGlob}) }

// like goes through the public API: Like(".", pattern) then Policy.Match on a string node.
func globObs(pattern, s string) W {
	pol, err := policy.Construct(policy.Like(".", pattern))
	if err != nil {
		return WErr()
	}
	ok, _ := pol.Match(basicnode.NewString(s))
	return WOk(WBool(ok))
}

// the same statement as it arrives from outside: [["like", ".", pattern]] read with policy.FromIPLD and,
// when the pattern is text, with policy.FromDagJson. A like statement means the same whichever way the
// policy came into being; the two decoded routes must agree or the observation is a disagreement.
func globObsDecoded(pattern, s string) W {
	nd, err := qp.BuildList(basicnode.Prototype.Any, 1, func(la datamodel.ListAssembler) {
		qp.ListEntry(la, qp.List(3, func(st datamodel.ListAssembler) {
			qp.ListEntry(st, qp.String("like"))
			qp.ListEntry(st, qp.String("."))
			qp.ListEntry(st, qp.String(pattern))
		}))
	})
	if err != nil {
		return WStr("build-failed")
	}
	pol, err := policy.FromIPLD(nd)
	if err != nil {
		return WErr()
	}
	ok, _ := pol.Match(basicnode.NewString(s))
	if isPlainText(pattern) {
		pj, err := policy.FromDagJson(`[["like",".",` + strconv.Quote(pattern) + `]]`)
		if err != nil {
			return WStr("json-route-refused")
		}
		okj, _ := pj.Match(basicnode.NewString(s))
		if okj != ok {
			return WStr("ipld-and-json-routes-disagree")
		}
	}
	return WOk(WBool(ok))
}

func isPlainText(s string) bool {
	for i := 0; i < len(s); i++ {
		if s[i] < 0x20 || s[i] > 0x7e {
			return false
		}
	}
	return true
}

func genGlob(c *Ctx) {
	maxLen := 5
	if c.Thorough() {
		maxLen = 7
	}
	var all []string
	allStrings("a*\\", maxLen, func(s string) { all = append(all, s) })
	for _, p := range all {
		for _, s := range all {
			c.Emit("like/exh", WList(WStr(p), WStr(s)), globObs(p, s))
			if len(p) < maxLen && len(s) < maxLen {
				c.Emit("like/decoded", WList(WStr(p), WStr(s)), globObsDecoded(p, s))
			}
		}
	}
	// F9 witnesses and suite examples first-class in every run
	for _, ps := range [][2]string{{"*", "*a"}, {"a*", "a*b"}, {"*b", "*ab"}, {`\*`, "*"}, {`\*`, `\*`}, {`\\`, `\`},
		{`Alice\*, Bob*, Carol.`, "Alice*, Bob, Dan, Erin, Carol."}, {`Alice\*, Bob*, Carol.`, "Alice, Bob, Carol."}, {"", ""}, {"**", ""}} {
		c.Emit("like/corpus", WList(WStr(ps[0]), WStr(ps[1])), globObs(ps[0], ps[1]))
		c.Emit("like/decoded", WList(WStr(ps[0]), WStr(ps[1])), globObsDecoded(ps[0], ps[1]))
	}
	// text outside ASCII and bytes that are not UTF-8: every sequence of up to 3 (patterns) / 3 (strings) pieces
	// from multi-byte characters, U+FFFD, invalid bytes, the wildcard and the escape
	pieces := []string{"é", "\ufffd", "\xff", "\xfe", "\xc3", "*", "\\", "a"}
	var seqs []string
	var rec func(prefix string, depth int)
	rec = func(prefix string, depth int) {
		seqs = append(seqs, prefix)
		if depth == 0 {
			return
		}
		for _, x := range pieces {
			rec(prefix+x, depth-1)
		}
	}
	rec("", 3)
	// the zero byte and the last code point of the basic plane (values an implementation may be
	// tempted to use as "no byte" / "no character"), all pairs
	first := len(seqs)
	pieces = []string{"\x00", "\uffff", "*", "\\", "a"}
	rec("", 3)
	for _, p := range seqs[first:] {
		for _, sv := range seqs[first:] {
			c.Emit("like/sentinels", WList(WStr(p), WStr(sv)), globObs(p, sv))
			c.Emit("like/decoded", WList(WStr(p), WStr(sv)), globObsDecoded(p, sv))
		}
	}
	seqs = seqs[:first]
	for pi, p := range seqs {
		for si, sv := range seqs {
			if !c.Thorough() && (pi*7+si)%5 != 0 {
				continue
			}
			c.Emit("like/bytes", WList(WStr(p), WStr(sv)), globObs(p, sv))
		}
	}
	n := 30000
	if c.Thorough() {
		n = 1000000
	}
	for i := 0; i < n; i++ {
		p := c.R.Str("ab*\\.", 10)
		var s string
		if c.R.Chance(70) {
			// derive the string from the pattern so that matches are frequent
			b := []byte{}
			for k := 0; k < len(p); k++ {
				switch {
				case p[k] == '*':
					if c.R.Chance(30) {
						b = append(b, '*')
					}
					b = append(b, c.R.Str("ab*\\.", 3)...)
				case p[k] == '\\' && k+1 < len(p):
					k++
					b = append(b, p[k])
				default:
					b = append(b, p[k])
				}
			}
			if c.R.Chance(15) && len(b) > 0 {
				b[c.R.Intn(len(b))] = "ab*\\."[c.R.Intn(5)]
			}
			s = string(b)
		} else {
			s = c.R.Str("ab*\\.", 12)
		}
		c.Emit("like/rnd", WList(WStr(p), WStr(s)), globObs(p, s))
		if i%4 == 0 {
			c.Emit("like/decoded", WList(WStr(p), WStr(s)), globObsDecoded(p, s))
		}
	}
}
