Require Import Base Node Meta.
Local Open Scope N_scope.

Section Thms.
  Variable box : str -> str -> str -> str.
  Variable unbox : str -> str -> str -> option str.
  (* correctness of secretbox *)
  Hypothesis unbox_box : forall k n p, unbox k n (box k n p) = Some p.

  Notation encrypt := (encrypt box).
  Notation decrypt := (decrypt unbox).

  Theorem key_refused key nonce data :
    (key = None \/ (exists k, key = Some k /\ (length k <> 32%nat \/ forallb (N.eqb 0) k = true))) ->
    (exists e, encrypt key nonce data = Err e) /\ (exists e, decrypt key data = Err e).
  Proof.
    intros [->|(k & -> & H)]; unfold Meta.encrypt, Meta.decrypt, validate_key.
    - split; eauto.
    - destruct (Nat.eqb_spec (length k) 32); cbn [negb].
      + destruct H as [H|H]; [contradiction|]. rewrite H. split; eauto.
      + split; eauto.
  Qed.

  Lemma validate_good k : length k = 32%nat -> forallb (N.eqb 0) k = false -> validate_key (Some k) = Ok k.
  Proof. intros Hl Hz. unfold validate_key. rewrite Hl, Hz. reflexivity. Qed.

  Lemma firstn_app_len' {A} (a b : list A) : firstn (length a) (a ++ b) = a.
  Proof. induction a; cbn; f_equal; auto. Qed.
  Lemma skipn_app_len' {A} (a b : list A) : skipn (length a) (a ++ b) = b.
  Proof. induction a; cbn; auto. Qed.

  Theorem enc_roundtrip k nonce data : length k = 32%nat -> forallb (N.eqb 0) k = false -> length nonce = 24%nat ->
    exists ct, encrypt (Some k) nonce data = Ok ct /\ decrypt (Some k) ct = Ok data.
  Proof.
    intros Hl Hz Hn. unfold Meta.encrypt, Meta.decrypt. rewrite (validate_good k Hl Hz). eexists. split; [reflexivity|].
    rewrite app_length, Hn. cbn [Nat.ltb Nat.leb plus]. rewrite <- Hn, firstn_app_len', skipn_app_len', unbox_box. reflexivity.
  Qed.

  (* two encryptions of the same value under fresh (different) nonces differ: the nonce is a prefix *)
  Theorem fresh_nonce_distinct k n1 n2 data c1 c2 : length n1 = 24%nat -> length n2 = 24%nat -> n1 <> n2 ->
    encrypt (Some k) n1 data = Ok c1 -> encrypt (Some k) n2 data = Ok c2 -> c1 <> c2.
  Proof.
    intros H1 H2 Hne. unfold Meta.encrypt. destruct (validate_key (Some k)) as [k'|e|]; try discriminate.
    intros [= <-] [= <-] E. apply Hne.
    apply (f_equal (firstn 24)) in E.
    assert (F1 : firstn 24 (n1 ++ box k' n1 data) = n1) by (rewrite <- H1; apply firstn_app_len').
    assert (F2 : firstn 24 (n2 ++ box k' n2 data) = n2) by (rewrite <- H2; apply firstn_app_len').
    congruence.
  Qed.

  Theorem short_ciphertext_err k data : length k = 32%nat -> forallb (N.eqb 0) k = false -> (length data < 24)%nat ->
    decrypt (Some k) data = Err 4.
  Proof.
    intros Hl Hz Hd. unfold Meta.decrypt. rewrite (validate_good k Hl Hz).
    destruct (Nat.ltb_spec (length data) 24); [reflexivity|lia].
  Qed.

  (* under the (idealised) authenticity of secretbox: only the exact output of the sealing key opens *)
  Theorem wrong_key_or_tamper_err :
    (forall k' n c p, unbox k' n c = Some p -> exists k, k' = k /\ c = box k n p) ->
    forall k k' nonce data ct ct', length k = 32%nat -> forallb (N.eqb 0) k = false -> length nonce = 24%nat ->
    encrypt (Some k) nonce data = Ok ct ->
    (forall p, decrypt (Some k') ct' = Ok p -> length ct' = length ct -> firstn 24 ct' = nonce ->
               skipn 24 ct' = box k' nonce p).
  Proof.
    intros Hauth k k' nonce data ct ct' Hl Hz Hn He p Hd Hlen Hf.
    unfold Meta.decrypt in Hd. destruct (validate_key (Some k')) as [k2|e|] eqn:Ev; try discriminate.
    destruct (Nat.ltb_spec (length ct') 24); [discriminate|].
    destruct (unbox k2 (firstn 24 ct') (skipn 24 ct')) as [p'|] eqn:Eu; [|discriminate]. injection Hd as ->.
    apply Hauth in Eu as (k3 & <- & Ec). rewrite Hf in Ec.
    unfold validate_key in Ev. destruct (negb _); [discriminate|]. destruct (forallb _ k'); [discriminate|]. injection Ev as <-. exact Ec.
  Qed.

  (* through the metadata container *)
  Lemma map_get_app_new k (v : node) m : map_get k m = None -> map_get k (m ++ [(k, v)]) = Some v.
  Proof.
    induction m as [|[k' v'] r IH]; cbn [map_get app]; [rewrite str_eqb_refl; reflexivity|].
    destruct (str_eqb k k'); [discriminate|]. exact IH.
  Qed.

  Theorem meta_enc_roundtrip m name val k nonce : length k = 32%nat -> forallb (N.eqb 0) k = false -> length nonce = 24%nat ->
    map_get name m = None ->
    exists m', add_encrypted box m name val (Some k) nonce = Ok m' /\ get_encrypted unbox m' name (Some k) = Ok val.
  Proof.
    intros Hl Hz Hn Hm. destruct (enc_roundtrip k nonce val Hl Hz Hn) as (ct & He & Hd).
    unfold add_encrypted, get_encrypted, meta_add. rewrite He, Hm. eexists. split; [reflexivity|].
    rewrite (map_get_app_new name (Bytes ct) m Hm). exact Hd.
  Qed.

  Theorem meta_bad_key_refused m name val key nonce :
    (key = None \/ (exists k, key = Some k /\ (length k <> 32%nat \/ forallb (N.eqb 0) k = true))) ->
    exists e, add_encrypted box m name val key nonce = Err e.
  Proof.
    intros H. destruct (key_refused key nonce val H) as [(e & He) _]. unfold add_encrypted. rewrite He. eauto.
  Qed.
End Thms.
