package main

// splitmix64: every random choice of a run derives from VERIF_SEED through this generator.
type Rng struct{ s uint64 }

func NewRng(seed uint64) *Rng { return &Rng{s: seed*0x9E3779B97F4A7C15 + 0x1234567} }

func (r *Rng) U64() uint64 {
	r.s += 0x9E3779B97F4A7C15
	z := r.s
	z = (z ^ (z >> 30)) * 0xBF58476D1CE4E5B9
	z = (z ^ (z >> 27)) * 0x94D049BB133111EB
	return z ^ (z >> 31)
}
func (r *Rng) Intn(n int) int {
	if n <= 0 {
		return 0
	}
	return int(r.U64() % uint64(n))
}
func (r *Rng) Bool() bool              { return r.U64()&1 == 1 }
func (r *Rng) Chance(p int) bool       { return r.Intn(100) < p } // p percent
func (r *Rng) Pick(ss []string) string { return ss[r.Intn(len(ss))] }
func (r *Rng) Str(alpha string, maxLen int) string {
	n := r.Intn(maxLen + 1)
	b := make([]byte, n)
	for i := range b {
		b[i] = alpha[r.Intn(len(alpha))]
	}
	return string(b)
}
func (r *Rng) Bytes(n int) []byte {
	b := make([]byte, n)
	for i := range b {
		b[i] = byte(r.U64())
	}
	return b
}

// allStrings enumerates every string over alpha with length <= maxLen.
func allStrings(alpha string, maxLen int, f func(string)) {
	var rec func(prefix []byte)
	rec = func(prefix []byte) {
		f(string(prefix))
		if len(prefix) == maxLen {
			return
		}
		for i := 0; i < len(alpha); i++ {
			rec(append(prefix, alpha[i]))
		}
	}
	rec(make([]byte, 0, maxLen))
}
