(* C10 - Only well-formed tokens come out of constructors and decoders. *)
From Coq Require Import String.
Require Import Base Node Did Command SelParse Policy PolicyIpld Generated Envelope EnvelopeProofs Token TokenProofs SealProofs Args ArgsProofs Literal LiteralProofs.
Local Open Scope N_scope.

Theorem C10_decoded_delegation_is_well_formed : forall n t, dlg_from_payload n = Ok t ->
  bind_struct dlg_schema n = true /\
  (exists s, did_parse s = Ok (dk_iss t)) /\ (exists s, did_parse s = Ok (dk_aud t)) /\
  (match dk_sub t with Some d => exists s, did_parse s = Ok d | None => True end) /\
  (exists s, Command.parse s = Ok (dk_cmd t)) /\
  (exists p, pol_from_ipld p = Ok (dk_pol t) /\ ints_in53 p = true) /\
  (12 <= length (dk_nonce t))%nat /\ opt_in53 (dk_nbf t) /\ opt_in53 (dk_exp t).
Proof. exact dlg_decoded_wf. Qed.
Print Assumptions C10_decoded_delegation_is_well_formed.

Theorem C10_decoded_invocation_is_well_formed : forall n t, inv_from_payload n = Ok t ->
  bind_struct inv_schema n = true /\
  (exists s, did_parse s = Ok (ik_iss t)) /\ (exists s, did_parse s = Ok (ik_sub t)) /\
  (match ik_aud t with Some d => exists s, did_parse s = Ok d | None => True end) /\
  (exists s, Command.parse s = Ok (ik_cmd t)) /\
  forallb (fun kv => ints_in53 (snd kv)) (ik_args t) = true /\
  (12 <= length (ik_nonce t))%nat /\ opt_in53 (ik_exp t) /\ opt_in53 (ik_iat t).
Proof. exact inv_decoded_wf. Qed.
Print Assumptions C10_decoded_invocation_is_well_formed.

(* constructors: after the options are applied and a nonce generated when none was given, validate() *)
Theorem C10_constructed_delegation_is_well_formed : forall iss aud sub cmd pol ng r12 meta nbf exp t,
  dlg_new iss aud sub cmd pol ng r12 meta nbf exp = Ok t ->
  defined (dk_iss t) = true /\ defined (dk_aud t) = true /\ (12 <= length (dk_nonce t))%nat /\
  Command.parse (dk_cmd t) = Ok (dk_cmd t) /\ opt_in53 (dk_nbf t) /\ opt_in53 (dk_exp t) /\
  ints_in53 (pol_to_ipld (dk_pol t)) = true /\
  t = {| dk_iss := iss; dk_aud := aud; dk_sub := sub; dk_cmd := cmd; dk_pol := pol;
         dk_nonce := default_nonce ng r12; dk_meta := meta; dk_nbf := nbf; dk_exp := exp |}.
Proof. exact dlg_new_wf. Qed.
Print Assumptions C10_constructed_delegation_is_well_formed.

Theorem C10_constructed_invocation_is_well_formed : forall iss sub aud cmd args prf ng r12 meta exp iat cause t,
  inv_new iss sub aud cmd args prf ng r12 meta exp iat cause = Ok t ->
  defined (ik_iss t) = true /\ defined (ik_sub t) = true /\ (12 <= length (ik_nonce t))%nat /\
  Command.parse (ik_cmd t) = Ok (ik_cmd t) /\ opt_in53 (ik_exp t) /\ opt_in53 (ik_iat t) /\
  ik_aud t = norm_aud sub aud.
Proof. exact inv_new_wf. Qed.
Print Assumptions C10_constructed_invocation_is_well_formed.

(* the signed part is exactly one header plus one payload under the requested tag *)
Theorem C10_envelope_shape : forall n i, inspect n = Ok i ->
  exists m, n = List [Bytes (in_sig i); Map m] /\ in_sigpayload i = Map m /\
    has_prefix ucan_prefix (in_tag i) = true /\
    (m = [(hdr_key, Bytes (in_hdr i)); (in_tag i, in_payload i)] \/
     m = [(in_tag i, in_payload i); (hdr_key, Bytes (in_hdr i))]).
Proof. exact inspect_shape. Qed.
Print Assumptions C10_envelope_shape.

Theorem C10_wrong_tag_rejected : forall verify header_of (A : Type) (bind : node -> res A) tag n i,
  inspect n = Ok i -> in_tag i <> tag -> exists e, env_decode verify header_of A bind tag n = Err e.
Proof. exact wrong_tag_rejected. Qed.
Print Assumptions C10_wrong_tag_rejected.

Theorem C10_delegation_never_returned_as_invocation : forall verify header_of sign hdr P,
  exists e, env_decode verify header_of itok inv_from_payload inv_tag (env_seal sign hdr dlg_tag P) = Err e.
Proof. exact no_cross_type_dlg_as_inv. Qed.
Print Assumptions C10_delegation_never_returned_as_invocation.

Theorem C10_invocation_never_returned_as_delegation : forall verify header_of sign hdr P,
  exists e, env_decode verify header_of dtok dlg_from_payload dlg_tag (env_seal sign hdr inv_tag P) = Err e.
Proof. exact no_cross_type_inv_as_dlg. Qed.
Print Assumptions C10_invocation_never_returned_as_delegation.

(* payload strictness, for any schema (in particular the two regenerated from the .ipldsch files) *)
Theorem C10_unknown_field_rejected : forall sc m k v,
  In (k, v) m -> (forall f, In f sc -> fname f <> k) -> bind_struct sc (Map m) = false.
Proof. exact unknown_field_rejected. Qed.
Print Assumptions C10_unknown_field_rejected.

Theorem C10_missing_required_field_rejected : forall sc m name k nl,
  In (name, k, false, nl) sc -> map_get name m = None -> bind_struct sc (Map m) = false.
Proof. exact missing_required_field_rejected. Qed.
Print Assumptions C10_missing_required_field_rejected.

Theorem C10_wrongly_typed_field_rejected : forall sc m name k o nl v,
  In (name, k, o, nl) sc -> map_get name m = Some v -> k <> 3 -> is_null v = false -> kind_ok k v = false ->
  bind_struct sc (Map m) = false.
Proof. exact wrongly_typed_field_rejected. Qed.
Print Assumptions C10_wrongly_typed_field_rejected.

Theorem C10_null_for_non_nullable_rejected : forall sc m name k o,
  In (name, k, o, false) sc -> map_get name m = Some Null -> k <> 3 -> bind_struct sc (Map m) = false.
Proof. exact null_for_non_nullable_rejected. Qed.
Print Assumptions C10_null_for_non_nullable_rejected.

(* the regenerated schemas are the ones the theorems above were checked against *)
Example C10_schemas_nonvacuous :
  List.length dlg_schema = 9%nat /\ List.length inv_schema = 11%nat /\
  In (lit "nonce", 1, false, false) dlg_schema /\ In (lit "exp", 2, false, true) inv_schema.
Proof. repeat split; vm_compute; auto 20. Qed.

(* pkg/args.Args and pkg/meta.Meta as containers (Args.v): a value offered to Add is stored exactly, under its
   key, after the existing entries and without touching them - or the call is refused (the key is taken; for
   arguments, the value holds an integer beyond +-(2^53-1)); Include keeps the first value of every key; what
   ToIPLD presents is every entry, sorted by key *)
Theorem C10_added_value_is_stored_exactly : forall ci a k v a',
  NoDup (map fst a) -> c_add ci a k v = Ok a' ->
  NoDup (map fst a') /\ map_get k a' = Some v /\ (forall k', k' <> k -> map_get k' a' = map_get k' a) /\
  map fst a' = map fst a ++ [k] /\ (ci = true -> ints_in53 v = true).
Proof. exact add_stores_exactly. Qed.
Print Assumptions C10_added_value_is_stored_exactly.

Theorem C10_add_refuses_taken_key_and_unsafe_integers : forall a k v,
  (has_key k a = true -> forall ci, c_add ci a k v = Err 1) /\
  (has_key k a = false -> ints_in53 v = false -> c_add true a k v = Err 2).
Proof. intros a k v. split; [intros H ci; apply add_rejects_duplicate; exact H|apply add_rejects_unsafe_integers]. Qed.
Print Assumptions C10_add_refuses_taken_key_and_unsafe_integers.

Theorem C10_include_first_value_wins : forall other a, NoDup (map fst a) ->
  NoDup (map fst (c_include a other)) /\
  (forall k, map_get k (c_include a other) = match map_get k a with Some v => Some v | None => map_get k other end).
Proof. exact include_first_wins. Qed.
Print Assumptions C10_include_first_value_wins.

Theorem C10_to_ipld_keeps_every_entry : forall a k, NoDup (map fst a) -> map_get k (c_sorted a) = map_get k a.
Proof. exact to_ipld_keeps_every_entry. Qed.
Print Assumptions C10_to_ipld_keeps_every_entry.

Theorem C10_invocation_arguments_are_the_first_value_per_key : forall os a a', NoDup (map fst a) -> apply_aopts a os = Ok a' ->
  NoDup (map fst a') /\ forall k, map_get k a' = match map_get k a with Some v => Some v | None => first_get k os end.
Proof. exact options_first_value_wins. Qed.
Print Assumptions C10_invocation_arguments_are_the_first_value_per_key.

(* ---- literal.Any, the conversion every argument, metadata value and policy literal a caller supplies goes through
   (Literal.v: Go values by reflect.Kind; the fast path and the reflective walk with its recovered panics): a value is
   stored as the node that says exactly what the value says - same scalars, same elements in order, same entries - or
   refused; never anything else, and never a panic. ---- *)
Theorem C10_supplied_value_is_stored_exactly_or_refused : forall v n, lit_any v = Ok n -> denotes v n.
Proof. exact lit_any_exact. Qed.
Print Assumptions C10_supplied_value_is_stored_exactly_or_refused.

Theorem C10_conversion_never_panics : forall v, lit_any v <> Panic.
Proof. exact lit_any_never_panics. Qed.
Print Assumptions C10_conversion_never_panics.

(* everything but a ready-made node comes out with its integers within +-(2^53-1), at any depth *)
Theorem C10_converted_values_are_in_range : forall v n, (forall x, v <> GNode x) -> lit_any v = Ok n -> PolicyIpld.ints_in53 n = true.
Proof. exact reflective_values_are_in_range. Qed.
Print Assumptions C10_converted_values_are_in_range.

(* the args engine judges what literal.Any returns with [denotesb]; it never refuses a node that denotes the value
   (Go maps have distinct keys) *)
Theorem C10_checker_accepts_every_exact_node : forall v n, gkeys_distinct v -> denotes v n -> denotesb (gsize v) v n = true.
Proof. exact checker_accepts_every_exact_node. Qed.
Print Assumptions C10_checker_accepts_every_exact_node.
