(* Truncation of a CAR stream: every proper prefix of what the writer produced is either refused, or - when
   the cut falls exactly between two sections - read as exactly the blocks before the cut. *)
From Coq Require Import String.
Require Import Base Node Cbor CborProofs Varint Base64 Container ContainerProofs Generated.
From Coq Require Import ZifyBool ZifyNat ZifyN.
Local Open Scope N_scope.

(* a strict prefix of a varint is an unexpected end of input *)
Lemma go_uvarint_cut : forall f n i mult x p q, to_uvarint_f f n = p ++ q -> q <> [] -> (i + f <= 10)%nat ->
  go_uvarint_aux p i mult x = Err 2.
Proof.
  induction f as [|f IH]; intros n i mult x p q E Hq Hi.
  - cbn in E. destruct p; [reflexivity|discriminate].
  - cbn [to_uvarint_f] in E. destruct p as [|b p]; [reflexivity|].
    destruct (n <? 128).
    + cbn in E. injection E as _ E. destruct p; [destruct q; [congruence|discriminate]|discriminate].
    + cbn in E. injection E as <- E. cbn [go_uvarint_aux].
      destruct (Nat.leb_spec 10 i); [lia|].
      destruct (N.ltb_spec (n mod 128 + 128) 128); [lia|].
      apply (IH _ _ _ _ _ q E Hq). lia.
Qed.

Lemma ld_read_cut d p q : ld_write d = p ++ q -> q <> [] -> p <> [] -> d <> [] -> N.of_nat (length d) <= max_section ->
  exists e, ld_read p = Err e.
Proof.
  intros E Hq Hp Hd Hmax. unfold ld_write in E. symmetry in E. apply app_eq_app in E as (m & [[Ep Eq]|[Ev Ed]]).
  - (* the cut is inside the payload (or right after the length) *)
    subst p. unfold ld_read. destruct (to_uvarint (N.of_nat (length d)) ++ m) eqn:Es.
    { pose proof (to_uvarint_nonempty (N.of_nat (length d))). destruct (to_uvarint _); [congruence|discriminate]. }
    rewrite <- Es. pose proof max_section_bound as Hcap. rewrite go_read_to_uvarint by lia.
    destruct (N.eqb_spec (N.of_nat (length d)) 0); [eauto|].
    destruct (N.ltb_spec max_section (N.of_nat (length d))); [eauto|].
    destruct (N.ltb_spec (N.of_nat (length m)) (N.of_nat (length d))); [eauto|].
    exfalso. rewrite Eq, app_length in *. destruct q; [congruence|cbn in *; lia].
  - (* the cut is inside the length prefix *)
    destruct m as [|c m].
    + rewrite app_nil_r in Ev. subst p. cbn in Ed. subst q. unfold ld_read.
      destruct (to_uvarint (N.of_nat (length d))) eqn:Es; [congruence|]. rewrite <- Es.
      pose proof max_section_bound as Hcap. rewrite <- (app_nil_r (to_uvarint _)), go_read_to_uvarint by lia.
      destruct (N.eqb_spec (N.of_nat (length d)) 0); [eauto|].
      destruct (N.ltb_spec max_section (N.of_nat (length d))); [eauto|].
      destruct (N.ltb_spec (N.of_nat (@length N [])) (N.of_nat (length d))); [eauto|]. cbn in *. lia.
    + unfold ld_read. destruct p as [|b p]; [congruence|]. unfold go_read_uvarint.
      rewrite (go_uvarint_cut 10 (N.of_nat (length d)) 0 1 0 (b :: p) (c :: m) Ev) by (try discriminate; lia). eauto.
Qed.

Section Cut.
  Variable sha256 : str -> str.
  Variable mh_sum : N -> N -> str -> res str.
  Variable tok : Type.
  Variable unseal : str -> res tok.
  Hypothesis sha_len : forall d, length (sha256 d) = 32%nat.
  Hypothesis mh_sha256 : forall d, mh_sum 18 32 d = Ok (sha256 d).

  Notation cid_of := (cid_of sha256).
  Notation sec := (fun d => ld_write (cid_of d ++ d)).
  Notation block_ok := (block_ok sha256).

  Lemma sec_nonempty d : sec d <> [].
  Proof. unfold ld_write. pose proof (to_uvarint_nonempty (N.of_nat (length (cid_of d ++ d)))). destruct (to_uvarint _); [congruence|discriminate]. Qed.

  Lemma read_blocks_cut blobs : forall p q fuel acc, Forall block_ok blobs ->
    concat (map sec blobs) = p ++ q -> q <> [] -> (length p < fuel)%nat ->
    (exists k, (k < length blobs)%nat /\ p = concat (map sec (firstn k blobs)) /\
               read_blocks mh_sum fuel p acc = Ok (rev acc ++ firstn k blobs))
    \/ exists e, read_blocks mh_sum fuel p acc = Err e.
  Proof.
    induction blobs as [|d r IH]; intros p q fuel acc Hok E Hq Hf.
    - cbn in E. destruct p; [destruct q; [congruence|discriminate]|discriminate].
    - inversion Hok as [|? ? Hd Hr]; subst. cbn [map concat] in E.
      destruct fuel as [|fuel]; [lia|].
      apply app_eq_app in E as (m & [[Es Eq]|[Ep Er]]).
      + (* the cut is inside the first section, or exactly at its end *)
        destruct m as [|c m].
        * rewrite app_nil_r in Es. subst p. cbn [app] in Eq. left. exists 1%nat. split; [destruct r; [cbn in Eq; congruence|cbn; lia]|]. split; [cbn; rewrite app_nil_r; reflexivity|].
          cbn [Container.read_blocks]. rewrite <- (app_nil_r (ld_write _)).
          rewrite ld_read_write; [|unfold Container.cid_of; discriminate|exact Hd].
          rewrite (check_block_written sha256 mh_sum tok unseal sha_len mh_sha256).
          destruct fuel as [|fuel]; [pose proof (sec_nonempty d) as Hs; destruct (ld_write (cid_of d ++ d)); [congruence|cbn in Hf; lia]|].
          cbn. reflexivity.
        * destruct p as [|b p].
          { left. exists 0%nat. split; [cbn; lia|]. split; [reflexivity|]. cbn. rewrite app_nil_r. reflexivity. }
          right. destruct (ld_read_cut (cid_of d ++ d) (b :: p) (c :: m) Es) as (e & He);
            [discriminate|discriminate|unfold Container.cid_of; discriminate|exact Hd|].
          exists e. cbn [Container.read_blocks]. rewrite He. reflexivity.
      + (* the cut is after the first section *)
        subst p. cbn [Container.read_blocks].
        rewrite ld_read_write; [|unfold Container.cid_of; discriminate|exact Hd].
        rewrite (check_block_written sha256 mh_sum tok unseal sha_len mh_sha256).
        assert (Hf' : (length m < fuel)%nat).
        { rewrite app_length in Hf. pose proof (sec_nonempty d). destruct (ld_write (cid_of d ++ d)); [congruence|cbn in Hf; lia]. }
        destruct (IH m q fuel (d :: acc) Hr Er Hq Hf') as [(k & Hk & Hm & Hrd)|(e & He)].
        * left. exists (S k). split; [cbn; lia|]. split; [cbn [firstn map concat]; rewrite <- Hm; reflexivity|].
          rewrite Hrd. cbn [rev firstn]. rewrite <- app_assoc. reflexivity.
        * right. exists e. exact He.
  Qed.

  Theorem car_cut blobs p q : Forall block_ok blobs -> write_car sha256 blobs = p ++ q -> q <> [] ->
    (exists k, (k < length blobs)%nat /\ p = write_car sha256 (firstn k blobs) /\ car_blobs mh_sum p = Ok (firstn k blobs))
    \/ exists e, car_blobs mh_sum p = Err e.
  Proof.
    intros Hok E Hq. unfold write_car in E.
    assert (Hh1 : car_header <> []) by (vm_compute; discriminate).
    assert (Hh2 : N.of_nat (length car_header) <= max_section) by (vm_compute; discriminate).
    apply app_eq_app in E as (m & [[Es Eq]|[Ep Er]]).
    - destruct m as [|c m].
      + (* exactly after the header *)
        rewrite app_nil_r in Es. subst p. cbn [app] in Eq.
        destruct blobs as [|d r]; [cbn in Eq; congruence|].
        left. exists 0%nat. split; [cbn; lia|]. split; [unfold write_car; cbn [firstn map concat]; rewrite app_nil_r; reflexivity|].
        unfold car_blobs. rewrite <- (app_nil_r (ld_write _)), ld_read_write by assumption.
        rewrite header_ok_car_header. reflexivity.
      + (* inside the header *)
        right. destruct p as [|b p]; [exists 2; reflexivity|].
        destruct (ld_read_cut car_header (b :: p) (c :: m) Es) as (e & He); [discriminate|discriminate|exact Hh1|exact Hh2|].
        exists e. unfold car_blobs. rewrite He. reflexivity.
    - subst p. unfold car_blobs. rewrite ld_read_write by assumption. rewrite header_ok_car_header.
      destruct (read_blocks_cut blobs m q (S (length m)) [] Hok Er Hq ltac:(lia)) as [(k & Hk & Hm & Hrd)|(e & He)].
      + left. exists k. split; [exact Hk|]. split; [unfold write_car; rewrite <- Hm; reflexivity|exact Hrd].
      + right. exists e. exact He.
  Qed.

  (* through the reader: a truncated CAR yields an error, or exactly the tokens of the blocks before a cut
     that falls between two sections - never a token that was not completely present *)
  Theorem read_car_cut blobs p q : Forall block_ok blobs -> write_car sha256 blobs = p ++ q -> q <> [] ->
    (exists k, (k < length blobs)%nat /\ p = write_car sha256 (firstn k blobs) /\
               read_car sha256 mh_sum tok unseal p = add_tokens sha256 tok unseal (firstn k blobs) [])
    \/ exists e, read_car sha256 mh_sum tok unseal p = Err e.
  Proof.
    intros Hok E Hq. unfold read_car. destruct (car_cut blobs p q Hok E Hq) as [(k & Hk & Hp & Hc)|(e & He)].
    - left. exists k. rewrite Hc. auto.
    - right. exists e. rewrite He. reflexivity.
  Qed.
  (* the lengths of the sections of a written CAR, header first *)
  Definition section_lengths (blobs : list str) : list N :=
    N.of_nat (length (ld_write car_header)) :: map (fun d => N.of_nat (length (sec d))) blobs.

  Lemma at_boundary_prefix : forall (ls : list N) acc j, (j < length ls)%nat ->
    at_boundary ls acc (acc + fold_right N.add 0 (firstn (S j) ls)) = true.
  Proof.
    induction ls as [|l r IH]; intros acc j Hj; [cbn in Hj; lia|].
    cbn [at_boundary]. destruct j as [|j].
    - cbn [firstn fold_right]. rewrite N.add_0_r, N.eqb_refl. reflexivity.
    - cbn [length] in Hj. change (firstn (S (S j)) (l :: r)) with (l :: firstn (S j) r). cbn [fold_right].
      rewrite N.add_assoc, (IH (acc + l) j) by lia. apply Bool.orb_true_r.
  Qed.

  Lemma length_write_car blobs :
    N.of_nat (length (write_car sha256 blobs)) = fold_right N.add 0 (section_lengths blobs).
  Proof.
    unfold write_car, section_lengths. rewrite app_length, Nat2N.inj_add. cbn [fold_right]. f_equal.
    induction blobs as [|d r IH]; [reflexivity|]. cbn [map concat fold_right]. rewrite app_length, Nat2N.inj_add, IH. reflexivity.
  Qed.

  (* whatever prefix of a written CAR the reader accepts ends exactly at the end of a section *)
  Theorem accepted_prefix_ends_at_a_section blobs p q m : Forall block_ok blobs -> write_car sha256 blobs = p ++ q -> q <> [] ->
    read_car sha256 mh_sum tok unseal p = Ok m -> at_boundary (section_lengths blobs) 0 (N.of_nat (length p)) = true.
  Proof.
    intros Hok E Hq Hr. destruct (read_car_cut blobs p q Hok E Hq) as [(k & Hk & Hp & _)|(e & He)]; [|congruence].
    rewrite Hp, length_write_car. unfold section_lengths at 2. rewrite <- (N.add_0_l (fold_right _ _ _)).
    replace (N.of_nat (length (ld_write car_header)) :: map (fun d => N.of_nat (length (sec d))) (firstn k blobs))
      with (firstn (S k) (section_lengths blobs)) by (unfold section_lengths; cbn [firstn]; rewrite firstn_map; reflexivity).
    apply at_boundary_prefix. unfold section_lengths. cbn [length]. rewrite map_length. lia.
  Qed.
End Cut.
