(* Non-vacuity: concrete, non-trivial values that meet the hypotheses of the main theorems, so that none of
   them is an implication nothing satisfies. Every example is decided by computation. *)
From Coq Require Import String.
Require Import Base Node Varint Radix Cbor CborProofs SealedBytes Did DidProofs Command SelParse Policy PolicyIpld Generated Envelope
  Token TokenProofs SealProofs CanonProofs SealBytesProofs.
Local Open Scope N_scope.

(* an Ed25519 did:key (multicodec 0xed, 32 key bytes) *)
Definition ex_did (seed : N) : did := (237, to_uvarint 237 ++ map (fun i => (seed + 7 * i) mod 256) (map N.of_nat (seq 0 32))).
Example ex_did_ok : did_ok (ex_did 3) /\ did_ok (ex_did 90) /\ ex_did 3 <> ex_did 90.
Proof. split; [vm_compute; reflexivity|]. split; [vm_compute; reflexivity|]. vm_compute. discriminate. Qed.

Definition ex_sel : list pseg := match sel_parse (lit ".a.b") with Ok s => s | _ => [] end.
Definition ex_dtok : dtok :=
  {| dk_iss := ex_did 3; dk_aud := ex_did 90; dk_sub := Some (ex_did 3); dk_cmd := lit "/crud/read";
     dk_pol := [TCmp (lit "==") ex_sel (Map [(lit "zz", Int 1); (lit "a", List [Int (-5); Str (lit "x")])]);
                TConn (lit "or") [TLike ex_sel (lit "a*b"); TNot (TCmp (lit "<") ex_sel (Int 9007199254740991))]];
     dk_nonce := map N.of_nat (seq 1 12);
     dk_meta := [(lit "note", Str (lit "hi")); (lit "b", Map [(lit "k2", Bool true); (lit "k1", Bytes [1; 2])])];
     dk_nbf := Some 1700000000%Z; dk_exp := None |}.

Example ex_dtok_constructed : dlg_constructed ex_dtok.
Proof.
  assert (Hs : exists st, sel_parse st = Ok ex_sel) by (exists (lit ".a.b"); vm_compute; reflexivity).
  constructor.
  - vm_compute; reflexivity.
  - vm_compute; reflexivity.
  - vm_compute; reflexivity.
  - vm_compute; reflexivity.
  - split; [|vm_compute; reflexivity].
    constructor; [split; [reflexivity|exact Hs]|]. constructor; [|constructor].
    split; [reflexivity|]. split; [split; [exact Hs|reflexivity]|]. split; [|exact I]. split; [reflexivity|exact Hs].
  - vm_compute. lia.
  - vm_compute; reflexivity.
  - vm_compute; reflexivity.
  - exact I.
Qed.

(* the byte-level seal -> unseal theorem applies to it, and canonicalisation really reorders something *)
Example ex_dtok_seal_bytes_premises :
  let N := env_seal (fun m => [7; 7]) [1; 2] dlg_tag (dlg_to_payload ex_dtok) in
  wf N /\ keys_distinct N /\ (depth N <= 9)%nat /\ canon_dtok ex_dtok <> ex_dtok.
Proof.
  cbv zeta. split; [|split; [|split]].
  - vm_compute. repeat split; try reflexivity; try discriminate.
  - vm_compute.
    repeat match goal with
           | |- _ /\ _ => split
           | |- True => exact I
           | |- NoDup _ => constructor
           | |- ~ _ => intros Hin; cbn in Hin; intuition discriminate
           end.
  - vm_compute. lia.
  - vm_compute. discriminate.
Qed.

(* ---- C06: an accepted token, and the same envelope with another signature refused ---- *)
Definition ex_sign (m : str) : str := firstn 6 m ++ [N.of_nat (length m) mod 256].
Definition ex_verify (d : did) (m s : str) : bool := str_eqb s (ex_sign m).
Definition ex_header (d : did) : res str := Ok [1; 2].
Example ex_accepted_and_tampered :
  env_decode ex_verify ex_header dtok dlg_from_payload dlg_tag (env_seal ex_sign [1; 2] dlg_tag (dlg_to_payload ex_dtok)) = Ok ex_dtok /\
  env_decode ex_verify ex_header dtok dlg_from_payload dlg_tag
    (List [Bytes [0]; Map [(hdr_key, Bytes [1; 2]); (dlg_tag, dlg_to_payload ex_dtok)]]) = Err 15 /\
  from_sealed ex_verify ex_header dtok dlg_from_payload dlg_tag 9
    (to_sealed ex_sign [1; 2] dlg_tag (dlg_to_payload ex_dtok)) = Ok (canon_dtok ex_dtok).
Proof.
  split; [|split].
  - apply dlg_seal_unseal; [exact ex_dtok_constructed|reflexivity|]. intros m. apply str_eqb_refl.
  - vm_compute. reflexivity.
  - destruct ex_dtok_seal_bytes_premises as (Hw & Hk & Hd & _).
    apply (dlg_seal_bytes_unseal ex_verify ex_header ex_sign ex_dtok [1; 2] 9%nat); try assumption.
    + exact ex_dtok_constructed.
    + reflexivity.
    + intros m. apply str_eqb_refl.
Qed.

(* ---- C08: canonical bytes are accepted; a non-minimal head and permuted map keys are not ---- *)
Example ex_sealed_decode :
  sealed_decode [1] = Some (Int 1) /\ sealed_decode [24; 1] = None /\
  sealed_decode (encode (Map [(lit "a", Int 1); (lit "bb", Int 2)])) = Some (Map [(lit "a", Int 1); (lit "bb", Int 2)]) /\
  sealed_decode [162; 98; 98; 98; 2; 97; 97; 1] = None.
Proof. repeat split; vm_compute; reflexivity. Qed.

(* ---- C01-C05: a two-link chain with policies and time bounds, allowed; its spec witness; a hook ---- *)
Require Import Selector Chain ChainProofs.
Definition fld (s : string) : seg := {| sk := KField (lit s); sopt := false |}.
Definition ex_d1 : dlg := {| d_iss := lit "B"; d_aud := lit "C"; d_sub := lit "A"; d_cmd := lit "/a";
                             d_pol := [SEq [fld "x"] (Int 1)]; d_nbf := Some 5%Z; d_exp := Some 100%Z |}.
Definition ex_d2 : dlg := {| d_iss := lit "A"; d_aud := lit "B"; d_sub := lit "A"; d_cmd := lit "/";
                             d_pol := [SCmp Gt [fld "y"] (Int 0)]; d_nbf := None; d_exp := None |}.
Definition ex_ld : loader := fun c => if str_eqb c [1] then Some ex_d1 else if str_eqb c [2] then Some ex_d2 else None.
Definition ex_inv : inv := {| i_iss := lit "C"; i_sub := lit "A"; i_aud := lit "Z"; i_cmd := lit "/a/b";
                              i_args := Map [(lit "x", Int 1); (lit "y", Int 2)]; i_prf := [[1]; [2]]; i_exp := Some 50%Z |}.
Example ex_chain_allowed :
  allowed 10 ex_ld ex_inv = true /\ allowed 101 ex_ld ex_inv = false /\ allowed 4 ex_ld ex_inv = false /\
  (exists ds, spec_allowed 10 ex_ld ex_inv (i_args ex_inv) ds) /\
  allowed_hook 10 ex_ld (fun a => Some (Map [(lit "x", Int 1); (lit "y", Int 7)])) ex_inv = true /\
  allowed_hook 10 ex_ld (fun a => Some (Map [(lit "x", Int 2); (lit "y", Int 7)])) ex_inv = false.
Proof.
  assert (H : allowed 10 ex_ld ex_inv = true) by (vm_compute; reflexivity).
  repeat split; try (vm_compute; reflexivity). apply allowed_iff_spec. exact H.
Qed.

(* ---- C17 / C18: a CAR of two blocks under a toy hash; the cut points ---- *)
Require Import Container ContainerProofs CarCutProofs.
Definition ex_sha (d : str) : str := firstn 32 (d ++ repeat 0 32).
Definition ex_mh (code len : N) (d : str) : res str := if (code =? 18) && (len =? 32) then Ok (ex_sha d) else Err 1.
Lemma ex_sha_len d : length (ex_sha d) = 32%nat.
Proof. unfold ex_sha. rewrite firstn_length, app_length, repeat_length. lia. Qed.
Definition ex_blobs : list str := [[5; 6; 7]; [9]].
Example ex_car :
  Forall (block_ok ex_sha) ex_blobs /\
  car_blobs ex_mh (write_car ex_sha ex_blobs) = Ok ex_blobs /\
  (* cut exactly after the first block: the first block alone; one byte earlier or later: an error *)
  (let n := length (write_car ex_sha [[5; 6; 7]]) in
   car_blobs ex_mh (firstn n (write_car ex_sha ex_blobs)) = Ok [[5; 6; 7]] /\
   (exists e, car_blobs ex_mh (firstn (n - 1) (write_car ex_sha ex_blobs)) = Err e) /\
   (exists e, car_blobs ex_mh (firstn (n + 1) (write_car ex_sha ex_blobs)) = Err e)).
Proof.
  split; [repeat constructor; vm_compute; discriminate|].
  split; [vm_compute; reflexivity|]. cbv zeta.
  split; [vm_compute; reflexivity|]. split; eexists; vm_compute; reflexivity.
Qed.

(* the section lengths of that CAR, and at_boundary at the three cuts above *)
Example ex_car_boundaries :
  let n := N.of_nat (length (write_car ex_sha [[5; 6; 7]])) in
  section_lengths ex_sha ex_blobs = [26; 40; 38] /\
  at_boundary (section_lengths ex_sha ex_blobs) 0 n = true /\
  at_boundary (section_lengths ex_sha ex_blobs) 0 (n - 1) = false /\
  at_boundary (section_lengths ex_sha ex_blobs) 0 (n + 1) = false /\
  at_boundary (section_lengths ex_sha ex_blobs) 0 0 = false.
Proof. cbv zeta. split; [vm_compute; reflexivity|]. split; [vm_compute; reflexivity|]. split; [vm_compute; reflexivity|]. split; vm_compute; reflexivity. Qed.

(* ---- C19: the secretbox premises are satisfiable (a toy box), and the wrapper then round-trips ---- *)
Require Import Meta MetaProofs.
Definition ex_box (k n p : str) : str := k ++ n ++ p.
Definition ex_unbox (k n c : str) : option str :=
  if str_eqb (firstn (length k + length n) c) (k ++ n) then Some (skipn (length k + length n) c) else None.
Example ex_box_premises :
  (forall k n p, ex_unbox k n (ex_box k n p) = Some p) /\
  (forall k' n c p, ex_unbox k' n c = Some p -> exists k, k' = k /\ c = ex_box k n p).
Proof.
  split.
  - intros k n p. unfold ex_unbox, ex_box. rewrite app_assoc, <- app_length.
    rewrite firstn_app_len, skipn_app_len, str_eqb_refl. reflexivity.
  - intros k' n c p. unfold ex_unbox, ex_box. destruct (str_eqb _ _) eqn:E; [|discriminate].
    intros [= <-]. exists k'. split; [reflexivity|]. apply str_eqb_eq in E.
    rewrite app_assoc, <- E. symmetry. apply firstn_skipn.
Qed.

(* ---- C10 / C07: the argument options in order: the first value of a key wins, a second WithArgument is an error ---- *)
Require Import Args ArgsProofs.
Example ex_options :
  apply_aopts [] [OArg (lit "k") (Int 1); OArgs [(lit "k", Int 2); (lit "j", Int 3)]; OArg (lit "z") (List [Int 9007199254740991])]
    = Ok [(lit "k", Int 1); (lit "j", Int 3); (lit "z", List [Int 9007199254740991])] /\
  apply_aopts [] [OArg (lit "k") (Int 1); OArg (lit "k") (Int 2)] = Err 1 /\
  apply_aopts [] [OArg (lit "k") (Map [(lit "deep", List [Int 9007199254740992])])] = Err 2 /\
  c_to_ipld [(lit "k", Int 1); (lit "j", Int 3)] = Map [(lit "j", Int 3); (lit "k", Int 1)].
Proof. repeat split; vm_compute; reflexivity. Qed.

(* ---- C06 end to end: the unforgeability premise is satisfiable (a scheme under which exactly one signed part
   verifies), and the theorem then applies to the sealed example token ---- *)
Definition ex_sp : node := Map [(hdr_key, Bytes [1; 2]); (dlg_tag, dlg_to_payload ex_dtok)].
Definition ex_verify1 (d : did) (m s : str) : bool := str_eqb m (encode ex_sp).
Example ex_unforgeable :
  (forall d m s, ex_verify1 d m s = true -> exists sp, In sp [ex_sp] /\ wf sp /\ m = encode sp) /\
  env_decode ex_verify1 ex_header dtok dlg_from_payload dlg_tag (env_seal ex_sign [1; 2] dlg_tag (dlg_to_payload ex_dtok)) = Ok ex_dtok.
Proof.
  split.
  - intros d m s H. exists ex_sp. split; [left; reflexivity|]. split.
    + vm_compute. repeat split; try reflexivity; try discriminate.
    + apply str_eqb_eq. exact H.
  - vm_compute. reflexivity.
Qed.

(* ---- constants read from the source (the src_ definitions of Generated.v) against the values the hand-written model hardwires:
   where the model does not follow the source value, a change of the source breaks one of these ---- *)
Require Import Generated Glob Meta.
Example src_constants_consistent :
  src_min_int53 = (- src_max_int53)%Z /\
  src_varsig_prefix = 52 /\ forallb (fun h => match snd h with p :: _ => p =? src_varsig_prefix | [] => false end) varsig_headers = true /\
  src_box_key_size = 32 /\
  src_command_separator = [47] /\
  src_varsig_header_key = lit "h" /\
  (src_max_section < 2 ^ 63) /\
  has_prefix src_ucan_tag_prefix src_dlg_tag = true /\ has_prefix src_ucan_tag_prefix src_inv_tag = true /\
  str_eqb src_dlg_tag src_inv_tag = false.
Proof. repeat split; vm_compute; reflexivity. Qed.

(* ---- DAG-JSON: the premises of C07_dagjson_codec_roundtrip are met by the example delegation's payload (text outside
   ASCII, a policy with a map literal, bytes, links), and the theorem's conclusion computes ---- *)
Require Import Utf8Proofs DagJson DagJsonProofs.
Definition ex_json_value : node :=
  Map [(lit "meta", Map [(lit "zz", Int (-7)); (lit "a", Str [195; 169; 34; 10])]);      (* "é", a quote, a line feed *)
       (lit "sig", Bytes [0; 255; 16]); (lit "prf", List [Link [1; 113; 18; 32; 7]]); (lit "exp", Null); (lit "ok", Bool true)].
Example ex_json_safe : jsafe ex_json_value /\ (jdepth ex_json_value <= 4)%nat.
Proof.
  assert (T : forall s, Forall (fun c => c < 128) s -> utf8_text s) by exact ascii_is_text.
  split; [|vm_compute; lia].
  cbn [jsafe ex_json_value fst snd]. repeat split; try discriminate; try (apply T; repeat constructor; fail); try (repeat constructor; fail).
  exists [233; 34; 10]. split; [repeat constructor; left; vm_compute; reflexivity | vm_compute; reflexivity].
Qed.
Example ex_json_roundtrip : jdec 4 (jenc ex_json_value) = Some (canonj ex_json_value, []).
Proof. vm_compute. reflexivity. Qed.

(* ---- C07 DAG-JSON, token level: the example delegation's envelope meets the premises of
   C07_delegation_seal_json_unseal ([jsafe] through its decidable sufficient condition), and the JSON text reads back ---- *)
Require Import JsonSealProofs.
Example ex_json_token_premises :
  let N := env_seal (fun m => [7; 7]) [1; 2] dlg_tag (dlg_to_payload ex_dtok) in
  jsafe N /\ keys_distinct N /\ (jdepth N <= 9)%nat.
Proof.
  cbv zeta. split; [apply jsafeb_sound; vm_compute; reflexivity|]. split; [|vm_compute; lia].
  vm_compute. repeat split; try reflexivity; try discriminate; repeat constructor; cbn; intuition discriminate.
Qed.
Example ex_json_token_reads_back :
  match from_json ex_verify ex_header dtok dlg_from_payload dlg_tag 9 (to_json ex_sign [1; 2] dlg_tag (dlg_to_payload ex_dtok)) with
  | Ok t' => True | _ => False end.
Proof. vm_compute. exact I. Qed.

(* ---- C14 DAG-JSON route: the example delegation's policy (it holds a map literal) meets the premises, and the text reads back ---- *)
Require Import PolicyJsonProofs.
Example ex_policy_json_premises :
  Forall wf_stmt (dk_pol ex_dtok) /\ ints_in53 (pol_to_ipld (dk_pol ex_dtok)) = true /\
  jsafe (pol_to_ipld (dk_pol ex_dtok)) /\ keys_distinct (pol_to_ipld (dk_pol ex_dtok)) /\ (jdepth (pol_to_ipld (dk_pol ex_dtok)) <= 9)%nat /\
  dk_pol ex_dtok <> [].
Proof.
  split; [apply (dc_pol_wf ex_dtok ex_dtok_constructed) || (pose proof ex_dtok_constructed as H; apply H)|].
  split; [vm_compute; reflexivity|]. split; [apply jsafeb_sound; vm_compute; reflexivity|].
  split; [vm_compute; repeat split; try reflexivity; try discriminate; repeat constructor; cbn; intuition discriminate|].
  split; [vm_compute; lia | discriminate].
Qed.
Example ex_policy_json_reads_back :
  match pol_from_json 9 (pol_to_json (dk_pol ex_dtok)) with Ok p' => map canon_stmt p' = map canon_stmt (dk_pol ex_dtok) | _ => False end.
Proof. vm_compute. reflexivity. Qed.
