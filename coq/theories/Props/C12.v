(* C12 - Selectors resolve compositionally with the documented index and slice rules. *)
From Coq Require Import String.
Require Import Base Node Selector SelectorProofs Generated Utf8 Utf8Proofs CharsProofs.
Local Open Scope Z_scope.

(* Resolving a selector = resolving its segments one after the other *)
Theorem C12_resolve_is_fold_of_steps : forall sel c,
  resolve sel c = fold_left (fun acc s => match acc with Ok c' => step s c' | Err e => Err e | Panic => Panic end) sel (Ok c).
Proof. exact resolve_is_fold. Qed.
Print Assumptions C12_resolve_is_fold_of_steps.

Theorem C12_resolve_compositional : forall s1 s2 c,
  resolve (s1 ++ s2) c = match resolve s1 c with Ok c' => resolve s2 c' | Err e => Err e | Panic => Panic end.
Proof. exact resolve_app. Qed.
Print Assumptions C12_resolve_compositional.

(* no part of a selector is ignored: a successful resolution went through the last segment *)
Theorem C12_last_segment_not_ignored : forall s1 s c r,
  resolve (s1 ++ [s]) c = Ok r -> exists c', resolve s1 c = Ok c' /\ step s c' = Ok r.
Proof. exact last_segment_not_ignored. Qed.
Print Assumptions C12_last_segment_not_ignored.

(* Python slice clamping: same index arithmetic ... *)
Theorem C12_slice_indices_are_python : forall s0 s1 len, 0 <= len ->
  let '(gs, ge) := go_slice s0 s1 len in
  let '(ps, pe) := py_slice s0 s1 len in
  0 <= gs <= ge /\ ge <= len /\ ge - gs = Z.max 0 (pe - ps) /\ (gs < ge -> gs = ps).
Proof. exact slice_is_python. Qed.
Print Assumptions C12_slice_indices_are_python.

(* ... and the same selected elements, on lists, bytes and characters *)
Theorem C12_slice_selects_python_elements : forall (A : Type) a b (l : list A),
  (let '(st, en) := go_slice a b (zlen l) in sub st en l) = py_sub a b l.
Proof. exact @go_sub_is_py_sub. Qed.
Print Assumptions C12_slice_selects_python_elements.

(* indexes, negative ones counting from the end *)
Theorem C12_index_in_range : forall s i l, - zlen l <= i < zlen l ->
  step_index s i (Some (List l)) = Ok (nth_error l (Z.to_nat (if i <? 0 then zlen l + i else i))).
Proof. exact index_list_in_range. Qed.
Print Assumptions C12_index_in_range.

Theorem C12_index_out_of_range : forall s i l, (i < - zlen l \/ zlen l <= i) ->
  step_index s i (Some (List l)) = unless_opt s.
Proof. exact index_list_out_of_range. Qed.
Print Assumptions C12_index_out_of_range.

Theorem C12_iterator_on_map : forall s m, step_iter s (Some (Map m)) = Ok (Some (List (map snd m))).
Proof. exact iterator_on_map. Qed.
Print Assumptions C12_iterator_on_map.

Theorem C12_iterator_on_list : forall s l, step_iter s (Some (List l)) = Ok (Some (List l)).
Proof. exact iterator_on_list. Qed.
Print Assumptions C12_iterator_on_list.

Theorem C12_identity_is_noop : forall o c, step {| sk := KIdent; sopt := o |} c = Ok c.
Proof. exact identity_is_noop. Qed.
Print Assumptions C12_identity_is_noop.

(* a failing non-optional segment is an error *)
Theorem C12_failing_nonoptional_is_error : forall s c,
  sopt s = false -> sk s <> KIdent -> ~ applies s c -> exists e, step s c = Err e.
Proof. exact failing_nonoptional_is_error. Qed.
Print Assumptions C12_failing_nonoptional_is_error.

(* a failing optional field / index segment yields "no value" *)
Theorem C12_failing_optional_field_is_novalue : forall s f c,
  sopt s = true -> (forall v, step_field s f c <> Ok (Some v)) -> step_field s f c = Ok None.
Proof. exact failing_optional_field_is_novalue. Qed.
Print Assumptions C12_failing_optional_field_is_novalue.

Theorem C12_failing_optional_index_is_novalue : forall s i c,
  sopt s = true -> (forall v, step_index s i c <> Ok (Some v)) -> step_index s i c = Ok None.
Proof. exact failing_optional_index_is_novalue. Qed.
Print Assumptions C12_failing_optional_index_is_novalue.

Theorem C12_resolve_never_panics : forall sel c, resolve sel c <> Panic.
Proof. exact resolve_never_panics. Qed.
Print Assumptions C12_resolve_never_panics.

(* characters of a string partition it *)
Theorem C12_chars_partition : forall s, concat (chars s) = s.
Proof. exact concat_chars. Qed.
Print Assumptions C12_chars_partition.

(* non-vacuity on the F8 witnesses: .[][0] on a map, .[]?[0] on null, .a?.b on a string, .[0]? on a map *)
Example C12_nonvacuous :
  let m := Map [(lit "a", Int 7); (lit "b", Int 8)] in
  resolve [{| sk := KIter; sopt := false |}; {| sk := KIndex 0; sopt := false |}] (Some m) = Ok (Some (Int 7))
  /\ (exists e, resolve [{| sk := KIter; sopt := true |}; {| sk := KIndex 0; sopt := false |}] (Some Null) = Err e)
  /\ (exists e, resolve [{| sk := KField (lit "a"); sopt := true |}; {| sk := KField (lit "b"); sopt := false |}] (Some (Str (lit "x"))) = Err e)
  /\ resolve [{| sk := KIndex 0; sopt := true |}] (Some m) = Ok None
  /\ resolve [{| sk := KSlice (Some (-2)) None; sopt := false |}] (Some (List [Int 1; Int 2; Int 3])) = Ok (Some (List [Int 2; Int 3])).
Proof. cbv zeta. repeat split; try (eexists; vm_compute; reflexivity); vm_compute; reflexivity. Qed.

(* "slices on strings (by character)": the groups the model slices are, on valid UTF-8, exactly the encodings
   of the string's code points, one group per code point ([]rune(str) in the Go code), and grouping loses no byte *)
Theorem C12_string_slices_count_code_points : forall (s : str) rs, Forall (fun b => (b < 256)%N) s -> runes s = Some rs ->
  chars s = map utf8_encode rs /\ length (chars s) = length rs.
Proof. exact chars_are_the_code_points. Qed.
Print Assumptions C12_string_slices_count_code_points.

Theorem C12_character_groups_lose_nothing : forall s : str, concat (chars s) = s.
Proof. exact concat_chars. Qed.
Print Assumptions C12_character_groups_lose_nothing.
