(* seal -> bytes -> unseal: what ToSealed writes, FromSealed reads back as the same token (its maps in
   canonical order), through the DAG-CBOR codec and the canonical-form acceptance check. *)
From Coq Require Import String Permutation.
Require Import Base Node Cbor CborProofs SealedBytes Did Command SelParse Policy PolicyIpld Generated Envelope EnvelopeProofs
  Token TokenProofs SealProofs CanonProofs.
From Coq Require Import ZifyBool ZifyNat ZifyN.
Local Open Scope N_scope.

Section SealBytes.
  Variable verify : did -> str -> str -> bool.
  Variable header_of : did -> res str.
  Variable sign : str -> str.

  (* FromSealed on bytes: the canonical-form acceptance check, then the envelope and payload decoders *)
  Definition from_sealed (A : Type) (bind : node -> res A) (tag : str) (fuel : nat) (b : str) : res A :=
    match sealed_decode_f fuel b with
    | Some n => env_decode verify header_of A bind tag n
    | None => Err 50
    end.
  (* ToSealed *)
  Definition to_sealed (hdr tag : str) (payload : node) : str := encode (env_seal sign hdr tag payload).

  Lemma canon_env_seal hdr tag pm : key_ltb hdr_key tag = true -> keys_distinct (env_seal sign hdr tag (Map pm)) ->
    canon (env_seal sign hdr tag (Map pm)) = env_seal sign hdr tag (canon (Map pm)).
  Proof.
    intros Hlt Hk. unfold env_seal. cbn [canon map sortk insert fst snd]. rewrite Hlt.
    assert (E : encode (Map [(hdr_key, Bytes hdr); (tag, Map pm)]) = encode (Map [(hdr_key, Bytes hdr); (tag, canon (Map pm))])).
    { rewrite <- (encode_canon (Map [(hdr_key, Bytes hdr); (tag, Map pm)])) by (cbn in Hk; cbn; tauto).
      cbn [canon map sortk insert fst snd]. rewrite Hlt. reflexivity. }
    rewrite E. reflexivity.
  Qed.

  Theorem env_bytes_decode (A : Type) (bind : node -> res A) hdr tag pm iss d f :
    has_prefix ucan_prefix tag = true -> str_eqb tag hdr_key = false -> key_ltb hdr_key tag = true ->
    map_get (lit "iss") pm = Some (Str iss) -> did_parse iss = Ok d -> header_of d = Ok hdr ->
    (forall m, verify d m (sign m) = true) ->
    wf (env_seal sign hdr tag (Map pm)) -> keys_distinct (env_seal sign hdr tag (Map pm)) ->
    (depth (env_seal sign hdr tag (Map pm)) <= f)%nat ->
    from_sealed A bind tag f (to_sealed hdr tag (Map pm)) = bind (canon (Map pm)).
  Proof.
    intros Hp Hk Hlt Hi Hd Hh Hv Hw Hkd Hf. unfold from_sealed, to_sealed.
    rewrite (sealed_accepts_encoding _ f Hw Hkd Hf), (canon_env_seal hdr tag pm Hlt Hkd).
    assert (Hn : NoDup (map fst pm)) by (cbn in Hkd; tauto).
    cbn [canon]. fold (cmap pm).
    apply (env_seal_decode verify header_of sign A bind hdr tag (cmap pm) iss d Hp Hk); try assumption.
    rewrite (map_get_cmap _ pm Hn), Hi. reflexivity.
  Qed.

  Theorem dlg_seal_bytes_unseal t hdr f : dlg_constructed t -> header_of (dk_iss t) = Ok hdr ->
    (forall m, verify (dk_iss t) m (sign m) = true) ->
    wf (env_seal sign hdr dlg_tag (dlg_to_payload t)) -> keys_distinct (env_seal sign hdr dlg_tag (dlg_to_payload t)) ->
    (depth (env_seal sign hdr dlg_tag (dlg_to_payload t)) <= f)%nat ->
    from_sealed dtok dlg_from_payload dlg_tag f (to_sealed hdr dlg_tag (dlg_to_payload t)) = Ok (canon_dtok t).
  Proof.
    intros Hc Hh Hv Hw Hkd Hf. destruct (dlg_iss_field t) as (pm & E & Hi). rewrite E in *.
    rewrite (env_bytes_decode dtok dlg_from_payload hdr dlg_tag pm (did_print (dk_iss t)) (dk_iss t) f); try reflexivity; try assumption.
    - rewrite dlg_from_payload_canon by (cbn in Hkd; tauto). rewrite <- E, (dlg_payload_roundtrip t Hc). reflexivity.
    - apply (dc_iss t Hc).
  Qed.

  Theorem inv_seal_bytes_unseal t hdr f : inv_constructed t -> header_of (ik_iss t) = Ok hdr ->
    (forall m, verify (ik_iss t) m (sign m) = true) ->
    wf (env_seal sign hdr inv_tag (inv_to_payload t)) -> keys_distinct (env_seal sign hdr inv_tag (inv_to_payload t)) ->
    (depth (env_seal sign hdr inv_tag (inv_to_payload t)) <= f)%nat ->
    from_sealed itok inv_from_payload inv_tag f (to_sealed hdr inv_tag (inv_to_payload t)) = Ok (canon_itok t).
  Proof.
    intros Hc Hh Hv Hw Hkd Hf. destruct (inv_iss_field t) as (pm & E & Hi). rewrite E in *.
    rewrite (env_bytes_decode itok inv_from_payload hdr inv_tag pm (did_print (ik_iss t)) (ik_iss t) f); try reflexivity; try assumption.
    - rewrite inv_from_payload_canon by (cbn in Hkd; tauto). rewrite <- E, (inv_payload_roundtrip t Hc). reflexivity.
    - apply (ic_iss t Hc).
  Qed.

End SealBytes.
