(* The DAG-JSON model round-trips on the values where the codec is lossless: no floats, text that is valid
   UTF-8 (strings and map keys), no map key "/" (reserved for links and bytes), bytes below 256.
   Outside that domain it does not: see [json_not_lossless_on_invalid_utf8] (F28). *)
From Coq Require Import String.
Require Import Base Node Radix Utf8 Utf8Proofs Base64 Base64Proofs DagJson.
From Coq Require Import ZifyBool ZifyNat ZifyN.
Local Open Scope N_scope.
Ltac Zify.zify_post_hook ::= Z.div_mod_to_equations.

(* ================= strings ================= *)
Definition utf8_text (s : str) : Prop := exists rs, Forall scalar rs /\ s = concat (map utf8_encode rs).

Lemma u8enc_is_utf8_encode r : u8enc r = utf8_encode r.
Proof. reflexivity. Qed.

Definition prepend (bs : str) (o : option (str * str)) : option (str * str) :=
  match o with Some (t, x) => Some (bs ++ t, x) | None => None end.

Lemma junq_plain c tail : c <> 34 -> c <> 92 -> 32 <= c -> junq (c :: tail) = prepend [c] (junq tail).
Proof.
  intros H1 H2 H3. cbn [junq].
  destruct (N.eqb_spec c 34); [contradiction|]. destruct (N.eqb_spec c 92); [contradiction|].
  destruct (N.ltb_spec c 32); [lia|]. destruct (junq tail) as [[t x]|]; reflexivity.
Qed.

Lemma junq_high bs tail : Forall (fun c => 128 <= c) bs -> junq (bs ++ tail) = prepend bs (junq tail).
Proof.
  induction 1 as [|c bs Hc _ IH]; cbn [app]; [destruct (junq tail) as [[? ?]|]; reflexivity|].
  rewrite junq_plain by lia. rewrite IH. destruct (junq tail) as [[t x]|]; reflexivity.
Qed.

Lemma utf8_encode_high r : 128 <= r -> scalar r -> Forall (fun c => 128 <= c) (utf8_encode r).
Proof.
  intros H S. unfold utf8_encode. destruct (N.ltb_spec r 128); [lia|].
  destruct (N.ltb_spec r 2048); [repeat constructor; lia|].
  destruct (N.ltb_spec r 65536); repeat constructor; lia.
Qed.

Lemma hexv_hexd d : d < 16 -> hexv (hexd d) = Some d.
Proof.
  intros H. unfold hexd, hexv. destruct (N.ltb_spec d 10).
  - destruct (N.leb_spec 48 (48 + d)), (N.leb_spec (48 + d) 57); try lia. cbn [andb]. f_equal. lia.
  - destruct (N.leb_spec 48 (87 + d)), (N.leb_spec (87 + d) 57); try lia; cbn [andb];
      destruct (N.leb_spec 97 (87 + d)), (N.leb_spec (87 + d) 102); try lia; cbn [andb]; f_equal; lia.
Qed.

Lemma junq_u h3 h2 h1 h0 a b c d tail : hexv h3 = Some a -> hexv h2 = Some b -> hexv h1 = Some c -> hexv h0 = Some d ->
  junq (92 :: 117 :: h3 :: h2 :: h1 :: h0 :: tail) = prepend (u8enc (((a * 16 + b) * 16 + c) * 16 + d)) (junq tail).
Proof.
  intros Ha Hb Hc Hd. cbn [junq].
  replace (92 =? 34) with false by reflexivity. replace (92 =? 92) with true by reflexivity.
  replace ((117 =? 34) || (117 =? 92) || (117 =? 47)) with false by reflexivity.
  replace (117 =? 110) with false by reflexivity. replace (117 =? 114) with false by reflexivity.
  replace (117 =? 116) with false by reflexivity. replace (117 =? 117) with true by reflexivity.
  rewrite Ha, Hb, Hc, Hd. destruct (junq tail) as [[? ?]|]; reflexivity.
Qed.

(* one ASCII character through the escaper and back *)
Lemma junq_esc_ascii b tail : b < 128 -> junq (esc_ascii b ++ tail) = prepend [b] (junq tail).
Proof.
  intros Hb. unfold esc_ascii.
  destruct (N.eqb_spec b 34) as [->|N34]; [cbn; destruct (junq tail) as [[? ?]|]; reflexivity|].
  destruct (N.eqb_spec b 92) as [->|N92]; [cbn; destruct (junq tail) as [[? ?]|]; reflexivity|].
  cbn [orb].
  destruct (N.eqb_spec b 10) as [->|N10]; [cbn; destruct (junq tail) as [[? ?]|]; reflexivity|].
  destruct (N.eqb_spec b 13) as [->|N13]; [cbn; destruct (junq tail) as [[? ?]|]; reflexivity|].
  destruct (N.eqb_spec b 9) as [->|N9]; [cbn; destruct (junq tail) as [[? ?]|]; reflexivity|].
  destruct (N.ltb_spec b 32) as [L|L].
  - cbn [app]. rewrite (junq_u 48 48 _ _ 0 0 (b / 16) (b mod 16)) by (try reflexivity; apply hexv_hexd; lia).
    replace (((0 * 16 + 0) * 16 + b / 16) * 16 + b mod 16) with b by lia.
    unfold u8enc. destruct (N.ltb_spec b 128); [|lia]. reflexivity.
  - cbn [app]. apply junq_plain; lia.
Qed.

Lemma firstn_app_len {A} (a b : list A) : firstn (length (a ++ b) - length b) (a ++ b) = a.
Proof. rewrite app_length. replace (length a + length b - length b)%nat with (length a) by lia. rewrite firstn_app, Nat.sub_diag, firstn_all. cbn. apply app_nil_r. Qed.

(* one code point through the escaper *)
Definition esc_rune (r : N) : str :=
  if r <? 128 then esc_ascii r
  else if (r =? 8232) || (r =? 8233) then [92; 117; 50; 48; 50; hexd (r mod 16)]
  else utf8_encode r.

Lemma jesc_f_rune f r s' : scalar r -> jesc_f (S f) (utf8_encode r ++ s') = esc_rune r ++ jesc_f f s'.
Proof.
  intros S. unfold esc_rune. destruct (N.ltb_spec r 128) as [L|L].
  - unfold utf8_encode. destruct (N.ltb_spec r 128); [|lia]. cbn [app jesc_f]. destruct (N.ltb_spec r 128); [reflexivity|lia].
  - pose proof (utf8_encode_high r L S) as Hh. pose proof (decode1_encode r s' S) as D.
    destruct (utf8_encode r) as [|b0 t] eqn:E; [apply utf8_encode_nonempty in E; contradiction|].
    cbn [app jesc_f]. inversion Hh as [|? ? Hb0 _]; subst. destruct (N.ltb_spec b0 128); [lia|].
    cbn [app] in D. rewrite D.
    destruct ((r =? 8232) || (r =? 8233)); [reflexivity|].
    change (b0 :: t ++ s') with ((b0 :: t) ++ s'). rewrite firstn_app_len. reflexivity.
Qed.

Lemma junq_esc_rune r tail : scalar r -> junq (esc_rune r ++ tail) = prepend (utf8_encode r) (junq tail).
Proof.
  intros S. unfold esc_rune. destruct (N.ltb_spec r 128) as [L|L].
  - rewrite junq_esc_ascii by exact L. unfold utf8_encode. destruct (N.ltb_spec r 128); [reflexivity|lia].
  - destruct (N.eqb_spec r 8232) as [->|N1]; [cbn; destruct (junq tail) as [[? ?]|]; reflexivity|].
    destruct (N.eqb_spec r 8233) as [->|N2]; [cbn; destruct (junq tail) as [[? ?]|]; reflexivity|].
    cbn [orb]. apply junq_high, utf8_encode_high; assumption.
Qed.

Lemma jesc_f_text rs : Forall scalar rs -> forall f, (length rs < f)%nat ->
  jesc_f f (concat (map utf8_encode rs)) = concat (map esc_rune rs).
Proof.
  induction 1 as [|r rs Hr _ IH]; intros f Hf.
  - destruct f; [cbn in Hf; lia|]. reflexivity.
  - destruct f as [|f]; [cbn in Hf; lia|]. cbn [map concat]. rewrite jesc_f_rune by exact Hr. rewrite IH by (cbn in Hf; lia). reflexivity.
Qed.

Lemma junq_runes rs tail : Forall scalar rs ->
  junq (concat (map esc_rune rs) ++ 34 :: tail) = Some (concat (map utf8_encode rs), tail).
Proof.
  induction 1 as [|r rs Hr _ IH]; cbn [map concat app].
  - cbn. reflexivity.
  - rewrite <- app_assoc, junq_esc_rune by exact Hr. rewrite IH. reflexivity.
Qed.

(* a quoted string reads back as the string *)
Theorem junq_jstr s tail : utf8_text s -> junq (jesc s ++ 34 :: tail) = Some (s, tail).
Proof.
  intros (rs & F & ->). unfold jesc. rewrite jesc_f_text; [apply junq_runes; exact F | exact F |].
  pose proof (length_concat_ge rs). lia.
Qed.

Lemma ascii_is_text s : Forall (fun c => c < 128) s -> utf8_text s.
Proof.
  intros F. exists s. split.
  - eapply Forall_impl; [|exact F]. intros c Hc. cbv beta in Hc. left. lia.
  - induction F as [|c s Hc _ IH]; [reflexivity|]. cbn [map concat]. rewrite <- IH.
    unfold utf8_encode. destruct (N.ltb_spec c 128); [reflexivity|lia].
Qed.

(* ================= integers ================= *)
Lemma digits_lt r n : 2 <= r -> Forall (fun d => d < r) (digits r n).
Proof.
  intros Hr. unfold digits. destruct (digits_fuel_shape r Hr (N.to_nat (N.size n)) n []) as (pre & E & F & _).
  { rewrite N2Nat.id. apply N.size_gt. }
  rewrite E, app_nil_r. exact F.
Qed.

Lemma dec_of_N_digits n : Forall (fun c => is_digit c = true) (dec_of_N n) /\ dec_of_N n <> [].
Proof.
  unfold dec_of_N. destruct (N.eqb_spec n 0) as [->|Hn].
  - split; [repeat constructor | discriminate].
  - split.
    + pose proof (digits_lt 10 n ltac:(lia)) as F. induction F as [|d l Hd _ IH]; cbn [map]; constructor; [|exact IH].
      unfold is_digit. apply andb_true_iff; split; apply N.leb_le; lia.
    + unfold digits. destruct (digits_fuel_shape 10 ltac:(lia) (N.to_nat (N.size n)) n []) as (pre & E & _ & _ & NZ).
      { rewrite N2Nat.id. apply N.size_gt. }
      rewrite E, app_nil_r. destruct (NZ Hn) as [Hne _]. destruct pre; [congruence|discriminate].
Qed.

Lemma N_of_dec_of_N n : N_of_dec (dec_of_N n) = n.
Proof.
  unfold N_of_dec, dec_of_N. destruct (N.eqb_spec n 0) as [->|Hn]; [reflexivity|].
  rewrite map_map. rewrite (map_ext _ (fun d => d)) by (intros; lia). rewrite map_id. apply val_digits. lia.
Qed.

Definition no_digit_head (s : str) : Prop := match s with c :: _ => is_digit c = false | [] => True end.

Lemma span_digits_app ds rest : Forall (fun c => is_digit c = true) ds -> no_digit_head rest ->
  span_digits (ds ++ rest) = (ds, rest).
Proof.
  induction 1 as [|c ds Hc _ IH]; intros Hr; cbn [app span_digits].
  - destruct rest as [|c r]; [reflexivity|]. cbn in Hr. cbn [span_digits]. rewrite Hr. reflexivity.
  - rewrite Hc, IH by exact Hr. reflexivity.
Qed.

(* ================= base64 without padding ================= *)
Lemma not_pad_char d : d < 64 -> not_pad (b64_char d) = true.
Proof. intros H. destruct (b64_char_props d H) as (_ & Hp & _). unfold not_pad. apply N.eqb_neq in Hp. rewrite Hp. reflexivity. Qed.

Local Opaque b64_char.
Lemma b64raw_shape : forall n b, (length b <= n)%nat -> Forall (fun x => x < 256) b ->
  b64_encode b = b64raw_encode b ++ repeat c_pad ((4 - length (b64raw_encode b) mod 4) mod 4)%nat
  /\ forallb not_pad (b64raw_encode b) = true /\ Forall (fun c => c < 128) (b64raw_encode b).
Proof.
  assert (A : forall d, d < 64 -> b64_char d < 128).
  { intros d Hd. assert (T : forallb (fun d => b64_char d <? 128) range64 = true) by (vm_compute; reflexivity).
    rewrite forallb_forall in T. apply N.ltb_lt, T. unfold range64. apply in_map_iff. exists (N.to_nat d). split; [lia|]. apply in_seq. lia. }
  unfold b64raw_encode.
  induction n as [|n IH]; intros l Hl Hb; [destruct l; [cbn; auto|cbn in Hl; lia]|].
  destruct l as [|b0 [|b1 [|b2 r]]]; [cbn; auto| | |].
  - inversion Hb; subst. cbn [b64_encode filter]. rewrite !not_pad_char by lia. cbn.
    repeat split; try reflexivity. { rewrite !not_pad_char by lia. reflexivity. } repeat constructor; apply A; lia.
  - inversion Hb as [|? ? H0 Hb']; subst. inversion Hb'; subst. cbn [b64_encode filter]. rewrite !not_pad_char by lia. cbn.
    repeat split; try reflexivity. { rewrite !not_pad_char by lia. reflexivity. } repeat constructor; apply A; lia.
  - inversion Hb as [|? ? H0 Hb']; subst. inversion Hb' as [|? ? H1 Hb'']; subst. inversion Hb'' as [|? ? H2 Hr]; subst.
    cbn [b64_encode filter]. rewrite !not_pad_char by lia.
    destruct (IH r ltac:(cbn in Hl; lia) Hr) as (E & F & G).
    set (raw := filter not_pad (b64_encode r)) in *.
    cbn [length app forallb]. rewrite !not_pad_char by lia. cbn [andb].
    split; [|split; [exact F | repeat constructor; try (apply A; lia); exact G]].
    assert (K : ((4 - S (S (S (S (length raw)))) mod 4) mod 4 = (4 - length raw mod 4) mod 4)%nat).
    { replace (S (S (S (S (length raw))))) with (length raw + 1 * 4)%nat by lia. rewrite Nat.mod_add by lia. reflexivity. }
    rewrite K. rewrite E at 1. reflexivity.
Qed.

Theorem b64raw_roundtrip b : Forall (fun x => x < 256) b -> b64raw_decode (b64raw_encode b) = Ok b.
Proof.
  intros Hb. destruct (b64raw_shape (length b) b ltac:(lia) Hb) as (E & F & _).
  unfold b64raw_decode. rewrite F, <- E. apply b64_decode_encode. exact Hb.
Qed.

Lemma b64raw_ascii b : Forall (fun x => x < 256) b -> Forall (fun c => c < 128) (b64raw_encode b).
Proof. intros Hb. apply (b64raw_shape (length b) b ltac:(lia) Hb). Qed.

(* ================= base32 ================= *)
Lemma bits_of_len k n : length (bits_of k n) = k.
Proof. revert n; induction k as [|k IH]; intros n; cbn [bits_of]; [reflexivity|]. rewrite app_length, IH. cbn. lia. Qed.

Lemma val_bits_app l b : val_bits (l ++ [b]) = 2 * val_bits l + (if b then 1 else 0).
Proof. unfold val_bits. rewrite fold_left_app. reflexivity. Qed.

Lemma val_bits_of k : forall n, n < 2 ^ N.of_nat k -> val_bits (bits_of k n) = n.
Proof.
  induction k as [|k IH]; intros n H; cbn [bits_of].
  - cbn in H. unfold val_bits. cbn. lia.
  - rewrite val_bits_app, IH.
    + destruct (N.odd n) eqn:O.
      * apply N.odd_spec in O. destruct O as [m ->]. lia.
      * assert (Ev : N.even n = true) by (rewrite <- N.negb_odd, O; reflexivity). apply N.even_spec in Ev. destruct Ev as [m ->]. lia.
    + rewrite Nat2N.inj_succ, N.pow_succ_r' in H. lia.
Qed.

Definition range32 : list N := map N.of_nat (seq 0 32).
Lemma b32_table : forallb (fun d => match b32_idx (b32_char d) with Some d' => (d' =? d) | None => false end && (b32_char d <? 128)) range32 = true.
Proof. vm_compute. reflexivity. Qed.
Lemma b32_char_props d : d < 32 -> b32_idx (b32_char d) = Some d /\ b32_char d < 128.
Proof.
  intros H. pose proof b32_table as T. rewrite forallb_forall in T.
  assert (Hin : In d range32). { unfold range32. apply in_map_iff. exists (N.to_nat d). split; [lia|]. apply in_seq. lia. }
  specialize (T d Hin). apply andb_true_iff in T as [T1 T2].
  destruct (b32_idx (b32_char d)) as [d'|]; [|discriminate]. apply N.eqb_eq in T1. subst d'. split; [reflexivity|]. apply N.ltb_lt. exact T2.
Qed.

Lemma val5_lt a b c d e : val_bits [a; b; c; d; e] < 32.
Proof. destruct a, b, c, d, e; vm_compute; reflexivity. Qed.
Lemma bits5_val a b c d e : bits_of 5 (val_bits [a; b; c; d; e]) = [a; b; c; d; e].
Proof. destruct a, b, c, d, e; vm_compute; reflexivity. Qed.

Lemma group5_lt l : Forall (fun d => d < 32) (group5 l).
Proof.
  assert (G : forall n l, (length l <= n)%nat -> Forall (fun d => d < 32) (group5 l)).
  { induction n as [|n IH]; intros k Hk; [destruct k; [constructor|cbn in Hk; lia]|].
    destruct k as [|a [|b [|c [|d [|e r]]]]]; cbn [group5 app firstn]; repeat constructor; try apply val5_lt.
    apply IH. cbn in Hk. lia. }
  apply (G (length l)). lia.
Qed.

(* the 5-bit groups hold the bits, followed by fewer than 5 zero bits *)
Lemma ungroup5 l : exists pad, flat_map (bits_of 5) (group5 l) = l ++ pad /\ (length pad < 5)%nat.
Proof.
  assert (G : forall n l, (length l <= n)%nat -> exists pad, flat_map (bits_of 5) (group5 l) = l ++ pad /\ (length pad < 5)%nat).
  { induction n as [|n IH]; intros k Hk; [destruct k; [exists []; cbn; split; [reflexivity|lia]|cbn in Hk; lia]|].
    destruct k as [|a [|b [|c [|d [|e r]]]]].
    - exists []. cbn. split; [reflexivity|lia].
    - exists [false; false; false; false]. cbn [group5 app firstn flat_map]. rewrite bits5_val. cbn. split; [reflexivity|lia].
    - exists [false; false; false]. cbn [group5 app firstn flat_map]. rewrite bits5_val. cbn. split; [reflexivity|lia].
    - exists [false; false]. cbn [group5 app firstn flat_map]. rewrite bits5_val. cbn. split; [reflexivity|lia].
    - exists [false]. cbn [group5 app firstn flat_map]. rewrite bits5_val. cbn. split; [reflexivity|lia].
    - destruct (IH r ltac:(cbn in Hk; lia)) as (pad & E & L). exists pad. cbn [group5 flat_map]. rewrite bits5_val, E. split; [reflexivity|exact L]. }
  apply (G (length l)). lia.
Qed.

Lemma bits_of_8 x : exists a b c d e f g h, bits_of 8 x = [a; b; c; d; e; f; g; h].
Proof. cbn [bits_of app]. repeat eexists. Qed.

Lemma group8_bytes b : Forall (fun x => x < 256) b -> forall pad, (length pad < 8)%nat -> group8 (flat_map (bits_of 8) b ++ pad) = b.
Proof.
  induction 1 as [|x b Hx _ IH]; intros pad Hp.
  - cbn [flat_map app]. destruct pad as [|? [|? [|? [|? [|? [|? [|? [|? ?]]]]]]]]; try reflexivity. cbn in Hp. lia.
  - cbn [flat_map]. rewrite <- app_assoc. destruct (bits_of_8 x) as (a0 & a1 & a2 & a3 & a4 & a5 & a6 & a7 & E).
    rewrite E. cbn [app group8]. rewrite <- E, val_bits_of by (change (2 ^ N.of_nat 8) with 256; exact Hx). rewrite IH by exact Hp. reflexivity.
Qed.

Lemma b32_idx_all_chars ds : Forall (fun d => d < 32) ds -> b32_idx_all (map b32_char ds) = Some ds.
Proof.
  induction 1 as [|d ds Hd _ IH]; [reflexivity|]. cbn [map b32_idx_all]. destruct (b32_char_props d Hd) as [-> _]. rewrite IH. reflexivity.
Qed.

Theorem b32_roundtrip b : Forall (fun x => x < 256) b -> b32_decode (b32_encode b) = Some b.
Proof.
  intros Hb. unfold b32_decode, b32_encode. rewrite b32_idx_all_chars by apply group5_lt.
  destruct (ungroup5 (flat_map (bits_of 8) b)) as (pad & -> & L). rewrite group8_bytes by (try exact Hb; lia). reflexivity.
Qed.

Lemma b32_ascii b : Forall (fun c => c < 128) (b32_encode b).
Proof.
  unfold b32_encode. pose proof (group5_lt (flat_map (bits_of 8) b)) as F.
  induction F as [|d l Hd _ IH]; cbn [map]; constructor; [apply b32_char_props; exact Hd | exact IH].
Qed.

Theorem cid_text_roundtrip c : Forall (fun x => x < 256) c -> cid_parse (cid_text c) = Some c.
Proof. intros H. unfold cid_parse, cid_text. apply b32_roundtrip. exact H. Qed.
Lemma cid_text_ascii c : Forall (fun x => x < 128) (cid_text c).
Proof. unfold cid_text. constructor; [lia | apply b32_ascii]. Qed.

(* ================= structure ================= *)
Lemma jstr_app s t : jstr s ++ t = 34 :: (jesc s ++ 34 :: t).
Proof. unfold jstr. cbn [app]. rewrite <- app_assoc. reflexivity. Qed.

Lemma jdec_str f s t : utf8_text s -> jdec (S f) (jstr s ++ t) = Some (Str s, t).
Proof. intros H. rewrite jstr_app. cbn [jdec]. replace (34 =? 110) with false by reflexivity.
  replace (34 =? 116) with false by reflexivity. replace (34 =? 102) with false by reflexivity. replace (34 =? 34) with true by reflexivity.
  rewrite junq_jstr by exact H. reflexivity. Qed.

Lemma jentry_dec_ok dec1 k venc t : utf8_text k ->
  jentry_dec dec1 (jentry (k, venc) ++ t) = match dec1 (venc ++ t) with Some (v, r2) => Some ((k, v), r2) | None => None end.
Proof.
  intros H. unfold jentry. cbn [fst snd]. rewrite <- app_assoc, jstr_app. cbn [app]. unfold jentry_dec.
  replace (34 =? 34) with true by reflexivity. rewrite junq_jstr by exact H. replace (58 =? 58) with true by reflexivity. reflexivity.
Qed.

Definition decodes (f : nat) (x : str) (v : node) : Prop := forall t, no_digit_head t -> jdec f (x ++ t) = Some (v, t).

Lemma jlist_tail_ok f xs : forall vs rest k, Forall2 (decodes f) xs vs -> (length xs < k)%nat ->
  jlist_tail (jdec f) k (concat (map (fun y => 44 :: y) xs) ++ 93 :: rest) = Some (vs, rest).
Proof.
  induction xs as [|x xs IH]; intros vs rest k F Hk; inversion F as [|? v ? vs' Hx Hxs]; subst.
  - destruct k; [lia|]. cbn [map concat app jlist_tail]. replace (93 =? 93) with true by reflexivity. reflexivity.
  - destruct k; [cbn in Hk; lia|]. cbn [map concat app jlist_tail].
    replace (44 =? 93) with false by reflexivity. replace (44 =? 44) with true by reflexivity.
    rewrite <- app_assoc. rewrite Hx.
    + rewrite (IH vs' rest k) by (try exact Hxs; cbn in Hk; lia). reflexivity.
    + destruct xs; cbn; reflexivity.
Qed.

Lemma jmap_tail_ok f es : forall vs rest k, Forall2 (fun e v => utf8_text (fst e) /\ decodes f (snd e) v) es vs -> (length es < k)%nat ->
  jmap_tail (jdec f) k (concat (map (fun e => 44 :: jentry e) es) ++ 125 :: rest) = Some (combine (map fst es) vs, rest).
Proof.
  induction es as [|[k0 venc] es IH]; intros vs rest k F Hk; inversion F as [|? v ? vs' [Hk0 Hx] Hxs]; subst.
  - destruct k; [lia|]. cbn [map concat app jmap_tail]. replace (125 =? 125) with true by reflexivity. reflexivity.
  - destruct k; [cbn in Hk; lia|]. cbn [map concat app jmap_tail].
    replace (44 =? 125) with false by reflexivity. replace (44 =? 44) with true by reflexivity.
    rewrite <- app_assoc, jentry_dec_ok by exact Hk0. rewrite Hx.
    + rewrite (IH vs' rest k) by (try exact Hxs; cbn in Hk; lia). reflexivity.
    + destruct es; cbn; reflexivity.
Qed.

Lemma jdec_bad_head f c t : c = 93 \/ c = 125 \/ c = 44 \/ c = 58 -> jdec f (c :: t) = None.
Proof. intros H. destruct f; [reflexivity|]. destruct H as [-> | [-> | [-> | ->]]]; reflexivity. Qed.

Lemma decodes_head f x v : decodes f x v -> exists c x', x = c :: x' /\ c <> 93 /\ c <> 125.
Proof.
  intros D. destruct x as [|c x'].
  - specialize (D [] I). cbn in D. destruct f; discriminate.
  - exists c, x'. split; [reflexivity|]. specialize (D [] I). rewrite app_nil_r in D.
    split; intros ->; rewrite jdec_bad_head in D by auto; discriminate.
Qed.

Lemma len_concat_ge {A} (g : A -> str) (l : list A) (rest : str) (c : N) : Nat.lt (length l) (S (length (concat (map (fun y => 44 :: g y) l) ++ c :: rest))).
Proof. unfold Nat.lt. induction l as [|y l IH]; cbn [map concat app length]; [lia|]. rewrite !app_length in *. cbn [length] in *. lia. Qed.

Lemma jdec_array f xs vs rest : Forall2 (decodes f) xs vs ->
  jdec (S f) (91 :: jsep xs ++ 93 :: rest) = Some (List vs, rest).
Proof.
  intros F. destruct xs as [|x xs]; inversion F as [|? v ? vs' Hx Hxs]; subst.
  - cbn [jsep app jdec]. replace (91 =? 110) with false by reflexivity. replace (91 =? 116) with false by reflexivity.
    replace (91 =? 102) with false by reflexivity. replace (91 =? 34) with false by reflexivity. replace (91 =? 91) with true by reflexivity.
    replace (93 =? 93) with true by reflexivity. reflexivity.
  - destruct (decodes_head _ _ _ Hx) as (c & x' & -> & N93 & _).
    cbn [jsep]. rewrite <- app_assoc. cbn [app jdec]. replace (91 =? 110) with false by reflexivity. replace (91 =? 116) with false by reflexivity.
    replace (91 =? 102) with false by reflexivity. replace (91 =? 34) with false by reflexivity. replace (91 =? 91) with true by reflexivity.
    destruct (N.eqb_spec c 93); [contradiction|].
    change (c :: x' ++ ?t) with ((c :: x') ++ t). rewrite Hx.
    + rewrite (jlist_tail_ok f xs vs' rest) by (try exact Hxs; apply (len_concat_ge (fun y => y))). reflexivity.
    + destruct xs; cbn; reflexivity.
Qed.

Lemma jdec_object f es vs rest : Forall2 (fun e v => utf8_text (fst e) /\ decodes f (snd e) v) es vs ->
  jdec (S f) (123 :: jsep (map jentry es) ++ 125 :: rest) =
  match special (combine (map fst es) vs) with Some n => Some (n, rest) | None => None end.
Proof.
  intros F. destruct es as [|[k0 venc] es]; inversion F as [|? v ? vs' [Hk0 Hx] Hxs]; subst.
  - cbn [map jsep app jdec]. replace (123 =? 110) with false by reflexivity. replace (123 =? 116) with false by reflexivity.
    replace (123 =? 102) with false by reflexivity. replace (123 =? 34) with false by reflexivity. replace (123 =? 91) with false by reflexivity.
    replace (123 =? 123) with true by reflexivity. replace (125 =? 125) with true by reflexivity. reflexivity.
  - cbn [map jsep]. rewrite <- app_assoc.
    assert (E : exists t0, jentry (k0, venc) ++ concat (map (fun y => 44 :: y) (map jentry es)) ++ 125 :: rest = 34 :: t0).
    { unfold jentry, jstr. cbn [fst app]. eexists. reflexivity. }
    destruct E as (t0 & E).
    cbn [jdec]. replace (123 =? 110) with false by reflexivity. replace (123 =? 116) with false by reflexivity.
    replace (123 =? 102) with false by reflexivity. replace (123 =? 34) with false by reflexivity. replace (123 =? 91) with false by reflexivity.
    replace (123 =? 123) with true by reflexivity. rewrite E. replace (34 =? 125) with false by reflexivity. rewrite <- E.
    rewrite jentry_dec_ok by exact Hk0. rewrite Hx.
    + rewrite map_map. rewrite (jmap_tail_ok f es vs' rest) by (try exact Hxs; apply len_concat_ge). reflexivity.
    + destruct es; cbn; reflexivity.
Qed.

(* ---------- depth, safety ---------- *)
Fixpoint jdepth (x : node) : nat :=
  match x with
  | List l => S (fold_right (fun y a => Nat.max (jdepth y) a) 0%nat l)
  | Map m => S (fold_right (fun e a => Nat.max (jdepth (snd e)) a) 0%nat m)
  | Bytes _ => 3%nat
  | Link _ => 2%nat
  | _ => 1%nat
  end.

Fixpoint jsafe (x : node) : Prop :=
  match x with
  | Float _ => False
  | Str s => utf8_text s
  | Bytes b => Forall (fun c => c < 256) b
  | Link c => Forall (fun c => c < 256) c
  | List l => (fix all (l : list node) : Prop := match l with [] => True | y :: l' => jsafe y /\ all l' end) l
  | Map m => (fix all (m : list (str * node)) : Prop :=
                match m with [] => True | e :: m' => (utf8_text (fst e) /\ fst e <> slash /\ jsafe (snd e)) /\ all m' end) m
  | _ => True
  end.

Lemma jsafe_list l : jsafe (List l) -> Forall jsafe l.
Proof. cbn. induction l as [|y l IH]; intros A; constructor; [apply A | apply IH, A]. Qed.
Lemma jsafe_map m : jsafe (Map m) -> Forall (fun e => utf8_text (fst e) /\ fst e <> slash /\ jsafe (snd e)) m.
Proof. cbn. induction m as [|e m IH]; intros A; constructor; [apply A | apply IH, A]. Qed.
Lemma jdepth_list_le l y : In y l -> (jdepth y < jdepth (List l))%nat.
Proof. cbn. induction l as [|z l IH]; cbn; [tauto|]. intros [->|H]; [lia|]. specialize (IH H). lia. Qed.
Lemma jdepth_map_le m e : In e m -> (jdepth (snd e) < jdepth (Map m))%nat.
Proof. cbn. induction m as [|z m IH]; cbn; [tauto|]. intros [->|H]; [lia|]. specialize (IH H). lia. Qed.

(* ---------- sorting commutes with a change of values ---------- *)
Lemma jinsert_map {V W} (g : V -> W) e l :
  jinsert (fst e, g (snd e)) (map (fun x => (fst x, g (snd x))) l) = map (fun x => (fst x, g (snd x))) (jinsert e l).
Proof. induction l as [|e' l IH]; cbn; [reflexivity|]. destruct (str_ltb (fst e) (fst e')); cbn; [reflexivity|]. rewrite IH. reflexivity. Qed.
Lemma jsort_map {V W} (g : V -> W) l :
  jsort (map (fun x => (fst x, g (snd x))) l) = map (fun x => (fst x, g (snd x))) (jsort l).
Proof. induction l as [|e l IH]; cbn; [reflexivity|]. rewrite IH. apply jinsert_map. Qed.
Lemma jinsert_in {V} (e x : str * V) l : In x (jinsert e l) -> x = e \/ In x l.
Proof.
  induction l as [|e' l IH]; cbn.
  - intros [<-|[]]. left; reflexivity.
  - destruct (str_ltb (fst e) (fst e')); cbn.
    + intros [<-|[<-|H]]; auto.
    + intros [<-|H]; [auto|]. destruct (IH H); auto.
Qed.
Lemma jsort_in {V} (x : str * V) l : In x (jsort l) -> In x l.
Proof. induction l as [|e l IH]; cbn; [tauto|]. intros H. apply jinsert_in in H as [->|H]; [auto|]. right. apply IH, H. Qed.

Lemma special_plain m : Forall (fun e : str * node => fst e <> slash) m -> special m = Some (Map m).
Proof.
  intros F. unfold special. destruct m as [|[k v] [|? ?]]; [reflexivity| |].
  2:{ repeat match goal with |- context [match ?x with _ => _ end] => destruct x end; reflexivity. }
  inversion F as [|? ? Hk _]; subst. cbn [fst] in Hk. apply str_eqb_neq in Hk. rewrite Hk. cbn [andb].
  repeat match goal with |- context [match ?x with _ => _ end] => destruct x end; reflexivity.
Qed.

Lemma slash_text : utf8_text slash. Proof. apply ascii_is_text. repeat constructor. Qed.
Lemma k_bytes_text : utf8_text k_bytes. Proof. apply ascii_is_text. repeat constructor. Qed.

Lemma jenc_bytes_form b : jenc (Bytes b) =
  123 :: jsep (map jentry [(slash, 123 :: jsep (map jentry [(k_bytes, jstr (b64raw_encode b))]) ++ [125])]) ++ [125].
Proof. cbn [jenc map jsep jentry fst snd concat]. rewrite !app_nil_r. unfold jentry. cbn [fst snd app]. do 4 (rewrite <- ?app_assoc; cbn [app]). reflexivity. Qed.
Lemma jenc_link_form c : jenc (Link c) = 123 :: jsep (map jentry [(slash, jstr (cid_text c))]) ++ [125].
Proof. cbn [jenc map jsep jentry fst snd concat]. rewrite !app_nil_r. unfold jentry. cbn [fst snd app]. do 4 (rewrite <- ?app_assoc; cbn [app]). reflexivity. Qed.

(* ================= the round trip ================= *)
Theorem jdec_jenc : forall x, jsafe x -> forall f, (jdepth x <= f)%nat -> decodes f (jenc x) (canonj x).
Proof.
  induction x as [| b | z | bits | s | s | l H | m H | c] using node_ind'; intros Hs f Hf t Ht; (destruct f as [|f]; [cbn in Hf; lia|]).
  - reflexivity.
  - destruct b; reflexivity.
  - (* integers *)
    cbn [jenc canonj]. unfold jint. destruct z as [|p|p].
    + reflexivity || (cbn; destruct t as [|c0 t']; [reflexivity|]; cbn in Ht; cbn; rewrite Ht; reflexivity).
    + destruct (dec_of_N_digits (Z.to_N (Z.pos p))) as [Fd Ne].
      destruct (dec_of_N (Z.to_N (Z.pos p))) as [|c ds] eqn:E; [congruence|].
      inversion Fd as [|? ? Hc Hds]; subst. cbn [app jdec].
      unfold is_digit in Hc. apply andb_true_iff in Hc as [C1 C2]. apply N.leb_le in C1, C2.
      destruct (N.eqb_spec c 110); [lia|]. destruct (N.eqb_spec c 116); [lia|]. destruct (N.eqb_spec c 102); [lia|].
      destruct (N.eqb_spec c 34); [lia|]. destruct (N.eqb_spec c 91); [lia|]. destruct (N.eqb_spec c 123); [lia|]. destruct (N.eqb_spec c 45); [lia|].
      assert (Dc : is_digit c = true) by (unfold is_digit; apply andb_true_iff; split; apply N.leb_le; lia). rewrite Dc.
      change (c :: ds ++ t) with ((c :: ds) ++ t). rewrite span_digits_app by (assumption || exact Fd).
      rewrite <- E, N_of_dec_of_N. cbn. reflexivity.
    + destruct (dec_of_N_digits (N.pos p)) as [Fd Ne]. cbn [app jdec].
      replace (45 =? 110) with false by reflexivity. replace (45 =? 116) with false by reflexivity. replace (45 =? 102) with false by reflexivity.
      replace (45 =? 34) with false by reflexivity. replace (45 =? 91) with false by reflexivity. replace (45 =? 123) with false by reflexivity.
      replace (45 =? 45) with true by reflexivity.
      rewrite span_digits_app by assumption. destruct (dec_of_N (N.pos p)) as [|c ds] eqn:E; [congruence|].
      rewrite <- E, N_of_dec_of_N. reflexivity.
  - destruct Hs.
  - cbn [jenc canonj]. apply jdec_str. exact Hs.
  - (* bytes *)
    rewrite jenc_bytes_form. cbn [canonj]. cbn in Hf. destruct f as [|[|f]]; try lia.
    { cbn [app]. rewrite <- app_assoc. cbn [app].
      rewrite (jdec_object (S (S f)) [(slash, _)] [Map [(k_bytes, Str (b64raw_encode s))]]).
      - cbn [map fst combine special]. rewrite !str_eqb_refl. cbn [andb]. rewrite b64raw_roundtrip by exact Hs. reflexivity.
      - constructor; [|constructor]. split; [apply slash_text|]. intros t' Ht'. cbn [snd].
        cbn [app]. rewrite <- app_assoc. cbn [app].
        rewrite (jdec_object (S f) [(k_bytes, _)] [Str (b64raw_encode s)]).
        + cbn [map fst combine special]. replace (str_eqb k_bytes slash) with false by reflexivity. reflexivity.
        + constructor; [|constructor]. split; [apply k_bytes_text|]. intros t'' _. cbn [snd]. apply jdec_str, ascii_is_text, b64raw_ascii, Hs. }
  - (* list *)
    apply jsafe_list in Hs. cbn [jenc canonj app]. rewrite <- app_assoc. cbn [app].
    apply (jdec_array f (map jenc l) (map canonj l)).
    rewrite Forall_forall in H, Hs. clear Ht t.
    assert (G : forall y, In y l -> decodes f (jenc y) (canonj y)).
    { intros y Hy. apply H; [exact Hy | apply Hs; exact Hy |]. pose proof (jdepth_list_le l y Hy). lia. }
    clear H Hs Hf. induction l as [|y l IH]; cbn [map]; constructor; [apply G; left; reflexivity | apply IH; intros; apply G; right; assumption].
  - (* map *)
    apply jsafe_map in Hs. cbn [jenc canonj app]. rewrite <- app_assoc. cbn [app].
    rewrite (jsort_map jenc), (jsort_map canonj).
    rewrite (jdec_object f (map (fun x => (fst x, jenc (snd x))) (jsort m)) (map (fun x => canonj (snd x)) (jsort m))).
    + rewrite map_map. cbn [fst]. 
      replace (combine (map (fun x => fst x) (jsort m)) (map (fun x => canonj (snd x)) (jsort m))) with (map (fun x => (fst x, canonj (snd x))) (jsort m))
        by (induction (jsort m) as [|e q IHq]; cbn; [reflexivity|]; rewrite IHq; reflexivity).
      rewrite special_plain; [reflexivity|].
      rewrite Forall_forall in Hs |- *. intros e He. apply in_map_iff in He as (e0 & <- & He0). cbn [fst]. apply jsort_in in He0. apply Hs, He0.
    + rewrite Forall_forall in H, Hs.
      assert (G : forall e, In e (jsort m) -> utf8_text (fst e) /\ decodes f (jenc (snd e)) (canonj (snd e))).
      { intros e He. apply jsort_in in He. split; [apply Hs, He|]. apply H; [exact He | apply Hs, He |]. pose proof (jdepth_map_le m e He). lia. }
      clear H Hs Hf Ht. induction (jsort m) as [|e q IHq]; cbn [map]; constructor; [cbn [fst snd]; apply G; left; reflexivity | apply IHq; intros; apply G; right; assumption].
  - (* link *)
    rewrite jenc_link_form. cbn [canonj]. cbn in Hf. destruct f as [|f]; try lia.
    { cbn [app]. rewrite <- app_assoc. cbn [app].
      rewrite (jdec_object (S f) [(slash, _)] [Str (cid_text c)]).
      - cbn [map fst combine special]. rewrite str_eqb_refl, cid_text_roundtrip by exact Hs. reflexivity.
      - constructor; [|constructor]. split; [apply slash_text|]. intros t' _. cbn [snd]. apply jdec_str, ascii_is_text, cid_text_ascii. }
Qed.

(* what is written reads back as what was written (maps in the order in which they were written) *)
Theorem dagjson_roundtrip x f : jsafe x -> (jdepth x <= f)%nat -> jdec f (jenc x) = Some (canonj x, []).
Proof. intros Hs Hf. pose proof (jdec_jenc x Hs f Hf [] I) as H. rewrite app_nil_r in H. exact H. Qed.

(* so two values with the same text are the same value up to the order of map entries, and no text is a proper
   prefix of another one *)
Corollary jenc_injective x y r1 r2 : jsafe x -> jsafe y -> no_digit_head r1 -> no_digit_head r2 ->
  jenc x ++ r1 = jenc y ++ r2 -> canonj x = canonj y /\ r1 = r2.
Proof.
  intros Hx Hy N1 N2 E.
  pose proof (jdec_jenc x Hx (max (jdepth x) (jdepth y)) ltac:(lia) r1 N1) as H1.
  pose proof (jdec_jenc y Hy (max (jdepth x) (jdepth y)) ltac:(lia) r2 N2) as H2.
  rewrite E, H2 in H1. injection H1 as <- <-. auto.
Qed.

(* outside the safe domain the codec is not lossless: a string that is not UTF-8 comes back as U+FFFD (F28) *)
Theorem json_not_lossless_on_invalid_utf8 : exists x y, jdec 1 (jenc x) = Some (y, []) /\ y <> canonj x.
Proof. exists (Str [255]), (Str [239; 191; 189]). split; [vm_compute; reflexivity | discriminate]. Qed.

(* a map whose only key is "/" does not come back as a map *)
Theorem json_reserves_the_slash_key : exists x y, jdec 2 (jenc x) = Some (y, []) /\ y <> canonj x.
Proof. exists (Map [(slash, Str (cid_text [1; 113]))]), (Link [1; 113]). split; [vm_compute; reflexivity | discriminate]. Qed.

(* a decidable sufficient condition for [jsafe]: ASCII text (any UTF-8 text is safe; ASCII is what can be checked
   without producing the code points) *)
Fixpoint jsafeb (x : node) : bool :=
  match x with
  | Float _ => false
  | Str s => forallb (fun c => c <? 128) s
  | Bytes b => forallb (fun c => c <? 256) b
  | Link c => forallb (fun c => c <? 256) c
  | List l => forallb jsafeb l
  | Map m => forallb (fun e => forallb (fun c => c <? 128) (fst e) && negb (str_eqb (fst e) slash) && jsafeb (snd e)) m
  | _ => true
  end.

Lemma forallb_ltb k s : forallb (fun c => c <? k) s = true -> Forall (fun c => c < k) s.
Proof. intros H. rewrite forallb_forall in H. apply Forall_forall. intros c Hc. apply N.ltb_lt, H, Hc. Qed.

Theorem jsafeb_sound x : jsafeb x = true -> jsafe x.
Proof.
  induction x as [| b | z | bits | s | s | l IH | m IH | c] using node_ind'; cbn [jsafeb]; intros H; try exact I; try discriminate.
  - apply ascii_is_text, forallb_ltb, H.
  - apply forallb_ltb, H.
  - cbn [jsafe]. induction IH as [|y l Hy _ IHl]; [exact I|]. cbn [forallb] in H. apply andb_true_iff in H as [H1 H2]. split; [apply Hy, H1 | apply IHl, H2].
  - cbn [jsafe]. induction IH as [|e m He _ IHm]; [exact I|]. cbn [forallb] in H. apply andb_true_iff in H as [H1 H2].
    apply andb_true_iff in H1 as [H1 H3]. apply andb_true_iff in H1 as [H1 H4]. split; [|apply IHm, H2].
    split; [apply ascii_is_text, forallb_ltb, H1|]. split; [|apply He, H3].
    apply str_eqb_neq, negb_true_iff. exact H4.
  - apply forallb_ltb, H.
Qed.
